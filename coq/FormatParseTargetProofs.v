(* FormatParseTargetProofs.v — C06 round trip, assignment targets  a[i]  m.k  a[i][j].k ...
   (parseAssignmentTarget's loop over "[" and "."), against Parser.v. *)
From Coq Require Import List String NArith ZArith Bool Arith Lia.
From EvyV Require Import Base FmtAst Format FormatProofs Pratt PrattProofs Parser ParserProofs ParserRules ParserScope
  FormatParse FormatParseProofs FormatParseListProofs FormatParseStmtProofs.
From EvyV.Gen Require Import Prec.
Import ListNotations.
Local Open Scope nat_scope.

(* ---------- p.prev: the token before the cursor, a blank if one was skipped ---------- *)
Lemma advance_prev st t t2 r :
  is_wss st = false -> rest st = t :: t2 :: r -> is_ws t2 = false -> prev (advance st) = t.
Proof.
  intros W Hr H2. unfold advance. set (s1 := advance_wss st).
  assert (W1 : is_wss s1 = false) by exact W. rewrite W1.
  assert (C1 : cur s1 = t2) by (unfold s1, cur; rewrite rest_advance_wss, Hr; reflexivity).
  assert (P1 : prev s1 = t) by (unfold s1, advance_wss, cur; cbn [prev]; rewrite Hr; reflexivity).
  unfold advance_if_ws. rewrite C1, H2. destruct (is_ws (peek s1)); cbn [prev]; exact P1.
Qed.

Lemma pop_wss_prev st b w : wss st = b :: w -> is_ws (look0 (rest st)) = false -> prev (pop_wss st) = prev st.
Proof.
  intros Hw Hc. unfold pop_wss. set (st1 := {| prev := prev st; rest := rest st; peek := peek st; wss := tl (wss st); errs := errs st; used := used st |}).
  assert (C : is_ws (cur st1) = false) by exact Hc. rewrite C, andb_false_r. reflexivity.
Qed.

Lemma tp_cons p l : toks_of_pieces (p :: l) = tok_of_piece p ++ toks_of_pieces l.
Proof. reflexivity. Qed.

Lemma skip1_len0 l : List.length l <= S (List.length (skip1 l)).
Proof. destruct l as [|t r]; [cbn; lia|]. cbn [skip1]. destruct (is_ws t); cbn [List.length]; lia. Qed.

(* steps of an assignment target, innermost first *)
Inductive tstep := TIdx (i : fexpr) | TKey (k : str).

Fixpoint tgt_split (t : fexpr) : option (str * list tstep) :=
  match t with
  | FVar x => Some (x, [])
  | FIdx l i => match tgt_split l with Some (x, st) => Some (x, st ++ [TIdx i]) | None => None end
  | FDot l k => match tgt_split l with Some (x, st) => Some (x, st ++ [TKey k]) | None => None end
  | _ => None
  end.

Definition step_tree (n : tree) (s : tstep) : tree :=
  match s with TIdx i => TIndex n (fexpr_tree i) | TKey k => TDot n k end.

Lemma tgt_tree : forall t x st, tgt_split t = Some (x, st) -> fexpr_tree t = fold_left step_tree st (TVar x).
Proof.
  induction t; intros x st H; cbn [tgt_split] in H; try discriminate H.
  - injection H as <- <-. reflexivity.
  - destruct (tgt_split t1) as [[x' st']|]; [|discriminate H]. injection H as <- <-.
    rewrite fold_left_app. cbn [fold_left step_tree fexpr_tree]. rewrite (IHt1 x' st' eq_refl). reflexivity.
  - destruct (tgt_split t) as [[x' st']|]; [|discriminate H]. injection H as <- <-.
    rewrite fold_left_app. cbn [fold_left step_tree fexpr_tree]. rewrite (IHt x' st' eq_refl). reflexivity.
Qed.

Section Targets.
  Variable B : benv.
  Hypothesis BT : forall s t n, b_tyerr B s t n = false.
  Variable fx : fixes.

  Definition step_toks (lvl : nat) (s : tstep) : list token :=
    match s with
    | TIdx i => mk T_LBRACKET :: toks_of_pieces (fmt_expr fx lvl i) ++ [mk T_RBRACKET]
    | TKey k => [mk T_DOT; tok_of_text k]
    end.

  Lemma tgt_toks lvl : forall t x st, tgt_split t = Some (x, st) ->
    toks_of_pieces (fmt_expr fx lvl t) = tok_of_text x :: flat_map (step_toks lvl) st.
  Proof.
    induction t; intros x st H; cbn [tgt_split] in H; try discriminate H.
    - injection H as <- <-. reflexivity.
    - destruct (tgt_split t1) as [[x' st']|]; [|discriminate H]. injection H as <- <-.
      cbn [fmt_expr]. rewrite !toks_app, (IHt1 x' st' eq_refl), flat_map_app. cbn [flat_map step_toks app toks_of_pieces tok_of_piece].
      change (tok_of_text k_lbr) with (mk T_LBRACKET). change (tok_of_text k_rbr) with (mk T_RBRACKET). rewrite app_nil_r. reflexivity.
    - destruct (tgt_split t) as [[x' st']|]; [|discriminate H]. injection H as <- <-.
      cbn [fmt_expr]. rewrite !toks_app, (IHt x' st' eq_refl), flat_map_app. cbn [flat_map step_toks app toks_of_pieces tok_of_piece].
      change (tok_of_text k_dot) with (mk T_DOT). reflexivity.
  Qed.

  (* parseTopLevelExpr on a formatted expression in front of any token that ends it *)
  Lemma toplevel_core lvl E v c rest0 fuel outer :
    no_tyerr E -> e_fix_slice E = true -> top_ok E v ->
    rest c = toks_of_pieces (fmt_expr fx lvl v) ++ rest0 -> wss c = false :: outer ->
    is_ws (look0 rest0) = false -> stop_tok false lowestPrec (look0 rest0) -> list_end (look0 rest0) ->
    2 * List.length (toks_of_pieces (fmt_expr fx lvl v)) <= fuel ->
    exists c', parse_toplevel E (parse_expr E fuel) fuel c = Some (Some (fexpr_tree v), c')
               /\ rest c' = rest0 /\ wss c' = wss c /\ errs c' = errs c.
  Proof.
    intros NT FS Hok Hr Hw Hws Hstop Hend Hfuel.
    assert (Hw' : is_wss c = false) by (unfold is_wss; rewrite Hw; reflexivity).
    destruct Hok as [Hit|(n & args & -> & Hn & Hfn & Har & Hall)].
    - destruct (item_rt E NT FS fx false lvl v Hit) as [Hrt Hhd].
      destruct (Hrt c rest0 fuel Hw' Hr (fun _ => Hws) Hstop Hfuel) as (c' & P & Q1 & Q2 & Q3).
      exists c'. split; [|auto].
      unfold parse_toplevel. destruct (toks_of_pieces (fmt_expr fx lvl v)) as [|t0 ts] eqn:Et; [contradiction|].
      unfold cur_t, cur. rewrite Hr. cbn [app look0 hd].
      destruct (ttype t0) eqn:T0; try exact P.
      destruct (func_of E (tlit t0)) as [[|]|] eqn:Fn; try exact P.
      exfalso. exact (item_head_not_call E fx v false lvl t0 ts Hit Et T0 Fn).
    - destruct (toplevel_call_rt E NT FS fx lvl n args c rest0 fuel outer Hn Hfn Har Hall Hr Hw Hend Hfuel) as (c' & P & Q).
      exists c'. split; [exact P | exact Q].
  Qed.

  Lemma top_head0 lvl E c : no_tyerr E -> e_fix_slice E = true -> top_ok E c ->
    exists t0 ts, toks_of_pieces (fmt_expr fx lvl c) = t0 :: ts /\ is_ws t0 = false.
  Proof.
    intros NT FS [Hit|(n & args & -> & Hn' & _)].
    - destruct (item_rt E NT FS fx false lvl c Hit) as [_ Hhd].
      destruct (toks_of_pieces (fmt_expr fx lvl c)) as [|t0 ts]; [contradiction|]. exists t0, ts. split; [reflexivity|].
      cbn [head_ok] in Hhd. unfold is_ws. destruct (ttype t0); try contradiction; reflexivity.
    - rewrite (toks_call fx lvl n args Hn'). eexists; eexists. split; reflexivity.
  Qed.

  (* what follows a step: either a blank and then the rest of the statement, or the next step *)
  Definition after_ok (q : list token) : Prop :=
    (exists q', q = mk T_WS :: q' /\ wsish (look0 q') = false) \/ is_ws (look0 q) = false.

  (* parseDotExpr on  .k *)
  Lemma dot_core E left st k q :
    no_tyerr E -> is_ws (prev st) = false -> is_wss st = false -> key_text k = true ->
    rest st = mk T_DOT :: tok_of_text k :: q -> is_ws (look0 (skip1 q)) = false ->
    exists st', parse_dot E left st = Some (Some (TDot left k), st') /\
                rest st' = skip1 q /\ wss st' = wss st /\ errs st' = errs st /\
                (forall t2 r, q = t2 :: r -> is_ws t2 = false -> prev st' = tok_of_text k).
  Proof.
    intros NT Hp Hw Hk Hr Hn. destruct (key_text_spec k Hk) as (K1 & K2 & K3 & _).
    assert (Kw : is_ws (tok_of_text k) = false) by (unfold wsish in K3; unfold is_ws; destruct (ttype (tok_of_text k)); try discriminate K3; reflexivity).
    unfold parse_dot. rewrite Hp. unfold look1. rewrite Hr. cbn [tl hd]. rewrite Kw.
    destruct (advance_exact st (mk T_DOT) (tok_of_text k :: q) Hr (or_intror Kw)) as (A1 & A2 & A3).
    unfold tyerr. rewrite NT. unfold cur. rewrite A1. cbn [look0 hd]. rewrite K1, K2.
    assert (W1 : is_wss (advance st) = false) by (unfold is_wss in *; rewrite A2; exact Hw).
    destruct (advance_skip1 (advance st) (tok_of_text k) q W1 A1 Hn) as (C1 & C2 & C3).
    eexists. split; [reflexivity|]. split; [exact C1|]. split; [rewrite C2; exact A2|]. split; [rewrite C3; exact A3|].
    intros t2 r -> H2. apply (advance_prev (advance st) (tok_of_text k) t2 r W1 A1 H2).
  Qed.

  (* parseIndexOrSliceExpr (no slice allowed) on  [i]  *)
  Lemma index_core lvl E left st i q outer fuel :
    no_tyerr E -> e_fix_slice E = true -> is_ws (prev st) = false -> wss st = false :: outer -> top_ok E i ->
    rest st = mk T_LBRACKET :: toks_of_pieces (fmt_expr fx lvl i) ++ mk T_RBRACKET :: q -> after_ok q ->
    2 * List.length (toks_of_pieces (fmt_expr fx lvl i)) <= fuel ->
    exists st', parse_index_or_slice E (parse_expr E fuel) fuel false left st = Some (Some (TIndex left (fexpr_tree i)), st') /\
                rest st' = skip1 q /\ wss st' = wss st /\ errs st' = errs st /\
                (is_ws (look0 q) = false -> prev st' = mk T_RBRACKET).
  Proof.
    intros NT FS Hp Hw Hi Hr Hq Hfuel. unfold parse_index_or_slice.
    change (prev (push_wss false st)) with (prev st). rewrite Hp.
    destruct (top_head0 lvl E i NT FS Hi) as (t0 & ts & Ht & Hw0).
    assert (Hr0 : rest (push_wss false st) = mk T_LBRACKET :: toks_of_pieces (fmt_expr fx lvl i) ++ mk T_RBRACKET :: q) by exact Hr.
    destruct (advance_exact (push_wss false st) (mk T_LBRACKET) _ Hr0) as (A1 & A2 & A3).
    { right. rewrite Ht. exact Hw0. }
    unfold tyerr. rewrite !NT. cbn [andb].
    assert (W1 : wss (advance (push_wss false st)) = false :: wss st) by (rewrite A2; reflexivity).
    destruct (toplevel_core lvl E i (advance (push_wss false st)) (mk T_RBRACKET :: q) fuel (wss st) NT FS Hi A1 W1 eq_refl) as (c2 & P & Q1 & Q2 & Q3).
    { right; right. cbn. lia. }
    { exact I. }
    { exact Hfuel. }
    rewrite P. unfold bind, ret. cbv beta iota.
    assert (As : assert_token T_RBRACKET c2 = (true, c2)) by (unfold assert_token, cur_t, cur; rewrite Q1; reflexivity).
    rewrite As. rewrite ?NT.
    set (c3 := advance_wss c2).
    assert (R3 : rest c3 = q) by (unfold c3; rewrite rest_advance_wss, Q1; reflexivity).
    assert (W3 : wss c3 = false :: wss st) by (unfold c3; cbn; rewrite Q2; exact W1).
    assert (E3 : errs c3 = errs st) by (unfold c3; cbn; rewrite Q3; exact A3).
    assert (P3 : prev c3 = mk T_RBRACKET) by (unfold c3, advance_wss, cur; cbn [prev]; rewrite Q1; reflexivity).
    destruct Hq as [(q' & -> & Hq')|Hq].
    - destruct (pop_wss_ws c3 false outer q' R3 ltac:(rewrite W3, Hw; reflexivity) Hq') as (D1 & D2 & D3).
      eexists. split; [reflexivity|]. split; [exact D1|]. split; [rewrite D2, Hw; reflexivity|]. split; [rewrite D3; exact E3|].
      intro H. discriminate H.
    - destruct (pop_wss_nop c3 false (wss st) W3) as (D1 & D2 & D3).
      { intros _. rewrite R3. exact Hq. }
      eexists. split; [reflexivity|]. split.
      { rewrite D1, R3. destruct q as [|t2 r]; [reflexivity|]. cbn [skip1]. cbn [look0 hd] in Hq. rewrite Hq. reflexivity. }
      split; [exact D2|]. split; [rewrite D3; exact E3|]. intros _.
      rewrite (pop_wss_prev c3 false (wss st) W3); [exact P3 | rewrite R3; exact Hq].
  Qed.

  (* ---------- the statement parser's view ---------- *)
  Definition step_ok (E : env) (s : tstep) : Prop := match s with TIdx i => top_ok E i | TKey k => key_text k = true end.

  Lemma prev_collect s c : prev (cs (collect s c)) = prev c.
  Proof. unfold collect, upd. cbn [with_cs cs prev]. rewrite cs_fold_mark. reflexivity. Qed.

  Lemma step_toks_head lvl s0 E : no_tyerr E -> step_ok E s0 -> exists t0 ts, step_toks lvl s0 = t0 :: ts /\ is_ws t0 = false.
  Proof. intros _ _. destruct s0; cbn [step_toks]; eexists; eexists; split; reflexivity. Qed.

  (* the tokens after a step: the remaining steps, then " = ..." *)
  Definition tail_toks (lvl : nat) (steps : list tstep) (q : list token) : list token :=
    flat_map (step_toks lvl) steps ++ mk T_WS :: mk T_ASSIGN :: q.

  Lemma tail_after lvl steps q : after_ok (tail_toks lvl steps q).
  Proof.
    unfold tail_toks. destruct steps as [|s0 r]; [left; eexists; split; reflexivity|].
    right. cbn [flat_map]. destruct s0; reflexivity.
  Qed.

  Lemma tail_skip lvl steps q : is_ws (look0 (skip1 (tail_toks lvl steps q))) = false.
  Proof. unfold tail_toks. destruct steps as [|s0 r]; [reflexivity|]. cbn [flat_map]. destruct s0; reflexivity. Qed.

  Lemma one_step lvl s n s0 steps q e :
    at_toks s (step_toks lvl s0 ++ tail_toks lvl steps q) e -> is_ws (prev (cs s)) = false -> step_ok (env_of B s) s0 ->
    exists s', (match s0 with TIdx _ => p_index B n s | TKey _ => p_dot B n s end) = Ok (Some (step_tree n s0)) s' /\
               at_toks s' (skip1 (tail_toks lvl steps q)) e /\ env_of B s' = env_of B s /\
               (steps <> [] -> is_ws (prev (cs s')) = false).
  Proof.
    intros (Hr & Hw & He) Hp Hok.
    assert (Hw' : is_wss (cs s) = false) by (unfold is_wss; rewrite Hw; reflexivity).
    destruct s0 as [i|k]; cbn [step_ok step_toks step_tree] in *.
    - unfold p_index, expr_call. cbn [app] in Hr. rewrite <- app_assoc in Hr. cbn [app] in Hr.
      destruct (index_core lvl (env_of B s) n (cs s) i (tail_toks lvl steps q) [] (efuel (cs s)) (env_no_tyerr B BT s) eq_refl Hp Hw Hok Hr (tail_after lvl steps q))
        as (c & P & Q1 & Q2 & Q3 & Q4).
      { unfold efuel, here. rewrite Hr. cbn [List.length]. rewrite app_length. lia. }
      rewrite P. eexists. split; [reflexivity|]. split; [apply collect_at; auto; [rewrite Q2; exact Hw | rewrite Q3; exact He]|].
      split; [apply env_of_collect|]. intro Hne. rewrite prev_collect, Q4; [reflexivity|].
      unfold tail_toks. destruct steps as [|s1 r]; [contradiction|]. cbn [flat_map]. destruct s1; reflexivity.
    - unfold p_dot, expr_call. cbn [app] in Hr.
      destruct (dot_core (env_of B s) n (cs s) k (tail_toks lvl steps q) (env_no_tyerr B BT s) Hp Hw' Hok Hr (tail_skip lvl steps q))
        as (c & P & Q1 & Q2 & Q3 & Q4).
      rewrite P. eexists. split; [reflexivity|]. split; [apply collect_at; auto; [rewrite Q2; exact Hw | rewrite Q3; exact He]|].
      split; [apply env_of_collect|]. intro Hne. rewrite prev_collect.
      unfold tail_toks in *. destruct steps as [|s1 r]; [contradiction|]. cbn [flat_map app] in *.
      destruct (key_text_spec k Hok) as (_ & _ & K3 & _).
      assert (Kw : is_ws (tok_of_text k) = false) by (unfold wsish in K3; unfold is_ws; destruct (ttype (tok_of_text k)); try discriminate K3; reflexivity).
      destruct s1; cbn [step_toks app] in *; erewrite Q4; try reflexivity; exact Kw.
  Qed.

  (* parseAssignmentTarget's loop *)
  Lemma target_loop lvl tok : forall steps n s fuel q e,
    List.length steps < fuel ->
    at_toks s (skip1 (tail_toks lvl steps q)) e -> (steps <> [] -> is_ws (prev (cs s)) = false) ->
    Forall (step_ok (env_of B s)) steps ->
    exists s', assign_target_loop B fuel tok n s = Ok (Some (fold_left step_tree steps n)) s' /\
               at_toks s' (mk T_ASSIGN :: q) e /\ env_of B s' = env_of B s.
  Proof.
    induction steps as [|s0 r IH]; intros n s fuel q e Hfu Hat Hp Hok; (destruct fuel as [|fuel]; [cbn in Hfu; lia|]).
    - cbn [tail_toks flat_map app skip1 is_ws ttype mk] in Hat. cbn [assign_target_loop fold_left].
      assert (Hc : ct s = T_ASSIGN) by (destruct Hat as (R & _); unfold ct, cur_t, cur; rewrite R; reflexivity).
      rewrite Hc. exists s. auto.
    - inversion Hok as [|? ? Hs0 Hr0]; subst.
      assert (Hsk : skip1 (tail_toks lvl (s0 :: r) q) = step_toks lvl s0 ++ tail_toks lvl r q).
      { unfold tail_toks. cbn [flat_map]. rewrite <- app_assoc. destruct s0; reflexivity. }
      rewrite Hsk in Hat.
      destruct (one_step lvl s n s0 r q e Hat (Hp ltac:(discriminate)) Hs0) as (s1 & P & A1 & E1 & P1).
      cbn [assign_target_loop fold_left].
      assert (Hc : ct s = match s0 with TIdx _ => T_LBRACKET | TKey _ => T_DOT end).
      { destruct Hat as (R & _). unfold ct, cur_t, cur. rewrite R. destruct s0; reflexivity. }
      rewrite Hc. cbn [List.length] in Hfu.
      assert (Hok1 : Forall (step_ok (env_of B s1)) r) by (rewrite E1; exact Hr0).
      destruct (IH (step_tree n s0) s1 fuel q e ltac:(lia) A1 P1 Hok1) as (s' & P' & A' & E').
      destruct s0; unfold tyerr_s; rewrite ?BT; rewrite P; cbv beta iota; rewrite P'; exists s'; (split; [reflexivity|]); (split; [exact A' | rewrite E'; exact E1]).
  Qed.

  (* t = v   with t a variable followed by any number of [i] and .k *)
  Theorem assign_target_roundtrip lvl s t x steps v r e :
    tgt_split t = Some (x, steps) -> ident_text x = true -> is_func x s = false -> scope_get x s = true ->
    Forall (step_ok (env_of B s)) steps -> top_ok (env_of B s) v ->
    at_toks s (toks_of_pieces (fmt_stmt fx lvl (FmtAst.SAssign t v [])) ++ mk T_NL :: r) e ->
    is_ws (look0 (skip1 r)) = false ->
    exists s', parse_assign_stmt B s = Ok (Some (Parser.SAssign (fexpr_tree t) (fexpr_tree v))) s' /\
               at_toks s' (skip1 r) e /\ peek_ok s' (skip1 r).
  Proof.
    intros Hsp Hx Hnf Hsg Hst Hv Hat Hn.
    cbn [fmt_stmt] in Hat. unfold write_comment in Hat. cbn [is_empty app] in Hat. rewrite app_nil_r in Hat.
    rewrite toks_app in Hat. rewrite (tgt_toks lvl t x steps Hsp), (ident_text_spec x Hx) in Hat.
    rewrite !tp_cons in Hat. cbn [tok_of_piece app] in Hat. change (tok_of_text k_assign) with (mk T_ASSIGN) in Hat.
    set (vt := toks_of_pieces (fmt_expr fx lvl v)) in *.
    rewrite <- !app_assoc in Hat. cbn [app] in Hat. fold (tail_toks lvl steps (mk T_WS :: vt ++ mk T_NL :: r)) in Hat.
    destruct (top_head0 lvl _ v (env_no_tyerr B BT s) eq_refl Hv) as (t0 & ts & Hvt & Ht0). fold vt in Hvt.
    assert (Hat0 := Hat). destruct Hat as (Hr & Hw & He).
    unfold parse_assign_stmt. unfold cur. rewrite Hr. cbn [look0 hd tlit ident_tok]. rewrite Hnf.
    unfold parse_assign_target. unfold cur. rewrite Hr. cbn [look0 hd tlit ident_tok].
    assert (Hus : str_eqb x (s_ "_"%string) = false).
    { unfold scope_get in Hsg. apply andb_true_iff in Hsg as [H _]. apply negb_true_iff in H. exact H. }
    rewrite Hus. change (scope_get x (adv s)) with (scope_get x s). rewrite Hsg. cbn [negb].
    set (Q := mk T_WS :: vt ++ mk T_NL :: r) in *.
    assert (A1 : at_toks (adv s) (skip1 (tail_toks lvl steps Q)) e) by (apply (adv_at s _ _ e Hat0); apply tail_skip).
    assert (P1 : steps <> [] -> is_ws (prev (cs (adv s))) = false).
    { intro Hne. assert (Hw' : is_wss (cs s) = false) by (unfold is_wss; rewrite Hw; reflexivity).
      unfold adv, upd. cbn [with_cs cs]. unfold tail_toks in Hr. destruct steps as [|s0 r0]; [contradiction|]. cbn [flat_map] in Hr.
      destruct s0; cbn [step_toks app] in Hr; erewrite advance_prev; try exact Hr; try exact Hw'; reflexivity. }
    assert (Hst' : Forall (step_ok (env_of B (mark x (adv s)))) steps) by (change (env_of B (mark x (adv s))) with (env_of B (mark x s)); rewrite env_of_mark; exact Hst).
    destruct (target_loop lvl (pos s) steps (TVar x) (mark x (adv s)) (S (pos (adv s))) Q e) as (s1 & PL & A2 & E2).
    { destruct A1 as (R1 & _). unfold pos, here. rewrite R1. pose proof (skip1_len0 (tail_toks lvl steps Q)) as HL.
      assert (HS : List.length steps <= List.length (flat_map (step_toks lvl) steps)).
      { clear. induction steps as [|s0 r0 IH]; [cbn; lia|]. cbn [flat_map List.length]. rewrite app_length. destruct s0; cbn [step_toks List.length]; try rewrite app_length; cbn [List.length]; lia. }
      unfold tail_toks in HL at 1. rewrite app_length in HL. cbn [List.length] in HL. lia. }
    { exact A1. }
    { exact P1. }
    { exact Hst'. }
    change (mark x (adv s)) with (mark x (adv s)). rewrite PL. cbv beta iota. rewrite <- (tgt_tree t x steps Hsp).
    rewrite (passert_ok T_ASSIGN s1); [|destruct A2 as (R2 & _); unfold ct, cur_t, cur; rewrite R2; reflexivity]. cbn [snd].
    assert (A3 : at_toks (adv s1) (vt ++ mk T_NL :: r) e).
    { apply (adv_at s1 (mk T_ASSIGN) Q e A2). unfold Q. cbn [skip1 is_ws ttype mk]. rewrite Hvt. exact Ht0. }
    assert (Hv' : top_ok (env_of B (adv s1)) v).
    { change (env_of B (adv s1)) with (env_of B s1). rewrite E2. change (env_of B (mark x (adv s))) with (env_of B (mark x s)). rewrite env_of_mark. exact Hv. }
    destruct (p_toplevel_value B BT fx lvl (adv s1) v r e Hv' A3) as (s2 & P & A4 & _ & _). rewrite P.
    unfold tyerr_s. rewrite BT. rewrite (assert_eol_nl s2 r e A4).
    eexists. split; [reflexivity|]. split; [apply apnl_nl | eapply apnl_peek]; eauto.
  Qed.
End Targets.
