(* LexerSpec.v - the vocabulary in which the C03 lexer theorems are stated.
   Definitions only; nothing here refers to how the lexer computes. *)
From Coq Require Import NArith List Bool.
From EvyV Require Import Base Lexer.
From EvyV.Gen Require Import TokenTypes Keywords.
Import ListNotations.
Open Scope N_scope.

(* ---------- positions ---------- *)

(* number of newlines in l *)
Definition count_nl (l : list N) : nat := count_occ N.eq_dec l 10.

(* the longest prefix of l without a newline *)
Fixpoint line_prefix (l : list N) : list N :=
  match l with
  | [] => []
  | c :: r => if c =? 10 then [] else c :: line_prefix r
  end.

(* number of characters after the last newline of l *)
Definition since_newline (l : list N) : nat := List.length (line_prefix (rev l)).

(* (line, column) of the character at rune offset off of input, both 1-based:
   one more than the newlines before it / the characters since the last one *)
Definition pos_of_offset (input : list N) (off : nat) : N * N :=
  let before := firstn off input in
  (1 + N.of_nat (count_nl before), 1 + N.of_nat (since_newline before)).

(* ---------- the part of the input the lexer looks at ---------- *)

(* everything before the first U+0000 *)
Fixpoint upto_nul (l : list N) : list N :=
  match l with
  | [] => []
  | c :: r => if c =? 0 then [] else c :: upto_nul r
  end.

Definition effective (nul_is_eof : bool) (input : list N) : list N :=
  if nul_is_eof then upto_nul input else input.

(* ---------- token spans ---------- *)

(* end offsets of consecutive pieces starting at cur *)
Fixpoint ends (cur : N) (pieces : list (list N)) : list N :=
  match pieces with
  | [] => []
  | x :: xs => let e := cur + N.of_nat (List.length x) in e :: ends e xs
  end.

(* cut rest (which starts at offset cur) at the given offsets *)
Fixpoint slices (rest : list N) (cur : N) (offs : list N) : list (list N) :=
  match offs with
  | [] => []
  | o :: os => let n := N.to_nat (o - cur) in firstn n rest :: slices (skipn n rest) o os
  end.

(* the lexemes of a token list: input cut at the Offsets of consecutive tokens
   (the last token, EOF, has no lexeme) *)
Definition lexemes_of (input : list N) (toks : list token) : list (list N) :=
  match map t_off toks with
  | [] => []
  | o :: os => slices (skipn (N.to_nat o) input) o os
  end.

(* the input that remains after each of consecutive pieces of rest *)
Fixpoint rests (rest : list N) (pieces : list (list N)) : list (list N) :=
  match pieces with
  | [] => []
  | x :: xs => let r := skipn (List.length x) rest in r :: rests r xs
  end.

(* the rune after a lexeme, if any, does not satisfy pred *)
Definition next_not (pred : N -> bool) (r : list N) : Prop :=
  match r with [] => True | d :: _ => pred d = false end.

(* ---------- what a token says about its lexeme ---------- *)

(* the runes Lexer.Next decides on before it asks isLetter / isDigit *)
Definition is_special (nul_is_eof : bool) (c : N) : bool :=
  existsb (N.eqb c) [32; 9; 61; 43; 45; 33; 47; 42; 37; 60; 62; 58; 123; 125; 40; 41; 91; 93; 10; 46; 34]
  || (nul_is_eof && (c =? 0)).

Section Spec.
  Variable uni_letter uni_digit : N -> bool.
  Variable nul_is_eof : bool.

  (* an identifier-shaped lexeme: a letter or '_' that is not claimed by the
     switch, followed by letters, '_' and Unicode digits *)
  Definition ident_shaped (x : list N) : Prop :=
    exists c r, x = c :: r /\ is_special nul_is_eof c = false /\ is_letter uni_letter c = true /\
                Forall (fun d => ident_char uni_letter uni_digit d = true) r.

  Definition lexeme_ok (t : token) (x : list N) : Prop :=
    match t_type t with
    | T_EOF => False
    | T_WS => t_lit t = [] /\
              exists c ws, x = c :: ws /\ (c = 32 \/ c = 9) /\ Forall (fun r => is_hws r = true) ws
    | T_COMMENT => t_lit t = x /\
              exists body, x = 47 :: 47 :: body /\ Forall (fun r => comment_char nul_is_eof r = true) body
    | T_STRING_LIT => (exists body, x = 34 :: body) /\ unquote x = Some (t_lit t)
    | T_ILLEGAL =>
        (exists c, x = [c] /\ t_lit t = [c] /\ is_special nul_is_eof c = false /\
                   is_letter uni_letter c = false /\ is_digit c = false) \/
        ((exists body, x = 34 :: body) /\ unquote x = None /\ t_lit t = invalid_string)
    | T_IDENT => t_lit t = x /\ ident_shaped x /\ lookup_keyword keywords x = None
    | T_NUM_LIT => t_lit t = x /\
              exists c ds, x = c :: ds /\ is_digit c = true /\ is_letter uni_letter c = false /\
                           Forall (fun r => num_char r = true) ds
    | ty => t_lit t = [] /\ x = tt_format ty     (* operators, delimiters, NL, keywords *)
    end.

  (* maximal munch: t is a token whose lexeme is followed by r in the input.
     Whitespace, numbers, identifiers / keywords and comments extend as far as
     their character class does. *)
  Definition maximal_munch (t : token) (r : list N) : Prop :=
    (t_type t = T_WS -> next_not is_hws r) /\
    (t_type t = T_NUM_LIT -> next_not num_char r) /\
    (t_type t = T_IDENT \/ In (t_type t) (map snd keywords) -> next_not (ident_char uni_letter uni_digit) r) /\
    (t_type t = T_COMMENT -> next_not (comment_char nul_is_eof) r).
End Spec.
