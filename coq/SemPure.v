(* SemPure.v — the pure string and math built-ins of Sem.v (pure_builtin): ONE generic
   statement, used by every proof file that cases on the built-in dispatcher.

   A computation is [heap_only] when it factors through the heap: its result and its new heap
   are a function g of the old heap alone, every other field of the state (globals — hence the
   err / errmsg bindings —, trace, input, yield counter, stop flags, test counters) is left as
   it was; and g only EXTENDS the heap: nothing at or above hnext before, every existing cell
   keeps its content (so the cells bound to err / errmsg keep theirs), the new cells are the
   allocated results.  pure_builtin_spec: every pure built-in is heap_only. *)
From Coq Require Import ZArith NArith PArith List String Bool Floats FMapPositive Lia.
From EvyV Require Import Base Num Ast Omap Sem.
Import ListNotations.
Local Open Scope positive_scope.

(* the state with heap h and every other field at a default: a computation that factors
   through the heap is determined by its runs from these states *)
Definition mk (h : heap) : state :=
  {| st_heap := h; st_globals := []; st_trace := []; st_yields := 0; st_stop_at := None;
     st_stopped := false; st_input := []; st_total := 0; st_fails := 0; st_failfast := false;
     st_check_after_yield := false |}.
Definition hfun {A} (m : M A) (h : heap) : res A * heap := (fst (m (mk h)), st_heap (snd (m (mk h)))).

Definition factors {A} (m : M A) : Prop :=
  forall s, m s = (fst (hfun m (st_heap s)), upd_heap (snd (hfun m (st_heap s))) s).

Definition hfresh (h : heap) : Prop := forall l, hnext h <= l -> hget h l = None.
Definition hextends (h h' : heap) : Prop :=
  hnext h <= hnext h' /\ forall l v, hget h l = Some v -> hget h' l = Some v.

Definition extending {A} (m : M A) : Prop :=
  forall h, hfresh h -> hfresh (snd (hfun m h)) /\ hextends h (snd (hfun m h)).

Definition heap_only {A} (m : M A) : Prop := factors m /\ extending m.

Lemma upd_heap_same s : upd_heap (st_heap s) s = s.
Proof. destruct s; reflexivity. Qed.
Lemma hextends_refl h : hextends h h. Proof. split; [lia | auto]. Qed.
Lemma hextends_trans a b c : hextends a b -> hextends b c -> hextends a c.
Proof. intros [A1 A2] [B1 B2]; split; [lia | auto]. Qed.

(* what a heap_only computation does to an arbitrary state *)
Lemma heap_only_run {A} (m : M A) s r s' :
  heap_only m -> m s = (r, s') ->
  s' = upd_heap (st_heap s') s /\
  (hfresh (st_heap s) -> hfresh (st_heap s') /\ hextends (st_heap s) (st_heap s')) /\
  (forall t, st_heap t = st_heap s -> m t = (r, upd_heap (st_heap s') t)).
Proof.
  intros [F E] H. rewrite (F s) in H. inversion H; subst; clear H. split; [reflexivity|]. split.
  - intro W. apply (E _ W).
  - intros t Ht. rewrite (F t), Ht. reflexivity.
Qed.

Lemma ho_const {A} (r : res A) : heap_only (fun s => (r, s)).
Proof.
  split.
  - intro s. unfold hfun; simpl. rewrite upd_heap_same. reflexivity.
  - intros h W. unfold hfun; simpl. split; [exact W | apply hextends_refl].
Qed.
Lemma ho_ret {A} (a : A) : heap_only (ret a). Proof. apply (ho_const (Ok a)). Qed.
Lemma ho_fail {A} e : heap_only (@fail A e). Proof. apply (ho_const (Er e)). Qed.
Lemma ho_crash {A} w : heap_only (@crash A w). Proof. apply ho_fail. Qed.

Lemma ho_bind {A B} (m : M A) (k : A -> M B) :
  heap_only m -> (forall a, heap_only (k a)) -> heap_only (bindM m k).
Proof.
  intros [Fm Em] Hk.
  assert (Hrun : forall s, bindM m k s =
            match fst (hfun m (st_heap s)) with
            | Ok a => (fst (hfun (k a) (snd (hfun m (st_heap s)))),
                       upd_heap (snd (hfun (k a) (snd (hfun m (st_heap s))))) s)
            | Er e => (Er e, upd_heap (snd (hfun m (st_heap s))) s)
            end).
  { intro s. unfold bindM. rewrite (Fm s). cbn [fst snd].
    destruct (fst (hfun m (st_heap s))) as [a|e]; [|reflexivity].
    destruct (Hk a) as [Fk _]. rewrite (Fk _). reflexivity. }
  assert (Hh : forall h, hfun (bindM m k) h =
            match fst (hfun m h) with
            | Ok a => hfun (k a) (snd (hfun m h))
            | Er e => (Er e, snd (hfun m h))
            end).
  { intro h. unfold hfun at 1. rewrite (Hrun (mk h)). cbn [st_heap mk].
    destruct (fst (hfun m h)); cbn [fst snd st_heap upd_heap]; [symmetry; apply surjective_pairing | reflexivity]. }
  split.
  - intro s. rewrite Hrun, Hh. destruct (fst (hfun m (st_heap s))); reflexivity.
  - intros h W. rewrite Hh. destruct (Em h W) as [W1 X1].
    destruct (fst (hfun m h)) as [a|e]; cbn [fst snd].
    + destruct (Hk a) as [_ Ek]. destruct (Ek _ W1) as [W2 X2].
      split; [exact W2 | eapply hextends_trans; eauto].
    + split; assumption.
Qed.

Lemma ho_load l : heap_only (load l).
Proof.
  split.
  - intro s. unfold hfun, load; cbn [st_heap mk]. destruct (hget (st_heap s) l); simpl; rewrite upd_heap_same; reflexivity.
  - intros h W. unfold hfun, load; cbn [st_heap mk]. destruct (hget h l); simpl; (split; [exact W | apply hextends_refl]).
Qed.

Lemma ho_alloc v : heap_only (alloc v).
Proof.
  split.
  - intro s. reflexivity.
  - intros h W. change (snd (hfun (alloc v) h)) with (snd (halloc h v)). split.
    + intros l Hl. change (hnext (snd (halloc h v))) with (Pos.succ (hnext h)) in Hl.
      unfold halloc, hget; cbn [snd hcells]. rewrite PositiveMap.gso by lia. apply W. lia.
    + split; [change (hnext (snd (halloc h v))) with (Pos.succ (hnext h)); lia|].
      intros l x Hx. unfold halloc, hget; cbn [snd hcells]. rewrite PositiveMap.gso; auto.
      intro Q; subst. rewrite (W (hnext h)) in Hx by lia. discriminate.
Qed.

Lemma ho_mapM {A B} (f : A -> M B) l : (forall a, heap_only (f a)) -> heap_only (mapM f l).
Proof.
  intro Hf. induction l as [|x t IH]; simpl; [apply ho_ret|].
  apply ho_bind; auto. intro. apply ho_bind; auto. intro. apply ho_ret.
Qed.

Ltac ho :=
  repeat first
    [ apply ho_ret | apply ho_fail | apply ho_crash | apply ho_load | apply ho_alloc
    | apply ho_bind; [|intro]
    | apply ho_mapM; intro
    | match goal with |- heap_only (match ?x with _ => _ end) => destruct x end
    | match goal with |- heap_only (if ?x then _ else _) => destruct x end ].

Lemma ho_load_num l : heap_only (load_num l). Proof. unfold load_num. ho. Qed.
Lemma ho_load_str l : heap_only (load_str l). Proof. unfold load_str. ho. Qed.

(* ONE statement for all pure built-ins, by a uniform walk over the [if name_is ...] chain *)
Theorem pure_builtin_spec name args m : pure_builtin name args = Some m -> heap_only m.
Proof.
  intro H. unfold pure_builtin in H.
  repeat match type of H with
         | (if ?c then _ else _) = Some _ =>
             destruct c; [inversion H; subst m; clear H; unfold load_num, load_str; ho|]
         end.
  discriminate.
Qed.

(* whether a name is a pure built-in depends on the name only *)
Lemma pure_builtin_none_indep name args args' : pure_builtin name args = None -> pure_builtin name args' = None.
Proof.
  unfold pure_builtin.
  repeat match goal with
         | |- context [if ?c then Some _ else _] => destruct c; [intro X; discriminate X|]
         end.
  reflexivity.
Qed.

(* on success a pure built-in returns a value (never the "no value" result) *)
Lemma pure_builtin_returns name args m s r s' :
  pure_builtin name args = Some m -> m s = (Ok r, s') -> exists l, r = Some l.
Proof.
  intro H. unfold pure_builtin in H. unfold bindM, load_num, load_str, bindM, load, ret, fail, crash, fail.
  repeat match type of H with
         | (if ?c then _ else _) = Some _ =>
             destruct c; [inversion H; subst m; clear H; intro R|]
         end; try discriminate.
  all: unfold bindM, load_num, load_str, bindM, load, ret, fail, crash, fail in R.
  all: repeat match type of R with
              | context [match ?x with _ => _ end] => destruct x; try discriminate R
              end.
  all: try (inversion R; eauto).
Qed.
