(* TypesSpecProofs.v — the executable renderings of TypesSpec.v are equivalent
   to the declarative relations, and the least-common-type function computes
   the Strictest type.  Nothing here mentions the implementation model. *)
From Coq Require Import List Bool Lia.
From EvyV Require Import TypesSyntax TypesSpec.
Import ListNotations.

Lemma sty_eqb_eq a b : sty_eqb a b = true <-> a = b.
Proof.
  revert b; induction a; intros []; simpl; split; intro H; try reflexivity; try discriminate;
    try (apply IHa in H; congruence); try (inversion H; subst; apply IHa; reflexivity).
Qed.

Lemma sty_eqb_refl a : sty_eqb a a = true.
Proof. apply sty_eqb_eq; reflexivity. Qed.

Lemma sty_eqb_neq a b : sty_eqb a b = false <-> a <> b.
Proof.
  split; intro H.
  - intro E; apply sty_eqb_eq in E; congruence.
  - destruct (sty_eqb a b) eqn:E; [apply sty_eqb_eq in E; contradiction | reflexivity].
Qed.

(* ---------- Converts ---------- *)
Lemma conv_b_refl a : conv_b a a = true.
Proof. induction a; simpl; auto. Qed.

Lemma conv_b_sound a b : conv_b a b = true -> Converts a b.
Proof.
  revert a; induction b; intros a H; simpl in H;
    try (apply sty_eqb_eq in H; subst; constructor; fail);
    try (constructor; fail).
  - destruct a; try discriminate; try (constructor; fail).
    + constructor; apply IHb; exact H.
  - destruct a; try discriminate; try (constructor; fail).
    + constructor; apply IHb; exact H.
Qed.

Lemma conv_b_complete a b : Converts a b -> conv_b a b = true.
Proof.
  induction 1; simpl; auto using conv_b_refl.
Qed.

Lemma conv_b_iff a b : conv_b a b = true <-> Converts a b.
Proof. split; [apply conv_b_sound | apply conv_b_complete]. Qed.

Lemma assignable_b_iff k t t2 : assignable_b k t t2 = true <-> Assignable k t t2.
Proof.
  destruct k; simpl.
  - rewrite orb_true_iff, !sty_eqb_eq. split.
    + intros [-> | ->]; constructor.
    + inversion 1; subst; auto.
  - rewrite conv_b_iff. split.
    + intro H; apply As_conv; exact H.
    + inversion 1; subst; auto; constructor.
Qed.

Lemma defaults_iff a b : defaults a = b <-> Defaults a b.
Proof.
  split.
  - intros <-. induction a; simpl; constructor; auto.
  - induction 1; simpl; congruence.
Qed.

(* ---------- Unify ---------- *)
Lemma unify_refl a : unify a a = Some a.
Proof. destruct a; simpl; rewrite ?sty_eqb_refl; reflexivity. Qed.

Lemma unify_sound a b r : unify a b = Some r -> Unify a b r.
Proof.
  revert b r; induction a; intros b r H; simpl in H;
    destruct b; simpl in H; try discriminate;
    try (inversion H; subst; constructor; fail).
  - destruct (sty_eqb a b) eqn:E.
    + inversion H; subst. apply sty_eqb_eq in E; subst. constructor.
    + destruct (unify a b) eqn:U; simpl in H; try discriminate. inversion H; subst.
      constructor; apply IHa; exact U.
  - destruct (sty_eqb a b) eqn:E.
    + inversion H; subst. apply sty_eqb_eq in E; subst. constructor.
    + destruct (unify a b) eqn:U; simpl in H; try discriminate. inversion H; subst.
      constructor; apply IHa; exact U.
Qed.

Lemma unify_complete a b r : Unify a b r -> unify a b = Some r.
Proof.
  induction 1; try apply unify_refl; try reflexivity.
  - simpl. destruct (sty_eqb a b) eqn:E.
    + apply sty_eqb_eq in E; subst. rewrite unify_refl in IHUnify. congruence.
    + rewrite IHUnify; reflexivity.
  - simpl. destruct (sty_eqb a b) eqn:E.
    + apply sty_eqb_eq in E; subst. rewrite unify_refl in IHUnify. congruence.
    + rewrite IHUnify; reflexivity.
Qed.

Lemma unify_iff a b r : unify a b = Some r <-> Unify a b r.
Proof. split; [apply unify_sound | apply unify_complete]. Qed.

(* ---------- operator table ---------- *)
Lemma is_array_b_iff t : is_array_b t = true <-> is_array t.
Proof.
  unfold is_array; destruct t; simpl; split; intro H; try discriminate; auto;
    try (destruct H as [H | [s H]]; discriminate); eauto.
Qed.

Lemma op_type_sound op a b r : op_type op a b = Some r -> OpType op a b r.
Proof.
  unfold op_type. destruct (equality op) eqn:Eq.
  - destruct (unify a b) eqn:U; intro H; inversion H; subst.
    eapply Op_equality; eauto. apply unify_sound; exact U.
  - intro H.
    assert (Arr : is_array_b a = true ->
                  match op with
                  | OpPlus => unify a b
                  | OpAsterisk => match b with SNum => Some a | _ => None end
                  | _ => None
                  end = Some r -> OpType op a b r).
    { intros Ha H'. apply is_array_b_iff in Ha. destruct op; try discriminate.
      - apply Op_concat_array; [exact Ha | apply unify_sound; exact H'].
      - destruct b; try discriminate. inversion H'; subst. apply Op_repeat; exact Ha. }
    destruct a; simpl in H; try discriminate.
    + destruct b; try discriminate.
      destruct (arith op) eqn:A; [inversion H; subst; constructor; exact A|].
      destruct (ordering op) eqn:O; [inversion H; subst; apply Op_order_num; exact O | discriminate].
    + destruct b; try discriminate.
      destruct op; simpl in H; try discriminate; inversion H; subst;
        try (apply Op_order_string; reflexivity); constructor.
    + destruct b; try discriminate.
      destruct (logical op) eqn:L; [inversion H; subst; constructor; exact L | discriminate].
    + apply Arr; [reflexivity | exact H].
    + apply Arr; [reflexivity | exact H].
Qed.

Lemma op_type_complete op a b r : OpType op a b r -> op_type op a b = Some r.
Proof.
  destruct 1; unfold op_type.
  - destruct op; try discriminate; reflexivity.
  - reflexivity.
  - apply is_array_b_iff in H. apply unify_complete in H0. simpl.
    destruct a; try discriminate; simpl; exact H0.
  - apply is_array_b_iff in H. simpl. destruct a; try discriminate; reflexivity.
  - destruct op; try discriminate; reflexivity.
  - destruct op; try discriminate; reflexivity.
  - destruct op; try discriminate; reflexivity.
  - rewrite H. apply unify_complete in H0. rewrite H0. reflexivity.
Qed.

Lemma op_type_iff op a b r : op_type op a b = Some r <-> OpType op a b r.
Proof. split; [apply op_type_sound | apply op_type_complete]. Qed.

(* ---------- inversion of Converts ---------- *)
Lemma converts_arr_inv x t : Converts (SArr x) t -> t = SAny \/ exists y, t = SArr y /\ Converts x y.
Proof. inversion 1; subst; eauto using Converts. Qed.

Lemma converts_map_inv x t : Converts (SMap x) t -> t = SAny \/ exists y, t = SMap y /\ Converts x y.
Proof. inversion 1; subst; eauto using Converts. Qed.

Lemma converts_earr_inv t : Converts SEmptyArr t -> t = SAny \/ t = SEmptyArr \/ exists y, t = SArr y.
Proof. inversion 1; subst; eauto. Qed.

Lemma converts_emap_inv t : Converts SEmptyMap t -> t = SAny \/ t = SEmptyMap \/ exists y, t = SMap y.
Proof. inversion 1; subst; eauto. Qed.

Lemma converts_any_inv t : Converts SAny t -> t = SAny.
Proof. inversion 1; subst; auto. Qed.

Lemma converts_trans a b c : Converts a b -> Converts b c -> Converts a c.
Proof.
  intros H; revert c; induction H; intros c H2; auto.
  - apply converts_any_inv in H2; subst; constructor.
  - apply converts_arr_inv in H2 as [-> | [y [-> Hy]]]; constructor; auto.
  - apply converts_map_inv in H2 as [-> | [y [-> Hy]]]; constructor; auto.
  - apply converts_arr_inv in H2 as [-> | [y [-> Hy]]]; constructor.
  - apply converts_map_inv in H2 as [-> | [y [-> Hy]]]; constructor.
Qed.

(* ---------- cjoin is the least upper bound of two constants ---------- *)
Lemma cjoin_lub a b : forall t, Converts (cjoin a b) t <-> (Converts a t /\ Converts b t).
Proof.
  revert b; induction a; intros b t;
    destruct b; simpl; rewrite ?sty_eqb_refl;
    try (split; [intro H; split; exact H | intros [H _]; exact H]; fail);
    try (split; [intro H; apply converts_any_inv in H; subst; split; constructor
                | intros [H1 H2]; inversion H1; subst; inversion H2; subst; constructor]; fail).
  (* SArr a / SArr b *)
  - destruct (sty_eqb a b) eqn:E.
    + apply sty_eqb_eq in E; subst. split; [intro H; split; exact H | intros [H _]; exact H].
    + split.
      * intro H. apply converts_arr_inv in H as [-> | [y [-> Hy]]]; [split; constructor|].
        apply IHa in Hy as [H1 H2]. split; constructor; assumption.
      * intros [H1 H2].
        apply converts_arr_inv in H1 as [-> | [y [-> Hy]]]; [constructor|].
        apply converts_arr_inv in H2 as [? | [y' [E' Hy']]]; [discriminate|]. inversion E'; subst.
        constructor. apply IHa. split; assumption.
  (* SArr a / SEmptyArr *)
  - split.
    + intro H; split; [exact H|]. apply converts_arr_inv in H as [-> | [y [-> _]]]; constructor.
    + intros [H _]; exact H.
  (* SMap a / SMap b *)
  - destruct (sty_eqb a b) eqn:E.
    + apply sty_eqb_eq in E; subst. split; [intro H; split; exact H | intros [H _]; exact H].
    + split.
      * intro H. apply converts_map_inv in H as [-> | [y [-> Hy]]]; [split; constructor|].
        apply IHa in Hy as [H1 H2]. split; constructor; assumption.
      * intros [H1 H2].
        apply converts_map_inv in H1 as [-> | [y [-> Hy]]]; [constructor|].
        apply converts_map_inv in H2 as [? | [y' [E' Hy']]]; [discriminate|]. inversion E'; subst.
        constructor. apply IHa. split; assumption.
  (* SMap a / SEmptyMap *)
  - split.
    + intro H; split; [exact H|]. apply converts_map_inv in H as [-> | [y [-> _]]]; constructor.
    + intros [H _]; exact H.
  (* SEmptyArr / SArr b *)
  - split.
    + intro H; split; [|exact H]. apply converts_arr_inv in H as [-> | [y [-> _]]]; constructor.
    + intros [_ H]; exact H.
  (* SEmptyMap / SMap b *)
  - split.
    + intro H; split; [|exact H]. apply converts_map_inv in H as [-> | [y [-> _]]]; constructor.
    + intros [_ H]; exact H.
Qed.

(* ---------- sjoin / strictest compute the Strictest type ---------- *)
Definition Asg (e : kind * sty) (t : sty) : Prop := Assignable (fst e) t (snd e).

Lemma asg_var a t : Assignable KVar t a <-> (t = a \/ t = SAny).
Proof. split; [inversion 1; subst; auto | intros [-> | ->]; constructor]. Qed.

Lemma asg_const a t : Assignable KConst t a <-> Converts a t.
Proof. split; [inversion 1; subst; auto; constructor | apply As_conv]. Qed.

Lemma sjoin_ub e1 e2 t : Asg (sjoin e1 e2) t <-> (Asg e1 t /\ Asg e2 t).
Proof.
  destruct e1 as [[] a], e2 as [[] b]; unfold Asg, sjoin; simpl.
  - (* var var *)
    destruct (sty_eqb a b) eqn:E; simpl; rewrite !asg_var.
    + apply sty_eqb_eq in E; subst. tauto.
    + apply sty_eqb_neq in E. split; [intros [-> | ->]; auto | intros [[-> | ->] [H | H]]; auto; congruence].
  - (* var const *)
    destruct (conv_b b a) eqn:E; simpl; rewrite !asg_var, asg_const.
    + apply conv_b_iff in E. split; [intros [-> | ->]; split; auto; constructor | tauto].
    + split; [intros [-> | ->]; split; auto; constructor|].
      intros [[-> | ->] H]; auto. apply conv_b_iff in H; congruence.
  - (* const var *)
    destruct (conv_b a b) eqn:E; simpl; rewrite !asg_var, asg_const.
    + apply conv_b_iff in E. split; [intros [-> | ->]; split; auto; constructor | tauto].
    + split; [intros [-> | ->]; split; auto; constructor|].
      intros [H [-> | ->]]; auto. apply conv_b_iff in H; congruence.
  - (* const const *)
    rewrite !asg_const. apply cjoin_lub.
Qed.

Lemma fold_sjoin_ub l : forall e t, Asg (fold_left sjoin l e) t <-> (Asg e t /\ forall x, In x l -> Asg x t).
Proof.
  induction l as [|y l IH]; intros e t; simpl.
  - split; [intro H; split; [exact H | intros x []] | intros [H _]; exact H].
  - rewrite IH, sjoin_ub. split.
    + intros [[H1 H2] H3]. split; [exact H1|]. intros x [<- | Hx]; auto.
    + intros [H1 H2]. split; [split; auto|]. intros x Hx; auto.
Qed.

Lemma asg_converts e t : Asg e t -> Converts (snd e) t.
Proof. destruct e as [k a]; unfold Asg; simpl. inversion 1; subst; auto; constructor. Qed.

Theorem strictest_is_Strictest els e : strictest els = Some e -> Strictest els (snd e).
Proof.
  destruct els as [|x l]; simpl; [discriminate|]. intro H; inversion H; subst; clear H.
  set (r := fold_left sjoin l x).
  assert (Hr : Asg r (snd r)) by (unfold Asg; constructor).
  apply fold_sjoin_ub in Hr as [H1 H2].
  split.
  - intros e [<- | He]; [exact H1 | apply H2; exact He].
  - intros t' Ht'. apply asg_converts. apply fold_sjoin_ub. split; [apply Ht'; left; reflexivity|].
    intros y Hy; apply Ht'; right; exact Hy.
Qed.

(* the Strictest type is unique, so [strictest] is THE inferred element type *)
Lemma converts_antisym a b : Converts a b -> Converts b a -> a = b.
Proof.
  intro H; induction H; intro H2; auto.
  - apply converts_any_inv in H2; auto.
  - apply converts_arr_inv in H2 as [? | [y [E Hy]]]; [discriminate|]. inversion E; subst. f_equal; auto.
  - apply converts_map_inv in H2 as [? | [y [E Hy]]]; [discriminate|]. inversion E; subst. f_equal; auto.
  - inversion H2.
  - inversion H2.
Qed.

Theorem Strictest_unique els t1 t2 : Strictest els t1 -> Strictest els t2 -> t1 = t2.
Proof.
  intros [U1 L1] [U2 L2]. apply converts_antisym; [apply L1; exact U2 | apply L2; exact U1].
Qed.

(* permutation invariance of the specification's inferred type *)
Lemma Strictest_perm els els' t : (forall e, In e els <-> In e els') -> Strictest els t -> Strictest els' t.
Proof.
  intros P [U L]. split.
  - intros e He; apply U, P, He.
  - intros t' H; apply L. intros e He; apply H, P, He.
Qed.

(* ---------- assignment targets ---------- *)
Lemma target_step_s_iff t k r : target_step_s t k = Some r <-> TargetStep t k r.
Proof.
  split.
  - destruct t, k; simpl; try discriminate; try (destruct it; try discriminate);
      intro H; inversion H; subst; constructor.
  - destruct 1; reflexivity.
Qed.

Lemma target_chain_s_iff ks : forall t r, target_chain_s t ks = Some r <-> TargetChain t ks r.
Proof.
  induction ks as [|k ks IH]; intros t r; simpl.
  - split; [intro H; inversion H; constructor | inversion 1; reflexivity].
  - split.
    + destruct (target_step_s t k) eqn:E; [|discriminate]. intro H.
      econstructor; [apply target_step_s_iff; exact E | apply IH; exact H].
    + inversion 1; subst. apply target_step_s_iff in H3. rewrite H3. apply IH; assumption.
Qed.

(* ---------- range operands ---------- *)
Lemma range_operands_s_iff ts : range_operands_s ts = true <-> RangeOperands ts.
Proof.
  split.
  - destruct ts as [|t [|t2 [|t3 [|t4 r]]]]; simpl; intro H; try discriminate H.
    + destruct t; try discriminate H; eapply Ro_one; reflexivity.
    + destruct t; try discriminate H; destruct t2; try discriminate H; constructor.
    + destruct t; try discriminate H; destruct t2; try discriminate H; destruct t3; try discriminate H; constructor.
    + destruct t; try discriminate H; destruct t2; try discriminate H; destruct t3; discriminate H.
  - destruct 1; simpl; try reflexivity. destruct t; simpl in *; try discriminate; reflexivity.
Qed.
