#!/bin/bash
# tools/coqchk.sh — re-check every compiled file of the development (and everything it depends on) with
# Coq's independent checker and print the axioms it relies on. Takes long; thorough tier / end of round only.
set -e
cd "$(dirname "$0")/.."
./check setup >/dev/null
cd coq
mods=$(find . -name '*.vo' | sed 's|^\./||; s|\.vo$||; s|/|.|g' | sed 's/^/EvyV./' | sort)
echo "checking $(echo $mods | wc -w) modules"
time coqchk -silent -o -Q . EvyV $mods 2>&1 | tail -60
