#!/usr/bin/env python3
"""Regenerates /verif/MANIFEST.json from the table below (edit here, run, commit)."""
import json, os
ROOT = os.path.dirname(os.path.dirname(os.path.abspath(__file__)))
props = [json.loads(l) for l in open(os.path.join(ROOT, "properties.jsonl"))]

NOTE_COMMON = ("Trusted: Coq 8.16.1 kernel; the hand-written Gallina model (tied to /repo by the correspondence "
               "run of every check and, where present, by tables regenerated from the source); extraction "
               "(ExtrOcamlBasic/ExtrOCamlFloats/ExtrOCamlInt63) + OCaml driver; the Go harness. Axioms per "
               "theorem are in evidence.coverage.axioms_per_theorem.")

import glob
CLAIMS = {}
for f in sorted(glob.glob(os.path.join(ROOT, "claims.d", "*.json"))):
    CLAIMS[os.path.basename(f)[:-5]] = json.load(open(f))

checks, na = [], []
for p in props:
    pid = p["id"]
    if pid in CLAIMS:
        c = CLAIMS[pid]
        checks.append({
            "property_id": pid,
            "quick_cmd": "./check %s quick" % pid,
            "thorough_cmd": "./check %s thorough" % pid,
            "evidence_file": "/verif/evidence/%s.json" % pid,
            "replay_cmd_template": "./check %s --replay {path}" % pid,
            "engine": "coq+correspondence",
            "level_claimed": {"category": "proof", "text": c["text"], "design_ref": c["design"]},
            "level_note": c.get("note", NOTE_COMMON),
            "technique": c["technique"],
        })
    else:
        na.append({"property_id": pid, "reason": "check under construction in this round (model and theorems not yet committed); see DESIGN.md section 9"})

m = {
    "version": 1,
    "setup_cmd": "./check setup",
    "hooks": {
        "guard": "verif",
        "enable": "go build -tags verif (harness module with replace evylang.dev/evy => /repo)",
        "baseline_off_cmd": "cd /repo && go test -mod=mod -vet=off -count=1 ./... && cd learn && go test -mod=mod -vet=off -count=1 ./...",
        "source_commits": [l.split()[0] for l in open(os.path.join(ROOT, "MANIFEST.hooks")) if l.strip() and not l.startswith("#")] if os.path.exists(os.path.join(ROOT, "MANIFEST.hooks")) else [],
        "add_only": True,
    },
    "engines": [{"name": "coq+correspondence", "path": "/verif/check",
                 "serves_properties": [c["property_id"] for c in checks],
                 "kind_free_text": "Coq 8.16 theorems over hand-written Gallina models (coq/), models extracted to OCaml and run against the Go implementation by harness/ (differential correspondence), tables regenerated from /repo into coq/Gen"}],
    "checks": checks,
    "not_applicable": na,
    "notes": "See DESIGN.md. KNOWN_FINDINGS.txt lists recorded genuine defects; seeded/ holds validated property-breaking changes.",
}
json.dump(m, open(os.path.join(ROOT, "MANIFEST.json"), "w"), indent=1)
print("claimed:", [c["property_id"] for c in checks])
