#!/bin/bash
# tools/tryseed.sh <property-id> <patch.diff> [tier]
# Runs ./check <id> <tier> against a scratch copy of /repo with the patch applied, WITHOUT touching /repo:
# a scratch copy of /verif is made whose harness points at the scratch repo. Prints the check's verdict.
# (The registered protocol — git -C /repo apply; ./check; git -C /repo checkout -- . — gives the same result;
#  this script exists so that seeds can be tried while other work uses /repo.)
set -u
id=$1; patch=$(readlink -f "$2"); tier=${3:-quick}
S=/tmp/seedtest.$$.$id
rm -rf $S; mkdir -p $S
git -C /repo worktree add -q --detach $S/repo HEAD || exit 2
if ! git -C $S/repo apply "$patch"; then echo "PATCH DOES NOT APPLY"; git -C /repo worktree remove --force $S/repo; rm -rf $S; exit 2; fi
rsync -a --exclude .git --exclude replays ${VERIF_SRC:-/verif}/ $S/verif/
grep -rl '/repo' $S/verif/harness $S/verif/check $S/verif/tools 2>/dev/null | xargs sed -i "s#/repo#$S/repo#g"
rm -f $S/verif/build/vharness
cd $S/verif
timeout ${TRY_TIMEOUT:-1500} ./check $id $tier > $S/out.txt 2>$S/err.txt; rc=$?
grep -h "VIOLATION\|KNOWN-FINDING\|quick:\|thorough:" $S/out.txt | cut -c1-220 | head -12
echo "exit=$rc"
for f in $(grep -h "^VIOLATION" $S/out.txt | sed 's/.*replay=//; s/ .*//' | head -2); do
  python3 - "$f" <<'PY'
import json,sys
try:
    d=json.load(open(sys.argv[1]))
    print("  replay:", d.get('kind'), d.get('key') or d.get('correspondence') or d.get('failed_at'), str(d.get('detail',''))[:200])
except Exception as e: print("  (replay unreadable)", e)
PY
done
cd /; git -C /repo worktree remove --force $S/repo; rm -rf $S
exit $rc
