#!/bin/bash
# tools/merge.sh <branch> "<message>": merge an agent branch, resolving the generated files (MANIFEST.json, evidence) in favour of main
set -e
cd /verif
git merge "$1" -m "$2" || true
for f in $(git diff --name-only --diff-filter=U); do
  case "$f" in
    MANIFEST.json|evidence/*) git checkout --ours "$f"; git add "$f";;
    *) echo "UNRESOLVED: $f";;
  esac
done
if git diff --name-only --diff-filter=U | grep -q .; then echo "conflicts remain"; exit 1; fi
python3 tools/mkmanifest.py
git add -A
git commit -qm "$2" || true
git log --oneline | head -1
