#!/bin/bash
# tools/confirmseed.sh <id>: confirm a seeded change in its scratch worktree /tmp/seed/<id>:
# patch == worktree diff, build + existing tests pass with it, demonstration fails with it and passes without.
id=$1; wt=${SEED_WT:-/tmp/seed}/$id; out=${SEED_OUT:-/tmp/seedout}/$id
export GOFLAGS=-mod=mod GOPROXY=off GOSUMDB=off GOTOOLCHAIN=local
cd $wt || exit 2
git diff > /tmp/confirm.$id.diff
if ! diff -q /tmp/confirm.$id.diff $out/patch.diff >/dev/null; then echo "$id: worktree diff != patch.diff (re-applying patch on clean tree)"; git checkout -- . ; git apply $out/patch.diff || { echo "$id: PATCH DOES NOT APPLY"; exit 2; }; fi
echo "$id: files changed: $(git diff --stat | tail -1)"
if go build ./... && (cd learn && go build ./...) ; then echo "$id: build ok"; else echo "$id: BUILD FAILS"; fi
t1=$(go test -count=1 ./... 2>&1 | grep -v "no test files" | grep -v "^ok" | head -5); t2=$(cd learn && go test -count=1 ./... 2>&1 | grep -v "no test files" | grep -v "^ok" | head -5)
if [ -z "$t1$t2" ]; then echo "$id: existing tests pass with the change"; else echo "$id: TESTS FAIL: $t1 $t2"; fi
demo=$(ls $out/demo.sh 2>/dev/null)
if [ -n "$demo" ]; then
  timeout 600 sh $demo > /tmp/confirm.$id.with.txt 2>&1; rc1=$?
  git apply -R $out/patch.diff
  timeout 600 sh $demo > /tmp/confirm.$id.without.txt 2>&1; rc2=$?
  git apply $out/patch.diff
  echo "$id: demo exit with change=$rc1, without=$rc2"
  echo "   with:    $(tail -2 /tmp/confirm.$id.with.txt | tr '\n' '|' | cut -c1-200)"
  echo "   without: $(tail -2 /tmp/confirm.$id.without.txt | tr '\n' '|' | cut -c1-200)"
else echo "$id: no demo.sh"; fi
