#!/bin/bash
# mk.sh <name>: worktree of /verif at /tmp/vw/<name> on branch agent/r8-<name>, with prebuilt files
n=$1
git -C /verif worktree add -q -b agent/r8-$n /tmp/vw/$n HEAD || exit 1
rsync -a /verif/build /tmp/vw/$n/
rsync -a --include='*/' --include='*.vo' --include='*.vok' --include='*.vos' --include='*.glob' --include='.*.aux' --include='Makefile' --include='Makefile.conf' --include='_CoqProject' --include='.Makefile.d' --include='Gen/***' --exclude='*' /verif/coq/ /tmp/vw/$n/coq/
# keep source mtimes older than .vo: set all tracked .v files to the mtime of /verif's copies
(cd /verif/coq && find . -name '*.v' | while read f; do touch -r "$f" "/tmp/vw/$n/coq/$f" 2>/dev/null; done)
echo ok $n
