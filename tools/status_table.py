#!/usr/bin/env python3
"""Prints the per-property status table of DESIGN §0.7 from evidence/ and findings.d/ (run after the quick checks)."""
import json, glob, os
ROOT = os.path.dirname(os.path.dirname(os.path.abspath(__file__)))
models = {'C01': 'Sem.v, SemOrder.v, Pratt.v', 'C02': 'Static.v, SemSound.v, Sem.v', 'C03': 'Lexer.v, Pratt.v, Parser.v',
          'C04': 'Types.v, TypesSpec.v, TypesSyntax.v', 'C05': 'Parser.v, ParserRules.v, ParserScope.v, RunModel.v',
          'C06': 'FmtAst.v, Format.v, FormatParse*.v', 'C07': 'Format.v, FormatNl/DepthProofs.v', 'C08': 'Perm*.v, Gen/MapSites.v',
          'C09': 'Sem.v, SemStore*.v, SemIso*.v', 'C10': 'Sem.v, SemScope.v', 'C11': 'Index*.v, Num.v', 'C12': 'Omap.v',
          'C13': 'Builtins.v', 'C14': 'Sem.v, SemStop.v', 'C15': 'Sem.v, SemEvents.v, SemIso*.v',
          'C16': 'Compile.v, CompileSem.v, Vm.v', 'C17': 'Bytecode.v, SymTab.v, Vm.v, Compile*Proofs.v', 'C18': 'FmtCmd*.v',
          'C19': 'Svg*.v', 'C20': 'Seal*.v'}
print("| Property | Theorems (`_partial` / regression `_before_fix`,`_refuted`) | Model files | Correspondence cases (quick, seed 1) | Known findings |")
print("|---|---|---|---|---|")
for f in sorted(glob.glob(os.path.join(ROOT, 'evidence', 'C*.json'))):
    d = json.load(open(f)); cov = d['coverage']
    pid = os.path.basename(f)[:-5]
    th = cov.get('theorems', []) or list(cov.get('axioms_per_theorem', {}).keys())
    npart = sum(1 for t in th if 'partial' in t)
    nref = sum(1 for t in th if 'refuted' in t or 'before_fix' in t)
    kf = 0
    p = os.path.join(ROOT, 'findings.d', pid + '.txt')
    if os.path.exists(p):
        kf = sum(1 for l in open(p) if l.startswith('finding:'))
    print(f"| {pid} | {len(th)} ({npart} / {nref}) | {models[pid]} | {cov.get('evaluations')} | {kf} |")
