package main

import (
	"fmt"
	"math/rand"
	"strings"
)

// C09 — copy vs share: alias-creating programs (declaration, assignment,
// arguments, returns, element/field stores and reads, any-boxing, err/errmsg)
// followed by updates through one alias and observation of all; compared with
// the store model on printed values AND on the cell-identity dump; property
// oracle on the implementation: no basic cell is reachable twice from the
// globals (basic values are copied), composite aliases share one cell.

func c09Program(rng *rand.Rand) string {
	var b strings.Builder
	w := func(f string, a ...any) { fmt.Fprintf(&b, f+"\n", a...) }
	w("x1 := 1\nx2 := 2\nb1 := false\nb2 := true\ns1 := \"p\"\ns2 := \"q\"")
	w("an := [10 20 30]\nab := [false true]\nas := [\"u\" \"v\"]\nmn := {a:1 b:2}\nmb := {a:true}\nnn := [[1 2] [3]]")
	w("w1:any\nw2:any\nw1 = 5\nw2 = an")
	w("mixa := [[1] \"tag\"]\nmixm := [{name:\"c\" items:[0]}]")
	w("func setp p:num q:[]num\n    p = 99\n    q[0] = 77\nend")
	w("func idn:num p:num\n    return p\nend")
	w("func ide:bool\n    return err\nend")
	w("func idm:string\n    return errmsg\nend")
	w("func ida:[]num p:[]num\n    return p\nend")
	w("func show3 e:bool m:string n:num\n    print \"show3\" e m n\n    b1 = e\n    s1 = m\nend")
	w("func showv a:any...\n    print \"showv\" a\nend")
	conv := func() string {
		return []string{`(str2num "bad")`, `(str2num "4")`, `(str2bool "bad")`, `(str2bool "true")`, `(str2num "")`}[rng.Intn(5)]
	}
	ops := []func(){
		// a bare err / errmsg EARLIER in the same argument list / array literal / map literal as a LATER term that
		// changes the error state in place: the earlier value must be the one read when its term was evaluated
		func() { w("show3 err errmsg %s", strings.Replace(conv(), "str2bool", "str2num", 1)) },
		func() { w("print \"pr\" err errmsg %s err errmsg", conv()) },
		func() { w("showv err %s errmsg %s err", conv(), conv()) },
		func() { nd2 := rng.Intn(1000); w("le%d := [err %s err]\nprint le%d\nab = le%d[:2]", nd2, strings.Replace(conv(), "str2num", "str2bool", 1), nd2, nd2) },
		func() { nd2 := rng.Intn(1000); w("lm%d := [errmsg (sprint %s) errmsg]\nprint lm%d\nas[0] = lm%d[0]", nd2, conv(), nd2, nd2) },
		func() { nd2 := rng.Intn(1000); w("mk%d := {a:err b:%s c:err}\nprint mk%d", nd2, strings.Replace(conv(), "str2num", "str2bool", 1), nd2) },
		func() { w("x1 = x2") }, func() { w("x2 = x1") }, func() { w("x1 = an[%d]", rng.Intn(3)) },
		func() { w("an[%d] = x1", rng.Intn(3)) }, func() { w("mn.a = x2") }, func() { w("x2 = mn.b") },
		func() { w("w1 = x1") }, func() { w("x1 = w1.(num)") }, func() { w("b1 = err") }, func() { w("s1 = errmsg") },
		func() { w("ab[0] = err") }, func() { w("mb.a = err") }, func() { w("as[1] = errmsg") }, func() { w("w1 = err") },
		func() { w("b2 = (ide)") }, func() { w("s2 = (idm)") }, func() { w("ab[1] = (ide)") },
		func() { w("x1 = (idn x2)") }, func() { w("setp x1 an") }, func() { w("an = (ida an)") },
		func() { w("x1 = x1 + 1") }, func() { w("x2 = %d", rng.Intn(50)) }, func() { w("an[%d] = %d", rng.Intn(3), rng.Intn(50)) },
		func() { w("mn.b = %d", rng.Intn(50)) }, func() { w("s2 = s2 + \"z\"") },
		func() { w("x2 = (str2num %q)", []string{"12", "bad", "7", "", "x"}[rng.Intn(5)]) },
		func() { w("b2 = (str2bool %q)", []string{"true", "bad", "0", "yes"}[rng.Intn(4)]) },
		func() { w("an = an + [%d]", rng.Intn(9)) }, func() { w("an = an[1:]") }, func() { w("an = an * 2") },
		func() { w("nn = nn * 2\nnn[0][0] = %d", rng.Intn(9)) }, func() { w("nn = nn + [[8]]\nnn[1][0] = %d", rng.Intn(9)) },
		func() { w("nn = nn[0:1]\nnn[0][0] = %d", rng.Intn(9)) },
		func() { w("w2 = an") }, func() { w("w2 = mn") }, func() { w("w2 = nn") },
		func() { w("for e := range an\n    e = e + 1\n    x1 = e\nend") },
		func() { w("for e := range ab\n    b1 = e\nend") },
		func() { w("if x1 > 0\n    t := x1\n    x1 = 0\n    x2 = t\nend") },
		func() { w("print x1 x2 b1 b2 s1 s2 err errmsg") },
		// the err/errmsg cells are read as strings/bools in place (indexing, slicing, ranging) between updates
		func() {
			w("if (len errmsg) > 3\n    print errmsg[0] errmsg[-1] errmsg[1:3] errmsg[:2]\nend\nfor c := range errmsg\n    s1 = c\nend")
		},
		func() { w("print (len errmsg) (errmsg == \"\") (errmsg + \"!\") (err == false) (!err)") },
	}
	// slices make a fresh OUTER array and share the inner composites - also when the bounds cover the whole array
	ops = append(ops,
		func() { k := rng.Intn(1000); w("sv%[1]d := nn[:]\nsv%[1]d[0][0] = %[2]d\nsv%[1]d[0] = [55]\nprint nn sv%[1]d", k, rng.Intn(9)) },
		func() { k := rng.Intn(1000); w("sw%[1]d := nn[0:]\nnn[0][0] = %[2]d\nprint nn sw%[1]d (nn[:(len nn)])", k, rng.Intn(9)) },
		func() { k := rng.Intn(1000); w("sx%[1]d := mixa[:]\nsy%[1]d := sx%[1]d[0].([]num)\nsy%[1]d[0] = %[2]d\nprint mixa sx%[1]d", k, rng.Intn(9)) },
		func() { k := rng.Intn(1000); w("sz%[1]d := mixm[-1:]\nsz%[1]d[0].name = \"z\"\nprint mixm sz%[1]d", k) },
	)
	// the loop variable of `for e := range arr` is a COPY of a basic element: a store into that element (through the
	// array, an alias or any-boxed) inside the same iteration must not show through e
	ops = append(ops,
		func() { k := rng.Intn(1000); w("li%[1]d := 0\nfor e := range an\n    an[li%[1]d] = e + 50\n    x1 = e\n    print \"lv\" e an[li%[1]d]\n    li%[1]d = li%[1]d + 1\nend", k) },
		func() { k := rng.Intn(1000); w("lj%[1]d := 0\nfor e := range as\n    as[lj%[1]d] = e + \"!\"\n    s1 = e\n    print \"lv\" e\n    lj%[1]d = lj%[1]d + 1\nend", k) },
		func() { k := rng.Intn(1000); w("la%[1]d := [1 \"two\" true]\nlk%[1]d := 0\nfor e := range la%[1]d\n    la%[1]d[lk%[1]d] = \"changed\"\n    print \"lv\" e la%[1]d\n    lk%[1]d = lk%[1]d + 1\nend", k) },
		func() { k := rng.Intn(1000); w("for k%[1]d := range mn\n    t%[1]d := mn[k%[1]d]\n    mn[k%[1]d] = t%[1]d + 7\n    print \"lm\" k%[1]d t%[1]d mn\nend", k) },
	)
	// fresh aliases created by declaration in the middle
	nd := 0
	decl := []func(){
		func() { nd++; w("dn%d := x1", nd); w("print dn%d", nd) }, func() { nd++; w("da%d := an", nd); w("da%d[0] = %d", nd, rng.Intn(9)) },
		func() { nd++; w("dm%d := mn", nd); w("dm%d.a = %d", nd, rng.Intn(9)) }, func() { nd++; w("de%d := err", nd); w("print de%d", nd) },
		func() { nd++; w("ds%d := errmsg", nd); w("print ds%d", nd) }, func() { nd++; w("dw%d := w2", nd); w("print dw%d", nd) },
		func() { nd++; w("dl%d := [x1 x2]", nd); w("dl%d[0] = 5", nd) }, func() { nd++; w("dk%d := {k:err}", nd); w("print dk%d", nd) },
		func() { nd++; w("dy%d := [err]", nd); w("print dy%d", nd) }, func() { nd++; w("dz%d := nn[0]", nd); w("dz%d[0] = %d", nd, rng.Intn(9)) },
		// repetition of any-held composites, then an update through one copy
		func() {
			nd++
			w("ra%[1]d := mixa * 2\nta%[1]d := ra%[1]d[0].([]num)\nta%[1]d[0] = %[2]d\nprint ra%[1]d mixa", nd, rng.Intn(9))
		},
		func() {
			nd++
			w("mixa = mixa * 2\ntb%[1]d := mixa[2].([]num)\ntb%[1]d[0] = %[2]d\nprint mixa", nd, rng.Intn(9))
		},
		func() {
			nd++
			w("rm%[1]d := mixm * 2\ntm%[1]d := rm%[1]d[0].items.([]num)\ntm%[1]d[0] = %[2]d\nprint rm%[1]d mixm", nd, rng.Intn(9))
		},
		func() { nd++; w("rn%[1]d := [nn] * 2\nrn%[1]d[0][0][0] = %[2]d\nprint rn%[1]d nn", nd, rng.Intn(9)) },
		func() { nd++; w("rw%[1]d := [w2 w1] * 2\nprint rw%[1]d", nd) },
	}
	n := 4 + rng.Intn(10)
	for i := 0; i < n; i++ {
		if rng.Intn(4) == 0 {
			decl[rng.Intn(len(decl))]()
		} else {
			ops[rng.Intn(len(ops))]()
		}
	}
	w("print x1 x2 b1 b2 s1 s2 an ab as mn mb nn w1 w2 mixa mixm err errmsg")
	return b.String()
}

// c09SharedBasic inspects the implementation's globals dump: a (ref n) to a num/str/bool cell means
// two places hold the same basic cell.
func c09SharedBasic(dump string) (string, bool) {
	x, err := ParseSX(dump)
	if err != nil {
		return "", false
	}
	kind := map[string]string{}
	var walk func(n SX) (string, bool)
	walk = func(n SX) (string, bool) {
		if n.Kind != "lst" || len(n.L) == 0 {
			return "", false
		}
		if n.L[0].Kind == "sym" && n.L[0].S == "ref" {
			if k := kind[n.L[1].S]; k == "num" || k == "str" || k == "bool" {
				return k + " cell #" + n.L[1].S, true
			}
			return "", false
		}
		if n.L[0].Kind == "int" && len(n.L) >= 2 {
			kind[n.L[0].S] = n.L[1].S
			for _, c := range n.L[2:] {
				if c.Kind == "lst" && len(c.L) == 2 && c.L[0].Kind == "str" { // map entry
					if s, ok := walk(c.L[1]); ok {
						return s, true
					}
				} else if s, ok := walk(c); ok {
					return s, true
				}
			}
		}
		return "", false
	}
	for _, g := range x.L {
		if len(g.L) == 2 {
			if s, ok := walk(g.L[1]); ok {
				return g.L[0].S + ": " + s, true
			}
		}
	}
	return "", false
}

func c09One(model *Model, r *Result, src string) SemDiff {
	return c09Events(model, r, src, nil, "")
}

func c09Events(model *Model, r *Result, src string, evs []SemEvent, tag string) SemDiff {
	d := semCase(model, r, src, SemOpts{StopAt: -1, YieldBudget: 50000, Events: evs}, true, tag)
	if d.Impl.ParseErr != "" {
		r.Note("parse error in alias program: %s", d.Impl.ParseErr)
		return d
	}
	for _, p := range d.Impl.Phases {
		if where, shared := c09SharedBasic(p.Globals); shared {
			r.Violate(Violation{Kind: "property", Key: "basic-cell-shared",
				Detail: "two places hold the same num/string/bool cell (a basic value was not copied): " + where,
				Input:  map[string]any{"program": src, "events": evs}, Impl: p.Globals})
		}
	}
	return d
}

func runC09(cfg Config, r *Result) {
	model := startSem(r)
	if model == nil {
		return
	}
	defer model.Close()
	r.Rule = "alias programs: a fixed pool of basic, array, map, nested and any variables and helper functions, then 4-13 random steps drawn from ~50 alias-creating / updating / observing statement shapes (assignment, declaration, element and field store/read, any boxing and assertion, argument passing, return values incl. err/errmsg, loop variables, slicing/concatenation/repetition followed by inner updates, failing and succeeding str2num/str2bool), final print of everything; plus random typed programs that use err/errmsg as expressions; plus loop-alias programs (1-3 for-range loops, some nested, over arrays of arrays / maps / any-boxed composites given as variable, slice, concatenation, repetition, literal, call result or any assertion, whose bodies store the loop variable in chosen iterations through ~20 store forms - assignment, declaration, append, element / map-value / any store, argument kept by the callee, return value, fresh copy - and update it in place, then updates through sinks and sources); plus repeated-site programs (one container type out of 11 - maps of num / string / bool / arrays / maps / any, arrays of num / string / maps / arrays / any; literal, slice, concatenation and repetition sites, some sharing parts with globals, placed in function bodies, for / while / nested loop bodies, a recursive function, argument position and event handlers, each evaluated 2-6 times; every instance kept; 2-4 rounds of one in-place update of one instance - del of first / middle / last / absent key, field and index stores of old and new keys, delete-and-reinsert, updates while ranging, nested stores, stores through any assertions - followed by print / sprint / range / len / has / == / element reads of the other instances and by further instances from the same sites; events delivered afterwards; own oracle: an instance that shares nothing prints the same before and after the update of another one); compared on outcome, prints, yields and the cell-identity dump of all globals; oracle: no basic cell reachable twice; every case non-trivial; distinct = distinct program text"
	if in, ok := replayInput(cfg); ok {
		evs := c10ReplayEvents(in)
		src := in["program"].(string)
		c09FreshOracle(r, src, evs, c09Events(model, r, src, evs, ""))
		return
	}
	n := cfg.N(1500, 40000)
	for i := 0; i < n; i++ {
		src := c09Program(cfg.Rng)
		c09One(model, r, src)
		if i < 2 {
			r.Sample(map[string]any{"program": src})
		}
	}
	m := cfg.N(300, 6000)
	for i := 0; i < m; i++ {
		src, _, _ := GenProgram(cfg.Rng, GenOpts{MaxStmts: 8, MaxDepth: 2, Funcs: true, ErrAlias: true})
		c09One(model, r, src)
	}
	// loop variables over arrays of composites aliased out of the loop body
	la := cfg.N(500, 12000)
	for i := 0; i < la; i++ {
		src := c09LoopAlias(cfg.Rng)
		c09One(model, r, src)
		if i < 1 {
			r.Sample(map[string]any{"program": src})
		}
	}
	// container sites evaluated repeatedly: every instance is a container of its own
	fs := cfg.N(300, 15000)
	for i := 0; i < fs; i++ {
		src, evs := c09FreshSites(cfg.Rng)
		d := c09Events(model, r, src, evs, "sites:")
		c09FreshOracle(r, src, evs, d)
		if i < 1 {
			r.Sample(map[string]any{"program": src, "events": evs})
		}
	}
}

func init() { register("C09", runC09) }

// c09LoopAlias: the loop variable of `for v := range <array>` whose elements are arrays / maps (directly, nested, or
// any-boxed) IS the element of that iteration: an alias of it taken in one iteration (assigned, declared, appended, stored as
// element / map value / any, passed to a function that keeps it, returned) keeps referring to THAT element after later
// iterations, also when the loop variable or the element is updated in place in between. Programs: a pool of arrays of
// composites and of sinks, 1-3 loops (some nested) over a random source form, each storing the loop variable through random
// store forms in chosen iterations, then updates through the sinks / the sources and a print of everything.
func c09LoopAlias(rng *rand.Rand) string {
	var b strings.Builder
	w := func(f string, a ...any) { fmt.Fprintf(&b, f+"\n", a...) }
	pick := func(l ...string) string { return l[rng.Intn(len(l))] }
	w("nn := [[1 2] [3 4] [5 6] [7 8]]\nam := [{a:1 b:2} {a:3 b:4} {a:5 b:6}]\nnnn := [[[1] [2 3]] [[4] [5 6]] [[7] [8 9]]]")
	w("ma := [{r:[1 2]} {r:[3 4]} {r:[5 6]}]\naw := [[1 2] {a:3} [4 5] {a:6}]\nw3:any\nw3 = [[11 12] [13 14] [15 16]]")
	w("keep := [0]\nkeepm := {z:0}\nrows := [[0] [0] [0] [0] [0] [0]]\nrowsm := [{z:0} {z:0} {z:0} {z:0}]\nbym := {z:[0]}\nbymm := {z:{z:0}}")
	w("wk:any\nwks:[]any\nplanes := [[[0]]]\nlast := [0]")
	w("func stash p:[]num\n    keep = p\nend")
	w("func stashm p:{}num\n    keepm = p\nend")
	w("func addrow p:[]num\n    rows = rows + [p]\nend")
	w("func ida:[]num p:[]num\n    return p\nend")
	w("func idm:{}num p:{}num\n    return p\nend")
	w("func mk:[][]num\n    return [[21 22] [23 24] [25 26]]\nend")
	w("func mkm:[]{}num\n    return [{a:21} {a:22} {a:23}]\nend")
	w("func first:[]num rs:[][]num\n    for r := range rs\n        if r[0] > 0\n            return r\n        end\n    end\n    return [0]\nend")
	id := 0
	// loops over rows of type []num
	arrLoop := func(ind, src string) {
		id++
		k, v := fmt.Sprintf("i%d", id), fmt.Sprintf("row%d", id)
		w("%s%s := 0", ind, k)
		w("%sfor %s := range %s", ind, v, src)
		in := ind + "    "
		if rng.Intn(3) == 0 {
			w("%s%s[0] = %s[0] + 100", in, v, v)
		}
		for j := 0; j < 1+rng.Intn(2); j++ {
			st := []string{
				"keep = V", "rows = rows + [V]", fmt.Sprintf("rows[%d] = V", rng.Intn(6)), "rows[K] = V", "bym[(sprint K)] = V", "bym.k = V",
				"wk = V", "wk = V\n" + in + "    wks = wks + [wk]", "stash V", "addrow V", "keep = (ida V)", "rows = [V V]", "bym = {a:V}",
				"t" + k + " := V\n" + in + "    keep = t" + k, "keep = V[:]", "rows = rows + [V] * 2", "wks = [V K]", "rows = [keep V]",
				"last = V", "planes = planes + [[V]]", "planes[0] = [V]",
			}[rng.Intn(21)]
			st = strings.ReplaceAll(strings.ReplaceAll(st, "V", v), "K", k)
			switch rng.Intn(4) {
			case 0:
				w("%s%s", in, strings.ReplaceAll(st, "\n"+in+"    ", "\n"+in))
			default:
				w("%sif %s == %d\n%s    %s\n%send", in, k, rng.Intn(3), in, st, in)
			}
		}
		switch rng.Intn(5) {
		case 0:
			w("%s%s[-1] = %d", in, v, 200+rng.Intn(9))
		case 1:
			w("%s%s = [%d]", in, v, 300+rng.Intn(9))
		case 2:
			w("%sif %s == %d\n%s    break\n%send", in, k, 1+rng.Intn(2), in, in)
		}
		w("%s%s = %s + 1", in, k, k)
		w("%send", ind)
	}
	mapLoop := func(ind, src string) {
		id++
		k, v := fmt.Sprintf("i%d", id), fmt.Sprintf("m%d", id)
		w("%s%s := 0", ind, k)
		w("%sfor %s := range %s", ind, v, src)
		in := ind + "    "
		if rng.Intn(3) == 0 {
			w("%s%s.a = %s.a + 100", in, v, v)
		}
		for j := 0; j < 1+rng.Intn(2); j++ {
			st := []string{
				"keepm = V", "rowsm = rowsm + [V]", fmt.Sprintf("rowsm[%d] = V", rng.Intn(4)), "rowsm[K] = V", "bymm[(sprint K)] = V", "bymm.k = V",
				"wk = V", "wk = V\n" + in + "    wks = wks + [wk]", "stashm V", "keepm = (idm V)", "rowsm = [V V]", "bymm = {a:V}",
				"t" + k + " := V\n" + in + "    keepm = t" + k, "rowsm = rowsm + [V] * 2", "rowsm = [keepm V]",
			}[rng.Intn(15)]
			st = strings.ReplaceAll(strings.ReplaceAll(st, "V", v), "K", k)
			switch rng.Intn(4) {
			case 0:
				w("%s%s", in, strings.ReplaceAll(st, "\n"+in+"    ", "\n"+in))
			default:
				w("%sif %s == %d\n%s    %s\n%send", in, k, rng.Intn(3), in, st, in)
			}
		}
		switch rng.Intn(5) {
		case 0:
			w("%s%s.n = %d", in, v, 200+rng.Intn(9))
		case 1:
			w("%s%s = {c:%d}", in, v, 300+rng.Intn(9))
		case 2:
			w("%sif %s == %d\n%s    break\n%send", in, k, 1+rng.Intn(2), in, in)
		}
		w("%s%s = %s + 1", in, k, k)
		w("%send", ind)
	}
	arrSrc := func() string {
		return pick("nn", "nn", "nn[:]", "nn[1:]", "nn[:3]", "(nn + [[31 32]])", "[[41 42] [43 44] [45 46]]", "(mk)", "(nn * 2)", "w3.([][]num)", "rows", "([keep] + nn)", "[nn[2] nn[0] nn[1]]")
	}
	mapSrc := func() string {
		return pick("am", "am", "am[:]", "am[1:]", "(am + [{a:31}])", "[{a:41} {a:42} {a:43}]", "(mkm)", "(am * 2)", "rowsm", "([keepm] + am)")
	}
	for n := 1 + rng.Intn(3); n > 0; n-- {
		switch rng.Intn(8) {
		case 0, 1, 2:
			arrLoop("", arrSrc())
		case 3, 4:
			mapLoop("", mapSrc())
		case 5: // nested: the outer loop variable is itself an array of arrays
			id++
			p := fmt.Sprintf("pl%d", id)
			w("for %s := range %s", p, pick("nnn", "nnn[:]", "(nnn + [nn])", "[nn nn[1:]]"))
			if rng.Intn(2) == 0 {
				w("    planes = planes + [%s]", p)
			} else {
				w("    if %s[0][0] == %s\n        planes[0] = %s\n    end", p, pick("1", "4", "7"), p)
			}
			arrLoop("    ", p)
			w("end")
		case 6: // map elements holding arrays; the stored alias is the field of the loop variable or the variable itself
			id++
			m := fmt.Sprintf("mr%d", id)
			w("for %s := range %s", m, pick("ma", "ma[:]", "(ma + [{r:[9]}])"))
			w("    if %s.r[0] == %s\n        %s\n    end", m, pick("1", "3", "5"), strings.ReplaceAll(pick("keep = M.r", "wk = M", "wk = M\n        wks = wks + [wk]", "rows = rows + [M.r]", "bym = M"), "M", m))
			if rng.Intn(2) == 0 {
				w("    %s.r = [%d]", m, 400+rng.Intn(9))
			}
			w("end")
		default: // any-boxed composites: the loop variable is an any cell, the stored alias its asserted content
			id++
			e := fmt.Sprintf("e%d", id)
			w("for %s := range %s", e, pick("aw", "aw[:]", "aw[1:]", "(wks + aw)"))
			w("    if (typeof %s) == \"[]num\"\n        %s\n    else if (typeof %s) == \"{}num\"\n        %s\n    else\n        wk = %s\n    end", e,
				strings.ReplaceAll(pick("keep = E.([]num)", "rows = rows + [E.([]num)]", "wk = E", "wks = wks + [E]", "wks = [E E]"), "E", e), e,
				strings.ReplaceAll(pick("keepm = E.({}num)", "rowsm = rowsm + [E.({}num)]", "wk = E", "wks = wks + [E]", "wks = [E E]"), "E", e), e)
			w("end")
		}
		if rng.Intn(3) == 0 {
			w("keep = (first %s)", arrSrc())
		}
	}
	// updates through the sinks and the sources, then everything is printed
	for n := 1 + rng.Intn(4); n > 0; n-- {
		w("%s", pick("keep[0] = 91", "keepm.a = 92", "rows[-1][0] = 93", "rows[0][0] = 94", "rowsm[-1].a = 95", "rowsm[0].a = 96", "nn[1][0] = 97", "nn[2][1] = 98",
			"am[1].a = 99", "am[0].b = 90", "nnn[1][0][0] = 89", "last[0] = 88", "nn[0] = [87]", "keep = keep + [86]", "planes[-1][0][0] = 85", "ma[1].r[0] = 84"))
	}
	w("print nn am nnn ma aw w3")
	w("print keep keepm rows rowsm bym bymm wk wks planes last")
	return b.String()
}
