package main

import (
	"fmt"
	"math/rand"
	"strings"
)

// Type-directed generator of (mostly) well-typed, terminating evy programs.
// Every random choice comes from the one *rand.Rand handed in.

type gty struct {
	k   string // num string bool any arr map
	sub *gty
}

var (
	tNum  = &gty{k: "num"}
	tStr  = &gty{k: "string"}
	tBool = &gty{k: "bool"}
	tAny  = &gty{k: "any"}
)

func tArr(s *gty) *gty { return &gty{k: "arr", sub: s} }
func tMap(s *gty) *gty { return &gty{k: "map", sub: s} }

func (t *gty) String() string {
	switch t.k {
	case "arr":
		return "[]" + t.sub.String()
	case "map":
		return "{}" + t.sub.String()
	}
	return t.k
}

func (t *gty) eq(u *gty) bool {
	if t.k != u.k {
		return false
	}
	if t.sub == nil || u.sub == nil {
		return t.sub == u.sub
	}
	return t.sub.eq(u.sub)
}

type gvar struct {
	name string
	t    *gty
}

type gfunc struct {
	name   string
	params []gvar
	ret    *gty // nil = procedure
}

type GenOpts struct {
	MaxStmts   int
	MaxDepth   int
	Funcs      bool
	Handlers   bool
	Specials   bool // NaN / Inf / -0 / huge values
	Tests      bool // `test` calls
	Reads      bool
	Gfx        bool
	MapLitPure bool // map literal values without side effects (evalMapLiteral order is a known C08 finding)
	ErrAlias   bool // programs that alias err/errmsg (known C09 finding)
	Empties    bool // empty literals [] {} in arbitrary expression positions (parser stress)
	// MoreBuiltins adds calls of the built-ins of the proved C02 fragment that the other options never emit: printf
	// (statement), sprintf with number / composite / missing / non-string format operands, hsl, sqrt, pow, atan2, log,
	// sin, cos, rand, rand1 and the remaining simple graphics calls. Off: the random stream is unchanged.
	MoreBuiltins bool
}

type progGen struct {
	rng     *rand.Rand
	o       GenOpts
	scopes  [][]gvar
	funcs   []gfunc
	nname   int
	inLoop  int
	retType *gty
	inFunc  bool
	b       strings.Builder
	stats   map[string]int
}

func (g *progGen) fresh(prefix string) string {
	g.nname++
	return fmt.Sprintf("%s%d", prefix, g.nname)
}

func (g *progGen) pick(n int) int { return g.rng.Intn(n) }

func (g *progGen) varsOf(t *gty) []gvar {
	var out []gvar
	seen := map[string]bool{}
	for i := len(g.scopes) - 1; i >= 0; i-- {
		for j := len(g.scopes[i]) - 1; j >= 0; j-- {
			v := g.scopes[i][j]
			if seen[v.name] {
				continue
			}
			seen[v.name] = true
			if v.t.eq(t) {
				out = append(out, v)
			}
		}
	}
	return out
}

func (g *progGen) allVars() []gvar {
	var out []gvar
	seen := map[string]bool{}
	for i := len(g.scopes) - 1; i >= 0; i-- {
		for j := len(g.scopes[i]) - 1; j >= 0; j-- {
			v := g.scopes[i][j]
			if !seen[v.name] {
				seen[v.name] = true
				out = append(out, v)
			}
		}
	}
	return out
}

var genTypes = []*gty{tNum, tNum, tNum, tStr, tStr, tBool, tAny, tArr(tNum), tArr(tNum), tArr(tStr), tArr(tAny),
	tArr(tArr(tNum)), tMap(tNum), tMap(tNum), tMap(tAny), tMap(tArr(tNum))}

func (g *progGen) randType() *gty { return genTypes[g.pick(len(genTypes))] }

var numLits = []string{"0", "1", "2", "3", "4", "5", "7", "10", "12", "0.5", "2.25", "-1", "-3", "100", "1.5"}
var strLits = []string{`""`, `"a"`, `"b"`, `"abc"`, `"x y"`, `"äö"`, `"日本"`, `"12"`, `"true"`, `"k1"`, `"hello world"`, `"1.5"`, `"zz9"`}
var keyLits = []string{"a", "b", "c", "k1", "name"}

// paren wraps compound expressions so that they are legal as call arguments and array elements.
func paren(s string) string {
	if strings.ContainsAny(s, " ") && !(strings.HasPrefix(s, "(") && balancedOuter(s)) && !(strings.HasPrefix(s, "[") && balancedOuterBr(s, '[', ']')) &&
		!(strings.HasPrefix(s, "{") && balancedOuterBr(s, '{', '}')) && !(strings.HasPrefix(s, `"`) && strings.Count(s, `"`) == 2 && strings.HasSuffix(s, `"`)) {
		return "(" + s + ")"
	}
	return s
}

func balancedOuter(s string) bool { return balancedOuterBr(s, '(', ')') }

func balancedOuterBr(s string, o, c byte) bool {
	d := 0
	inStr := false
	for i := 0; i < len(s); i++ {
		ch := s[i]
		if ch == '"' {
			inStr = !inStr
		}
		if inStr {
			continue
		}
		if ch == o {
			d++
		} else if ch == c {
			d--
			if d == 0 && i != len(s)-1 {
				return false
			}
		}
	}
	return d == 0
}

func (g *progGen) expr(t *gty, depth int) string {
	g.stats["expr:"+t.k]++
	vs := g.varsOf(t)
	if len(vs) > 0 && g.pick(3) == 0 {
		return vs[g.pick(len(vs))].name
	}
	leaf := depth <= 0
	switch t.k {
	case "num":
		if leaf {
			if g.o.Specials && g.pick(12) == 0 {
				return []string{"(0/0)", "(1/0)", "(-1/0)", "(-0)", "9007199254740992", "9223372036854775808", "(9007199254740992*9007199254740992*9007199254740992)"}[g.pick(7)]
			}
			return numLits[g.pick(len(numLits))]
		}
		switch g.pick(14) {
		case 0, 1, 2:
			op := []string{"+", "-", "*", "/", "%"}[g.pick(5)]
			return g.expr(tNum, depth-1) + " " + op + " " + g.expr(tNum, depth-1)
		case 3:
			return "-" + paren(g.expr(tNum, depth-1))
		case 4:
			lt := []*gty{tStr, tArr(tNum), tMap(tNum), tArr(tAny)}[g.pick(4)]
			return "(len " + paren(g.expr(lt, depth-1)) + ")"
		case 5:
			return paren(g.expr(tArr(tNum), depth-1)) + "[" + g.idx(depth-1) + "]"
		case 6:
			if g.pick(2) == 0 {
				return paren(g.expr(tMap(tNum), depth-1)) + "." + keyLits[g.pick(len(keyLits))]
			}
			return paren(g.expr(tMap(tNum), depth-1)) + "[" + g.expr(tStr, depth-1) + "]"
		case 7:
			return paren(g.expr(tAny, depth-1)) + ".(num)"
		case 8:
			fn := []string{"min", "max"}[g.pick(2)]
			return "(" + fn + " " + paren(g.expr(tNum, depth-1)) + " " + paren(g.expr(tNum, depth-1)) + ")"
		case 9:
			return "(abs " + paren(g.expr(tNum, depth-1)) + ")"
		case 10:
			return "(str2num " + paren(g.expr(tStr, depth-1)) + ")"
		case 11:
			if f := g.funcOf(tNum); f != nil {
				return g.call(f, depth-1)
			}
			return numLits[g.pick(len(numLits))]
		case 12:
			// pure math / string built-ins with a num result (modelled through coq/Builtins.v)
			if g.pick(3) == 0 {
				return "(index " + paren(g.expr(tStr, depth-1)) + " " + paren(g.expr(tStr, depth-1)) + ")"
			}
			fn := []string{"floor", "ceil", "round"}[g.pick(3)]
			return "(" + fn + " " + paren(g.expr(tNum, depth-1)) + ")"
		default:
			if g.o.MoreBuiltins && g.pick(2) == 0 {
				switch g.pick(4) {
				case 0:
					fn := []string{"pow", "atan2"}[g.pick(2)]
					return "(" + fn + " " + paren(g.expr(tNum, depth-1)) + " " + paren(g.expr(tNum, depth-1)) + ")"
				case 1:
					fn := []string{"sqrt", "log", "sin", "cos"}[g.pick(4)]
					return "(" + fn + " " + paren(g.expr(tNum, depth-1)) + ")"
				case 2:
					return "(rand " + paren(g.expr(tNum, depth-1)) + ")"
				default:
					return "(rand1)"
				}
			}
			return "(" + g.expr(tNum, depth-1) + ")"
		}
	case "string":
		if leaf {
			return strLits[g.pick(len(strLits))]
		}
		switch g.pick(12) {
		case 10:
			// pure string built-ins (modelled through coq/Builtins.v; non-ASCII case mapping is an oracle)
			switch g.pick(3) {
			case 0:
				fn := []string{"upper", "lower"}[g.pick(2)]
				return "(" + fn + " " + paren(g.expr(tStr, depth-1)) + ")"
			case 1:
				return "(trim " + paren(g.expr(tStr, depth-1)) + " " + paren(g.expr(tStr, depth-1)) + ")"
			default:
				return "(replace " + paren(g.expr(tStr, depth-1)) + " " + paren(g.expr(tStr, depth-1)) + " " + paren(g.expr(tStr, depth-1)) + ")"
			}
		case 11:
			if g.pick(2) == 0 {
				// sprintf on string / bool operands (number formatting is an oracle of the model)
				f := []struct {
					format string
					kinds  string
				}{{`"%s-%v"`, "ss"}, {`"[%5s|%-4s]"`, "ss"}, {`"%q %t"`, "sb"}, {`"%v %d"`, "bs"}, {`"%s"`, "ss"}, {`"%s %s"`, "s"}}[g.pick(6)]
				out := "(sprintf " + f.format
				for _, k := range f.kinds {
					if k == 's' {
						out += " " + paren(g.expr(tStr, depth-1))
					} else {
						out += " " + paren(g.expr(tBool, depth-1))
					}
				}
				return out + ")"
			}
			return "(join (split " + paren(g.expr(tStr, depth-1)) + " " + paren(g.expr(tStr, depth-1)) + ") " + paren(g.expr(tStr, depth-1)) + ")"
		case 0, 1:
			return g.expr(tStr, depth-1) + " + " + g.expr(tStr, depth-1)
		case 2:
			return paren(g.expr(tStr, depth-1)) + "[" + g.idx(depth-1) + "]"
		case 3:
			return paren(g.expr(tStr, depth-1)) + "[" + g.optIdx(depth-1) + ":" + g.optIdx(depth-1) + "]"
		case 4:
			return "(sprint " + paren(g.expr(g.randType(), depth-1)) + " " + paren(g.expr(g.randType(), depth-1)) + ")"
		case 5:
			return "(typeof " + paren(g.expr(g.randType(), depth-1)) + ")"
		case 6:
			return "(join " + paren(g.expr(tArr(tStr), depth-1)) + " " + paren(g.expr(tStr, depth-1)) + ")"
		case 7:
			if f := g.funcOf(tStr); f != nil {
				return g.call(f, depth-1)
			}
			return strLits[g.pick(len(strLits))]
		case 8:
			if g.o.ErrAlias {
				return "errmsg"
			}
			return strLits[g.pick(len(strLits))]
		default:
			if g.o.MoreBuiltins && g.pick(2) == 0 {
				switch g.pick(3) {
				case 0:
					// hsl: 1-4 num arguments (0 or more than 4: the evy panic "bad arguments")
					out := "(hsl"
					for i, n := 0, g.pick(6); i < n; i++ {
						out += " " + paren(g.expr(tNum, depth-1))
					}
					return out + ")"
				default:
					return "(sprintf" + g.fmtOperands(depth-1) + ")"
				}
			}
			return paren(g.expr(tAny, depth-1)) + ".(string)"
		}
	case "bool":
		if leaf {
			return []string{"true", "false"}[g.pick(2)]
		}
		switch g.pick(12) {
		case 0, 1:
			op := []string{"<", ">", "<=", ">=", "==", "!="}[g.pick(6)]
			return g.expr(tNum, depth-1) + " " + op + " " + g.expr(tNum, depth-1)
		case 2:
			op := []string{"<", ">", "<=", ">=", "==", "!="}[g.pick(6)]
			return g.expr(tStr, depth-1) + " " + op + " " + g.expr(tStr, depth-1)
		case 3:
			et := g.randType()
			op := []string{"==", "!="}[g.pick(2)]
			return paren(g.expr(et, depth-1)) + " " + op + " " + paren(g.expr(et, depth-1))
		case 4, 5:
			op := []string{"and", "or"}[g.pick(2)]
			return g.expr(tBool, depth-1) + " " + op + " " + g.expr(tBool, depth-1)
		case 6:
			return "!" + paren(g.expr(tBool, depth-1))
		case 7:
			return "(has " + paren(g.expr(tMap(tNum), depth-1)) + " " + paren(g.expr(tStr, depth-1)) + ")"
		case 8:
			fn := []string{"startswith", "endswith"}[g.pick(2)]
			return "(" + fn + " " + paren(g.expr(tStr, depth-1)) + " " + paren(g.expr(tStr, depth-1)) + ")"
		case 9:
			if f := g.funcOf(tBool); f != nil {
				return g.call(f, depth-1)
			}
			return "true"
		case 10:
			if g.o.ErrAlias {
				return "err"
			}
			return "(str2bool " + paren(g.expr(tStr, depth-1)) + ")"
		default:
			return "(" + g.expr(tBool, depth-1) + ")"
		}
	case "any":
		// any variable or a type assertion-free use: values of any type convert implicitly only
		// in declarations/arguments; as an expression of static type any we need an any variable
		// or an element of an []any / {}any
		if !leaf {
			switch g.pick(3) {
			case 0:
				return paren(g.expr(tArr(tAny), depth-1)) + "[" + g.idx(depth-1) + "]"
			case 1:
				return paren(g.expr(tMap(tAny), depth-1)) + "." + keyLits[g.pick(len(keyLits))]
			}
		}
		if len(vs) > 0 {
			return vs[g.pick(len(vs))].name
		}
		// an []any literal element
		return "[" + g.expr([]*gty{tNum, tStr, tBool}[g.pick(3)], 0) + ` "s" 0][0]`
	case "arr":
		if leaf || g.pick(3) == 0 {
			n := g.pick(4)
			if n == 0 && !g.o.Empties {
				n = 1
			}
			els := make([]string, n)
			for i := range els {
				els[i] = paren(g.expr(t.sub, depth-1))
			}
			if t.sub.k == "any" && n > 0 {
				// force []any by mixing kinds
				els = append(els, `"mix"`, "1")
			}
			if n == 0 {
				return "[]"
			}
			return "[" + strings.Join(els, " ") + "]"
		}
		if t.sub.k == "string" && g.pick(5) == 0 {
			return "(split " + paren(g.expr(tStr, depth-1)) + " " + paren(g.expr(tStr, depth-1)) + ")"
		}
		switch g.pick(6) {
		case 0, 1:
			return g.expr(t, depth-1) + " + " + g.expr(t, depth-1)
		case 2:
			return paren(g.expr(t, depth-1)) + " * " + []string{"0", "1", "2", "3", "(-1)", "1.5", paren(g.expr(tNum, depth-1))}[g.pick(7)]
		case 3:
			return paren(g.expr(t, depth-1)) + "[" + g.optIdx(depth-1) + ":" + g.optIdx(depth-1) + "]"
		case 4:
			if f := g.funcOf(t); f != nil {
				return g.call(f, depth-1)
			}
			fallthrough
		default:
			if t.sub.k == "arr" {
				return paren(g.expr(tArr(t), depth-1)) + "[" + g.idx(depth-1) + "]"
			}
			return "(" + g.expr(t, depth-1) + ")"
		}
	case "map":
		n := g.pick(4)
		if n == 0 && !g.o.Empties {
			n = 1
		}
		if n == 0 {
			return "{}"
		}
		perm := g.rng.Perm(len(keyLits))
		parts := make([]string, 0, n)
		for _, i := range perm[:n] {
			vd := depth - 1
			if g.o.MapLitPure {
				vd = 0
			}
			parts = append(parts, keyLits[i]+":"+paren(g.expr(t.sub, vd)))
		}
		if t.sub.k == "any" {
			parts = append(parts, `zs:"mix"`, "zn:1")
		}
		return "{" + strings.Join(parts, " ") + "}"
	}
	return "0"
}

func (g *progGen) idx(depth int) string {
	switch g.pick(16) {
	case 0:
		return g.expr(tNum, depth)
	case 1:
		return "-1"
	case 2:
		return "0.5"
	case 3:
		return "5"
	default:
		return []string{"0", "0", "0", "1", "-1"}[g.pick(5)]
	}
}

func (g *progGen) optIdx(depth int) string {
	if g.pick(3) == 0 {
		return ""
	}
	return g.idx(depth)
}

func (g *progGen) funcOf(t *gty) *gfunc {
	var c []*gfunc
	for i := range g.funcs {
		if g.funcs[i].ret != nil && g.funcs[i].ret.eq(t) {
			c = append(c, &g.funcs[i])
		}
	}
	if len(c) == 0 {
		return nil
	}
	return c[g.pick(len(c))]
}

func (g *progGen) call(f *gfunc, depth int) string {
	parts := []string{f.name}
	for _, p := range f.params {
		parts = append(parts, paren(g.expr(p.t, depth)))
	}
	if f.ret != nil {
		return "(" + strings.Join(parts, " ") + ")"
	}
	return strings.Join(parts, " ")
}

func (g *progGen) line(indent int, s string) {
	g.b.WriteString(strings.Repeat("    ", indent) + s + "\n")
}

func (g *progGen) declare(v gvar) { g.scopes[len(g.scopes)-1] = append(g.scopes[len(g.scopes)-1], v) }

func (g *progGen) push() { g.scopes = append(g.scopes, nil) }

// pop ends a scope: every variable declared in it gets used
func (g *progGen) pop(indent int, terminated bool) {
	vs := g.scopes[len(g.scopes)-1]
	g.scopes = g.scopes[:len(g.scopes)-1]
	if len(vs) > 0 && !terminated {
		names := make([]string, len(vs))
		for i, v := range vs {
			names[i] = v.name
		}
		g.line(indent, "print "+strings.Join(names, " "))
	}
}

// useVars emits the print of the innermost scope's variables early (before a terminating statement).
func (g *progGen) useVars(indent int) {
	vs := g.scopes[len(g.scopes)-1]
	if len(vs) > 0 {
		names := make([]string, len(vs))
		for i, v := range vs {
			names[i] = v.name
		}
		g.line(indent, "print "+strings.Join(names, " "))
	}
}

// block emits n statements; returns true if the block ended with a terminating statement.
func (g *progGen) block(indent, n, depth int) bool {
	for i := 0; i < n; i++ {
		if g.stmt(indent, depth, i == n-1) {
			return true
		}
	}
	return false
}

func (g *progGen) stmt(indent, depth int, last bool) (terminated bool) {
	d := g.o.MaxDepth
	k := g.pick(26)
	g.stats["stmt"]++
	switch {
	case k < 5: // inferred declaration
		t := g.randType()
		if t.k == "any" {
			name := g.fresh("w")
			g.line(indent, name+":any")
			g.declare(gvar{name, tAny})
			g.line(indent, name+" = "+g.expr(g.randType(), d))
			return false
		}
		e := g.expr(t, d)
		if (t.k == "arr" || t.k == "map") && g.pick(6) == 0 {
			e = map[string]string{"arr": "[]", "map": "{}"}[t.k]
		}
		name := g.fresh("v")
		if (t.k == "arr" || t.k == "map") && (e == "[]" || e == "{}" || t.sub.k == "any") {
			// typed declaration + assignment keeps the intended static type
			g.line(indent, name+":"+t.String())
			g.declare(gvar{name, t})
			g.line(indent, name+" = "+e)
			return false
		}
		g.line(indent, name+" := "+e)
		g.declare(gvar{name, t})
	case k < 6: // typed declaration (zero value)
		t := g.randType()
		name := g.fresh("z")
		g.line(indent, name+":"+t.String())
		g.declare(gvar{name, t})
	case k < 9: // assignment to a variable
		vs := g.allVars()
		if len(vs) == 0 {
			g.line(indent, "print "+paren(g.expr(g.randType(), d)))
			return false
		}
		v := vs[g.pick(len(vs))]
		if v.t.k == "any" {
			g.line(indent, v.name+" = "+g.expr(g.randType(), d))
		} else {
			g.line(indent, v.name+" = "+g.expr(v.t, d))
		}
	case k < 11: // element / field assignment
		var c []gvar
		for _, v := range g.allVars() {
			if v.t.k == "arr" || v.t.k == "map" {
				c = append(c, v)
			}
		}
		if len(c) == 0 {
			g.line(indent, "print "+paren(g.expr(tStr, d)))
			return false
		}
		v := c[g.pick(len(c))]
		val := g.expr(v.t.sub, d-1)
		if v.t.sub.k == "any" {
			val = g.expr([]*gty{tNum, tStr, tBool, tArr(tNum)}[g.pick(4)], d-1)
		}
		if v.t.k == "arr" {
			g.line(indent, v.name+"["+g.idx(1)+"] = "+val)
		} else if g.pick(2) == 0 {
			g.line(indent, v.name+"."+keyLits[g.pick(len(keyLits))]+" = "+val)
		} else {
			g.line(indent, v.name+"["+g.expr(tStr, 1)+"] = "+val)
		}
	case k < 15: // print
		n := 1 + g.pick(3)
		parts := make([]string, n)
		for i := range parts {
			parts[i] = paren(g.expr(g.randType(), d))
		}
		g.line(indent, "print "+strings.Join(parts, " "))
	case k < 17 && depth > 0: // if / else if / else
		g.line(indent, "if "+g.expr(tBool, d))
		g.push()
		t1 := g.block(indent+1, 1+g.pick(3), depth-1)
		g.pop(indent+1, t1)
		allTerm := t1
		for g.pick(3) == 0 {
			g.line(indent, "else if "+g.expr(tBool, d))
			g.push()
			t2 := g.block(indent+1, 1+g.pick(2), depth-1)
			g.pop(indent+1, t2)
			allTerm = allTerm && t2
		}
		hasElse := g.pick(2) == 0
		if hasElse {
			g.line(indent, "else")
			g.push()
			t3 := g.block(indent+1, 1+g.pick(2), depth-1)
			g.pop(indent+1, t3)
			allTerm = allTerm && t3
		}
		g.line(indent, "end")
		return hasElse && allTerm
	case k < 18 && depth > 0: // bounded while
		c := g.fresh("i")
		g.line(indent, c+" := 0")
		g.declare(gvar{c, tNum})
		bound := 1 + g.pick(4)
		cond := fmt.Sprintf("%s < %d", c, bound)
		if g.pick(3) == 0 {
			cond += " and " + paren(g.expr(tBool, 1))
		}
		g.line(indent, "while "+cond)
		g.push()
		g.inLoop++
		g.line(indent+1, c+" = "+c+" + 1")
		t1 := g.block(indent+1, 1+g.pick(3), depth-1)
		g.inLoop--
		g.pop(indent+1, t1)
		g.line(indent, "end")
	case k < 21 && depth > 0: // for
		lv := g.fresh("e")
		var hdr string
		var lt *gty
		switch g.pick(5) {
		case 0:
			hdr = fmt.Sprintf("range %d", g.pick(5))
			lt = tNum
		case 1:
			hdr = "range " + []string{"1 4", "3 0 -1", "0 2 0.5", "5 1", "-2 2", "0 3 " + paren(g.expr(tNum, 0))}[g.pick(6)]
			lt = tNum
		case 2:
			at := []*gty{tArr(tNum), tArr(tStr), tArr(tAny), tArr(tArr(tNum))}[g.pick(4)]
			hdr = "range " + paren(g.expr(at, 1))
			lt = at.sub
		case 3:
			hdr = "range " + paren(g.expr(tStr, 1))
			lt = tStr
		default:
			mt := []*gty{tMap(tNum), tMap(tAny)}[g.pick(2)]
			hdr = "range " + paren(g.expr(mt, 1))
			lt = tStr
		}
		if g.pick(6) == 0 {
			g.line(indent, "for "+hdr)
			g.push()
		} else {
			g.line(indent, "for "+lv+" := "+hdr)
			g.push()
			g.declare(gvar{lv, lt})
		}
		g.inLoop++
		t1 := g.block(indent+1, 1+g.pick(3), depth-1)
		g.inLoop--
		g.pop(indent+1, t1)
		g.line(indent, "end")
	case k < 22 && g.inLoop > 0 && last: // break
		g.useVars(indent)
		g.line(indent, "break")
		return true
	case k < 23 && g.inFunc && last: // return
		g.useVars(indent)
		if g.retType != nil {
			g.line(indent, "return "+g.expr(g.retType, d))
		} else {
			g.line(indent, "return")
		}
		return true
	case k < 24: // procedure call / del
		var procs []*gfunc
		for i := range g.funcs {
			if g.funcs[i].ret == nil {
				procs = append(procs, &g.funcs[i])
			}
		}
		if len(procs) > 0 && g.pick(2) == 0 {
			g.line(indent, g.call(procs[g.pick(len(procs))], d-1))
		} else if ms := g.varsOf(tMap(tNum)); len(ms) > 0 {
			g.line(indent, "del "+ms[g.pick(len(ms))].name+" "+paren(g.expr(tStr, 1)))
		} else {
			g.line(indent, "print "+paren(g.expr(tBool, d)))
		}
	case k < 25 && g.o.Tests:
		if g.pick(2) == 0 {
			g.line(indent, "test "+paren(g.expr(tBool, d)))
		} else {
			t := []*gty{tNum, tStr, tArr(tNum), tMap(tNum)}[g.pick(4)]
			g.line(indent, "test "+paren(g.expr(t, d-1))+" "+paren(g.expr(t, d-1)))
		}
	case k < 26 && g.o.Gfx:
		switch g.pick(5) {
		case 0:
			g.line(indent, "move "+paren(g.expr(tNum, 1))+" "+paren(g.expr(tNum, 1)))
		case 1:
			g.line(indent, "line "+paren(g.expr(tNum, 1))+" "+paren(g.expr(tNum, 1)))
		case 2:
			g.line(indent, "circle "+paren(g.expr(tNum, 1)))
		case 3:
			g.line(indent, "color "+paren(g.expr(tStr, 1)))
		default:
			if g.o.Reads {
				n := g.fresh("r")
				g.line(indent, n+" := read")
				g.declare(gvar{n, tStr})
			} else {
				g.line(indent, "cls")
			}
		}
	default:
		if g.o.MoreBuiltins && g.pick(3) == 0 {
			g.moreBuiltinStmt(indent, d)
			break
		}
		g.line(indent, "print "+paren(g.expr(g.randType(), d)))
	}
	return false
}

// fmtOperands: the operands of a sprintf / printf call: usually a format literal with matching, mismatching,
// missing or surplus operands of every value type (numbers and composite values included: String() of an array /
// map for %v), sometimes a format that is not a literal, not a string, or absent ("bad arguments").
func (g *progGen) fmtOperands(depth int) string {
	switch g.pick(10) {
	case 0:
		return ""
	case 1:
		return " " + paren(g.expr([]*gty{tNum, tBool, tArr(tNum)}[g.pick(3)], depth)) + " " + paren(g.expr(tStr, depth))
	case 2:
		return " " + paren(g.expr(tStr, depth)) + " " + paren(g.expr(g.randType(), depth))
	}
	formats := []string{`"%v"`, `"%v %v\n"`, `"%s|%5s|%-5s|"`, `"%q-%t"`, `"%d %5.2f %x"`, `"%v%%"`, `"%"`, `"%!"`, `"%[2]v %[1]v"`, `"%*d"`, `"no verbs\n"`, `"%T %p"`}
	out := " " + formats[g.pick(len(formats))]
	for i, n := 0, g.pick(4); i < n; i++ {
		out += " " + paren(g.expr(g.randType(), depth))
	}
	return out
}

func (g *progGen) moreBuiltinStmt(indent, d int) {
	switch g.pick(8) {
	case 0, 1, 2, 3:
		g.line(indent, "printf"+g.fmtOperands(d-1))
	case 4:
		g.line(indent, "rect "+paren(g.expr(tNum, 1))+" "+paren(g.expr(tNum, 1)))
	case 5:
		g.line(indent, "width "+paren(g.expr(tNum, 1)))
	case 6:
		fn := []string{"colour", "stroke", "fill", "linecap", "text"}[g.pick(5)]
		g.line(indent, fn+" "+paren(g.expr(tStr, 1)))
	default:
		g.line(indent, "print (sprintf"+g.fmtOperands(d-1)+")")
	}
}

// shadowGlobal sometimes reads and updates a global and then declares a local of the same name
// (legal: the declaration comes after the uses), so that a later run of the same body must again
// see the global first.
func (g *progGen) shadowGlobal(indent int) {
	if g.pick(3) != 0 || len(g.scopes[0]) == 0 {
		return
	}
	v := g.scopes[0][g.pick(len(g.scopes[0]))]
	if v.t.k == "any" {
		return
	}
	g.line(indent, "print "+v.name)
	if v.t.k == "num" {
		g.line(indent, v.name+" = "+v.name+" + 1")
	}
	g.line(indent, v.name+" := "+g.expr(v.t, 1))
	g.line(indent, "print "+v.name)
	g.declare(v)
}

func (g *progGen) genFunc() {
	name := g.fresh("f")
	var params []gvar
	np := g.pick(3)
	for i := 0; i < np; i++ {
		params = append(params, gvar{g.fresh("p"), g.randType()})
	}
	var ret *gty
	if g.pick(3) != 0 {
		ret = g.randType()
		if ret.k == "any" {
			ret = tNum
		}
	}
	hdr := "func " + name
	if ret != nil {
		hdr += ":" + ret.String()
	}
	for _, p := range params {
		hdr += " " + p.name + ":" + p.t.String()
	}
	g.line(0, hdr)
	saved := g.scopes
	g.scopes = [][]gvar{saved[0], append([]gvar(nil), params...)}
	g.inFunc, g.retType = true, ret
	g.shadowGlobal(1)
	term := g.block(1, 1+g.pick(4), g.o.MaxDepth)
	if !term {
		g.useVars(1)
		if ret != nil {
			g.line(1, "return "+g.expr(ret, 1))
		}
	}
	g.inFunc, g.retType = false, nil
	g.scopes = saved
	g.line(0, "end")
	g.funcs = append(g.funcs, gfunc{name, params, ret})
}

var handlerSigs = []struct {
	name   string
	params []gvar
}{
	{"key", []gvar{{"k", tStr}}}, {"down", []gvar{{"x", tNum}, {"y", tNum}}}, {"up", []gvar{{"x", tNum}, {"y", tNum}}},
	{"move", []gvar{{"x", tNum}, {"y", tNum}}}, {"animate", []gvar{{"t", tNum}}}, {"input", []gvar{{"id", tStr}, {"val", tStr}}},
}

func (g *progGen) genHandler(i int) string {
	h := handlerSigs[i]
	// a handler declares either no parameters or all of them, and may use "_"
	n := len(h.params)
	if g.pick(3) == 0 {
		n = 0
	}
	hdr := "on " + h.name
	var ps []gvar
	for j := 0; j < n; j++ {
		p := h.params[j]
		if g.pick(4) == 0 {
			hdr += " _:" + p.t.String()
		} else {
			hdr += " " + p.name + ":" + p.t.String()
			ps = append(ps, p)
		}
	}
	g.line(0, hdr)
	saved := g.scopes
	g.scopes = [][]gvar{saved[0], append([]gvar(nil), ps...)}
	g.inFunc = true
	g.shadowGlobal(1)
	term := g.block(1, 1+g.pick(3), g.o.MaxDepth)
	if !term {
		g.useVars(1)
	}
	g.inFunc = false
	g.scopes = saved
	g.line(0, "end")
	return h.name
}

// GenProgram returns a program and the names of the event handlers it defines.
func GenProgram(rng *rand.Rand, o GenOpts) (string, []string, map[string]int) {
	g := &progGen{rng: rng, o: o, stats: map[string]int{}}
	g.scopes = [][]gvar{nil}
	// a few globals first so that functions and handlers can use them
	ng := 1 + g.pick(3)
	for i := 0; i < ng; i++ {
		t := g.randType()
		name := g.fresh("g")
		g.line(0, name+":"+t.String())
		g.declare(gvar{name, t})
		if g.pick(2) == 0 && t.k != "any" {
			g.line(0, name+" = "+g.expr(t, 1))
		}
	}
	if o.Funcs {
		nf := g.pick(4)
		for i := 0; i < nf; i++ {
			g.genFunc()
		}
	}
	g.block(0, 1+g.pick(o.MaxStmts), 3)
	var hs []string
	if o.Handlers {
		perm := g.rng.Perm(len(handlerSigs))
		nh := g.pick(4)
		for _, i := range perm[:nh] {
			hs = append(hs, g.genHandler(i))
		}
	}
	// use all globals
	vs := g.scopes[0]
	if len(vs) > 0 {
		names := make([]string, len(vs))
		for i, v := range vs {
			names[i] = v.name
		}
		g.line(0, "print "+strings.Join(names, " "))
	}
	return g.b.String(), hs, g.stats
}
