package main

import (
	"encoding/json"
	"errors"
	"fmt"
	"math"
	"math/rand"
	"os"
	"reflect"
	"sort"
	"strconv"
	"strings"
	"time"

	"evylang.dev/evy/pkg/bytecode"
	"evylang.dev/evy/pkg/parser"
)

// C16: (PO, the property itself) the real VM against the real evaluator on
// generated programs: compile-time rejection of programs outside the
// compiler's subset, equal final globals by name, corresponding run-time
// errors; (CC) the Compile.v model against the real compiler byte for byte
// and constant for constant on the AST exported from Go.

// ---------- canonical values ----------
// N<bits> B<t|f> S<quoted> A[v v] M{"k":v "k":v}

type bcDumpParser struct {
	s   string
	i   int
	ids map[string]string
}

func canonNum(f float64) string { return fmt.Sprintf("N%016x", canonBits(f)) }

// parseEvalDump parses one value of Evaluator.VerifGlobals' format.
func (p *bcDumpParser) evalValue() (string, error) {
	if strings.HasPrefix(p.s[p.i:], "none") {
		p.i += 4
		return "none", nil
	}
	if strings.HasPrefix(p.s[p.i:], "nil") {
		p.i += 3
		return "nil", nil
	}
	if p.i >= len(p.s) || p.s[p.i] != '#' {
		return "", fmt.Errorf("expected # at %d in %q", p.i, p.s)
	}
	j := p.i + 1
	for j < len(p.s) && p.s[j] >= '0' && p.s[j] <= '9' {
		j++
	}
	id := p.s[p.i+1 : j]
	if j < len(p.s) && p.s[j] == '^' {
		p.i = j + 1
		v, ok := p.ids[id]
		if !ok {
			return "", fmt.Errorf("dangling reference #%s", id)
		}
		return v, nil
	}
	if j >= len(p.s) || p.s[j] != ':' {
		return "", fmt.Errorf("expected : at %d", j)
	}
	p.i = j + 1
	rest := p.s[p.i:]
	var out string
	switch {
	case strings.HasPrefix(rest, "num:"):
		p.i += 4
		k := p.i
		for k < len(p.s) && p.s[k] >= '0' && p.s[k] <= '9' {
			k++
		}
		bits, err := strconv.ParseUint(p.s[p.i:k], 10, 64)
		if err != nil {
			return "", err
		}
		p.i = k
		out = fmt.Sprintf("N%016x", bits)
	case strings.HasPrefix(rest, "bool:"):
		p.i += 5
		if strings.HasPrefix(p.s[p.i:], "true") {
			p.i += 4
			out = "Bt"
		} else {
			p.i += 5
			out = "Bf"
		}
	case strings.HasPrefix(rest, "str:"):
		p.i += 4
		q, err := strconv.QuotedPrefix(p.s[p.i:])
		if err != nil {
			return "", err
		}
		p.i += len(q)
		u, _ := strconv.Unquote(q)
		out = "S" + strconv.Quote(u)
	case strings.HasPrefix(rest, "any<"):
		k := strings.Index(rest, ">(")
		p.i += k + 2
		v, err := p.evalValue()
		if err != nil {
			return "", err
		}
		p.i++ // )
		out = v
	case strings.HasPrefix(rest, "arr["):
		p.i += 4
		parts := []string{}
		for p.s[p.i] != ']' {
			if p.s[p.i] == ' ' {
				p.i++
				continue
			}
			v, err := p.evalValue()
			if err != nil {
				return "", err
			}
			parts = append(parts, v)
		}
		p.i++
		out = "A[" + strings.Join(parts, " ") + "]"
	case strings.HasPrefix(rest, "map{"):
		p.i += 4
		parts := []string{}
		for p.s[p.i] != '}' {
			if p.s[p.i] == ' ' {
				p.i++
				continue
			}
			q, err := strconv.QuotedPrefix(p.s[p.i:])
			if err != nil {
				return "", err
			}
			p.i += len(q) + 1 // key and ':'
			v, err := p.evalValue()
			if err != nil {
				return "", err
			}
			parts = append(parts, q+":"+v)
		}
		p.i++
		out = "M{" + strings.Join(parts, " ") + "}"
	default:
		return "", fmt.Errorf("unknown dump %q", rest)
	}
	p.ids[id] = out
	return out, nil
}

// evalGlobals turns VerifGlobals lines into name -> canonical value.
func evalGlobals(lines []string) (map[string]string, error) {
	ids := map[string]string{}
	out := map[string]string{}
	for _, l := range lines {
		k := strings.IndexByte(l, '=')
		p := &bcDumpParser{s: l, i: k + 1, ids: ids}
		v, err := p.evalValue()
		if err != nil {
			return nil, fmt.Errorf("%v in %q", err, l)
		}
		out[l[:k]] = v
	}
	return out, nil
}

// vmValue parses VM.VerifGlobalRepr's format.
func (p *bcDumpParser) vmValue() (string, error) {
	rest := p.s[p.i:]
	switch {
	case strings.HasPrefix(rest, "none"):
		p.i += 4
		return "none", nil
	case strings.HasPrefix(rest, "n:"):
		p.i += 2
		k := p.i
		for k < len(p.s) && !strings.ContainsRune(" ]}", rune(p.s[k])) {
			k++
		}
		f, err := strconv.ParseFloat(p.s[p.i:k], 64)
		if err != nil {
			return "", err
		}
		p.i = k
		return canonNum(f), nil
	case strings.HasPrefix(rest, "b:"):
		p.i += 2
		if strings.HasPrefix(p.s[p.i:], "true") {
			p.i += 4
			return "Bt", nil
		}
		p.i += 5
		return "Bf", nil
	case strings.HasPrefix(rest, "s:"):
		p.i += 2
		q, err := strconv.QuotedPrefix(p.s[p.i:])
		if err != nil {
			return "", err
		}
		p.i += len(q)
		u, _ := strconv.Unquote(q)
		return "S" + strconv.Quote(u), nil
	case strings.HasPrefix(rest, "["):
		p.i++
		parts := []string{}
		for p.s[p.i] != ']' {
			if p.s[p.i] == ' ' {
				p.i++
				continue
			}
			v, err := p.vmValue()
			if err != nil {
				return "", err
			}
			parts = append(parts, v)
		}
		p.i++
		return "A[" + strings.Join(parts, " ") + "]", nil
	case strings.HasPrefix(rest, "{"):
		p.i++
		parts := []string{}
		for p.s[p.i] != '}' {
			if p.s[p.i] == ' ' {
				p.i++
				continue
			}
			q, err := strconv.QuotedPrefix(p.s[p.i:])
			if err != nil {
				return "", err
			}
			p.i += len(q) + 1
			v, err := p.vmValue()
			if err != nil {
				return "", err
			}
			parts = append(parts, q+":"+v)
		}
		p.i++
		return "M{" + strings.Join(parts, " ") + "}", nil
	}
	return "", fmt.Errorf("unknown vm repr %q", rest)
}

// ---------- the supported subset, read off the AST (the property's own definition) ----------
// unsupportedNodes lists the node kinds of prog for which Compile has no
// translation (its switch has no case for them).
func unsupportedNodes(n parser.Node, acc map[string]int) {
	if n == nil || (reflect.ValueOf(n).Kind() == reflect.Ptr && reflect.ValueOf(n).IsNil()) {
		return
	}
	switch n := n.(type) {
	case *parser.Program:
		for _, s := range n.Statements {
			unsupportedNodes(s, acc)
		}
	case *parser.EmptyStmt:
	case *parser.InferredDeclStmt:
		unsupportedNodes(n.Decl.Value, acc)
	case *parser.AssignmentStmt:
		unsupportedNodes(n.Value, acc)
		switch t := n.Target.(type) {
		case *parser.Var:
		case *parser.IndexExpression:
			unsupportedNodes(t.Left, acc)
			unsupportedNodes(t.Index, acc)
		default:
			acc[fmt.Sprintf("assign-target:%T", n.Target)]++
		}
	case *parser.BreakStmt:
	case *parser.BlockStatement:
		for _, s := range n.Statements {
			unsupportedNodes(s, acc)
		}
	case *parser.ForStmt:
		if sr, ok := n.Range.(*parser.StepRange); ok {
			unsupportedNodes(sr.Start, acc)
			unsupportedNodes(sr.Stop, acc)
			unsupportedNodes(sr.Step, acc)
		} else {
			unsupportedNodes(n.Range, acc)
		}
		unsupportedNodes(n.Block, acc)
	case *parser.IfStmt:
		unsupportedNodes(n.IfBlock.Condition, acc)
		unsupportedNodes(n.IfBlock.Block, acc)
		for _, b := range n.ElseIfBlocks {
			unsupportedNodes(b.Condition, acc)
			unsupportedNodes(b.Block, acc)
		}
		if n.Else != nil {
			unsupportedNodes(n.Else, acc)
		}
	case *parser.WhileStmt:
		unsupportedNodes(n.Condition, acc)
		unsupportedNodes(n.Block, acc)
	case *parser.IndexExpression:
		unsupportedNodes(n.Left, acc)
		unsupportedNodes(n.Index, acc)
	case *parser.SliceExpression:
		unsupportedNodes(n.Left, acc)
		unsupportedNodes(n.Start, acc)
		unsupportedNodes(n.End, acc)
	case *parser.BinaryExpression:
		unsupportedNodes(n.Left, acc)
		unsupportedNodes(n.Right, acc)
		if n.Op == parser.OP_AND || n.Op == parser.OP_OR {
			acc["and-or"]++
		}
	case *parser.UnaryExpression:
		unsupportedNodes(n.Right, acc)
	case *parser.GroupExpression:
		unsupportedNodes(n.Expr, acc)
	case *parser.Var, *parser.NumLiteral, *parser.BoolLiteral, *parser.StringLiteral:
	case *parser.ArrayLiteral:
		for _, e := range n.Elements {
			unsupportedNodes(e, acc)
		}
	case *parser.MapLiteral:
		for _, k := range n.Order {
			unsupportedNodes(n.Pairs[k], acc)
		}
	default:
		acc[fmt.Sprintf("%T", n)]++
	}
}

// topLevelLoopVars are the names the compiler turns into VM globals although
// they are loop-local in the language.
func topLevelLoopVars(prog *parser.Program) map[string]bool {
	out := map[string]bool{}
	for _, s := range prog.Statements {
		if f, ok := s.(*parser.ForStmt); ok && f.LoopVar != nil {
			out[f.LoopVar.Name] = true
		}
	}
	return out
}

// ---------- running both implementations ----------
var vmSentinels = []struct {
	name string
	err  error
}{
	{"Bounds", bytecode.ErrBounds}, {"IndexValue", bytecode.ErrIndexValue}, {"MapKey", bytecode.ErrMapKey},
	{"Slice", bytecode.ErrSlice}, {"BadRepetition", bytecode.ErrBadRepetition},
	{"DivideByZero", bytecode.ErrDivideByZero}, {"StackOverflow", bytecode.ErrStackOverflow}, {"RangeValue", bytecode.ErrRangeValue},
}

type c16VM struct {
	Class   string // ok | panic:<sentinel> | gopanic | timeout
	Detail  string
	Globals map[string]string
	Extra   []string // VM globals that are not evaluator globals
}

func c16RunVM(c c17Compiled, limit time.Duration) c16VM {
	vm := bytecode.NewVM(c.bc)
	type res struct {
		err error
		pan string
	}
	done := make(chan res, 1)
	go func() {
		var r res
		defer func() {
			if x := recover(); x != nil {
				r.pan = fmt.Sprint(x)
			}
			done <- r
		}()
		r.err = vm.Run()
	}()
	var r res
	select {
	case r = <-done:
	case <-time.After(limit):
		return c16VM{Class: "timeout"}
	}
	out := c16VM{Class: "ok", Globals: map[string]string{}}
	if r.pan != "" {
		out.Class, out.Detail = "gopanic", r.pan
		return out
	}
	if r.err != nil {
		out.Class, out.Detail = "error:other", r.err.Error()
		for _, s := range vmSentinels {
			if errors.Is(r.err, s.err) {
				out.Class = "panic:" + s.name
			}
		}
		return out
	}
	for name, i := range c.comp.VerifGlobalSymbols() {
		repr, ok := vm.VerifGlobalRepr(i)
		if !ok {
			out.Globals[name] = "unset"
			continue
		}
		p := &bcDumpParser{s: repr}
		v, err := p.vmValue()
		if err != nil {
			v = "unparsable:" + repr
		}
		out.Globals[name] = v
	}
	return out
}

// c16Case is the property oracle on one program. classes: the known
// divergence classes the generator was allowed to put in (for the Key).
func c16Case(src string, classes []string, stream string, r *Result, model *Model) {
	c := c17Compile(src)
	if c.ParseErr != "" {
		r.Dist("generator-parse-error")
		if r.Distribution["generator-parse-error"] <= 3 {
			r.Note("generated program rejected by the parser (%s): %q", c.ParseErr, src)
		}
		return
	}
	uns := map[string]int{}
	unsupportedNodes(c.prog, uns)
	in := map[string]any{"program": src}
	if len(src) > 4000 {
		in = map[string]any{"program_head": src[:1500], "program_len": len(src), "generator": stream}
	}
	classKey := func(symptom string) string {
		if len(classes) == 1 {
			return "vm-" + classes[0]
		}
		if len(classes) > 1 {
			return "vm-mixed-known-classes"
		}
		return "vm-eval-divergence:" + symptom
	}
	// (1) programs outside the subset must be rejected at compile time
	if len(uns) > 0 {
		r.Count(src, true)
		kinds := sortedKeys(uns)
		if model != nil && !strings.HasPrefix(c.CompileErr, "gopanic") {
			c16ModelBytes(src, c, in, r, model)
		}
		if c.CompileErr == "" {
			r.Dist(stream + ":unsupported-accepted")
			r.Violate(Violation{Kind: "property", Key: "unsupported-silently-dropped",
				Detail: "Compile returned no error for a program containing nodes it does not translate: " + strings.Join(kinds, ","),
				Input:  in, Impl: map[string]any{"compile_error": nil, "untranslated": kinds}})
		} else {
			r.Dist(stream + ":unsupported-rejected")
		}
		return
	}
	if c.CompileErr != "" {
		r.Count(src, true)
		if len(classes) == 1 && classes[0] == "operand-truncation" {
			// a program beyond the operand widths may be rejected at compile time (that is the proposed fix)
			r.Dist(stream + ":rejected-at-compile-time")
			return
		}
		r.Violate(Violation{Kind: "property", Key: "compile-error-on-supported-program", Detail: c.CompileErr, Input: in})
		return
	}
	// the model of the compiler against the compiler
	if model != nil {
		c16ModelBytes(src, c, in, r, model)
	}
	// (2) both implementations on the same program
	ev := RunEvy(src, RunOpts{YieldBudget: 5_000_000})
	vm := c16RunVM(c, 5*time.Second)
	c16ModelVM(c, vm, in, r, c16VMModel)
	r.Count(src, c17HasJump(c.Code))
	r.Validated++
	r.Dist(stream + ":eval-" + ev.Class + "/vm-" + vm.Class)
	if len(r.Samples) < 3 && ev.Class == "ok" && c17HasJump(c.Code) && len(src) < 1200 {
		r.Sample(map[string]any{"program": src, "evaluator": ev.Class, "vm": vm.Class, "globals_compared": len(vm.Globals)})
	}
	report := func(symptom, detail string, impl any) {
		r.Violate(Violation{Kind: "property", Key: classKey(symptom), Detail: detail, Input: in, Impl: impl})
	}
	switch {
	case ev.Class == "budget" || vm.Class == "timeout":
		if ev.Class != "budget" {
			report("vm-nontermination", "the VM did not finish a program the evaluator finishes", nil)
		}
		return
	case ev.Class == "gopanic":
		r.Dist("evaluator-gopanic") // not this property's subject (C02)
		return
	case vm.Class == "gopanic":
		report("vm-host-panic", "the VM panicked: "+vm.Detail, map[string]any{"evaluator": ev.Class})
		return
	case vm.Class == "panic:DivideByZero":
		return // an error on the VM only, by the property's statement
	case ev.Class != "ok" || vm.Class != "ok":
		if ev.Class != vm.Class {
			symptom := "error-mismatch"
			if vm.Class == "panic:StackOverflow" {
				symptom = "stack-overflow"
			}
			report(symptom, fmt.Sprintf("run-time errors do not correspond: evaluator %s, VM %s (%s)", ev.Class, vm.Class, vm.Detail),
				map[string]any{"evaluator": ev.Class + " " + ev.ErrText, "vm": vm.Class + " " + vm.Detail})
		}
		return
	}
	eg, err := evalGlobals(ev.Eval.VerifGlobals())
	if err != nil {
		r.Violate(Violation{Kind: "correspondence", Key: "evaluator-dump-unparsable", Detail: err.Error(), Input: in})
		return
	}
	// only the program's own globals (the evaluator's global scope also holds err, errmsg, pi, ...)
	declared := map[string]bool{}
	for _, st := range c.prog.Statements {
		switch d := st.(type) {
		case *parser.InferredDeclStmt:
			declared[d.Decl.Var.Name] = true
		case *parser.TypedDeclStmt:
			declared[d.Decl.Var.Name] = true
		}
	}
	for name := range eg {
		if !declared[name] {
			delete(eg, name)
		}
	}
	diffs := []string{}
	for _, name := range sortedKeys(mapLen(eg)) {
		v, ok := vm.Globals[name]
		if !ok {
			diffs = append(diffs, fmt.Sprintf("%s: missing on the VM (evaluator %s)", name, eg[name]))
		} else if v != eg[name] {
			diffs = append(diffs, fmt.Sprintf("%s: evaluator %s, VM %s", name, eg[name], v))
		}
	}
	if len(diffs) > 0 {
		if len(diffs) > 6 {
			diffs = diffs[:6]
		}
		report("globals-differ", "final globals differ: "+strings.Join(diffs, "; "), map[string]any{"diffs": diffs})
		return
	}
	// extra VM globals
	lv := topLevelLoopVars(c.prog)
	extra := []string{}
	for name := range vm.Globals {
		if _, ok := eg[name]; !ok {
			extra = append(extra, name)
		}
	}
	sort.Strings(extra)
	if len(extra) > 0 {
		allLoop := true
		for _, n := range extra {
			if !lv[n] {
				allLoop = false
			}
		}
		r.Dist(stream + ":extra-vm-globals")
		if !allLoop {
			report("extra-globals", "the VM has globals the evaluator does not have: "+strings.Join(extra, ","), nil)
		} else if len(classes) == 1 && classes[0] == "loopvar-global" {
			report("loopvar-global", "a top-level loop variable is a VM global (loop-local in the language): "+strings.Join(extra, ","), nil)
		}
	}
}

func mapLen(m map[string]string) map[string]int {
	out := map[string]int{}
	for k := range m {
		out[k] = 1
	}
	return out
}

// ---------- known divergence classes: one replay program each ----------
var c16Known = []struct {
	class string
	src   string
}{
	{"map-insert-lost", "m := {a:1}\nm[\"b\"] = 2\nn := m[\"b\"]\nn = n\n"},
	{"fractional-index-write", "a := [1 2 3]\na[1.5] = 9\na = a\n"},
	{"shallow-repetition", "a := [[1]] * 2\na[0][0] = 7\na = a\n"},
	{"loopvar-global", "x := 0\nfor i := range 3\n    x = x + i\nend\n"},
	{"loopvar-clobbers-outer", "r := 0\nif true\n    x := 10\n    for x := range 3\n        r = r + x\n    end\n    r = r + x\nend\n"},
	{"loopvar-clobbers-outer", "x := 10\nr := 0\nfor x := range 3\n    r = r + x\nend\nr = r + x\n"},
	{"loopvar-clobbers-outer", "x := 10\nr := 0\nif true\n    for x := range 3\n        r = r + x\n    end\n    r = r + x\nend\n"},
	{"byte-strings", "s := \"äb\"\nt := s[0]\nt = t\n"},
	{"byte-strings", "n := 0\nfor c := range \"äb\"\n    n = n + 1\n    if c == \"\"\n        n = 0\n    end\nend\n"},
	{"zero-step", "x := 0\nfor range 1 5 0\n    x = 1\nend\n"},
	{"stack-overflow", "a := [" + strings.Repeat("1 ", 2100) + "]\na = a\n"},
	{"stack-overflow", "x := 0\nif x == 0\n" + func() string {
		var b strings.Builder
		for i := 0; i < 2060; i++ {
			fmt.Fprintf(&b, "    l%d := %d\n    x = x + l%d\n", i, i%7, i)
		}
		return b.String()
	}() + "end\n"},
}

// the Vm.v model process (nil when it could not be started)
var c16VMModel *Model

// the VmHeap.v model process (the VM with the store for arrays and maps)
var c16VMHeapModel *Model

// regression cases: array results must not share storage with their operands
// (a concatenation built with append(left.Elements, …) aliases the left
// operand's spare capacity; `a + []` must be a copy)
var c16Corpus = []string{
	// repetition copies nested arrays AND maps per repetition (fix 66b6227; the map case of deepCopy)
	"a := [{k:1}] * 2\na[0].k = 7\na = a\n",
	"a := [[1] [2]] * 2\na[3][0] = 9\na[0][0] = 8\na = a\n",
	"m := {k:[1]}\na := [m] * 3\nm.k[0] = 5\na[1].k[0] = 6\na = a\nm = m\n",
	"a := [[{k:[1 2]}]] * 2\na[0][0].k[1] = 9\na = a\n",
	"a := [1 2 3]\nb := a + [4]\nc := b + [5]\nd := b + [6]\nc = c\nd = d\ne := a + []\ne[0] = 9\na = a\nb = b\n",
	"a := [1 2 3 4 5]\nb := a[0:2]\nc := b + [7]\nd := b + [8]\nc[0] = 1\nr := a * 2\nr2 := r + [9]\nr3 := r + [10]\nr2[1] = 5\na = a\nb = b\nc = c\nd = d\nr = r\nr2 = r2\nr3 = r3\n",
}

func runC16(cfg Config, r *Result) {
	if m, err := StartModelBig("vmrun"); err == nil {
		c16VMModel = m
		defer m.Close()
	} else {
		r.Violate(Violation{Kind: "correspondence", Key: "model-start", Detail: err.Error()})
	}
	if m, err := StartModelBig("vmheap"); err == nil {
		c16VMHeapModel = m
		defer m.Close()
	} else {
		r.Violate(Violation{Kind: "correspondence", Key: "model-start", Detail: err.Error()})
	}
	r.Rule = "generated evy programs (same generator as C17: declarations, assignment, arithmetic, strings, arrays, maps, index, slice, if/else-if/else, while, break, for over ranges/arrays/strings/maps, nested). For each: the set of AST nodes Compile has no translation for is read off the parsed tree; if non-empty, Compile must return an error (else: unsupported-silently-dropped). Otherwise the program is run on the real evaluator (recording platform, yield budget) and compiled and run on the real VM (recover, time limit): run-time errors must correspond by sentinel (division/modulo by zero may be a VM-only error), and every evaluator global (by name; numbers as IEEE bit patterns, strings exactly, arrays/maps structurally) must have the same value on the VM (Compiler.VerifGlobalSymbols + VM.VerifGlobalRepr). The main stream avoids the recorded VM divergence classes; a second stream enables exactly one class per program (keys vm-<class>). Stream range-forms: every form of `for … range`, with and without loop variable, over strings with multi-byte characters (literals, variables, concatenations, slices), arrays, maps and step ranges, at top level and inside blocks, nested and with breaks; every loop counts its iterations and folds its loop variable into globals. In addition the Compile.v model is compared with the real compiler byte for byte and constant for constant on the AST exported from Go. The VM models are compared with the real VM on the same programs (outcome class, sp, every global slot structurally): Vm.v (value semantics, OpSetIndex only checks) on programs whose bytecode has no OpSetIndex, VmHeap.v (arrays and maps are references into a heap, OpSetIndex performs the store) on every program, element stores, aliasing and map insertions included. A further stream (sem-tie) runs exec_l, the big-step semantics compile_correct_ctl_partial is stated against (coq/CompileSem.v, extracted), on generated programs of the fragment psfrag next to the real evaluator and the evaluator model coq/Sem.v: defined implies the evaluator finishes with the same declared globals, undefined (ample fuel) implies a run-time error. The same for lx_l, the semantics with block scopes compile_correct_locals_partial is stated against, on generated programs of lpfrag (declarations, shadowing declarations and loop variables inside blocks): stream sem-tie-locals. Stream shape: the side conditions of the whole-program theorems (wplain_slist, nb_slist: called parser-guaranteed in C17_compile_wf_all / C16_compile_correct_plain_partial) are evaluated by the extracted model on the exported AST of every corpus and generated program the real parser accepts and must hold; for programs the real compiler accepts, plain_slist must be exactly `no element store in the Go AST` and plain must imply lfrag_slist. non-trivial = the emitted code contains a jump or range instruction (or: the program is outside the subset); distinct = distinct program text"
	if cfg.Replay != "" {
		b, err := os.ReadFile(cfg.Replay)
		if err == nil {
			var rep struct {
				Input map[string]any `json:"input"`
				Key   string         `json:"key"`
			}
			if json.Unmarshal(b, &rep) == nil {
				if src, ok := rep.Input["program"].(string); ok {
					if st, _ := rep.Input["stream"].(string); st == "shape" {
						if em, e1 := StartModelBig("semexec"); e1 == nil {
							c16Shape(src, r, em)
							em.Close()
						}
						return
					}
					if st, _ := rep.Input["stream"].(string); st == "sem-tie" || st == "sem-tie-locals" {
						em, e1 := StartModelBig("semexec")
						sm := startSem(r)
						if e1 == nil && sm != nil {
							c16SemTie(st, src, r, em, sm)
							em.Close()
							sm.Close()
						}
						return
					}
					model, _ := StartModelBig("compile")
					var cls []string
					if strings.HasPrefix(rep.Key, "vm-") && !strings.HasPrefix(rep.Key, "vm-eval-divergence") {
						cls = []string{strings.TrimPrefix(rep.Key, "vm-")}
					}
					c16Case(src, cls, "replay", r, model)
					if model != nil {
						model.Close()
					}
				}
			}
		}
		return
	}
	model, err := StartModelBig("compile")
	if err != nil {
		r.Violate(Violation{Kind: "correspondence", Key: "model-start", Detail: err.Error()})
		return
	}
	defer model.Close()
	for _, src := range c17Corpus {
		c16Case(src, nil, "corpus", r, model)
	}
	for _, src := range c16Corpus {
		c16Case(src, nil, "corpus", r, model)
	}
	// refuted-lemma witnesses and one replay per known class
	for _, src := range []string{"print 1\n", "x:num\nx = 1\nx = x\n", "m := {a:1}\nm.a = 2\n", "func f\n    print 1\nend\nf\n", "x := [1 \"a\"]\nx = x\n"} {
		c16Case(src, nil, "corpus-unsupported", r, model)
	}
	for _, k := range c16Known {
		c16Case(k.src, []string{k.class}, "known:"+k.class, r, model)
	}
	// main stream: everything except the recorded classes
	for i, n := 0, cfg.N(700, 20000); i < n; i++ {
		o := genOpts{MaxStmts: 3 + cfg.Rng.Intn(10), MaxDepth: 1 + cfg.Rng.Intn(4), ExprDepth: 1 + cfg.Rng.Intn(3),
			// (byte-strings: string literals with multi-byte characters; the VM defect of that name is repaired, 6a7e6f1)
			Classes: map[string]bool{"runtime-errors": cfg.Rng.Intn(6) == 0, "div-zero": cfg.Rng.Intn(8) == 0, "byte-strings": i%3 == 2}}
		src, feat := genProgram(cfg.Rng, o)
		for _, k := range sortedKeys(feat) {
			r.Distribution["construct:"+k] += feat[k]
		}
		c16Case(src, nil, "main", r, model)
	}
	// every range form, with and without loop variable, over non-ASCII strings, arrays, maps and step ranges
	for i, n := 0, cfg.N(250, 6000); i < n; i++ {
		c16Case(c16RangeProgram(cfg.Rng), nil, "range-forms", r, model)
	}
	// the semantics of compile_correct (exec_l, coq/CompileSem.v) next to the evaluator and its model coq/Sem.v
	if em, e1 := StartModelBig("semexec"); e1 != nil {
		r.Violate(Violation{Kind: "correspondence", Key: "model-start", Detail: e1.Error()})
	} else {
		if sm := startSem(r); sm != nil {
			for i, n := 0, cfg.N(250, 6000); i < n; i++ {
				c16SemTie("sem-tie", genFragProgram(cfg.Rng, cfg.Rng.Intn(5) == 0, false), r, em, sm)
			}
			// … and lx_l, the semantics with block scopes of compile_correct_locals_partial, on lpfrag
			for i, n := 0, cfg.N(250, 6000); i < n; i++ {
				c16SemTie("sem-tie-locals", genFragProgram(cfg.Rng, cfg.Rng.Intn(5) == 0, true), r, em, sm)
			}
			sm.Close()
		}
		// the syntactic hypothesis of the tie theorems (Props/C16_tie.v): the two exports of one source program —
		// the compiler-side AST (astProgram) and the evaluator-side AST (ExportProgram) — are related by
		// CompileSemTie.lrel (decided by CompileSemTieCase.lrelb) whenever the program is in the fragment tfrag_l
		if tm, e2 := StartModelBig("semtie"); e2 != nil {
			r.Violate(Violation{Kind: "correspondence", Key: "model-start", Detail: e2.Error()})
		} else {
			for i, n := 0, cfg.N(120, 2000); i < n; i++ {
				if i%4 == 0 {
					c16AstTie(genFragProgram(cfg.Rng, false, true), r, tm) // mostly outside tfrag_l: for loops
				} else {
					c16AstTie(genTieProgram(cfg.Rng), r, tm)
				}
			}
			tm.Close()
		}
		// the side conditions of the whole-program theorems on everything the real parser accepts
		for _, src := range c17Corpus {
			c16Shape(src, r, em)
		}
		for _, src := range c16Corpus {
			c16Shape(src, r, em)
		}
		for i, n := 0, cfg.N(300, 8000); i < n; i++ {
			o := genOpts{MaxStmts: 3 + cfg.Rng.Intn(10), MaxDepth: 1 + cfg.Rng.Intn(4), ExprDepth: 1 + cfg.Rng.Intn(3),
				Unsupported: i%4 == 0, Classes: map[string]bool{"map-insert": i%3 == 0, "frac-index-write": i%5 == 0}}
			src, _ := genProgram(cfg.Rng, o)
			c16Shape(src, r, em)
		}
		em.Close()
	}
	// known-class stream: exactly one class enabled per program
	gen2key := [][2]string{{"map-insert", "map-insert-lost"}, {"frac-index-write", "fractional-index-write"},
		{"shallow-rep", "shallow-repetition"}, {"byte-strings", "byte-strings"}, {"zero-step", "zero-step"}, {"loopvar-shadow", "loopvar-clobbers-outer"}}
	for i, n := 0, cfg.N(100, 2500); i < n; i++ {
		g := gen2key[i%len(gen2key)]
		o := genOpts{MaxStmts: 3 + cfg.Rng.Intn(8), MaxDepth: 1 + cfg.Rng.Intn(3), ExprDepth: 1 + cfg.Rng.Intn(2), Classes: map[string]bool{g[0]: true}}
		src, _ := genProgram(cfg.Rng, o)
		c16Case(src, []string{g[1]}, "known:"+g[1], r, model)
	}
	// outside the subset
	for i, n := 0, cfg.N(100, 2500); i < n; i++ {
		o := genOpts{MaxStmts: 3 + cfg.Rng.Intn(8), MaxDepth: 1 + cfg.Rng.Intn(3), ExprDepth: 1 + cfg.Rng.Intn(2), Unsupported: true, Classes: map[string]bool{}}
		src, feat := genProgram(cfg.Rng, o)
		for _, k := range sortedKeys(feat) {
			r.Distribution["construct:"+k] += feat[k]
		}
		c16Case(src, nil, "unsupported", r, model)
	}
	// beyond 65535 constants: the operand truncation becomes a wrong value
	c16Case(c17Large("many-constants", rand.New(rand.NewSource(cfg.Seed))), []string{"operand-truncation"}, "known:operand-truncation", r, nil)
	_ = math.Pi
}

func init() { register("C16", runC16) }
