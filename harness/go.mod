module verifharness

go 1.23.0

require (
	evylang.dev/evy v0.1.207
	evylang.dev/evy/learn v0.0.0
	golang.org/x/tools v0.29.0
)

replace evylang.dev/evy => /repo

replace evylang.dev/evy/learn => /repo/learn
