module verifharness

go 1.23.0

require (
	evylang.dev/evy v0.1.207
	evylang.dev/evy/learn v0.0.0
	golang.org/x/tools v0.29.0
)

require (
	golang.org/x/text v0.21.0 // indirect
	gopkg.in/yaml.v3 v3.0.1 // indirect
	rsc.io/markdown v0.0.0-20241212154241-6bf72452917f // indirect
)

replace evylang.dev/evy => /repo

replace evylang.dev/evy/learn => /repo/learn
