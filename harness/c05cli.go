package main

import (
	"bytes"
	"fmt"
	"os"
	"os/exec"
	"path/filepath"
	"regexp"
	"sort"
	"strings"
	"time"
)

// C05, CLI half widened: a rejected program goes through `evy run` under every
// flag combination of runCmd (main.go) that can have an observable effect and
// through every source channel (file argument, stdin, txtar member).
//
// Oracle (property text: "None of it is executed: no output, drawing, ... from
// `evy run` ..., which reports on stderr with a non-zero status"):
//   - stdout has zero bytes (no output, no drawing with `--svg-out -`),
//   - the working directory is byte-for-byte what it was before the run: no
//     file created (`--svg-out FILE`, fresh), none modified (`--svg-out FILE`
//     over an existing drawing, the source itself, a bystander file), none removed,
//   - stderr carries at least one located error (`line N column M`),
//   - the exit status is non-zero, and the process ends (no sleep, no input request).

type c05CLIFlags struct {
	Name     string
	Args     []string // flags between `run` and the source argument
	Existing string   // relative path of a file that exists before the run ("" = none)
	Env      []string
}

const c05ExistingSVG = "<svg xmlns=\"http://www.w3.org/2000/svg\"><!-- earlier drawing, must stay --><circle r=\"3\"/></svg>\n"

// every flag of runCmd: SkipSleep, SVGOut, SVGStyle, SVGWidth, SVGHeight, NoTestSummary, FailFast, Txtar (a channel, below), RandSeed
var c05CLIFlagSets = []c05CLIFlags{
	{Name: "svg-out-stdout", Args: []string{"--skip-sleep", "--svg-out", "-"}},
	{Name: "svg-out-fresh-file", Args: []string{"--skip-sleep", "--svg-out", "out.svg"}},
	{Name: "svg-out-existing-file", Args: []string{"--skip-sleep", "--svg-out", "out.svg"}, Existing: "out.svg"},
	{Name: "svg-out-stdout-styled", Args: []string{"--svg-out=-", "--svg-style", "border: 1px solid red", "--svg-width", "400", "--svg-height", "300"}},
	{Name: "svg-out-fresh-file-in-subdir-sized", Args: []string{"--svg-out", "sub/drawing.svg", "--svg-width", "50%", "--svg-height", "50%"}},
	{Name: "svg-out-existing-file-in-subdir-styled", Args: []string{"--svg-style", "background: #eee", "--svg-out", "sub/drawing.svg"}, Existing: "sub/drawing.svg"},
	{Name: "svg-style-without-svg-out", Args: []string{"--svg-style", "border: 1px solid red", "--svg-width", "10", "--svg-height", "10"}},
	{Name: "rand-seed", Args: []string{"--rand-seed", "7"}},
	{Name: "no-skip-sleep", Args: nil},
	{Name: "skip-sleep-env", Args: nil, Env: []string{"EVY_SKIP_SLEEP=true"}},
	{Name: "no-test-summary", Args: []string{"--no-test-summary", "--skip-sleep"}},
	{Name: "fail-fast", Args: []string{"--fail-fast"}},
	{Name: "all-flags-existing-file", Args: []string{"-s", "--fail-fast", "--rand-seed", "3", "--skip-sleep", "--svg-style", "x", "--svg-width", "1", "--svg-height", "1", "--svg-out", "out.svg"}, Existing: "out.svg"},
	{Name: "all-flags-stdout", Args: []string{"-s", "--fail-fast", "--rand-seed=-5", "--svg-out", "-"}},
}

var c05CLIChannels = []string{"file", "stdin-dash", "stdin-default", "txtar-member"}

var c05StderrLocatedRe = regexp.MustCompile(`(?m)line \d+ column \d+`)

type c05Snap map[string]string // relative path -> "mode\x00content" ("dir" for directories)

func c05Snapshot(dir string) c05Snap {
	s := c05Snap{}
	filepath.Walk(dir, func(p string, info os.FileInfo, err error) error {
		if err != nil || p == dir {
			return nil
		}
		rel, _ := filepath.Rel(dir, p)
		if info.IsDir() {
			s[rel] = "dir " + info.Mode().String()
			return nil
		}
		b, _ := os.ReadFile(p)
		s[rel] = info.Mode().String() + "\x00" + string(b)
		return nil
	})
	return s
}

// c05SnapDiff describes the first difference (sorted by path) between two snapshots, "" when equal.
func c05SnapDiff(before, after c05Snap) (kind, detail string) {
	var names []string
	for n := range before {
		names = append(names, n)
	}
	for n := range after {
		if _, ok := before[n]; !ok {
			names = append(names, n)
		}
	}
	sort.Strings(names)
	for _, n := range names {
		b, inB := before[n]
		a, inA := after[n]
		switch {
		case !inB:
			return "file-created", fmt.Sprintf("%s was created (%d bytes): %s", n, len(a), truncKey(a, 200))
		case !inA:
			return "file-removed", n + " was removed"
		case a != b:
			return "file-modified", fmt.Sprintf("%s was modified; now: %s", n, truncKey(a, 200))
		}
	}
	return "", ""
}

// c05CLIRun runs one rejected program through `evy run` under one flag set and one source channel in a fresh scratch directory.
func c05CLIRun(c *c05Ctx, m c05Mutant, fl c05CLIFlags, channel string) {
	r := c.r
	work, err := os.MkdirTemp(c.binDir, "work")
	if err != nil {
		return
	}
	defer os.RemoveAll(work)
	must := func(rel, content string) {
		p := filepath.Join(work, rel)
		os.MkdirAll(filepath.Dir(p), 0o755)
		os.WriteFile(p, []byte(content), 0o644)
	}
	must("sub/bystander.txt", "not to be touched\n")
	if fl.Existing != "" {
		must(fl.Existing, c05ExistingSVG)
	}
	args := append([]string{"run"}, fl.Args...)
	stdin := ""
	switch channel {
	case "file":
		must("prog.evy", m.Src)
		args = append(args, "prog.evy")
	case "stdin-dash":
		stdin = m.Src
		args = append(args, "-")
	case "stdin-default":
		stdin = m.Src
	case "txtar-member":
		must("progs.txtar", "an archive with three members\n-- first.evy --\nprint \"first member, not selected\"\n-- prog.evy --\n"+
			strings.TrimSuffix(m.Src, "\n")+"\n-- last.evy --\nprint \"last member, not selected\"\n")
		args = append(args, "--txtar", "prog.evy", "progs.txtar")
	}
	before := c05Snapshot(work)
	cmd := exec.Command(c.bin, args...)
	cmd.Dir = work
	cmd.Stdin = strings.NewReader(stdin)
	cmd.Env = append(os.Environ(), fl.Env...)
	var so, se bytes.Buffer
	cmd.Stdout, cmd.Stderr = &so, &se
	if err := cmd.Start(); err != nil {
		r.Note("c05 cli: cannot start evy: %v", err)
		return
	}
	done := make(chan error, 1)
	go func() { done <- cmd.Wait() }()
	exit, timedOut := 0, false
	select {
	case err := <-done:
		if ee, ok := err.(*exec.ExitError); ok {
			exit = ee.ExitCode()
		} else if err != nil {
			exit = -1
		}
	case <-time.After(10 * time.Second):
		cmd.Process.Kill()
		<-done
		timedOut = true
	}
	after := c05Snapshot(work)
	r.Dist("evy-run-flags:" + fl.Name)
	r.Dist("evy-run-channel:" + channel)
	input := map[string]any{"program": m.Src, "rule": m.Rule, "position": m.Pos, "cli_flags": fl.Name, "cli_args": strings.Join(args, " "), "cli_channel": channel}
	viol := func(kind, detail string, impl any) {
		r.Violate(Violation{Kind: "property", Key: "evy-run-flags:" + kind + "|" + fl.Name, Detail: detail, Input: input, Impl: impl})
	}
	ok := true
	if timedOut {
		viol("timeout", "`evy "+strings.Join(args, " ")+"` of a rejected program did not finish in 10 s", nil)
		return
	}
	if so.Len() != 0 {
		ok = false
		viol("stdout", "`evy "+strings.Join(args, " ")+"` of a rejected program wrote to stdout", truncKey(so.String(), 400))
	}
	if kind, detail := c05SnapDiff(before, after); kind != "" {
		ok = false
		viol(kind, "`evy "+strings.Join(args, " ")+"` of a rejected program changed its working directory: "+detail, nil)
	}
	if exit == 0 {
		ok = false
		viol("exit-zero", "`evy "+strings.Join(args, " ")+"` of a rejected program exited 0", nil)
	}
	if !c05StderrLocatedRe.MatchString(se.String()) {
		ok = false
		viol("no-located-error-on-stderr", "`evy "+strings.Join(args, " ")+"` of a rejected program: stderr has no `line N column M` error", truncKey(se.String(), 400))
	}
	if ok {
		r.Dist("evy-run-flags:rejected-cleanly")
	}
}

// c05CLIFamily: the flag sets x source channels for one rejected program. Thorough / replay: every flag set, the channel
// rotating; quick: `per` flag sets and channels, rotating with the run counter so that all of them are met within a run.
func c05CLIFamily(c *c05Ctx, m c05Mutant) {
	nf, nc := len(c05CLIFlagSets), len(c05CLIChannels)
	per := c.cfg.N(5, nf)
	if c.cfg.Replay != "" {
		for _, fl := range c05CLIFlagSets {
			for _, ch := range c05CLIChannels {
				c05CLIRun(c, m, fl, ch)
			}
		}
		return
	}
	for k := 0; k < per; k++ {
		i := c.cliRuns
		c.cliRuns++
		// i -> (flag set, channel): nf and nc share the factor 2, so the channel advances by one more every nf runs
		c05CLIRun(c, m, c05CLIFlagSets[i%nf], c05CLIChannels[(i+i/nf)%nc])
	}
}
