package main

import (
	"fmt"
	"math/rand"
	"strings"
)

// C09 "fresh containers", repeated-site family.
//
// A container expression (array / map literal, nested, any-holding, or a slice / concatenation / repetition) at ONE place of
// the program text makes a NEW container every time it is evaluated. The programs of this family put such sites into
// function bodies, loop bodies (for over a number / an array, while), recursive functions and event handlers, evaluate each
// site several times, keep every instance (named global, element of `insts`, any-boxed), then update ONE instance through
// every in-place update form of its type (del of the first / a middle / the last / an absent key, field and index stores of
// old and new keys, delete-and-reinsert, updates while ranging, element stores, nested stores, stores through an any
// assertion) and observe ALL instances (print, sprint, range, len, has, ==, element reads) — before the update, after it,
// and after making further instances from the same sites. Everything is compared with coq/Sem.v (prints and the
// cell-identity dump, after the top-level run and after every event); in addition the family has its own oracle on the
// implementation alone (c09FreshOracle): an instance that shares nothing prints the same before and after an update of
// another instance.

type c09Kind struct {
	ty    string   // evy type of one instance
	sites []string // site expressions; I = a num expression in scope; a leading '~' marks a site that shares parts with globals
	muts  []string // update statements; T = target, K = key, I = num expression
	obs   []string // observation statements; T = target, U = a second instance, K = key
	keys  []string
	val   []string // values for map stores (V)
}

var c09MapMuts = []string{
	`del T "K"`, `del T "K"`, `del T "K"`, `T.K = V`, `T["K"] = V`, `del T "K"\nT.K = V`, `T.K = V\ndel T "K"`,
	`for kk := range T\n    del T kk\nend`, `for kk := range T\n    T[kk] = V\nend`,
	`for kk := range T\n    if kk != "K"\n        del T kk\n    end\nend`,
	`del T "K"\ndel T "K2"`, `if cnt >= 0\n    kd := "K"\n    del T kd\nend`,
}

var c09MapObs = []string{
	`print "o" T`, `print "o" (len T) (has T "K")`, `for kk := range T\n    print "r" kk T[kk]\nend`, `print "o" (sprint T) (T == U)`,
	`if (has T "K")\n    print "o" T.K T["K"]\nend`, `print "o" T U`,
}

var c09ArrObs = []string{
	`print "o" T`, `print "o" (len T) T[0] T[-1]`, `for ee := range T\n    print "r" ee\nend`, `print "o" (sprint T) (T == U)`, `print "o" T U`, `print "o" T[:1] (T + U)`,
}

var c09Kinds = []c09Kind{
	{ty: "{}num",
		sites: []string{`{x:1 y:2 z:3}`, `{x:I y:2 z:3}`, `{a:I b:I+1 c:0 d:4}`, `{x:1 y:2}`, `{z:I y:I x:I a:0 b:0}`},
		muts:  c09MapMuts, obs: c09MapObs, keys: []string{"x", "y", "z", "a", "b", "d", "w"}, val: []string{"9", "I", "I+50"}},
	{ty: "{}string",
		sites: []string{`{name:"n" kind:"k" id:"i"}`, `{name:(sprint I) kind:"k" id:"i"}`, `{id:"i" name:"n"+(sprint I)}`, `{a:"1" b:"2" c:"3" d:"4"}`},
		muts:  c09MapMuts, obs: c09MapObs, keys: []string{"name", "kind", "id", "a", "c", "w"}, val: []string{`"s7"`, `(sprint I)`}},
	{ty: "{}bool",
		sites: []string{`{up:true off:false mid:(I > 1)}`, `{p:true q:true r:false s:true}`},
		muts:  c09MapMuts, obs: c09MapObs, keys: []string{"up", "off", "mid", "p", "q", "s", "w"}, val: []string{`true`, `(I > 0)`}},
	{ty: "[]num",
		sites: []string{`[1 2 3]`, `[I I+1 I+2]`, `[1 2] + [I]`, `[I] * 3`, `base[:]`, `base[1:]`, `base + [I]`, `base * 2`, `[1 2 3 4][1:3]`, `[I 7]`},
		muts:  []string{`T[0] = 9`, `T[-1] = I+60`, `T[1] = T[0]`, `for jj := range (len T)\n    T[jj] = T[jj] + 10\nend`},
		obs:   c09ArrObs},
	{ty: "[]string",
		sites: []string{`["a" "b" "c"]`, `[(sprint I) "b"]`, `["a"] * 2 + ["z"]`, `(split "p q r" " ")`},
		muts:  []string{`T[0] = "m"`, `T[-1] = (sprint I)`, `T[1] = T[0] + "!"`},
		obs:   c09ArrObs},
	{ty: "[]{}num",
		sites: []string{`[{a:1 b:2 c:3} {a:4 b:5 c:6}]`, `[{a:I b:2 c:3}] * 2`, `[{a:1 b:2 c:3}] + [{a:4 b:5 c:I}]`, `~[mb {a:I b:2 c:3}]`,
			`[{a:1 b:2 c:3} {a:4 b:5 c:6} {a:7 b:8 c:9}][1:]`, `~([mb] * 2)`, `~(ams[:])`},
		muts: []string{`del T[0] "K"`, `del T[-1] "K"`, `del T[1] "K"`, `T[-1].K = 9`, `T[0].w = I`, `T[0] = {w:1}`, `if cnt >= 0\n    tm := T[0]\n    del tm "K"\nend`,
			`for em := range T\n    del em "K"\nend`, `for em := range T\n    em.K = 70\nend`},
		obs:  append([]string{`print "o" (has T[0] "K") (len T[-1])`, `for em := range T\n    for kk := range em\n        print "r" kk em[kk]\n    end\nend`}, c09ArrObs...),
		keys: []string{"a", "b", "c", "x", "w"}},
	{ty: "{}[]num",
		sites: []string{`{p:[1 2] q:[3 4] r:[I]}`, `~{p:base q:base[:] r:[I]}`, `{p:[1 2]+[I] q:[0]*2 r:[5]}`, `{r:[I] p:[1 2]}`},
		muts: append([]string{`if (has T "K")\n    T.K[0] = 9\nend`, `if (has T "K")\n    tl := T.K\n    tl[-1] = I+80\nend`,
			`for kk := range T\n    T[kk][0] = 33\nend`}, c09MapMuts...),
		obs: c09MapObs, keys: []string{"p", "q", "r", "w"}, val: []string{"[7 I]", "[I]"}},
	{ty: "{}{}num",
		sites: []string{`{p:{a:1 b:2 c:3} q:{a:4 b:5 c:6} r:{a:I}}`, `~{p:mb q:{a:4 b:5 c:6} r:{a:1}}`, `{q:{c:I b:2 a:1} p:{a:1 b:2 c:3}}`},
		muts: append([]string{`if (has T "K")\n    del T.K "a"\nend`, `if (has T "K")\n    del T.K "b"\nend`, `if (has T "K")\n    T.K.b = 9\nend`,
			`if (has T "K")\n    T.K.w = I\nend`, `for kk := range T\n    del T[kk] "a"\nend`, `if (has T "K")\n    tm := T.K\n    del tm "a"\nend`}, c09MapMuts...),
		obs:  append([]string{`if (has T "K")\n    print "o" T.K (len T.K) (has T.K "a")\n    for kk := range T.K\n        print "r" kk\n    end\nend`}, c09MapObs...),
		keys: []string{"p", "q", "r", "w"}, val: []string{"{w:1}", "{a:I b:1}", "{}"}},
	{ty: "[][]num",
		sites: []string{`[[1 2] [3 4]]`, `[[I 2]] * 2`, `~(nnb[:])`, `~[base base[:]]`, `[[1 2]] + [[I]]`, `nnb * 1`, `[[1] [2 3] [4 5 6]][1:]`},
		muts:  []string{`T[0][0] = 9`, `T[-1] = [7]`, `T[0][-1] = I+80`, `if cnt >= 0\n    tl := T[1]\n    tl[0] = 44\nend`, `for el := range T\n    el[0] = 55\nend`},
		obs:   c09ArrObs},
	{ty: "{}any",
		sites: []string{`{n:1 s:"a" l:[1 2] m:{x:1 y:2 z:3}}`, `~{n:I l:base m:mb}`, `{m:{x:I y:2 z:3} l:[I] n:0 s:"s"}`},
		muts: append([]string{
			`if (has T "m") and (typeof T.m) == "{}num"\n    tm := T.m.({}num)\n    del tm "K3"\nend`,
			`if (has T "m") and (typeof T.m) == "{}num"\n    tm := T.m.({}num)\n    tm.K3 = I\nend`,
			`if (has T "l") and (typeof T.l) == "[]num"\n    tl := T.l.([]num)\n    tl[0] = 9\nend`}, c09MapMuts...),
		obs:  append([]string{`if (has T "m")\n    print "o" T.m (typeof T.m)\nend`}, c09MapObs...),
		keys: []string{"n", "s", "l", "m", "w"}, val: []string{`"v"`, "I", "[I]", "{x:I}"}},
	{ty: "[]any",
		sites: []string{`[1 "a" [1 2] {x:1 y:2 z:3}]`, `~[I base mb]`, `[{x:I y:2 z:3} [I]]`},
		muts: []string{`T[0] = 2`, `if (typeof T[-1]) == "{}num"\n    tm := T[-1].({}num)\n    del tm "K3"\nend`,
			`if (typeof T[0]) == "{}num"\n    tm := T[0].({}num)\n    del tm "K3"\n    tm.K3 = 5\nend`,
			`if (typeof T[-1]) == "[]num"\n    tl := T[-1].([]num)\n    tl[0] = 9\nend`, `T[-1] = "gone"`},
		obs: c09ArrObs},
}

type c09Inst struct {
	ref   string // expression denoting the instance at top level
	fresh bool   // made by a site that shares nothing with any global
}

// c09FreshSites returns a program, the events to deliver after its top-level run, and the tags of the
// before / after observation pairs of c09FreshOracle.
func c09FreshSites(rng *rand.Rand) (string, []SemEvent) {
	var b, hb strings.Builder
	cur := &b
	w := func(f string, a ...any) { fmt.Fprintf(cur, f+"\n", a...) }
	kd := c09Kinds[rng.Intn(len(c09Kinds))]
	pick := func(l []string) string { return l[rng.Intn(len(l))] }
	indent := func(s, ind string) string { return ind + strings.ReplaceAll(s, "\n", "\n"+ind) }
	// a site expression for a context in which `iexpr` is a num expression
	site := func(iexpr string) (string, bool) {
		s := pick(kd.sites)
		fresh := true
		if s[0] == '~' {
			s, fresh = s[1:], false
		}
		return strings.ReplaceAll(s, "I", iexpr), fresh
	}
	fill := func(tpl, tgt, other, iexpr string) string {
		s := strings.ReplaceAll(tpl, `\n`, "\n")
		k, k2 := "x", "y"
		if len(kd.keys) > 0 {
			k, k2 = pick(kd.keys), pick(kd.keys)
		}
		s = strings.ReplaceAll(s, "K3", pick([]string{"x", "y", "z", "w"}))
		s = strings.ReplaceAll(s, "K2", k2)
		s = strings.ReplaceAll(s, "K", k)
		if len(kd.val) > 0 {
			s = strings.ReplaceAll(s, "V", pick(kd.val))
		}
		s = strings.ReplaceAll(s, "T", tgt)
		s = strings.ReplaceAll(s, "U", other)
		return strings.ReplaceAll(s, "I", iexpr)
	}
	w("base := [1 2 3]\nnnb := [[1 2] [3 4]]\nmb := {x:1 y:2 z:3}\nams := [{a:1 b:2 c:3} {a:4 b:5 c:6}]\ncnt := 0")
	w("insts:[]%s\nwa:any\nwb:any", kd.ty)
	// the repeated-evaluation contexts; each has ONE site in its text
	sMk, fMk := site("i")
	w("func mk:%s i:num\n    cnt = cnt + i\n    return %s\nend", kd.ty, sMk)
	sMkl, fMkl := site("i")
	lm := ""
	if rng.Intn(2) == 0 { // the function updates its own new instance before returning it
		lm = indent(fill(pick(kd.muts), "t", "t", "i"), "    ") + "\n"
	}
	w("func mkl:%s i:num\n    t := %s\n%s    cnt = cnt + i\n    return t\nend", kd.ty, sMkl, lm)
	sPush, fPush := site("i")
	w("func push i:num\n    insts = insts + [(%s)]\n    cnt = cnt + i\nend", sPush)
	sRec, fRec := site("n")
	w("func rec n:num\n    if n > 0\n        insts = insts + [(%s)]\n        rec n-1\n    end\nend", sRec)
	sKeep, fKeep := site("cnt")
	w("func keep v:%s\n    insts = insts + [v]\nend", kd.ty)
	// event handlers: each delivery makes a new instance, updates an old or the new one, observes
	var evs []SemEvent
	handlers := ""
	if rng.Intn(3) == 0 {
		cur = &hb
		sH, _ := site("(len insts)")
		hm := fill(pick(kd.muts), pick([]string{"insts[0]", "insts[-1]", "insts[1]", "p", "h"}), "q", "cnt")
		ho := fill(pick(kd.obs), pick([]string{"insts[-1]", "insts[-2]", "h", "q", "insts[0]"}), "p", "cnt")
		w("on key k:string\n    h := %s\n    print \"key\" k h\n%s\n    insts = insts + [h]\n%s\n    cnt = cnt + 1\n    print \"h\" p q insts\nend", sH, indent(hm, "    "), indent(ho, "    "))
		sD, _ := site("x")
		w("on down x:num y:num\n    wa = %s\n    print \"down\" x y wa wb\n    wb = wa\n%s\n    print \"d\" p q insts wa\nend", sD, indent(fill(pick(kd.muts), pick([]string{"insts[0]", "q", "insts[-1]"}), "p", "y"), "    "))
		for n := 2 + rng.Intn(4); n > 0; n-- {
			if rng.Intn(3) > 0 {
				evs = append(evs, SemEvent{Name: "key", Params: []any{pick([]string{"a", "b", "Enter"})}})
			} else {
				evs = append(evs, SemEvent{Name: "down", Params: []any{float64(rng.Intn(90)), float64(rng.Intn(90))}})
			}
		}
		handlers = hb.String()
		cur = &b
	}
	var insts []c09Inst
	nIn := 0 // length of the global array insts
	uid := 0
	addIn := func(n int, fresh bool) {
		for ; n > 0; n-- {
			insts = append(insts, c09Inst{fmt.Sprintf("insts[%d]", nIn), fresh})
			nIn++
		}
	}
	create := func() {
		uid++
		n := 2 + rng.Intn(2)
		switch rng.Intn(9) {
		case 0:
			s, f := site(fmt.Sprintf("i%d", uid))
			w("for i%[1]d := range %[2]d\n    insts = insts + [(%[3]s)]\n    cnt = cnt + i%[1]d\nend", uid, n, s)
			addIn(n, f)
		case 1:
			w("for i%d := range %d\n    push i%d\nend", uid, n, uid)
			addIn(n, fPush)
		case 2:
			w("i%[1]d := 0\nwhile i%[1]d < %[2]d\n    insts = insts + [(mk i%[1]d)]\n    i%[1]d = i%[1]d + 1\nend", uid, n)
			addIn(n, fMk)
		case 3:
			s, f := site(fmt.Sprintf("e%d", uid))
			w("for e%[1]d := range [5 6 7]\n    insts = insts + [(%[2]s)]\n    cnt = cnt + e%[1]d\nend", uid, s)
			addIn(3, f)
		case 4:
			w("insts = insts + [(mkl 1)] + [(mkl 2)]")
			addIn(2, fMkl)
		case 5:
			w("rec %d", n)
			addIn(n, fRec)
		case 6:
			w("for range %d\n    keep (%s)\n    cnt = cnt + 1\nend", n, sKeep)
			addIn(n, fKeep)
		case 7: // the site is the body of a while loop that also updates the instance made one iteration earlier
			s, f := site(fmt.Sprintf("i%d", uid))
			w("i%[1]d := 0\nwhile i%[1]d < %[2]d\n    insts = insts + [(%[3]s)]\n    if i%[1]d > 0\n%[4]s\n    end\n    i%[1]d = i%[1]d + 1\nend", uid, n, s,
				indent(fill(pick(kd.muts), "insts[-2]", "insts[-1]", fmt.Sprintf("i%d", uid)), "        "))
			addIn(n, f)
		default: // nested loops: the same site is evaluated n*2 times
			s, f := site(fmt.Sprintf("(i%[1]d + j%[1]d)", uid))
			w("for i%[1]d := range %[2]d\n    for j%[1]d := range 2\n        insts = insts + [(%[3]s)]\n        cnt = cnt + j%[1]d\n    end\n    cnt = cnt + i%[1]d\nend", uid, n, s)
			addIn(n*2, f)
		}
	}
	w("p := (mk 0)\nq := (mk 1)")
	b.WriteString(handlers)
	insts = append(insts, c09Inst{"p", fMk}, c09Inst{"q", fMk})
	if rng.Intn(3) == 0 {
		w("r := (mkl 3)")
		insts = append(insts, c09Inst{"r", fMkl})
	}
	create()
	if rng.Intn(2) == 0 {
		create()
	}
	if rng.Intn(4) == 0 { // an any-boxed instance
		s, _ := site("cnt")
		w("for range 2\n    wb = wa\n    wa = %s\n    cnt = cnt + 1\nend", s)
	}
	tag := 0
	for rounds := 2 + rng.Intn(3); rounds > 0; rounds-- {
		ti := rng.Intn(len(insts))
		tgt := insts[ti]
		oi := rng.Intn(len(insts) - 1)
		if oi >= ti {
			oi++
		}
		oth := insts[oi]
		// the oracle's pair: an instance that shares nothing, printed before and after the update of another one
		var nf []string
		for i, in := range insts {
			if in.fresh && i != ti && rng.Intn(3) > 0 {
				nf = append(nf, in.ref)
			}
		}
		tag++
		if len(nf) > 0 {
			w("print \"nf%d:\" %s", tag, strings.Join(nf, " "))
		}
		w("%s", fill(pick(kd.muts), tgt.ref, oth.ref, "cnt"))
		if len(nf) > 0 {
			w("print \"nf%d:\" %s", tag, strings.Join(nf, " "))
		}
		for n := 1 + rng.Intn(3); n > 0; n-- {
			o := insts[rng.Intn(len(insts))]
			if rng.Intn(2) == 0 {
				o = oth
			}
			w("%s", fill(pick(kd.obs), o.ref, insts[rng.Intn(len(insts))].ref, "cnt"))
		}
		switch rng.Intn(4) {
		case 0: // further instances from a site that was already evaluated, observed next to the old ones
			uid++
			fn, f := "mk", fMk
			if rng.Intn(2) == 0 {
				fn, f = "mkl", fMkl
			}
			w("n%d := (%s %d)\nprint \"new\" n%d", uid, fn, uid, uid)
			insts = append(insts, c09Inst{fmt.Sprintf("n%d", uid), f})
		case 1:
			create()
			w("print \"grown\" insts")
		}
		w("cnt = cnt + 1")
	}
	for _, in := range insts {
		if in.ref == "r" {
			w("print \"r\" r")
		}
	}
	w("print p q insts wa wb")
	w("print base nnb mb ams")
	return b.String(), evs
}

// c09FreshOracle: the lines printed with the same "nfN:" tag (the instances that share nothing with the updated one, before
// and after the update) are equal. Stated on the implementation's own output; independent of the model.
func c09FreshOracle(r *Result, src string, evs []SemEvent, d SemDiff) {
	if len(d.Impl.Phases) == 0 {
		return
	}
	seen := map[string]string{}
	for _, t := range d.Impl.Phases[0].Trace {
		if !strings.HasPrefix(t, "print:nf") {
			continue
		}
		i := strings.Index(t, ": ")
		if i < 0 {
			continue
		}
		tg, rest := t[:i], t[i:]
		if before, ok := seen[tg]; ok && before != rest {
			r.Violate(Violation{Kind: "property", Key: "fresh-instance-changed",
				Detail: "a container made by its own evaluation of a literal / slice / concatenation / repetition (sharing nothing) changed when another instance was updated: before " + strings.TrimSpace(before) + " after " + strings.TrimSpace(rest),
				Input:  map[string]any{"program": src, "events": evs}, Impl: d.Impl.Phases[0].Trace})
			return
		}
		seen[tg] = rest
	}
}
