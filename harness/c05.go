package main

import (
	"encoding/json"
	"errors"
	"fmt"
	"math/rand"
	"os"
	"path/filepath"
	"regexp"
	"strings"
	"time"

	"evylang.dev/evy/pkg/evaluator"
	"evylang.dev/evy/pkg/parser"
)

// C05 — Invalid programs are rejected and nothing of them runs
// (implementation-side oracle; Coq side: coq/Props/C05.v on coq/RunModel.v).
//
// For every static rule of the property text one rule-breaking edit is applied
// at applicable positions of accepted programs (repo corpus + generated).
// Oracles: parser.Parse rejects with >= 1 error, every error located;
// Evaluator.Run(src) with a recording Platform sees ZERO calls (no effect, no
// yield, no Yielder() request); `evy run` prints nothing on stdout, something
// on stderr and exits non-zero — also under every flag set of runCmd and from
// every source channel, leaving its working directory untouched (c05cli.go).

type c05Line struct {
	text       string
	trimmed    string
	kind       string   // open:<kw> | else | end | blank | comment | stmt | cont (continuation of a multi-line literal)
	stack      []string // block stack BEFORE this line
	balStart   int      // bracket balance before the line
	balEnd     int
	hasComment bool
}

// codeBalance returns the bracket balance change of a line outside strings and comments, and whether it has a comment.
func codeBalance(line string) (delta int, comment bool) {
	inStr, esc := false, false
	for i := 0; i < len(line); i++ {
		c := line[i]
		if inStr {
			if esc {
				esc = false
			} else if c == '\\' {
				esc = true
			} else if c == '"' {
				inStr = false
			}
			continue
		}
		switch c {
		case '"':
			inStr = true
		case '/':
			if i+1 < len(line) && line[i+1] == '/' {
				return delta, true
			}
		case '[', '{', '(':
			delta++
		case ']', '}', ')':
			delta--
		}
	}
	return delta, false
}

var c05FuncRet = regexp.MustCompile(`^func\s+[^\s:]+:`)

func c05Analyse(src string) []c05Line {
	raw := strings.Split(strings.TrimSuffix(src, "\n"), "\n")
	var out []c05Line
	var stack []string
	bal := 0
	for _, t := range raw {
		ln := c05Line{text: t, trimmed: strings.TrimSpace(t), stack: append([]string(nil), stack...), balStart: bal}
		d, hc := codeBalance(t)
		ln.hasComment = hc
		bal += d
		ln.balEnd = bal
		first := ""
		if f := strings.Fields(ln.trimmed); len(f) > 0 {
			first = f[0]
		}
		switch {
		case ln.balStart != 0:
			ln.kind = "cont"
		case ln.trimmed == "":
			ln.kind = "blank"
		case strings.HasPrefix(ln.trimmed, "//"):
			ln.kind = "comment"
		case first == "if" || first == "while" || first == "for" || first == "on":
			ln.kind = "open:" + first
			stack = append(stack, first)
		case first == "func":
			ln.kind = "open:func"
			if c05FuncRet.MatchString(ln.trimmed) {
				stack = append(stack, "func:typed")
			} else {
				stack = append(stack, "func")
			}
		case first == "else":
			ln.kind = "else"
		case first == "end":
			ln.kind = "end"
			if len(stack) > 0 {
				stack = stack[:len(stack)-1]
			}
		default:
			ln.kind = "stmt"
		}
		out = append(out, ln)
	}
	return out
}

type c05Mutant struct {
	Src  string
	Rule string
	Pos  string // classification of the position (block nesting)
}

func stackClass(st []string) string {
	if len(st) == 0 {
		return "top"
	}
	if len(st) > 2 {
		return "..>" + strings.Join(st[len(st)-2:], ">")
	}
	return strings.Join(st, ">")
}

func inLoopStack(st []string) bool {
	for _, s := range st {
		if s == "while" || s == "for" {
			return true
		}
	}
	return false
}

// innermost function-like frame: "", "func", "func:typed", "on"
func funcFrame(st []string) string {
	for i := len(st) - 1; i >= 0; i-- {
		if strings.HasPrefix(st[i], "func") || st[i] == "on" {
			return st[i]
		}
	}
	return ""
}

type c05Gen struct {
	cfg Config
	all bool // every position (thorough) or a sample
	per int  // positions per rule and program when sampling
	n   int
}

func (g *c05Gen) pickPositions(cands []int) []int {
	if g.all || len(cands) <= g.per {
		return cands
	}
	perm := g.cfg.Rng.Perm(len(cands))
	out := make([]int, 0, g.per)
	for _, i := range perm[:g.per] {
		out = append(out, cands[i])
	}
	return out
}

func insertAt(lines []c05Line, pos int, ins []string, depth int) string {
	var b strings.Builder
	ind := strings.Repeat("    ", depth)
	for i := 0; i <= len(lines); i++ {
		if i == pos {
			for _, l := range ins {
				b.WriteString(ind + l + "\n")
			}
		}
		if i < len(lines) {
			b.WriteString(lines[i].text + "\n")
		}
	}
	return b.String()
}

// mutants applies every rule at the chosen applicable positions.
func (g *c05Gen) mutants(src string) []c05Mutant {
	lines := c05Analyse(src)
	if len(lines) > 0 && lines[len(lines)-1].balEnd != 0 {
		return nil // analysis lost track of brackets (e.g. brackets in comments): do not guess
	}
	g.n++
	tag := fmt.Sprintf("zz%d", g.n)
	// statement boundaries: position p = before line p (p == len(lines): at the end)
	type posInfo struct {
		p         int
		stack     []string
		afterTerm bool
	}
	var bounds []posInfo
	prevKind, prevTrim := "", ""
	for p := 0; p <= len(lines); p++ {
		var st []string
		bal := 0
		if p < len(lines) {
			st, bal = lines[p].stack, lines[p].balStart
		}
		if bal == 0 {
			at := prevKind == "stmt" && (strings.HasPrefix(prevTrim, "return") || prevTrim == "break" || strings.HasPrefix(prevTrim, "break "))
			bounds = append(bounds, posInfo{p, st, at})
		}
		if p < len(lines) && lines[p].kind != "blank" && lines[p].kind != "comment" {
			prevKind, prevTrim = lines[p].kind, lines[p].trimmed
		}
	}
	var out []c05Mutant
	add := func(rule string, cand []posInfo, ins func() []string) {
		idx := make([]int, len(cand))
		for i := range cand {
			idx[i] = i
		}
		for _, i := range g.pickPositions(idx) {
			b := cand[i]
			out = append(out, c05Mutant{Src: insertAt(lines, b.p, ins(), len(b.stack)), Rule: rule, Pos: stackClass(b.stack)})
		}
	}
	var anywhere, top, noLoop, procOrHandler []posInfo
	for _, b := range bounds {
		if b.afterTerm {
			continue // an insertion here is "unreachable code", which has its own rule below
		}
		anywhere = append(anywhere, b)
		if len(b.stack) == 0 {
			top = append(top, b)
		}
		if !inLoopStack(b.stack) {
			noLoop = append(noLoop, b)
		}
		if f := funcFrame(b.stack); f == "func" || f == "on" || f == "" {
			procOrHandler = append(procOrHandler, b)
		}
	}
	rng := g.cfg.Rng
	add("undeclared-variable", anywhere, func() []string {
		return [][]string{{"print undeclared_" + tag}, {"undeclared_" + tag + " = 1"}, {"print 1 + undeclared_" + tag}}[rng.Intn(3)]
	})
	add("unused-variable", anywhere, func() []string {
		return [][]string{{"unused_" + tag + " := 1"}, {"unused_" + tag + ":[]num"}}[rng.Intn(2)]
	})
	// the binder positions of the scope rules: loop variables (all range forms), parameters (incl. variadic), handler parameters
	add("unused-variable", anywhere, func() []string {
		return [][]string{{"for ul_" + tag + " := range 3", "    print 1", "end"}, {"for ul_" + tag + " := range [1 2]", "    print 1", "end"},
			{"for ul_" + tag + " := range {a:1}", "    print 1", "end"}, {"for ul_" + tag + " := range \"ab\"", "    print 1", "end"},
			{"for range 2", "    ul_" + tag + " := 1", "end"}, {"while true", "    ul_" + tag + " := 1", "    break", "end"},
			{"if true", "    print 1", "else", "    ul_" + tag + " := 1", "end"}}[rng.Intn(7)]
	})
	add("unused-variable", top, func() []string {
		return [][]string{{"func up_" + tag + " p:num", "    print 1", "end", "up_" + tag + " 1"}, {"func up_" + tag + " p:num...", "    print 1", "end", "up_" + tag + " 1"},
			{"func up_" + tag + ":num p:num q:string", "    return p", "end", "print (up_" + tag + " 1 \"a\")"}}[rng.Intn(3)]
	})
	// functions are names too: a second definition, a definition of a built-in name; a procedure used as a value
	add("redeclaration-same-scope", top, func() []string {
		return [][]string{{"func df_" + tag, "    print 1", "end", "func df_" + tag, "    print 2", "end", "df_" + tag},
			{"func df_" + tag + ":num", "    return 1", "end", "func df_" + tag + " a:num", "    print a", "end", "print (df_" + tag + ")"},
			{"func print", "    cls", "end"}, {"func len:num", "    return 1", "end", "print (len)"}}[rng.Intn(4)]
	})
	add("type-mismatch", top, func() []string {
		return [][]string{{"func np_" + tag, "    print 1", "end", "print (np_" + tag + ")"},
			{"func np_" + tag, "    print 1", "end", "nv_" + tag + " := (np_" + tag + ")", "print nv_" + tag},
			{"func np_" + tag, "    print 1", "end", "func ng_" + tag + " a:any", "    print a", "end", "ng_" + tag + " (np_" + tag + ")"},
			{"func np_" + tag, "    print 1", "end", "print [(np_" + tag + ")]"}}[rng.Intn(4)]
	})
	// type mismatch at every operand position of the statement forms that take typed operands
	add("type-mismatch", anywhere, func() []string {
		v := "tr_" + tag
		return [][]string{
			{"for " + v + " := range 0 6 \"2\"", "    print " + v, "end"}, {"for " + v + " := range 0 6 true", "    print " + v, "end"},
			{"for " + v + " := range 0 6 [1]", "    print " + v, "end"}, {"for " + v + " := range 0 \"6\"", "    print " + v, "end"},
			{"for " + v + " := range \"0\" 6", "    print " + v, "end"}, {"for " + v + " := range true", "    print " + v, "end"},
			{"for " + v + " := range 0 \"6\" 2", "    print " + v, "end"}, {"for " + v + " := range {a:1} 2", "    print " + v, "end"},
			{"for range 1 2 \"3\"", "    print 1", "end"}, {"while 1", "    break", "end"}, {"while \"true\"", "    break", "end"},
			{"if true", "    print 1", "else if 0", "    print 2", "end"}, {"print [1 2][\"a\"]"}, {"print {a:1}[0]"}, {"print \"abc\"[\"a\"]"},
			{"print [1 2][true:]"}, {"print [1 2][:\"1\"]"}, {"print !1"}, {"print -true"}, {"print (1 < \"a\")"}, {"print (true and 1)"},
			{"print (1 == \"1\")"}, {"print [1] + 1"}, {"print [1] * \"2\""}, {"print \"a\" * 2"}, {"print {a:1}.a.b"}, {"print 1.(num)"},
		}[rng.Intn(27)]
	})
	add("type-mismatch", top, func() []string {
		return [][]string{
			{"func tf_" + tag + ":num", "    return \"s\"", "end", "print (tf_" + tag + ")"},
			{"func tf_" + tag + " a:num", "    print a", "end", "tf_" + tag + " \"s\""},
			{"func tf_" + tag + " a:[]num", "    print a", "end", "tf_" + tag + " [\"s\"]"},
			{"func tf_" + tag + " a:num...", "    print a", "end", "tf_" + tag + " 1 \"s\" 3"},
			{"func tf_" + tag + ":[]num", "    return [1 \"a\"]", "end", "print (tf_" + tag + ")"},
		}[rng.Intn(5)]
	})
	add("wrong-argument-count", anywhere, func() []string {
		return [][]string{{"for wa_" + tag + " := range 1 2 3 4", "    print wa_" + tag, "end"}, {"for range", "    print 1", "end"}}[rng.Intn(2)]
	})
	add("redeclaration-same-scope", anywhere, func() []string {
		return [][]string{{"for dl_" + tag + " := range 2", "    dl_" + tag + " := \"again\"", "    print dl_" + tag, "end"},
			{"for dl_" + tag + " := range [1 2]", "    print dl_" + tag, "    dl_" + tag + " := 3", "    print dl_" + tag, "end"}}[rng.Intn(2)]
	})
	add("redeclaration-same-scope", top, func() []string {
		return [][]string{{"func dp_" + tag + " p:num", "    p := 2", "    print p", "end", "dp_" + tag + " 1"},
			{"func dp_" + tag + " p:num p:string", "    print p", "end", "dp_" + tag + " 1 \"a\""},
			{"func dp_" + tag + " p:num...", "    print p", "    p:string", "    print p", "end", "dp_" + tag + " 1"}}[rng.Intn(3)]
	})
	add("redeclaration-same-scope", anywhere, func() []string {
		return [][]string{{"dup_" + tag + " := 1", "dup_" + tag + " := 2", "print dup_" + tag},
			{"dup_" + tag + ":num", "dup_" + tag + ":string", "print dup_" + tag}}[rng.Intn(2)]
	})
	add("type-mismatch", anywhere, func() []string {
		return [][]string{{"tm_" + tag + " := 1", "tm_" + tag + " = \"s\"", "print tm_" + tag}, {"print 1 + \"a\""},
			{"if 1", "    print 1", "end"}, {"tm_" + tag + ":[]num", "tm_" + tag + " = [\"a\"]", "print tm_" + tag}, {"print -\"a\""}}[rng.Intn(5)]
	})
	add("wrong-argument-count", anywhere, func() []string {
		return [][]string{{"print (len 1 2)"}, {"cls 1"}, {"move 1"}, {"print (abs)"}}[rng.Intn(4)]
	})
	add("unknown-function", anywhere, func() []string {
		return [][]string{{"nofn_" + tag + " 1 2"}, {"print (nofn_" + tag + " 1)"}}[rng.Intn(2)]
	})
	add("missing-return", top, func() []string {
		return [][]string{{"func mr_" + tag + ":num", "    print 1", "end", "print (mr_" + tag + ")"},
			{"func mr_" + tag + ":num", "    if true", "        return 1", "    end", "end", "print (mr_" + tag + ")"}}[rng.Intn(2)]
	})
	add("break-outside-loop", noLoop, func() []string { return []string{"break"} })
	add("value-returned-from-handler-or-procedure", procOrHandler, func() []string { return []string{"return 1"} })
	// unreachable code: a statement right after an existing return / break
	var afterTerm []posInfo
	for _, b := range bounds {
		if b.afterTerm {
			afterTerm = append(afterTerm, b)
		}
	}
	add("unreachable-code", afterTerm, func() []string { return []string{"print 1"} })
	add("unreachable-code", top, func() []string {
		return [][]string{{"func uc_" + tag, "    return", "    print 1", "end", "uc_" + tag},
			{"while true", "    break", "    print 1", "end"}}[rng.Intn(2)]
	})
	// stray text after a statement / after `end`
	var strayStmt, strayEnd []int
	for i, l := range lines {
		if l.hasComment || l.balStart != 0 || l.balEnd != 0 {
			continue
		}
		switch {
		case l.kind == "end":
			strayEnd = append(strayEnd, i)
		case l.kind == "stmt" || l.kind == "else" || strings.HasPrefix(l.kind, "open:"):
			strayStmt = append(strayStmt, i)
		}
	}
	stray := func(rule string, cand []int) {
		for _, i := range g.pickPositions(cand) {
			var b strings.Builder
			for j, l := range lines {
				b.WriteString(l.text)
				if j == i {
					b.WriteString([]string{" )", " ]", " }", " ) // c"}[rng.Intn(4)])
				}
				b.WriteString("\n")
			}
			out = append(out, c05Mutant{Src: b.String(), Rule: rule, Pos: stackClass(lines[i].stack) + "|" + strings.SplitN(lines[i].kind, ":", 2)[0]})
		}
	}
	stray("stray-text-after-statement", strayStmt)
	stray("stray-text-after-end", strayEnd)
	return out
}

// countingPlatform records every Platform call, including Yielder() requests.
type countingPlatform struct {
	recPlatform
	yielderCalls int
}

func (p *countingPlatform) Yielder() evaluator.Yielder {
	p.yielderCalls++
	return p.recPlatform.yielder
}

var locatedRe = regexp.MustCompile(`^line \d+ column \d+: `)

type c05Ctx struct {
	r       *Result
	bin     string
	binDir  string
	binRuns int
	cliRuns int // invocations of the flag x channel family (harness/c05cli.go)
	maxBin  int
	cfg     Config
	ruleBin map[string]int
}

func c05Check(c *c05Ctx, m c05Mutant, orig string) {
	r := c.r
	r.Count(m.Src, true)
	r.Dist("rule:" + m.Rule)
	r.Dist("position:" + truncKey(m.Pos, 40))
	input := map[string]any{"program": m.Src, "rule": m.Rule, "position": m.Pos}
	// ---- oracle 1: parser.Parse rejects with >= 1 located error ----
	_, err := safeParse(m.Src)
	if err == nil {
		key := "accepted:" + m.Rule
		if m.Rule == "stray-text-after-end" {
			key = "end-garbage-accepted"
		}
		r.Violate(Violation{Kind: "property", Key: key,
			Detail: "a program obtained from an accepted one by one rule-breaking edit (" + m.Rule + ") is accepted by parser.Parse", Input: input})
		// nothing more to check for an accepted program
		return
	}
	if strings.HasPrefix(err.Error(), "gopanic:") {
		r.Violate(Violation{Kind: "property", Key: "parser-gopanic:" + m.Rule, Detail: err.Error(), Input: input})
		return
	}
	var perrs parser.Errors
	if !errors.As(err, &perrs) || len(perrs) == 0 {
		r.Violate(Violation{Kind: "property", Key: "rejection-without-parser-errors", Detail: err.Error(), Input: input})
		return
	}
	for _, e := range perrs {
		if !locatedRe.MatchString(e.Error()) {
			r.Violate(Violation{Kind: "property", Key: "error-without-position", Detail: e.Error(), Input: input})
			return
		}
	}
	r.Validated++

	// ---- oracle 2: Evaluator.Run(src): the Platform sees zero calls ----
	y := &budgetYielder{budget: 1000}
	plat := &countingPlatform{recPlatform: recPlatform{yielder: y}}
	ev := evaluator.NewEvaluator(plat)
	plat.yielderCalls = 0 // the constructor asks for the Yielder once; that is before Run
	y.onOver = func() { ev.Stopped = true }
	var runErr error
	gp := ""
	func() {
		defer func() {
			if rec := recover(); rec != nil {
				gp = fmt.Sprint(rec)
			}
		}()
		runErr = ev.Run(m.Src)
	}()
	if gp != "" {
		r.Violate(Violation{Kind: "property", Key: "run-gopanic-on-rejected-program", Detail: gp, Input: input})
		return
	}
	if len(plat.Trace) != 0 || y.n != 0 || plat.yielderCalls != 0 {
		r.Violate(Violation{Kind: "property", Key: "rejected-program-had-effects",
			Detail: fmt.Sprintf("Evaluator.Run of a rejected program reached the Platform: %d effects, %d yields, %d Yielder() calls", len(plat.Trace), y.n, plat.yielderCalls),
			Input:  input, Impl: plat.Trace})
		return
	}
	if !errors.As(runErr, &perrs) {
		r.Violate(Violation{Kind: "property", Key: "run-does-not-return-parse-errors", Detail: fmt.Sprint(runErr), Input: input})
		return
	}

	// ---- oracle 3: the real `evy run` ----
	if c.bin != "" && c.binRuns < c.maxBin && (c.ruleBin[m.Rule] < 2 || c.cfg.Rng.Intn(c.cfg.N(400, 40)) == 0) {
		c.binRuns++
		c.ruleBin[m.Rule]++
		f := filepath.Join(c.binDir, fmt.Sprintf("m%d.evy", c.binRuns))
		if err := os.WriteFile(f, []byte(m.Src), 0o644); err == nil {
			res := runBin(c.bin, "", 10*time.Second, "run", "--skip-sleep", f)
			os.Remove(f)
			switch {
			case res.Timeout:
				r.Violate(Violation{Kind: "property", Key: "evy-run-timeout-on-rejected-program", Detail: "evy run did not finish in 10 s", Input: input})
			case res.Stdout != "":
				r.Violate(Violation{Kind: "property", Key: "evy-run-printed-on-stdout", Detail: "`evy run` of a rejected program wrote to stdout", Input: input, Impl: res.Stdout})
			case res.Exit == 0:
				r.Violate(Violation{Kind: "property", Key: "evy-run-exit-zero", Detail: "`evy run` of a rejected program exited 0", Input: input})
			case strings.TrimSpace(res.Stderr) == "":
				r.Violate(Violation{Kind: "property", Key: "evy-run-silent-on-stderr", Detail: "`evy run` of a rejected program wrote nothing to stderr", Input: input})
			default:
				r.Dist("evy-run:rejected-cleanly")
			}
		}
		// the same rejected program under the flag sets and source channels of `evy run` (harness/c05cli.go)
		c05CLIFamily(c, m)
	}
	if len(r.Samples) < 5 && len(m.Src) < 300 && r.Distribution["rule:"+m.Rule] == 1 {
		r.Sample(map[string]any{"rule": m.Rule, "position": m.Pos, "program": m.Src, "errors": truncKey(err.Error(), 200)})
	}
}

func truncKey(s string, n int) string {
	if len(s) > n {
		return s[:n]
	}
	return s
}

func runC05(cfg Config, r *Result) {
	r.Rule = "every accepted program of the repo corpus and of the typed generator x every static rule of the property text " +
		"(undeclared variable, unused variable, redeclaration in the same scope, type mismatch, wrong argument count, unknown function, missing return, " +
		"unreachable code after return/break, break outside a loop, value returned from a handler/procedure, stray text after a statement, stray text after `end`) " +
		"x applicable positions (statement boundaries at every block nesting: top level, if/else, while, for, func, on; quick: 2 random positions per rule and program, thorough: all); " +
		"scope trees: random trees of if / else-if / else chains, loops, function and handler bodies with one declaration and a read of it at every position where it is not in scope " +
		"(later / earlier sibling branch, else-if and while conditions, after / before the enclosing block, unrelated blocks); " +
		"one rule-breaking edit per mutant; every mutant is non-trivial; distinct = distinct mutant text; " +
		"`evy run` half: the mutants that go through the binary x flag sets of runCmd (--svg-out - / fresh FILE / existing FILE, --svg-style/-width/-height, --rand-seed, " +
		"with and without --skip-sleep / EVY_SKIP_SLEEP, --no-test-summary, --fail-fast, all together) x source channel (file, stdin `-`, stdin default, txtar member): " +
		"no stdout byte, working directory byte-identical before/after, located error on stderr, non-zero exit"
	bin, cleanup, err := fmBuildEvy()
	if err != nil {
		r.Violate(Violation{Kind: "correspondence", Key: "evy-binary-build", Detail: err.Error()})
	} else {
		defer cleanup()
	}
	c := &c05Ctx{r: r, bin: bin, binDir: filepath.Dir(bin), maxBin: cfg.N(36, 600), cfg: cfg, ruleBin: map[string]int{}}
	if cfg.Replay != "" {
		if b, err := os.ReadFile(cfg.Replay); err == nil {
			var v struct {
				Key   string         `json:"key"`
				Input map[string]any `json:"input"`
			}
			if json.Unmarshal(b, &v) == nil {
				if s, ok := v.Input["source"].(string); ok && strings.HasPrefix(v.Key, "typed-parser-model") {
					// a recorded difference of the typed parser-model stream (harness/c05typed.go)
					runC05typedReplay(cfg, r)
					_ = s
					return
				}
				if s, ok := v.Input["program"].(string); ok {
					rule, _ := v.Input["rule"].(string)
					pos, _ := v.Input["position"].(string)
					c05Check(c, c05Mutant{Src: s, Rule: rule, Pos: pos}, "")
					return
				}
			}
		}
		r.Note("replay file %s has no usable input", cfg.Replay)
	}
	g := &c05Gen{cfg: cfg, all: cfg.Tier == "thorough", per: 2}
	var progs []string
	progs = append(progs, c05Seeds...)
	// handler parameters are binders too (an `on` definition cannot be inserted into an arbitrary program: one handler per event)
	for _, hp := range []c05Mutant{
		{Src: "on key k:string\n    print 1\nend\n", Rule: "unused-variable", Pos: "handler-parameter"},
		{Src: "on down x:num y:num\n    print x\nend\n", Rule: "unused-variable", Pos: "handler-parameter"},
		{Src: "on key k:string\n    k := 2\n    print k\nend\n", Rule: "redeclaration-same-scope", Pos: "handler-parameter"},
		{Src: "on key\n    print 1\nend\non key\n    print 2\nend\n", Rule: "redeclaration-same-scope", Pos: "handler-name"},
		{Src: "on key k:string\n    print k\nend\non key\n    print 2\nend\n", Rule: "redeclaration-same-scope", Pos: "handler-name"},
		{Src: "on nosuchevent\n    print 1\nend\n", Rule: "unknown-function", Pos: "handler-name"},
		{Src: "on key k:num\n    print k\nend\n", Rule: "type-mismatch", Pos: "handler-parameter"},
		{Src: "on down x:num\n    print x\nend\n", Rule: "wrong-argument-count", Pos: "handler-parameter"},
		{Src: "on down x:num y:num\n    print x y\n    y:string\n    print y\nend\n", Rule: "redeclaration-same-scope", Pos: "handler-parameter"},
	} {
		c05Check(c, hp, "")
	}
	// recorded witnesses (already rule-breaking programs) are replayed as they are
	for _, w := range corpusFiles("C05") {
		c05Check(c, c05Mutant{Src: w, Rule: "stray-text-after-end", Pos: "corpus-file"}, "")
	}
	corpus := CorpusPrograms()
	for i, s := range corpus {
		if cfg.Tier == "thorough" || i%3 == int(cfg.Seed%3) {
			progs = append(progs, s)
		}
	}
	nGen := cfg.N(160, 1500)
	for i := 0; i < nGen; i++ {
		s, _, _ := GenProgram(cfg.Rng, fmtGenOpts[i%len(fmtGenOpts)])
		progs = append(progs, s)
	}
	budget := cfg.N(14000, 400000)
	// return-path trees first (they are cheap and must not be starved by the budget)
	rtValid, rtMut := c05ReturnTreeMutants(cfg, cfg.N(150, 3000))
	for _, p := range rtValid {
		if _, err := safeParse(p); err != nil {
			// not this property's concern (C04/C02 decide what is accepted); recorded so that the evidence shows it
			r.Dist("base:return-tree-rejected")
			if r.Distribution["base:return-tree-rejected"] == 1 {
				r.Note("first rejected return-tree base: %s\n%s", truncKey(err.Error(), 200), p)
			}
			continue
		}
		r.Dist("base:return-tree-accepted")
	}
	for _, m := range rtMut {
		c05Check(c, m, "")
	}
	// scope trees (harness/c05scope.go): a read of a variable at every position relative to its declaration
	scValid, scMut := c05ScopeMutants(cfg, cfg.N(250, 2000))
	for _, p := range scValid {
		if _, err := safeParse(p); err != nil {
			r.Dist("base:scope-tree-rejected")
			if r.Distribution["base:scope-tree-rejected"] == 1 {
				r.Note("first rejected scope-tree base: %s\n%s", truncKey(err.Error(), 200), p)
			}
			continue
		}
		r.Dist("base:scope-tree-accepted")
	}
	for _, m := range scMut {
		c05Check(c, m, "")
	}
	for _, p := range progs {
		if _, err := safeParse(p); err != nil {
			r.Dist("base:rejected")
			continue
		}
		r.Dist("base:accepted")
		for _, m := range g.mutants(p) {
			if r.Evaluations >= budget {
				break
			}
			c05Check(c, m, p)
		}
	}
	// the same bases and mutants through the parser model (coq/Parser.v, theorems Props/C05_parse.v): harness/c05rules.go
	rule := r.Rule
	runC05rules(cfg, r)
	r.Rule = rule + "; PARSER MODEL: " + r.Rule
	// the same through the typed parser model (coq/ParserTyped.v, concrete typing oracle; theorems Props/C05_typed.v): harness/c05typed.go
	rule = r.Rule
	runC05typed(cfg, r)
	r.Rule = rule + "; " + r.Rule
}

// small seed programs that contain every block form (so that every rule meets every nesting)
var c05Seeds = []string{
	"x := 1\nprint x\n",
	"func f:num a:num\n    if a > 0\n        return 1\n    else\n        return 2\n    end\nend\nfunc p s:string\n    print s\n    return\nend\non key k:string\n    print k\nend\nfor i := range 3\n    while i < 2\n        if i == 1\n            break\n        end\n        p \"a\"\n        break\n    end\nend\nprint (f 1)\n",
	"on down x:num y:num\n    for i := range 2\n        print x y i\n    end\nend\n",
	"a := [1 2 3]\nfor e := range a\n    if e > 1\n        print e\n    else if e == 1\n        print \"one\"\n    else\n        print \"other\"\n    end\nend\n",
}

func init() { register("C05", runC05) }

// ---- return-path trees: "missing return" and "unreachable code" at every position where the rule applies ----
//
// A typed function whose body is a random tree of terminating blocks (a block ends in `return v` or in an
// if / else-if* / else chain all of whose branches are terminating blocks, nested to any depth, with non-terminating
// statements - prints, an if without else that returns, a while loop that returns - in front) is accepted.
// One edit at one position of the tree breaks exactly one rule:
//
//	missing-return:   one terminal `return` leaf becomes a print, or the `else` of one terminal chain is dropped;
//	unreachable-code: a statement is appended right after one terminal `return` leaf or right after one terminal chain.
type rtStmt struct {
	kind    int // 0 print, 1 return, 2 if-chain, 3 while-with-return, 4 if-without-else-with-return
	blocks  [][]*rtStmt
	hasElse bool
	mut     int // 0 none, 1 return->print, 2 else dropped, 3 statement appended after this one
}

func rtGenBlock(rng *rand.Rand, depth int) []*rtStmt {
	var b []*rtStmt
	for i := rng.Intn(3); i > 0; i-- {
		b = append(b, &rtStmt{kind: []int{0, 0, 3, 4}[rng.Intn(4)]})
	}
	if depth == 0 || rng.Intn(3) == 0 {
		return append(b, &rtStmt{kind: 1})
	}
	ch := &rtStmt{kind: 2, hasElse: true}
	for i := 2 + rng.Intn(3); i > 0; i-- { // if + 0..2 else-if + else
		ch.blocks = append(ch.blocks, rtGenBlock(rng, depth-1))
	}
	return append(b, ch)
}

// rtTerminals lists the statements at which an edit applies: terminal returns and terminal chains.
func rtTerminals(b []*rtStmt, out *[]*rtStmt) {
	last := b[len(b)-1]
	*out = append(*out, last)
	if last.kind == 2 {
		for _, bb := range last.blocks {
			rtTerminals(bb, out)
		}
	}
}

func rtRender(sb *strings.Builder, b []*rtStmt, ind string, val string, ctr *int) {
	for _, s := range b {
		*ctr++
		switch s.kind {
		case 0:
			fmt.Fprintf(sb, "%sprint \"p%d\" n\n", ind, *ctr)
		case 1:
			if s.mut == 1 {
				fmt.Fprintf(sb, "%sprint \"fall%d\" n\n", ind, *ctr)
			} else {
				fmt.Fprintf(sb, "%sreturn %s\n", ind, val)
			}
		case 3:
			fmt.Fprintf(sb, "%swhile n > %d\n%s    return %s\n%send\n", ind, 1000+*ctr, ind, val, ind)
		case 4:
			fmt.Fprintf(sb, "%sif n > %d\n%s    return %s\n%send\n", ind, 1000+*ctr, ind, val, ind)
		case 2:
			for i, bb := range s.blocks {
				switch {
				case i == 0:
					fmt.Fprintf(sb, "%sif n < %d\n", ind, -*ctr)
				case i == len(s.blocks)-1 && s.mut != 2:
					fmt.Fprintf(sb, "%selse\n", ind)
				case i == len(s.blocks)-1:
					fmt.Fprintf(sb, "%selse if n == %d\n", ind, 500+*ctr) // the else became one more else-if
				default:
					fmt.Fprintf(sb, "%selse if n == %d\n", ind, *ctr*10+i)
				}
				rtRender(sb, bb, ind+"    ", val, ctr)
			}
			fmt.Fprintf(sb, "%send\n", ind)
		}
		if s.mut == 3 {
			fmt.Fprintf(sb, "%sprint \"after%d\"\n", ind, *ctr)
		}
	}
}

func c05ReturnTreeMutants(cfg Config, n int) (valid []string, out []c05Mutant) {
	rng := cfg.Rng
	for i := 0; i < n; i++ {
		rt := []string{"num", "string", "[]num", "bool"}[rng.Intn(4)]
		val := map[string]string{"num": "n", "string": `"s"`, "[]num": "[n]", "bool": "n > 0"}[rt]
		body := rtGenBlock(rng, 1+rng.Intn(3))
		render := func() string {
			var sb strings.Builder
			ctr := 0
			sb.WriteString("func f:" + rt + " n:num\n    print \"enter\" n\n")
			rtRender(&sb, body, "    ", val, &ctr)
			sb.WriteString("end\nprint \"start\"\nprint (f 1) (f -1)\n")
			return sb.String()
		}
		valid = append(valid, render())
		var terms []*rtStmt
		rtTerminals(body, &terms)
		picks := terms
		if cfg.Tier != "thorough" && len(picks) > 4 {
			rng.Shuffle(len(picks), func(a, b int) { picks[a], picks[b] = picks[b], picks[a] })
			picks = picks[:4]
		}
		for _, t := range picks {
			pos := "terminal-return"
			if t.kind == 2 {
				pos = fmt.Sprintf("terminal-chain-of-%d", len(t.blocks))
			}
			if t.kind == 1 {
				t.mut = 1
				out = append(out, c05Mutant{Src: render(), Rule: "missing-return", Pos: "tree|" + pos})
			} else {
				t.mut = 2
				out = append(out, c05Mutant{Src: render(), Rule: "missing-return", Pos: "tree|else-dropped|" + pos})
			}
			t.mut = 3
			out = append(out, c05Mutant{Src: render(), Rule: "unreachable-code", Pos: "tree|after|" + pos})
			t.mut = 0
		}
	}
	return valid, out
}
