package main

import (
	"fmt"
	"math/rand"
	"strings"
)

// Structured generator of evy programs inside (and, on request, outside) the
// subset the bytecode compiler translates.  Shared by C16 and C17.
//
// Every generated program parses (all variables are read, no unreachable
// code) and terminates (while loops count up to a literal bound, step ranges
// have literal bounds).  The known VM divergence classes of DESIGN §7 row 16
// are avoided unless explicitly enabled through genOpts.Classes, so that the
// main stream keeps exploring everything else.

type genOpts struct {
	MaxStmts int
	MaxDepth int             // nesting depth of blocks
	ExprDepth int
	Classes  map[string]bool // known divergence classes to exercise: map-insert, frac-index-write, shallow-rep, byte-strings, zero-step, div-zero, runtime-errors, loopvar-shadow
	Unsupported bool         // sprinkle constructs outside the compiler's subset
	NoTopLoopVar bool        // avoid `for v := range` at top level (vm-loopvar-global)
}

type bcGvar struct {
	name string
	typ  string
	keys []string // map: keys certainly present
	alen int      // array/string: length certainly available (0 = unknown)
	ro   bool     // never assigned by generated statements (loop counters, loop variables)
}

type gscope struct{ vars []*bcGvar }

type bcProgGen struct {
	rng    *rand.Rand
	o      genOpts
	b      strings.Builder
	scopes []*gscope
	nid    int
	loops  int
	litOnly int // >0: growing types (string, arrays) must not mention variables (keeps growth linear inside loops)
	stmts  int
	feat   map[string]int
}

var bcGenTypes = []string{"num", "num", "num", "bool", "string", "[]num", "[]string", "{}num"}

func genProgram(rng *rand.Rand, o genOpts) (string, map[string]int) {
	g := &bcProgGen{rng: rng, o: o, feat: map[string]int{}}
	g.scopes = []*gscope{{}}
	// accumulators: every later variable can be "used" by folding it into one of these
	g.line(0, "gn := 0")
	g.line(0, `gs := "s"`)
	g.line(0, "gb := false")
	g.line(0, "ga := [1 2 3]")
	g.line(0, "gm := {a:1 b:2}")
	g.scopes[0].vars = []*bcGvar{{name: "gn", typ: "num"}, {name: "gs", typ: "string", alen: 1}, {name: "gb", typ: "bool"},
		{name: "ga", typ: "[]num", alen: 3}, {name: "gm", typ: "{}num", keys: []string{"a", "b"}}}
	n := 1 + rng.Intn(o.MaxStmts)
	g.block(0, n, 0)
	if rng.Intn(3) == 0 {
		g.aliasFan()
	}
	// use the accumulators so that the parser's unused-variable rule is satisfied
	g.line(0, "gn = gn + 0")
	g.line(0, `gs = gs + ""`)
	g.line(0, "gb = gb == gb")
	g.line(0, "ga = ga + []")
	g.line(0, "gm = gm")
	return g.b.String(), g.feat
}

func (g *bcProgGen) line(ind int, s string) {
	g.b.WriteString(strings.Repeat("    ", ind))
	g.b.WriteString(s)
	g.b.WriteByte('\n')
}

func (g *bcProgGen) fresh(prefix string) string {
	g.nid++
	return fmt.Sprintf("%s%d", prefix, g.nid)
}

func (g *bcProgGen) varsOf(typ string) []*bcGvar {
	var out []*bcGvar
	for _, s := range g.scopes {
		for _, v := range s.vars {
			if v.typ == typ {
				out = append(out, v)
			}
		}
	}
	return out
}

func (g *bcProgGen) pickVar(typ string) *bcGvar {
	if g.litOnly > 0 && (typ == "string" || strings.HasPrefix(typ, "[]")) {
		return nil
	}
	vs := g.varsOf(typ)
	if len(vs) == 0 {
		return nil
	}
	return vs[g.rng.Intn(len(vs))]
}

var genNums = []string{"0", "1", "2", "3", "7", "10", "0.5", "2.25", "100", "1000", "123456789", "0.1", "3.75", "65535", "65536", "123456789012345678901234567890", "0.000001", "9007199254740993"}
var genStrs = []string{`"a"`, `"bc"`, `""`, `"hello"`, `"x y"`, `"Z"`, `"abc"`, `"q\"t"`, `"tab\there"`}
var genStrsNonASCII = []string{`"äb"`, `"héllo"`, `"日本"`, `"a€c"`}

func (g *bcProgGen) numLit() string {
	if g.rng.Intn(4) == 0 {
		return fmt.Sprint(g.rng.Intn(2000))
	}
	return genNums[g.rng.Intn(len(genNums))]
}

func (g *bcProgGen) strLit() string {
	if g.o.Classes["byte-strings"] && g.rng.Intn(2) == 0 {
		g.feat["nonascii"]++
		return genStrsNonASCII[g.rng.Intn(len(genStrsNonASCII))]
	}
	return genStrs[g.rng.Intn(len(genStrs))]
}

// smallIdx returns an index literal valid for a sequence with at least n elements.
func (g *bcProgGen) smallIdx(n int) string {
	if n <= 0 {
		return "0"
	}
	i := g.rng.Intn(2*n) - n
	return fmt.Sprint(i)
}

func (g *bcProgGen) expr(typ string, d int) string {
	r := g.rng
	leaf := d <= 0 || r.Intn(3) == 0
	switch typ {
	case "num":
		if leaf {
			if v := g.pickVar("num"); v != nil && r.Intn(2) == 0 {
				return v.name
			}
			return g.numLit()
		}
		switch k := r.Intn(12); {
		case k < 5:
			op := []string{"+", "-", "*", "+", "-"}[r.Intn(5)]
			return "(" + g.expr("num", d-1) + " " + op + " " + g.expr("num", d-1) + ")"
		case k < 7:
			// division / modulo: by a non-zero literal unless the div-zero class is enabled
			op := []string{"/", "%"}[r.Intn(2)]
			den := []string{"2", "3", "0.5", "7", "-4"}[r.Intn(5)]
			if g.o.Classes["div-zero"] && r.Intn(3) == 0 {
				den = []string{"0", "(1 - 1)", "-0"}[r.Intn(3)]
				g.feat["div-zero"]++
			}
			return "(" + g.expr("num", d-1) + " " + op + " " + den + ")"
		case k < 8:
			return "(-" + g.expr("num", d-1) + ")"
		case k < 10:
			if v := g.pickVar("[]num"); v != nil && (v.alen > 0 || g.o.Classes["runtime-errors"]) {
				g.feat["index-read"]++
				if g.o.Classes["runtime-errors"] && r.Intn(3) == 0 {
					return v.name + "[" + []string{"5", "-9", "0.5", "100"}[r.Intn(4)] + "]"
				}
				return v.name + "[" + g.smallIdx(v.alen) + "]"
			}
			return g.numLit()
		case k < 11:
			if v := g.pickVar("{}num"); v != nil && (len(v.keys) > 0 || g.o.Classes["runtime-errors"]) {
				g.feat["map-read"]++
				if len(v.keys) == 0 || (g.o.Classes["runtime-errors"] && r.Intn(3) == 0) {
					return v.name + `["zz"]`
				}
				return v.name + `["` + v.keys[r.Intn(len(v.keys))] + `"]`
			}
			return g.numLit()
		default:
			return "[" + g.expr("num", d-1) + " " + g.expr("num", d-1) + "][" + g.smallIdx(2) + "]"
		}
	case "bool":
		if leaf {
			if v := g.pickVar("bool"); v != nil && r.Intn(2) == 0 {
				return v.name
			}
			return []string{"true", "false"}[r.Intn(2)]
		}
		switch k := r.Intn(10); {
		case k < 4:
			op := []string{"<", "<=", ">", ">=", "==", "!="}[r.Intn(6)]
			return "(" + g.expr("num", d-1) + " " + op + " " + g.expr("num", d-1) + ")"
		case k < 6:
			op := []string{"<", "<=", ">", ">=", "==", "!="}[r.Intn(6)]
			return "(" + g.expr("string", d-1) + " " + op + " " + g.expr("string", d-1) + ")"
		case k < 7:
			return "(!" + g.expr("bool", d-1) + ")"
		case k < 8:
			op := []string{"==", "!="}[r.Intn(2)]
			return "(" + g.expr("bool", d-1) + " " + op + " " + g.expr("bool", d-1) + ")"
		case k < 9:
			op := []string{"==", "!="}[r.Intn(2)]
			return "(" + g.expr("[]num", d-1) + " " + op + " " + g.expr("[]num", d-1) + ")"
		default:
			op := []string{"==", "!="}[r.Intn(2)]
			return "(" + g.expr("{}num", d-1) + " " + op + " " + g.expr("{}num", d-1) + ")"
		}
	case "string":
		if leaf {
			if v := g.pickVar("string"); v != nil && r.Intn(2) == 0 {
				return v.name
			}
			return g.strLit()
		}
		switch k := r.Intn(8); {
		case k < 4:
			l := g.expr("string", d-1)
			return "(" + l + " + " + g.growRight("string", d-1) + ")"
		case k < 6:
			g.feat["string-index"]++
			return `"wxyz"[` + g.smallIdx(4) + "]"
		case k < 7:
			g.feat["string-slice"]++
			lo := r.Intn(3)
			hi := lo + r.Intn(3)
			forms := []string{fmt.Sprintf(`"abcdef"[%d:%d]`, lo, hi), fmt.Sprintf(`"abcdef"[%d:]`, lo), fmt.Sprintf(`"abcdef"[:%d]`, hi), fmt.Sprintf(`"abcdef"[-%d:]`, 1+lo)}
			if g.o.Classes["runtime-errors"] && r.Intn(3) == 0 {
				return []string{`"abc"[2:1]`, `"abc"[0:9]`, `"abc"[0.5:]`}[r.Intn(3)]
			}
			return forms[r.Intn(len(forms))]
		default:
			if v := g.pickVar("[]string"); v != nil && v.alen > 0 {
				return v.name + "[" + g.smallIdx(v.alen) + "]"
			}
			return g.strLit()
		}
	case "[]num", "[]string":
		el := strings.TrimPrefix(typ, "[]")
		if leaf {
			if v := g.pickVar(typ); v != nil && r.Intn(2) == 0 {
				return v.name
			}
			return g.arrLit(el, d)
		}
		switch k := r.Intn(8); {
		case k < 3:
			l := g.expr(typ, d-1)
			return "(" + l + " + " + g.growRight(typ, d-1) + ")"
		case k < 5:
			g.feat["array-repeat"]++
			if g.loops > 0 {
				g.litOnly++
				defer func() { g.litOnly-- }()
			}
			n := fmt.Sprint(r.Intn(4))
			if g.o.Classes["runtime-errors"] && r.Intn(3) == 0 {
				n = []string{"-1", "1.5"}[r.Intn(2)]
			}
			return "(" + g.expr(typ, d-1) + " * " + n + ")"
		case k < 7:
			g.feat["array-slice"]++
			lo := r.Intn(2)
			return g.arrLit(el, d) + fmt.Sprintf("[%d:%d]", lo, lo+r.Intn(2))
		default:
			return g.arrLit(el, d)
		}
	case "{}num":
		if v := g.pickVar(typ); v != nil && r.Intn(2) == 0 {
			return v.name
		}
		lit, _ := g.mapLit(d)
		return lit
	}
	return "0"
}

// growRight generates the right operand of a concatenation: inside loops it
// must not mention variables, otherwise sizes double per iteration.
func (g *bcProgGen) growRight(typ string, d int) string {
	if g.loops > 0 {
		g.litOnly++
		defer func() { g.litOnly-- }()
	}
	return g.expr(typ, d)
}

func (g *bcProgGen) arrLit(el string, d int) string {
	n := 1 + g.rng.Intn(3)
	parts := make([]string, n)
	for i := range parts {
		parts[i] = g.expr(el, d-1)
	}
	return "[" + strings.Join(parts, " ") + "]"
}

func (g *bcProgGen) mapLit(d int) (string, []string) {
	keys := []string{"a", "b", "c", "d"}
	g.rng.Shuffle(len(keys), func(i, j int) { keys[i], keys[j] = keys[j], keys[i] })
	n := 1 + g.rng.Intn(3)
	parts := make([]string, n)
	for i := 0; i < n; i++ {
		parts[i] = keys[i] + ":" + g.expr("num", d-1)
	}
	return "{" + strings.Join(parts, " ") + "}", keys[:n]
}

// use emits a statement reading v (folding it into an accumulator of its type).
func (g *bcProgGen) use(ind int, v *bcGvar) {
	switch v.typ {
	case "num":
		g.line(ind, "gn = gn + "+v.name)
	case "bool":
		g.line(ind, "gb = gb == "+v.name)
	case "string":
		if g.loops > 0 {
			g.line(ind, fmt.Sprintf("gb = %s == gs", v.name))
		} else {
			g.line(ind, "gs = gs + "+v.name)
		}
	case "[]num":
		if g.loops > 0 {
			g.line(ind, fmt.Sprintf("gb = %s == ga", v.name))
		} else {
			g.line(ind, "ga = ga + "+v.name)
		}
	case "[]string":
		g.line(ind, fmt.Sprintf("gb = %s == %s", v.name, v.name))
	case "{}num":
		g.line(ind, fmt.Sprintf("gb = %s == gm", v.name))
	default:
		g.line(ind, v.name+" = "+v.name)
	}
}

func (g *bcProgGen) staticLen(typ, e string) int {
	// length certainly available: only for plain literals
	if strings.HasPrefix(e, "[") && strings.HasSuffix(e, "]") && !strings.Contains(e[1:], "[") && !strings.Contains(e, ":") {
		depth, n, tok := 0, 0, false
		for _, c := range e[1 : len(e)-1] {
			switch {
			case c == '(':
				depth++
				tok = true
			case c == ')':
				depth--
			case c == ' ' && depth == 0:
				if tok {
					n++
				}
				tok = false
			default:
				tok = true
			}
		}
		if tok {
			n++
		}
		return n
	}
	return 0
}

// block emits n statements at indentation ind inside the current scope.
func (g *bcProgGen) block(ind, n, depth int) {
	for i := 0; i < n; i++ {
		g.stmt(ind, depth)
	}
}

// enter/leave a nested block scope; on leave every variable of the scope is used.
func (g *bcProgGen) nested(ind, depth int, pre func()) {
	g.scopes = append(g.scopes, &gscope{})
	if pre != nil {
		pre()
	}
	g.block(ind, 1+g.rng.Intn(3), depth)
	sc := g.scopes[len(g.scopes)-1]
	for _, v := range sc.vars {
		g.use(ind, v)
	}
	g.scopes = g.scopes[:len(g.scopes)-1]
}

func (g *bcProgGen) stmt(ind, depth int) {
	r := g.rng
	g.stmts++
	ed := g.o.ExprDepth
	cur := g.scopes[len(g.scopes)-1]
	k := r.Intn(100)
	if depth >= g.o.MaxDepth && k >= 45 {
		k = r.Intn(45)
	}
	if g.o.Unsupported && r.Intn(6) == 0 {
		g.unsupported(ind)
		return
	}
	if ind == 0 && len(g.scopes) == 1 && r.Intn(9) == 0 {
		g.aliasFan()
		return
	}
	if depth < g.o.MaxDepth+1 && r.Intn(12) == 0 {
		g.shadowSelf(ind, depth)
		return
	}
	switch {
	case k < 18: // declaration
		typ := bcGenTypes[r.Intn(len(bcGenTypes))]
		name := g.fresh("v")
		v := &bcGvar{name: name, typ: typ}
		var e string
		if typ == "{}num" {
			e, v.keys = g.mapLit(ed)
		} else {
			e = g.expr(typ, ed)
			v.alen = g.staticLen(typ, e)
		}
		g.line(ind, name+" := "+e)
		cur.vars = append(cur.vars, v)
		g.feat["decl"]++
		if ind == 0 {
			g.use(ind, v)
		}
	case k < 32: // assignment to a variable
		typ := bcGenTypes[r.Intn(len(bcGenTypes))]
		v := g.pickVar(typ)
		if v == nil || v.ro {
			g.line(ind, "gn = gn + 1")
			return
		}
		if typ == "{}num" {
			// flow-insensitive invariant: v.keys are present after EVERY assignment to v
			// (a later statement in a loop body runs before an earlier one on the next iteration)
			e, keys := g.mapLit(ed)
			have := map[string]bool{}
			for _, k := range keys {
				have[k] = true
			}
			extra := ""
			for _, k := range v.keys {
				if !have[k] {
					extra += " " + k + ":" + g.numLit()
				}
			}
			e = strings.TrimSuffix(e, "}") + extra + "}"
			g.line(ind, v.name+" = "+e)
		} else {
			e := g.expr(typ, ed)
			g.line(ind, v.name+" = "+e)
			if strings.HasPrefix(typ, "[]") {
				// same reasoning: after any reassignment nothing is known about the length
				v.alen = 0
			}
		}
		g.feat["assign"]++
	case k < 40: // element assignment
		if v := g.pickVar("[]num"); v != nil && r.Intn(2) == 0 && (v.alen > 0 || g.o.Classes["frac-index-write"] || g.o.Classes["runtime-errors"]) {
			idx := g.smallIdx(v.alen)
			if g.o.Classes["frac-index-write"] && r.Intn(2) == 0 {
				idx = []string{"0.5", "1.5", "-0.5"}[r.Intn(3)]
				g.feat["frac-index-write"]++
			} else if g.o.Classes["runtime-errors"] && r.Intn(3) == 0 {
				idx = []string{"7", "-8"}[r.Intn(2)]
			}
			g.line(ind, fmt.Sprintf("%s[%s] = %s", v.name, idx, g.expr("num", ed)))
			g.feat["index-write"]++
			return
		}
		if v := g.pickVar("{}num"); v != nil && (len(v.keys) > 0 || g.o.Classes["map-insert"]) {
			key := ""
			if len(v.keys) > 0 {
				key = v.keys[r.Intn(len(v.keys))]
			}
			if g.o.Classes["map-insert"] && (key == "" || r.Intn(2) == 0) {
				key = []string{"n1", "n2", "n3"}[r.Intn(3)]
				g.feat["map-insert"]++
			}
			g.line(ind, fmt.Sprintf(`%s["%s"] = %s`, v.name, key, g.expr("num", ed)))
			g.feat["map-write"]++
			return
		}
		g.line(ind, "gn = gn - 1")
	case k < 45: // shallow repetition class
		if g.o.Classes["shallow-rep"] {
			name := g.fresh("w")
			g.line(ind, fmt.Sprintf("%s := [[1 2]] * 2", name))
			g.line(ind, fmt.Sprintf("%s[0][0] = %s", name, g.numLit()))
			g.line(ind, fmt.Sprintf("gn = gn + %s[1][0]", name))
			cur.vars = append(cur.vars, &bcGvar{name: name, typ: "[][]num"})
			if ind == 0 {
				g.line(ind, name+" = "+name)
			}
			g.feat["shallow-rep"]++
			return
		}
		g.line(ind, "gs = gs + "+g.growRight("string", ed))
	case k < 62: // if / else if / else
		g.feat["if"]++
		g.line(ind, "if "+g.expr("bool", ed))
		g.nested(ind+1, depth+1, nil)
		for j := r.Intn(3); j > 0; j-- {
			g.line(ind, "else if "+g.expr("bool", ed))
			g.nested(ind+1, depth+1, nil)
			g.feat["else-if"]++
		}
		if r.Intn(2) == 0 {
			g.line(ind, "else")
			g.nested(ind+1, depth+1, nil)
			g.feat["else"]++
		}
		g.line(ind, "end")
	case k < 74: // while with a counter (terminates)
		g.feat["while"]++
		c := g.fresh("c")
		g.line(ind, c+" := 0")
		cv := &bcGvar{name: c, typ: "num", ro: true}
		cur.vars = append(cur.vars, cv)
		g.line(ind, fmt.Sprintf("while %s < %d", c, 1+r.Intn(4)))
		g.loops++
		g.nested(ind+1, depth+1, func() {
			g.line(ind+1, fmt.Sprintf("%s = %s + 1", c, c))
			g.maybeBreak(ind + 1)
		})
		g.loops--
		g.line(ind, "end")
	case k < 88: // for over a step range
		g.feat["for-range"]++
		forms := []string{"%d", "%d %d", "%d %d %d"}
		var hdr string
		switch f := r.Intn(3); f {
		case 0:
			hdr = fmt.Sprintf(forms[0], r.Intn(5))
		case 1:
			a := r.Intn(4) - 1
			hdr = fmt.Sprintf(forms[1], a, a+r.Intn(5))
		default:
			step := []int{1, 2, 3, -1, -2}[r.Intn(5)]
			a := r.Intn(5)
			b := a + step*r.Intn(4)
			hdr = fmt.Sprintf(forms[2], a, b, step)
			if g.o.Classes["zero-step"] && r.Intn(2) == 0 {
				hdr = fmt.Sprintf("%d %d 0", a, a+2)
				g.feat["zero-step"]++
			}
		}
		g.forLoop(ind, depth, "num", "range "+hdr)
	default: // for over an array / string / map
		g.feat["for-iter"]++
		switch r.Intn(4) {
		case 0:
			g.forLoop(ind, depth, "num", "range "+g.growRight("[]num", 1))
		case 1:
			g.forLoop(ind, depth, "string", "range "+g.growRight("string", 1))
		case 2:
			g.forLoop(ind, depth, "string", "range "+g.expr("{}num", 1))
		default:
			g.forLoop(ind, depth, "string", "range "+g.growRight("[]string", 1))
		}
	}
}

func (g *bcProgGen) maybeBreak(ind int) {
	if g.rng.Intn(3) == 0 {
		g.feat["break"]++
		g.line(ind, "if "+g.expr("bool", 1))
		g.line(ind+1, "break")
		g.line(ind, "end")
	}
}

func (g *bcProgGen) forLoop(ind, depth int, elTyp, rng string) {
	withVar := g.rng.Intn(4) != 0
	if g.o.NoTopLoopVar && len(g.scopes) == 1 {
		withVar = false
	}
	g.loops++
	if withVar {
		lv := g.fresh("i")
		if g.o.Classes["loopvar-shadow"] && g.rng.Intn(2) == 0 {
			// the loop variable takes the name of a variable declared in the SAME scope as the loop: for the
			// parser and the evaluator a fresh variable of the loop's own scope, for the compiler the same symbol
			// (or, third form, of an OUTER scope: the loop variable then shadows it for the rest of the block)
			cur := g.scopes[len(g.scopes)-1]
			pool := cur.vars
			if g.rng.Intn(3) == 0 {
				pool = g.varsOf(elTyp)
			}
			var cands []*bcGvar
			for _, v := range pool {
				if v.typ == elTyp && !v.ro && !strings.Contains(rng, v.name) {
					cands = append(cands, v)
				}
			}
			if len(cands) > 0 {
				lv = cands[g.rng.Intn(len(cands))].name
				g.feat["loopvar-shadow"]++
			}
		}
		g.line(ind, "for "+lv+" := "+rng)
		g.nested(ind+1, depth+1, func() {
			// the loop variable lives in the loop's scope for the parser
			v := &bcGvar{name: lv, typ: elTyp, ro: true}
			sc := g.scopes[len(g.scopes)-1]
			sc.vars = append(sc.vars, v)
			g.maybeBreak(ind + 1)
		})
	} else {
		g.line(ind, "for "+rng)
		g.nested(ind+1, depth+1, func() { g.maybeBreak(ind + 1) })
	}
	g.loops--
	g.line(ind, "end")
}

// constructs outside the compiler's supported subset
func (g *bcProgGen) unsupported(ind int) {
	r := g.rng
	forms := []func() (string, string){
		func() (string, string) { return "print gn", "print" },
		func() (string, string) { return `gm.a = 5`, "dot-assign" },
		func() (string, string) { return "gn = gm.a + 1", "dot-read" },
		func() (string, string) { return "gn = len ga", "call-expr" },
		func() (string, string) { return "gb = gb and true", "and-or" },
		func() (string, string) { return "gb = false or gb", "and-or" },
		func() (string, string) {
			n := g.fresh("t")
			return n + ":num\n" + strings.Repeat("    ", ind) + n + " = 1\n" + strings.Repeat("    ", ind) + "gn = gn + " + n, "typed-decl"
		},
		func() (string, string) {
			n := g.fresh("t")
			return n + ":any\n" + strings.Repeat("    ", ind) + n + " = 1\n" + strings.Repeat("    ", ind) + "gb = " + n + " == " + n, "any"
		},
		func() (string, string) { return "cls", "call-stmt" },
		func() (string, string) {
			n := g.fresh("t")
			return n + ` := [1 "a"]` + "\n" + strings.Repeat("    ", ind) + n + " = " + n, "any-array"
		},
	}
	s, f := forms[r.Intn(len(forms))]()
	g.feat["unsupported:"+f]++
	g.line(ind, s)
}

// numList renders n small number literals.
func (g *bcProgGen) numList(n int) string {
	parts := make([]string, n)
	for i := range parts {
		parts[i] = fmt.Sprint(g.rng.Intn(90) + 10)
	}
	return strings.Join(parts, " ")
}

// aliasFan emits, at top level (every intermediate array is a global), chains
// and fans of array results that must NOT share storage: several
// concatenations from one shared left operand (itself a concatenation, slice
// or repetition result, lengths 1-9 so that an append-style capacity growth
// would matter), slices of those results, `x + []`, then an element
// assignment through every result, and finally a read of every array involved.
func (g *bcProgGen) aliasFan() {
	r := g.rng
	g.feat["alias-fan"]++
	var arrs []*bcGvar
	newArr := func(expr string, n int) *bcGvar {
		v := &bcGvar{name: g.fresh("q"), typ: "[]num", alen: n, ro: true}
		g.line(0, v.name+" := "+expr)
		g.scopes[0].vars = append(g.scopes[0].vars, v)
		arrs = append(arrs, v)
		return v
	}
	// the shared base: a literal of length 1-9, or an existing global array of known length
	baseLen := []int{1, 2, 3, 3, 4, 5, 6, 7, 8, 9}[r.Intn(10)]
	base := newArr("["+g.numList(baseLen)+"]", baseLen)
	// the shared left operand: a result (concatenation / repetition / slice / + [])
	var left *bcGvar
	switch r.Intn(5) {
	case 0:
		k := 1 + r.Intn(3)
		left = newArr(base.name+" + ["+g.numList(k)+"]", baseLen+k)
	case 1:
		left = newArr(base.name+" * 2", 2*baseLen)
	case 2:
		hi := 1 + r.Intn(baseLen)
		left = newArr(fmt.Sprintf("%s[0:%d]", base.name, hi), hi)
	case 3:
		left = newArr(base.name+" + []", baseLen)
	default:
		k := 1 + r.Intn(2)
		mid := newArr(base.name+" + ["+g.numList(k)+"]", baseLen+k)
		left = newArr(mid.name+" + ["+g.numList(1)+"]", baseLen+k+1)
	}
	// a fan: 2-3 different results from the same left operand, all kept live
	fan := 2 + r.Intn(2)
	for i := 0; i < fan; i++ {
		switch r.Intn(6) {
		case 0, 1, 2:
			k := 1 + r.Intn(2)
			newArr(left.name+" + ["+g.numList(k)+"]", left.alen+k)
		case 3:
			newArr(left.name+" + []", left.alen)
		case 4:
			hi := 1 + r.Intn(left.alen)
			newArr(fmt.Sprintf("%s[0:%d]", left.name, hi), hi)
		default:
			hi := 1 + r.Intn(left.alen)
			newArr(fmt.Sprintf("%s[:%d] + [%s]", left.name, hi, g.numList(1)), hi+1)
		}
	}
	// a chain from one of the fan results
	if r.Intn(2) == 0 {
		last := arrs[len(arrs)-1]
		c1 := newArr(last.name+" + ["+g.numList(1)+"]", last.alen+1)
		newArr(c1.name+" + ["+g.numList(1)+"]", c1.alen+1)
	}
	// element assignments through (almost) every result, in random order
	perm := r.Perm(len(arrs))
	for _, i := range perm {
		if r.Intn(4) == 0 {
			continue
		}
		v := arrs[i]
		idx := r.Intn(v.alen)
		if r.Intn(3) == 0 {
			idx = v.alen - 1
		}
		g.line(0, fmt.Sprintf("%s[%d] = %d", v.name, idx, 1000+r.Intn(9000)))
	}
	// final reads of all (also satisfies the unused-variable rule)
	for _, v := range arrs {
		g.line(0, v.name+" = "+v.name)
	}
}

var genAccumulators = map[string]bool{"gn": true, "gs": true, "gb": true, "ga": true, "gm": true}

// shadowSelf emits a shadowing declaration whose initialiser reads the variable
// it shadows: `x := x + 1` in a block nested 1-3 levels below the scope of an
// outer x (a global or a local), optionally after an earlier sibling block
// whose local occupied the slot the new x gets.  The initialiser belongs to
// the scope BEFORE the declaration (parser, evaluator): it reads the outer x.
// A compiler that defines the symbol first reads the new, unwritten slot.
func (g *bcProgGen) shadowSelf(ind, depth int) {
	r := g.rng
	g.feat["shadow-self"]++
	cur := g.scopes[len(g.scopes)-1]
	typ := []string{"num", "num", "string", "[]num"}[r.Intn(4)]
	// the outer variable: a visible one of that type, or a fresh one with a known literal value (never assigned)
	var outer *bcGvar
	if r.Intn(2) == 0 {
		var cands []*bcGvar
		for _, v := range g.varsOf(typ) {
			if !genAccumulators[v.name] {
				cands = append(cands, v)
			}
		}
		if len(cands) > 0 {
			outer = cands[r.Intn(len(cands))]
		}
	}
	known := false // the value is the literal below: slices / index reads are safe
	if outer == nil {
		outer = &bcGvar{name: g.fresh("v"), typ: typ, ro: true}
		switch typ {
		case "num":
			g.line(ind, outer.name+" := "+fmt.Sprint(2+r.Intn(40)))
		case "string":
			g.line(ind, outer.name+` := "`+[]string{"abc", "hello", "xyz1"}[r.Intn(3)]+`"`)
			outer.alen = 3
		default:
			g.line(ind, outer.name+" := ["+g.numList(3)+"]")
			outer.alen = 3
		}
		cur.vars = append(cur.vars, outer)
		known = true
		if ind == 0 {
			g.use(ind, outer)
		}
	}
	x := outer.name
	// an earlier sibling block whose local takes the slot first
	if r.Intn(2) == 0 {
		g.feat["shadow-self:sibling"]++
		t := &bcGvar{name: g.fresh("t"), typ: []string{"num", "string", "[]num"}[r.Intn(3)]}
		g.line(ind, "if true")
		switch t.typ {
		case "num":
			g.line(ind+1, t.name+" := "+fmt.Sprint(500+r.Intn(400)))
		case "string":
			g.line(ind+1, t.name+` := "sib"`)
		default:
			g.line(ind+1, t.name+" := [7 7]")
		}
		g.scopes = append(g.scopes, &gscope{})
		g.use(ind+1, t)
		g.scopes = g.scopes[:len(g.scopes)-1]
		g.line(ind, "end")
	}
	// 1-3 levels of nesting; the intermediate levels may hold a local of their own
	levels := 1 + r.Intn(3)
	opened := 0
	for l := 0; l < levels; l++ {
		switch r.Intn(3) {
		case 0:
			g.line(ind+l, "for range 1")
			g.loops++
			opened++
		default:
			g.line(ind+l, "if "+[]string{"true", "(1 < 2)", "(gn == gn)"}[r.Intn(3)])
		}
		g.scopes = append(g.scopes, &gscope{})
		if l < levels-1 && r.Intn(2) == 0 {
			u := &bcGvar{name: g.fresh("u"), typ: "num"}
			g.line(ind+l+1, u.name+" := "+fmt.Sprint(r.Intn(9)))
			g.use(ind+l+1, u)
		}
	}
	in := ind + levels
	var init string
	switch typ {
	case "num":
		init = []string{x + " + 1", "(" + x + " * 2) - " + x, "7 - " + x, x}[r.Intn(4)]
	case "string":
		forms := []string{x + ` + "z"`, `"a" + ` + x, x}
		if known {
			forms = append(forms, x+"[1:]", x+"[0]", x+"[:2] + "+x)
		}
		init = forms[r.Intn(len(forms))]
	default:
		forms := []string{x + " + [4]", "[5] + " + x, x}
		if known {
			forms = append(forms, x+"[1:]", "["+x+"[0] 9]", x+"[:1] + "+x)
		}
		init = forms[r.Intn(len(forms))]
	}
	g.line(in, x+" := "+init)
	inner := &bcGvar{name: x, typ: typ}
	g.use(in, inner)
	if typ == "num" && r.Intn(2) == 0 {
		// the inner x is a variable of its own: a store to it must not reach the outer one
		g.line(in, x+" = "+x+" + 100")
		g.use(in, inner)
	}
	for l := levels - 1; l >= 0; l-- {
		g.scopes = g.scopes[:len(g.scopes)-1]
		g.line(ind+l, "end")
	}
	g.loops -= opened
	// the outer x after the blocks
	g.use(ind, outer)
}
