package main

import (
	"bytes"
	"context"
	"encoding/json"
	"fmt"
	"math/rand"
	"os"
	"os/exec"
	"path/filepath"
	"strings"
	"time"
)

// C06, archive form: `evy fmt --write FILE.txtar` formats every *.evy member of a txtar archive and writes
// the archive back.  The property is about what the command leaves on disk: every member must be exactly
// what formatting that member alone gives (the in-process Format() that c06Check ties to coq/Format.v),
// every other member and the archive comment must be untouched, and the archive as a whole may differ from
// the one given in white space only.  Archives are generated from the accepted sources of the main run:
// several members, names of different lengths, members whose formatted text is LONGER than the member
// (indentation removed, `x:=1`, missing final newline), already formatted members, members that shrink,
// non-evy members (expected output, notes) between and after them, an archive comment, and now and then a
// member that is not an accepted program (then nothing may be written).

type c06Member struct {
	Name string `json:"name"`
	Data string `json:"data"`
}

type c06TxtarInput struct {
	Kind    string      `json:"kind"` // "txtar"
	Comment string      `json:"comment"`
	Members []c06Member `json:"members"`
	Shapes  []string    `json:"shapes,omitempty"` // how each member was derived (information only)
}

type c06PoolItem struct{ src, formatted string }

func c06FixNL(s string) string {
	if s != "" && !strings.HasSuffix(s, "\n") {
		return s + "\n"
	}
	return s
}

func (in c06TxtarInput) text() string {
	var b strings.Builder
	b.WriteString(in.Comment)
	for _, m := range in.Members {
		b.WriteString("-- " + m.Name + " --\n")
		b.WriteString(m.Data)
	}
	return b.String()
}

func c06StripWS(s string) string {
	return strings.Map(func(r rune) rune {
		switch r {
		case ' ', '\t', '\n', '\r':
			return -1
		}
		return r
	}, s)
}

func c06IsMarker(line string) bool {
	return strings.HasPrefix(line, "-- ") && strings.HasSuffix(line, " --") && len(line) >= 7 && strings.TrimSpace(line[3:len(line)-3]) != ""
}

func c06HasMarkerLine(s string) bool {
	for _, l := range strings.Split(s, "\n") {
		if c06IsMarker(l) {
			return true
		}
	}
	return false
}

// c06SplitArchive: the harness's own reading of a txtar text (comment, members), for locating a difference.
func c06SplitArchive(s string) (comment string, ms []c06Member) {
	lines := strings.SplitAfter(s, "\n")
	cur := -1
	var b strings.Builder
	flush := func() {
		if cur < 0 {
			comment = b.String()
		} else {
			ms[cur].Data = b.String()
		}
		b.Reset()
	}
	for _, l := range lines {
		if t := strings.TrimSuffix(l, "\n"); c06IsMarker(t) {
			flush()
			ms = append(ms, c06Member{Name: strings.TrimSpace(t[3 : len(t)-3])})
			cur = len(ms) - 1
			continue
		}
		b.WriteString(l)
	}
	flush()
	return comment, ms
}

func runEvyFmt(args ...string) (exit int, stderr string, err error) {
	bin, err := evyBinary()
	if err != nil {
		return 0, "", err
	}
	ctx, cancel := context.WithTimeout(context.Background(), 20*time.Second)
	defer cancel()
	cmd := exec.CommandContext(ctx, bin, append([]string{"fmt"}, args...)...)
	cmd.Env = append(os.Environ(), "GOMAXPROCS=2")
	var eb bytes.Buffer
	cmd.Stderr = &eb
	cmd.Stdout = &eb
	runErr := cmd.Run()
	if ee, ok := runErr.(*exec.ExitError); ok {
		return ee.ExitCode(), eb.String(), nil
	} else if runErr != nil {
		return 0, eb.String(), runErr
	}
	return 0, eb.String(), nil
}

// one archive on its way through the binary
type c06TxtarJob struct {
	in       c06TxtarInput
	before   string
	wantIn   c06TxtarInput
	wantText string
	rejected int  // index of the first member that is not an accepted program, or -1
	stripOK  bool // formatting each member alone changes white space only (else c06Check reports it)
	file     string
	got      string
	passed   bool // --write left exactly the expected archive (then --check is asked)
}

func (j *c06TxtarJob) viol(r *Result, kind, key, detail string, impl, model any) {
	r.Violate(Violation{Kind: kind, Key: key, Detail: detail, Input: j.in, Impl: impl, Model: model})
}

// c06TxtarPrepare computes what the command must leave (every .evy member formatted alone, everything else
// as it is) and writes the archive to dir.
func c06TxtarPrepare(c *c06Ctx, in c06TxtarInput, dir, name string) *c06TxtarJob {
	j := &c06TxtarJob{in: in, before: in.text(), rejected: -1, stripOK: true}
	want := make([]c06Member, len(in.Members))
	for i, m := range in.Members {
		want[i] = c06Member{Name: m.Name, Data: c06FixNL(m.Data)}
		if filepath.Ext(m.Name) != ".evy" {
			continue
		}
		prog, err := safeParse(c06FixNL(m.Data))
		if err != nil {
			if j.rejected < 0 {
				j.rejected = i
			}
			continue
		}
		f, err := safeFormat(prog)
		if err != nil {
			j.viol(c.r, "property", "format-gopanic", err.Error(), nil, nil)
			return nil
		}
		if c06StripWS(f) != c06StripWS(m.Data) {
			j.stripOK = false
		}
		want[i].Data = c06FixNL(f)
	}
	j.wantIn = c06TxtarInput{Comment: c06FixNL(in.Comment), Members: want}
	j.wantText = j.wantIn.text()
	j.file = filepath.Join(dir, name+".txtar")
	if err := os.WriteFile(j.file, []byte(j.before), 0o644); err != nil {
		j.viol(c.r, "correspondence", "harness-io", err.Error(), nil, nil)
		return nil
	}
	return j
}

// c06TxtarVerify: the oracles on what `evy fmt --write` (exit status, stderr) left in the file.
func c06TxtarVerify(c *c06Ctx, j *c06TxtarJob, exit int, stderr string) {
	r := c.r
	in, before := j.in, j.before
	gotB, err := os.ReadFile(j.file)
	if err != nil {
		j.viol(r, "property", "txtar-fmt-removes-the-file", err.Error(), nil, nil)
		return
	}
	got := string(gotB)
	j.got = got
	r.Count("txtar:"+before, len(in.Members) >= 2)
	r.Dist(fmt.Sprintf("txtar:members-%d", len(in.Members)))
	for _, s := range in.Shapes {
		r.Dist("txtar-member:" + s)
	}
	if j.rejected >= 0 {
		r.Dist("txtar:with-rejected-member")
		switch {
		case exit == 0:
			j.viol(r, "property", "txtar-rejected-member-accepted", fmt.Sprintf("member %q is not an accepted program, evy fmt --write exits 0", in.Members[j.rejected].Name), map[string]any{"archive_after": got}, nil)
		case got != before:
			j.viol(r, "property", "txtar-written-despite-error", fmt.Sprintf("member %q is not an accepted program, evy fmt --write exits %d and still changed the archive", in.Members[j.rejected].Name, exit), map[string]any{"archive_after": got}, nil)
		default:
			r.Validated++
		}
		return
	}
	if exit != 0 {
		j.viol(r, "property", "txtar-fmt-fails-on-accepted-members", fmt.Sprintf("every .evy member is an accepted program, evy fmt --write exits %d: %s", exit, c19Tail(stderr, 300)), map[string]any{"archive_after": got}, nil)
		return
	}
	want := j.wantIn.Members
	if got != j.wantText {
		// locate the first member that differs
		gc, gms := c06SplitArchive(got)
		where, key := "the archive structure (member names / count)", "txtar-structure-changed"
		if gc != j.wantIn.Comment {
			where, key = "the archive comment", "txtar-comment-changed"
		} else if len(gms) == len(want) {
			for i := range want {
				if gms[i].Name != want[i].Name {
					break
				}
				if gms[i].Data != want[i].Data {
					if filepath.Ext(want[i].Name) == ".evy" {
						where, key = fmt.Sprintf("member %d %q: not the text that formatting this member alone gives", i, want[i].Name), "txtar-member-differs-from-formatting-it-alone"
					} else {
						where, key = fmt.Sprintf("member %d %q, which is not an evy file, was changed", i, want[i].Name), "txtar-non-evy-member-changed"
					}
					break
				}
			}
		}
		if j.stripOK && c06StripWS(got) != c06StripWS(before) {
			where += "; the archive differs from the one given in more than white space"
		}
		j.viol(r, "property", key, "evy fmt --write on a txtar archive: "+where, map[string]any{"archive_after": got}, map[string]any{"archive_expected": j.wantText})
		return
	}
	if j.stripOK && c06StripWS(got) != c06StripWS(before) {
		j.viol(r, "property", "txtar-fmt-changes-non-whitespace", "the archive written differs from the archive given in more than white space", map[string]any{"archive_after": got}, nil)
		return
	}
	j.passed = true
	if before != got {
		r.Dist("txtar:changed-by-fmt")
	}
}

// c06TxtarCheckAgain: formatting again changes nothing: --check accepts what --write wrote.
func c06TxtarCheckAgain(c *c06Ctx, j *c06TxtarJob, exit int, stderr string) {
	if exit != 0 {
		j.viol(c.r, "property", "txtar-written-archive-not-formatted", fmt.Sprintf("evy fmt --check on the archive that evy fmt --write has just written exits %d: %s", exit, c19Tail(stderr, 200)), map[string]any{"archive_after": j.got}, nil)
		return
	}
	if after, _ := os.ReadFile(j.file); string(after) != j.got {
		j.viol(c.r, "property", "txtar-check-writes", "evy fmt --check changed the file", nil, nil)
		return
	}
	c.r.Validated++
}

// c06TxtarBatch runs the archives through the binary.  Starting evy costs a few hundred ms, so the archives
// whose members are all accepted go to one `evy fmt --write f1 f2 ...` call (the command formats the files
// one after the other and stops at the first error); if that call fails, or for an archive with a member
// that is not accepted, each archive is run on its own, so that every verdict is about one archive.
func c06TxtarBatch(c *c06Ctx, ins []c06TxtarInput) {
	r := c.r
	dir, err := os.MkdirTemp("", "c06-txtar-")
	if err != nil {
		r.Violate(Violation{Kind: "correspondence", Key: "harness-io", Detail: err.Error()})
		return
	}
	defer os.RemoveAll(dir)
	var jobs, together []*c06TxtarJob
	for i, in := range ins {
		if j := c06TxtarPrepare(c, in, dir, fmt.Sprintf("case%d", i)); j != nil {
			jobs = append(jobs, j)
			if j.rejected < 0 {
				together = append(together, j)
			}
		}
	}
	files := func(js []*c06TxtarJob) []string {
		out := make([]string, len(js))
		for i, j := range js {
			out[i] = j.file
		}
		return out
	}
	alone := func(j *c06TxtarJob) {
		exit, stderr, err := runEvyFmt("--write", j.file)
		if err != nil {
			j.viol(r, "correspondence", "evy-binary", err.Error()+": "+c19Tail(stderr, 300), nil, nil)
			return
		}
		c06TxtarVerify(c, j, exit, stderr)
	}
	done := map[*c06TxtarJob]bool{}
	if len(together) > 1 {
		exit, stderr, err := runEvyFmt(append([]string{"--write"}, files(together)...)...)
		if err == nil && exit == 0 {
			for _, j := range together {
				c06TxtarVerify(c, j, 0, stderr)
				done[j] = true
			}
		} else { // which archive made it fail? put them back and run them one by one
			r.Dist("txtar:batch-failed-run-one-by-one")
			for _, j := range together {
				os.WriteFile(j.file, []byte(j.before), 0o644)
			}
		}
	}
	for _, j := range jobs {
		if !done[j] {
			alone(j)
		}
	}
	var passed []*c06TxtarJob
	for _, j := range jobs {
		if j.passed {
			passed = append(passed, j)
		}
	}
	if len(passed) == 0 {
		return
	}
	exit, stderr, err := runEvyFmt(append([]string{"--check"}, files(passed)...)...)
	if err != nil {
		return
	}
	if exit == 0 || len(passed) == 1 {
		for _, j := range passed {
			c06TxtarCheckAgain(c, j, exit, stderr)
		}
		return
	}
	for _, j := range passed {
		if exit, stderr, err := runEvyFmt("--check", j.file); err == nil {
			c06TxtarCheckAgain(c, j, exit, stderr)
		}
	}
}

func c06TxtarCase(c *c06Ctx, in c06TxtarInput) { c06TxtarBatch(c, []c06TxtarInput{in}) }

// c06Compact: a token-for-token equal text of an already formatted program that is SHORTER than the
// formatted text (indentation removed, `x:=1`), so that formatting makes the member grow.
func c06Compact(rng *rand.Rand, formatted string) string {
	lines := strings.Split(formatted, "\n")
	for i, l := range lines {
		if rng.Intn(10) < 8 {
			l = strings.TrimLeft(l, " \t")
		}
		if !strings.ContainsAny(l, "\"'") && !strings.Contains(l, "//") && rng.Intn(2) == 0 {
			l = strings.ReplaceAll(l, " := ", ":=")
			l = strings.ReplaceAll(l, " = ", "=")
		}
		lines[i] = l
	}
	return strings.Join(lines, "\n")
}

func c06SameTokens(a, b string) bool {
	ta, ia := lexSig(a)
	tb, ib := lexSig(b)
	return !ia && !ib && firstDiff(sigNorms(ta), sigNorms(tb)) == ""
}

var c06Stems = []string{"a", "b", "c", "x", "main", "prog", "q1", "answer", "draw", "sub/a", "some/dir/with-a-long-file-name", "t", "zz", "lesson_02_variables"}
var c06OtherNames = []string{"out.txt", "expected.svg", "README.md", "notes", "want", "a.txt", "evy", "b.evy.txt", "data.json"}
var c06OtherLines = []string{"hello", "print \"b\"", "1 2 3", "", "x:=1", "<svg></svg>", "# title", "end", "    indented", "a\tb", "🐜🐛", "-- not a marker", "-- --", "--"}
var c06Rejected = []string{"print x\n", "if true\nprint 1\n", "x := \n", "func\n", "print \"a\" +\n", "x := 1\nx := 2\n"}

func c06GenTxtar(rng *rand.Rand, pool []c06PoolItem) (c06TxtarInput, []string) {
	in := c06TxtarInput{Kind: "txtar"}
	var variants []string // new program texts (to be run through c06Check as well)
	n := 2 + rng.Intn(3)
	if rng.Intn(8) == 0 {
		n = 1
	} else if rng.Intn(8) == 0 {
		n = 5 + rng.Intn(3)
	}
	if rng.Intn(4) == 0 {
		in.Comment = []string{"archive comment\n", "\n", "two\nlines\n", "x:=1\n"}[rng.Intn(4)]
	}
	withRejected := rng.Intn(12) == 0
	used := map[string]bool{}
	name := func(stems []string, ext string) string {
		for {
			s := stems[rng.Intn(len(stems))] + ext
			if !used[s] {
				used[s] = true
				return s
			}
			s = fmt.Sprintf("%s%d%s", stems[rng.Intn(len(stems))], rng.Intn(100), ext)
			if !used[s] {
				used[s] = true
				return s
			}
		}
	}
	for i := 0; i < n; i++ {
		last := i == n-1
		var m c06Member
		shape := ""
		switch k := rng.Intn(20); {
		case k < 4: // a member that is not evy source
			m.Name = name(c06OtherNames, "")
			shape = "other"
			for j := rng.Intn(5); j > 0; j-- {
				m.Data += c06OtherLines[rng.Intn(len(c06OtherLines))] + "\n"
			}
		case withRejected && k < 7:
			m.Name = name(c06Stems, ".evy")
			shape = "rejected"
			m.Data = c06Rejected[rng.Intn(len(c06Rejected))]
		default:
			it := pool[rng.Intn(len(pool))]
			m.Name = name(c06Stems, ".evy")
			switch v := rng.Intn(10); {
			case v < 5: // grows when formatted
				shape = "compacted"
				m.Data = c06Compact(rng, it.formatted)
				if !c06SameTokens(m.Data, it.formatted) {
					shape = "as-written"
					m.Data = it.src
				} else if m.Data != it.formatted {
					variants = append(variants, m.Data)
				}
			case v < 8:
				shape = "as-written"
				m.Data = it.src
			default:
				shape = "formatted"
				m.Data = it.formatted
			}
		}
		if c06HasMarkerLine(m.Data) {
			m.Data, shape = "print 1\n", "as-written"
		}
		if last && shape != "rejected" && rng.Intn(3) == 0 {
			m.Data = strings.TrimSuffix(m.Data, "\n") // only the last member of an archive can lack the final newline
			shape += "-no-final-newline"
		} else {
			m.Data = c06FixNL(m.Data)
		}
		in.Members = append(in.Members, m)
		in.Shapes = append(in.Shapes, shape)
	}
	return in, variants
}

func c06Txtars(cfg Config, c *c06Ctx) {
	r := c.r
	t0 := time.Now()
	if _, err := evyBinary(); err != nil {
		r.Violate(Violation{Kind: "correspondence", Key: "evy-binary", Detail: err.Error()})
		return
	}
	tBuild := time.Since(t0)
	t0 = time.Now()
	pool := c.pool
	if len(pool) == 0 {
		r.Note("txtar: no accepted source in the pool")
		return
	}
	rng := rand.New(rand.NewSource(cfg.Seed*7919 + 6))
	// the seed-independent minimal shapes first: a member that grows by more than the next marker line is long,
	// followed by an evy member / by a member that is not evy
	grow := "if true\nif true\nprint \"a\"\nend\nend\n"
	c06TxtarBatch(c, []c06TxtarInput{
		{Kind: "txtar", Members: []c06Member{{"a.evy", grow}, {"b.evy", "print \"b\"\nprint \"done\"\n"}}},
		{Kind: "txtar", Members: []c06Member{{"a.evy", grow}, {"out.txt", "a\n"}}},
		{Kind: "txtar", Comment: "c\n", Members: []c06Member{{"a.evy", "x:=1\nprint x"}}},
		{Kind: "txtar", Members: []c06Member{{"a.evy", "x:=1\nwhile x<3\nx=x+1\nend\n"}, {"some/long/name.evy", "y:=2\nprint y\n"}, {"n", "1\n"}, {"c.evy", "for i:=range 3\nprint i\nend"}}},
	})
	n := cfg.N(140, 2500)
	maxVariants := cfg.N(60, 1500)
	var batch []c06TxtarInput
	for i := 0; i < n; i++ {
		in, variants := c06GenTxtar(rng, pool)
		batch = append(batch, in)
		if len(batch) == 35 || i == n-1 {
			c06TxtarBatch(c, batch)
			batch = nil
		}
		for _, v := range variants {
			if maxVariants > 0 {
				maxVariants--
				c06Check(c, fmtInput{v, "compacted"}) // the new program texts through the model comparison too
			}
		}
	}
	c06PlainFiles(c, rng, pool, cfg.N(40, 400))
	r.Note("wall: txtar archives: go build evy (waited) %.1fs, cases %.1fs", tBuild.Seconds(), time.Since(t0).Seconds())
}

// c06PlainFiles: the same through plain files: `evy fmt --write p0.evy p1.evy ...` (one call) must leave in
// every file what formatting its text gives.
func c06PlainFiles(c *c06Ctx, rng *rand.Rand, pool []c06PoolItem, n int) {
	var srcs []string
	for i := 0; i < n; i++ {
		it := pool[rng.Intn(len(pool))]
		src := it.src
		if rng.Intn(2) == 0 {
			if s := c06Compact(rng, it.formatted); c06SameTokens(s, it.formatted) {
				src = s
			}
		}
		if rng.Intn(4) == 0 {
			src = strings.TrimSuffix(src, "\n")
		}
		srcs = append(srcs, src)
	}
	c06PlainRun(c, srcs)
}

func c06PlainRun(c *c06Ctx, srcs []string) {
	r := c.r
	dir, err := os.MkdirTemp("", "c06-plain-")
	if err != nil {
		return
	}
	defer os.RemoveAll(dir)
	type pf struct{ file, src, want string }
	var fs []pf
	var names []string
	for i, src := range srcs {
		prog, err := safeParse(src)
		if err != nil {
			continue
		}
		want, err := safeFormat(prog)
		if err != nil {
			continue
		}
		f := filepath.Join(dir, fmt.Sprintf("p%d.evy", i))
		if os.WriteFile(f, []byte(src), 0o644) != nil {
			return
		}
		fs = append(fs, pf{f, src, want})
		names = append(names, f)
	}
	if len(fs) == 0 {
		return
	}
	exit, stderr, err := runEvyFmt(append([]string{"--write"}, names...)...)
	if err != nil {
		r.Violate(Violation{Kind: "correspondence", Key: "evy-binary", Detail: err.Error()})
		return
	}
	for _, f := range fs {
		r.Count("plainfile:"+f.src, fmtNontrivial(f.src))
		r.Dist("plain-file-through-binary")
		got, _ := os.ReadFile(f.file)
		in := map[string]any{"kind": "plainfile", "source": f.src}
		switch {
		case exit != 0:
			r.Violate(Violation{Kind: "property", Key: "plainfile-fmt-fails-on-accepted-program", Detail: fmt.Sprintf("evy fmt --write on %d accepted programs exits %d: %s", len(fs), exit, c19Tail(stderr, 300)), Input: in})
			return
		case string(got) != f.want:
			r.Violate(Violation{Kind: "property", Key: "plainfile-differs-from-format", Detail: "evy fmt --write FILE.evy leaves a text that is not Format() of the file's text", Input: in, Impl: string(got), Model: f.want})
		default:
			r.Validated++
		}
	}
}

func c06ReplayTxtar(c *c06Ctx, raw any) bool {
	m, ok := raw.(map[string]any)
	if src, isStr := m["source"].(string); ok && m["kind"] == "plainfile" && isStr {
		c06PlainRun(c, []string{src})
		return true
	}
	if !ok || m["kind"] != "txtar" {
		return false
	}
	b, err := json.Marshal(raw)
	if err != nil {
		return false
	}
	var in c06TxtarInput
	if json.Unmarshal(b, &in) != nil {
		return false
	}
	c06TxtarCase(c, in)
	return true
}
