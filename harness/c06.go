package main

import (
	"encoding/json"
	"math/rand"
	"os"
	"strings"

	"evylang.dev/evy/pkg/evaluator"
)

// C06 — Formatting changes nothing but whitespace.
//
// Correspondence: coq/Format.v's `format` vs Program.Format() byte for byte on
// the exported tree (+ the hypothesis wf_prog of the theorems holds on every
// parser-produced tree, + tokens_of_ast(tree) equals, element by element, the
// real lexer's significant tokens of the formatted text, + strip_ws agrees).
// Property oracles on the real code: token sequence of the source vs the
// formatted text, re-parse and compare trees, run both and compare traces.

type c06Ctx struct {
	rt      *rtCtx
	model   *Model
	r       *Result
	runs    int
	maxRuns int
	pool    []c06PoolItem // accepted sources whose formatting kept tokens and tree: the members of the txtar archives
}

func c06Key(kind, why string) string { return kind + ":" + why }

func c06Check(c *c06Ctx, in fmtInput) {
	r := c.r
	src := in.Src
	prog, err := safeParse(src)
	if err != nil {
		if strings.HasPrefix(err.Error(), "gopanic:") {
			r.Dist("input:" + in.Kind + ":parser-gopanic(C03)")
		} else {
			r.Dist("input:" + in.Kind + ":rejected")
		}
		return
	}
	r.Dist("input:" + in.Kind + ":accepted")
	r.Count(src, fmtNontrivial(src))
	formatted, err := safeFormat(prog)
	if err != nil {
		r.Violate(Violation{Kind: "property", Key: "format-gopanic", Detail: err.Error(), Input: src})
		return
	}

	// ---- correspondence with the model ----
	m, err := askFormatModel(c.model, prog)
	if err != nil {
		r.Violate(Violation{Kind: "correspondence", Key: "model-failed", Detail: err.Error(), Input: src})
		return
	}
	r.Validated++
	fToks, _ := lexSig(formatted)
	fTexts := make([]string, len(fToks))
	for i, t := range fToks {
		fTexts[i] = t.Text
	}
	// a correspondence failure does not end the case: the property's own oracles below still run (DESIGN 5.3)
	switch {
	case m.Text != formatted:
		r.Violate(Violation{Kind: "correspondence", Key: "model-text-differs",
			Detail: "coq/Format.v format and Program.Format() differ on the exported tree", Input: src, Impl: formatted, Model: m.Text})
	case !m.WF:
		r.Violate(Violation{Kind: "correspondence", Key: "wf-hypothesis-false-on-parser-output",
			Detail: "the parser produced a tree + side tables outside wf_prog, the hypothesis of C06_format_emits_tree_tokens / C07_format_shape", Input: src, Impl: formatted})
	case firstDiff(m.Tokens, fTexts) != "":
		r.Violate(Violation{Kind: "correspondence", Key: "model-tokens-differ-from-lexer",
			Detail: "tokens_of_ast(tree) is not the real lexer's significant-token sequence of Format(): " + firstDiff(m.Tokens, fTexts), Input: src, Impl: fTexts, Model: m.Tokens})
	case m.Stripped != strings.Join(m.Tokens, ""):
		r.Violate(Violation{Kind: "correspondence", Key: "strip-ws-differs",
			Detail: "strip_ws (format a) <> concat (tokens_of_ast a) on a wf tree: the theorem's instance is false?!", Input: src, Model: m.Stripped})
	}

	// ---- property oracle 1: significant tokens of source and formatted text ----
	sToks, _ := lexSig(src)
	if d := firstDiff(sigNorms(sToks), sigNorms(fToks)); d != "" {
		key := "format-changes-token-sequence"
		// classify: tokens after `end` on the same line that the parser skipped
		if c06HasStrayAfterEnd(src) {
			key = "end-garbage-accepted"
		}
		r.Violate(Violation{Kind: "property", Key: key,
			Detail: "source and Format() differ in their sequence of significant tokens (type+value, comments included): " + d,
			Input:  src, Impl: formatted})
		return
	}

	// ---- property oracle 2: the formatted text is accepted and has the same tree ----
	prog2, err := safeParse(formatted)
	if err != nil {
		r.Violate(Violation{Kind: "property", Key: "formatted-text-rejected", Detail: err.Error(), Input: src, Impl: formatted})
		return
	}
	c06RoundTrip(c.rt, r, src, formatted, prog, prog2)
	t1, e1 := ExportProgram(prog)
	t2, e2 := ExportProgram(prog2)
	if e1 == nil && e2 == nil && dropNops(t1).String() != dropNops(t2).String() {
		r.Violate(Violation{Kind: "property", Key: "formatted-text-has-different-tree",
			Detail: "parse(format(parse src)) and parse src differ (evaluator view of the tree: nodes, types, Any wrappers)", Input: src, Impl: formatted})
		return
	}

	if len(src) <= 1200 && len(c.pool) < 4000 {
		c.pool = append(c.pool, c06PoolItem{src, formatted})
	}

	// ---- property oracle 3: same behaviour ----
	if c.runs < c.maxRuns && c06Runnable(src) {
		c.runs++
		o := SemOpts{StopAt: -1, YieldBudget: 20000}
		evaluator.RandSource = rand.New(rand.NewSource(7)) // rand / rand1 must draw the same numbers in both runs
		a := ImplRun(src, o)
		evaluator.RandSource = rand.New(rand.NewSource(7))
		b := ImplRun(formatted, o)
		if a.GoPanic == "" && b.GoPanic == "" && len(a.Phases) == 1 && len(b.Phases) == 1 {
			pa, pb := a.Phases[0], b.Phases[0]
			differ := pa.Class != pb.Class || joinLines(pa.Trace) != joinLines(pb.Trace)
			if pa.Class == "budget" || pb.Class == "budget" {
				// cut by the yield budget: blank lines are EmptyStmt nodes that yield too, so the two runs are cut
				// at different points (or only one is cut) and a cut run still prints its test summary:
				// inconclusive, not compared
				differ = false
				r.Dist("run:cut-by-budget-not-compared")
			}
			if differ {
				r.Violate(Violation{Kind: "property", Key: "formatted-program-behaves-differently",
					Detail: "running the source and running Format() of it differ in outcome class or effect trace", Input: src,
					Impl: map[string]any{"source": pa.Class, "formatted": pb.Class, "formatted_text": formatted}})
				return
			}
			r.Dist("run:" + strings.SplitN(pa.Class, ":", 2)[0])
		}
	}
	if len(r.Samples) < 4 && strings.Contains(in.Kind, "decorated") && len(src) < 600 {
		r.Sample(map[string]any{"kind": in.Kind, "source": src, "formatted": formatted, "tokens": len(fToks)})
	}
}

// c06Runnable: programs that read, sleep, or hold the generator's "special" numbers are not executed:
// `[1 2] * 9007199254740992` or a loop to 2^63 never finishes between two yields (the budget cannot cut it)
// and exhausts memory. Formatting them is still checked.
func c06Runnable(src string) bool {
	for _, bad := range []string{"read", "sleep", "9007199254740992", "9223372036854775808", "/0", "/ 0", "% 0", "%0"} {
		if strings.Contains(src, bad) {
			return false
		}
	}
	return true
}

// dropNops removes the (nop) placeholders (EmptyStmt: blank lines and comment
// lines; func/on definitions are listed separately) from the evaluator-view tree:
// their number is layout, not syntax.
func dropNops(x SX) SX {
	if x.Kind != "lst" {
		return x
	}
	out := make([]SX, 0, len(x.L))
	for _, y := range x.L {
		if y.Kind == "lst" && len(y.L) == 1 && y.L[0].Kind == "sym" && y.L[0].S == "nop" {
			continue
		}
		out = append(out, dropNops(y))
	}
	return SX{Kind: "lst", L: out}
}

// c06HasStrayAfterEnd: some line has `end` followed by a token other than a comment.
func c06HasStrayAfterEnd(src string) bool {
	for _, ln := range strings.Split(src, "\n") {
		t := strings.TrimSpace(ln)
		if strings.HasPrefix(t, "end") && len(t) > 3 && (t[3] == ' ' || t[3] == '\t') {
			rest := strings.TrimSpace(t[3:])
			if rest != "" && !strings.HasPrefix(rest, "//") {
				return true
			}
		}
	}
	return false
}

func runC06(cfg Config, r *Result) {
	model, err := StartModel("format")
	if err != nil {
		r.Violate(Violation{Kind: "correspondence", Key: "model-start", Detail: err.Error()})
		return
	}
	defer model.Close()
	r.Rule = "inputs: hand-written layouts, every evy program in /repo (docs code blocks, *.evy), the same decorated, and type-directed generated programs " +
		"(plain / decorated with comments at line ends and on own lines, blank-line runs, multi-line array and map literals with comments / widened horizontal white space / stray tokens after `end`); " +
		"and txtar archives of 1-7 members built from the accepted sources (members that grow when formatted: indentation removed, `x:=1`, no final newline; as written; already formatted; members that are not evy files; an archive comment; now and then a member that is not an accepted program) run through the built binary `evy fmt --write` / `--check`: every member must be what formatting it alone gives, everything else untouched; " +
		"and accepted token mutants (every single-token deletion / insertion / substitution by a representative of every token kind, adjacent swaps, of one small program per header and statement form and of corpus programs: whatever the parser still accepts must keep its tokens, tree and behaviour); " +
		"only inputs accepted by parser.Parse count; non-trivial = at least 6 words and a block, a comment or a multi-line literal; distinct = distinct source text"
	c := &c06Ctx{model: model, r: r, maxRuns: cfg.N(700, 6000)}
	go evyBinary() // built while the in-process cases run; used by the txtar archives at the end
	if rtm, err := StartModel("fmtparse"); err == nil {
		defer rtm.Close()
		c.rt = &rtCtx{model: rtm, max: cfg.N(12000, 150000)}
		if lm, err := StartModel("fmtlex"); err == nil {
			defer lm.Close()
			c.rt.lex = lm
		} else {
			r.Violate(Violation{Kind: "correspondence", Key: "model-start", Detail: "fmtlex: " + err.Error()})
		}
		defer rtNote(r, c.rt)
	} else {
		r.Violate(Violation{Kind: "correspondence", Key: "model-start", Detail: "fmtparse: " + err.Error()})
	}
	if cfg.Replay != "" {
		if b, err := os.ReadFile(cfg.Replay); err == nil {
			var v struct {
				Input any `json:"input"`
			}
			if json.Unmarshal(b, &v) == nil {
				if s, ok := v.Input.(string); ok {
					c06Check(c, fmtInput{s, "replay"})
					return
				}
				if c06ReplayTxtar(c, v.Input) {
					return
				}
			}
		}
		r.Note("replay file %s has no string input", cfg.Replay)
	}
	for _, in := range fmtInputs(cfg, cfg.N(1600, 16000), true) {
		c06Check(c, in)
	}
	// the recorded defect witnesses
	for _, w := range []string{
		"if true\n    print 1\nend garbage\n",
		"while false\n    print 1\nend 1 2 3\n",
		"for i := range 2\n    print i\nend \"text\" // c\n",
		"func f\n    print 1\nend end\nf\n",
		"on down\n    print 1\nend x := 1\n",
	} {
		c06Check(c, fmtInput{w, "witness-stray-after-end"})
	}
	c06AcceptedMutants(cfg, c)
	c06Txtars(cfg, c)
}

func init() { register("C06", runC06) }
