package main

// C18: `evy fmt -w` never damages a source file; `evy fmt -c` tells the truth.
//
// The real `evy` binary (built from the repo the harness module is replaced
// with) is run under strace on scratch directories.  Its system calls on the
// target directory are translated into the call list of coq/FmtCmd.v; the
// outcomes of those calls (byte counts, injected errors, the kill point) are
// the adversary's part and are handed to the extracted model as its schedule;
// the model's own call list, final target/temp file and exit status must then
// equal what was observed (trace inclusion: the observed run is a run of the
// model).  Faults are enumerated exhaustively over the call indices of the
// fault-free run: SIGKILL on entry of call i, and ENOSPC/EIO/EACCES from call i.
// Independently of the model, the property is evaluated on every observed run.

import (
	"bytes"
	"context"
	"encoding/base64"
	"encoding/json"
	"errors"
	"fmt"
	"math/rand"
	"os"
	"os/exec"
	"path/filepath"
	"regexp"
	"sort"
	"strconv"
	"strings"
	"sync"
	"syscall"
	"time"

	"evylang.dev/evy/pkg/evaluator"
	"evylang.dev/evy/pkg/parser"
	"golang.org/x/tools/txtar"
)

// ---------- scenarios ----------

type c18File struct {
	Label   string `json:"label"`
	Name    string `json:"name"`
	Content []byte `json:"content"` // base64 in JSON
	Mode    uint32 `json:"mode"`
}

type c18Fault struct {
	Kind  string `json:"kind"`            // none | kill | err | fsize | rodir | missing
	Index int    `json:"index,omitempty"` // index into the relevant calls of the fault-free run
	Errno string `json:"errno,omitempty"`
	Fsize int    `json:"fsize,omitempty"` // RLIMIT_FSIZE in bytes
	// filled from the fault-free run: which syscall, which occurrence of it in the whole process
	Syscall string `json:"syscall,omitempty"`
	When    int    `json:"when,omitempty"`
	WhenAlt int    `json:"when_alt,omitempty"` // occurrence among the calls on the target directory only (a thread that made no start-up calls)
}

type c18Scenario struct {
	File  c18File   `json:"file"`
	More  []c18File `json:"more,omitempty"` // further files of the same invocation, in command-line order after File
	Cmd   string    `json:"cmd"`            // write | check | plain
	Fault c18Fault  `json:"fault"`
}

func (s c18Scenario) all() []c18File { return append([]c18File{s.File}, s.More...) }

func (s c18Scenario) id() string {
	lab := s.File.Label
	for _, f := range s.More {
		lab += "+" + f.Label
	}
	return fmt.Sprintf("%s/%s/%s@%d:%s%d", lab, s.Cmd, s.Fault.Kind, s.Fault.Index, s.Fault.Errno, s.Fault.Fsize)
}

// ---------- library oracle: what the formatter does (the model's Section variables) ----------

type c18Part struct {
	Src []byte
	Out []byte // nil = does not parse
	OK  bool
}

type c18Oracle struct {
	Parts  []c18Part
	Joined []byte // bytes `fmt -w` should write; only meaningful when AllParse
	All    bool   // every part parses
	Clean  bool   // every part parses and is already formatted
}

func c18Format(src []byte) ([]byte, bool) {
	prog, err := parser.Parse(string(src), evaluator.BuiltinDecls())
	if err != nil {
		return nil, false
	}
	return []byte(prog.Format()), true
}

func c18OracleFor(f c18File) c18Oracle {
	o := c18Oracle{All: true, Clean: true}
	if filepath.Ext(f.Name) == ".txtar" {
		ar := txtar.Parse(f.Content)
		for i, m := range ar.Files {
			if filepath.Ext(m.Name) != ".evy" {
				continue
			}
			out, ok := c18Format(m.Data)
			o.Parts = append(o.Parts, c18Part{Src: m.Data, Out: out, OK: ok})
			if !ok {
				o.All, o.Clean = false, false
				continue
			}
			if !bytes.Equal(out, m.Data) {
				o.Clean = false
			}
			ar.Files[i].Data = out
		}
		if o.All {
			o.Joined = txtar.Format(ar)
		}
		return o
	}
	out, ok := c18Format(f.Content)
	o.Parts = []c18Part{{Src: f.Content, Out: out, OK: ok}}
	o.All, o.Clean = ok, ok && bytes.Equal(out, f.Content)
	if ok {
		o.Joined = out
	}
	return o
}

// ---------- observed run ----------

type c18Event struct {
	Call     string // openr fstat read closer stat createtemp write fchmod closew lstat rename unlink rmdir, or "?name"
	Path     string // basename inside the target directory
	Path2    string
	Arg      int64 // read: offset; createtemp/fchmod: mode; write: requested length
	Ret      string
	Injected bool
	Errno    string
	Count    int64
	Syscall  string
	When     int // occurrence number (1-based) of Syscall within the thread that made it (strace counts when= per thread)
}

type c18State struct {
	Present bool
	Data    []byte
	Mode    uint32
}

type c18Run struct {
	Events   []c18Event
	Startup  map[string]int
	Exit     int    // exit code, -1 if signalled
	Signal   string // "" or e.g. SIGKILL
	Target   c18State
	TempName string
	Temp     c18State
	Others   map[string]c18State // final state of the further files of a multi-file invocation
	Extra    []string            // unexpected directory entries
	Stderr   string
	LogTail  string
}

var (
	c18TraceSet = "openat,open,creat,read,pread64,write,pwrite64,close,fstat,newfstatat,stat,lstat,statx,rename,renameat,renameat2,unlink,unlinkat,rmdir,fchmod,chmod,fchmodat,truncate,ftruncate,link,linkat,symlink,symlinkat"
	c18LineRe   = regexp.MustCompile(`^(\d+)\s+(.*)$`)
	c18CallRe   = regexp.MustCompile(`^([a-z0-9_]+)\((.*)\)\s+= (-?\d+|\?)(.*)$`)
	c18FdRe     = regexp.MustCompile(`^(-?\d+|AT_FDCWD)<([^>]*)>`)
	c18ModeRe   = regexp.MustCompile(`st_mode=S_IF[A-Z]+\|(0[0-7]+)`)
	c18ErrRe    = regexp.MustCompile(`^\s*(E[A-Z0-9]+) \(`)
	c18TempRe   = regexp.MustCompile(`^evy\d+$`)
)

type c18Env struct {
	evy  string // the built binary
	work string // scratch root
}

// splitArgs splits a strace argument list at top-level commas.
func c18SplitArgs(s string) []string {
	var out []string
	depth, inq, start := 0, false, 0
	for i := 0; i < len(s); i++ {
		c := s[i]
		switch {
		case inq:
			if c == '\\' {
				i++
			} else if c == '"' {
				inq = false
			}
		case c == '"':
			inq = true
		case c == '{' || c == '[' || c == '(' || c == '<':
			depth++
		case c == '}' || c == ']' || c == ')' || c == '>':
			depth--
		case c == ',' && depth == 0:
			out = append(out, strings.TrimSpace(s[start:i]))
			start = i + 1
		}
	}
	out = append(out, strings.TrimSpace(s[start:]))
	return out
}

func c18Unquote(a string) string {
	a = strings.TrimSuffix(a, "...")
	if u, err := strconv.Unquote(a); err == nil {
		return u
	}
	return strings.Trim(a, `"`)
}

// pathArg resolves (dirfd-arg, path-arg) to an absolute path.
func c18Resolve(dirArg, pathArg string) string {
	p := c18Unquote(pathArg)
	base := ""
	if m := c18FdRe.FindStringSubmatch(dirArg); m != nil {
		base = m[2]
	}
	if p == "" {
		return base
	}
	if filepath.IsAbs(p) {
		return filepath.Clean(p)
	}
	return filepath.Clean(filepath.Join(base, p))
}

func c18FdPath(arg string) string {
	if m := c18FdRe.FindStringSubmatch(arg); m != nil {
		return strings.TrimSuffix(m[2], " (deleted)")
	}
	return ""
}

// parseLog translates the strace log into the model's call list (only calls
// that touch dir) and notes, per call, which occurrence of its syscall it was.
func c18ParseLog(log string, dir string, targets map[string]bool) (events []c18Event, exit int, signal string, startup map[string]int) {
	exit = -2
	mainPid := ""
	startup = map[string]int{} // calls (by syscall name) that do not touch the target directory: runtime start-up, on the main thread
	pending := map[string]string{}
	counts := map[string]int{}
	entryNo := map[string]int{} // pid -> occurrence number of its pending syscall
	for _, line := range strings.Split(log, "\n") {
		m := c18LineRe.FindStringSubmatch(line)
		if m == nil {
			continue
		}
		pid, rest := m[1], m[2]
		if mainPid == "" {
			mainPid = pid
		}
		if strings.HasPrefix(rest, "+++ ") {
			if pid == mainPid {
				if strings.HasPrefix(rest, "+++ exited with ") {
					fmt.Sscanf(rest, "+++ exited with %d", &exit)
				} else if strings.HasPrefix(rest, "+++ killed by ") {
					exit = -1
					signal = strings.Fields(rest)[3]
				}
			}
			continue
		}
		if strings.HasPrefix(rest, "--- ") {
			continue
		}
		when := 0
		if strings.HasSuffix(rest, "<unfinished ...>") {
			name := rest
			if i := strings.IndexByte(rest, '('); i > 0 {
				name = rest[:i]
			}
			counts[pid+" "+name]++
			entryNo[pid] = counts[pid+" "+name]
			pending[pid] = strings.TrimSuffix(rest, "<unfinished ...>")
			continue
		}
		if strings.HasPrefix(rest, "<... ") {
			i := strings.Index(rest, "resumed>")
			if i < 0 {
				continue
			}
			rest = pending[pid] + rest[i+len("resumed>"):]
			when = entryNo[pid]
			delete(pending, pid)
		}
		cm := c18CallRe.FindStringSubmatch(rest)
		if cm == nil {
			continue
		}
		name, argstr, retv, tail := cm[1], cm[2], cm[3], cm[4]
		if when == 0 {
			counts[pid+" "+name]++
			when = counts[pid+" "+name]
		}
		args := c18SplitArgs(argstr)
		ev := c18Event{Syscall: name, When: when, Injected: strings.Contains(tail, "(INJECTED)")}
		abs, abs2 := "", ""
		arg := func(i int) string {
			if i < len(args) {
				return args[i]
			}
			return ""
		}
		switch name {
		case "openat":
			abs = c18Resolve(arg(0), arg(1))
			flags := arg(2)
			switch {
			case strings.Contains(flags, "O_CREAT") && strings.Contains(flags, "O_EXCL"):
				ev.Call = "createtemp"
				md, _ := strconv.ParseInt(arg(3), 8, 64)
				ev.Arg = md
			case strings.HasPrefix(flags, "O_RDONLY") && !strings.Contains(flags, "O_DIRECTORY"):
				ev.Call = "openr"
			default:
				ev.Call = "?openat:" + flags
			}
		case "open", "creat":
			abs = c18Resolve("", arg(0))
			ev.Call = "?" + name
		case "read":
			abs = c18FdPath(arg(0))
			ev.Call = "read"
		case "write":
			abs = c18FdPath(arg(0))
			ev.Call = "write"
			ev.Arg, _ = strconv.ParseInt(arg(2), 10, 64)
		case "close":
			abs = c18FdPath(arg(0))
			if targets[filepath.Base(abs)] {
				ev.Call = "closer"
			} else {
				ev.Call = "closew"
			}
		case "fstat":
			abs = c18FdPath(arg(0))
			ev.Call = "fstat"
		case "newfstatat":
			if strings.HasPrefix(arg(0), "AT_FDCWD") {
				abs = c18Resolve(arg(0), arg(1))
			} else {
				abs = c18FdPath(arg(0))
			}
			if strings.Contains(arg(3), "AT_SYMLINK_NOFOLLOW") {
				ev.Call = "lstat"
			} else if strings.Contains(arg(3), "AT_EMPTY_PATH") {
				ev.Call = "fstat"
			} else {
				ev.Call = "stat"
			}
		case "stat", "lstat":
			abs = c18Resolve("", arg(0))
			ev.Call = name
		case "fchmod":
			abs = c18FdPath(arg(0))
			ev.Call = "fchmod"
			ev.Arg, _ = strconv.ParseInt(arg(1), 8, 64)
		case "renameat", "renameat2":
			abs = c18Resolve(arg(0), arg(1))
			abs2 = c18Resolve(arg(2), arg(3))
			ev.Call = "rename"
		case "rename":
			abs = c18Resolve("", arg(0))
			abs2 = c18Resolve("", arg(1))
			ev.Call = "rename"
		case "unlinkat":
			abs = c18Resolve(arg(0), arg(1))
			if strings.Contains(arg(2), "AT_REMOVEDIR") {
				ev.Call = "rmdir"
			} else {
				ev.Call = "unlink"
			}
		case "unlink":
			abs = c18Resolve("", arg(0))
			ev.Call = "unlink"
		case "rmdir":
			abs = c18Resolve("", arg(0))
			ev.Call = "rmdir"
		case "chmod", "truncate", "link", "symlink":
			abs = c18Resolve("", arg(0))
			ev.Call = "?" + name
		case "fchmodat", "linkat", "symlinkat", "statx":
			abs = c18Resolve(arg(0), arg(1))
			ev.Call = "?" + name
		case "ftruncate", "pread64", "pwrite64":
			abs = c18FdPath(arg(0))
			ev.Call = "?" + name
		default:
			continue
		}
		in := func(p string) bool { return p != "" && filepath.Dir(p) == dir }
		if !in(abs) && !in(abs2) {
			if len(events) == 0 {
				startup[name]++
			}
			continue
		}
		ev.Path = filepath.Base(abs)
		if abs2 != "" {
			ev.Path2 = filepath.Base(abs2)
		}
		// return value
		if retv == "?" {
			continue // killed inside the call; strace prints no result (does not happen for entry injection)
		}
		n, _ := strconv.ParseInt(retv, 10, 64)
		if n < 0 {
			if em := c18ErrRe.FindStringSubmatch(tail); em != nil {
				ev.Errno = em[1]
			} else {
				ev.Errno = "EOTHER"
			}
			ev.Ret = "(err " + c18KnownErrno(ev.Errno) + ")"
		} else {
			switch ev.Call {
			case "read", "write":
				ev.Count = n
				ev.Ret = fmt.Sprintf("(count %d)", n)
			case "fstat", "lstat", "stat":
				if mm := c18ModeRe.FindStringSubmatch(argstr); mm != nil {
					md, _ := strconv.ParseInt(mm[1], 8, 64)
					ev.Ret = fmt.Sprintf("(mode %d)", md)
				} else {
					ev.Ret = "(mode ?)"
				}
			default:
				ev.Ret = "ok"
			}
		}
		events = append(events, ev)
	}
	// read offsets are implicit in the kernel: sum of the previous reads on that file
	off := map[string]int64{}
	for i := range events {
		if events[i].Call == "openr" {
			off[events[i].Path] = 0
		}
		if events[i].Call == "read" {
			events[i].Arg = off[events[i].Path]
			off[events[i].Path] += events[i].Count
		}
	}
	return
}

func c18KnownErrno(e string) string {
	switch e {
	case "ENOENT", "EACCES", "EEXIST", "ENOSPC", "EIO", "EBADF", "EFBIG", "ENOTDIR":
		return e
	}
	return "EOTHER"
}

// render an observed event exactly as FmtCmd.enc_event prints the model's
func (e c18Event) sx() string {
	switch e.Call {
	case "read":
		return fmt.Sprintf("(read %s %d %s)", quoteSX(e.Path), e.Arg, e.Ret)
	case "createtemp", "fchmod":
		return fmt.Sprintf("(%s %s %d %s)", e.Call, quoteSX(e.Path), e.Arg, e.Ret)
	case "write":
		return fmt.Sprintf("(write %s %d %s)", quoteSX(e.Path), e.Arg, e.Ret)
	case "rename":
		return fmt.Sprintf("(rename %s %s %s)", quoteSX(e.Path), quoteSX(e.Path2), e.Ret)
	}
	return fmt.Sprintf("(%s %s %s)", e.Call, quoteSX(e.Path), e.Ret)
}

// the adversary's part of an observed event
func (e c18Event) outcome() string {
	if e.Errno != "" && (e.Injected || e.Errno == "EFBIG") {
		return "(err " + c18KnownErrno(e.Errno) + ")"
	}
	if e.Errno == "" && (e.Call == "read" || e.Call == "write") {
		return fmt.Sprintf("(count %d)", e.Count)
	}
	return "ok" // including native errors (ENOENT, EACCES of a read-only directory): the model has to produce them itself
}

func (env *c18Env) run(s c18Scenario) (*c18Run, error) {
	root, err := os.MkdirTemp(env.work, "run")
	if err != nil {
		return nil, err
	}
	defer func() {
		os.Chmod(filepath.Join(root, "d"), 0o755)
		os.RemoveAll(root)
	}()
	os.Chmod(root, 0o755)
	dir := filepath.Join(root, "d")
	if err := os.Mkdir(dir, 0o755); err != nil {
		return nil, err
	}
	dir, _ = filepath.EvalSymlinks(dir)
	for _, f := range s.More {
		fp := filepath.Join(dir, f.Name)
		if err := os.WriteFile(fp, f.Content, 0o600); err != nil {
			return nil, err
		}
		if err := os.Chmod(fp, os.FileMode(f.Mode)); err != nil {
			return nil, err
		}
	}
	tpath := filepath.Join(dir, s.File.Name)
	if s.Fault.Kind != "missing" {
		if err := os.WriteFile(tpath, s.File.Content, 0o600); err != nil {
			return nil, err
		}
		if err := os.Chmod(tpath, os.FileMode(s.File.Mode)); err != nil {
			return nil, err
		}
	}
	logp := filepath.Join(root, "log")
	args := []string{"-f", "-y", "-s", "0", "-e", "trace=" + c18TraceSet, "-o", logp}
	if s.Fault.Kind != "kill" {
		// stop the tracee only at the traced calls (much cheaper: the Go runtime makes hundreds of other
		// calls at start-up); not usable for kill runs: signal injection does not work under seccomp-bpf
		args = append([]string{"--seccomp-bpf"}, args...)
	}
	switch s.Fault.Kind {
	case "kill":
		args = append(args, "-e", fmt.Sprintf("inject=%s:signal=SIGKILL:when=%d", s.Fault.Syscall, s.Fault.When))
	case "err":
		args = append(args, "-e", fmt.Sprintf("inject=%s:error=%s:when=%d", s.Fault.Syscall, s.Fault.Errno, s.Fault.When))
	case "rodir":
		os.Chmod(dir, 0o555)
		args = append(args, "-u", "nobody")
	}
	if s.Fault.Kind == "fsize" {
		args = append(args, "prlimit", fmt.Sprintf("--fsize=%d", s.Fault.Fsize), "--")
	}
	args = append(args, env.evy, "fmt")
	switch s.Cmd {
	case "write":
		args = append(args, "-w")
	case "check":
		args = append(args, "-c")
	}
	args = append(args, s.File.Name)
	names := map[string]bool{s.File.Name: true}
	for _, f := range s.More {
		args = append(args, f.Name)
		names[f.Name] = true
	}
	ctx, cancel := context.WithTimeout(context.Background(), 60*time.Second)
	defer cancel()
	cmd := exec.CommandContext(ctx, "strace", args...)
	cmd.Dir = dir
	// runtime knobs only (no effect on what the program does): fewer goroutine migrations between
	// threads, because strace counts "when=" per thread
	cmd.Env = append(os.Environ(), "GOGC=off", "GODEBUG=asyncpreemptoff=1", "GOMAXPROCS=1")
	var stderr bytes.Buffer
	cmd.Stderr = &stderr
	cmd.Stdout = &stderr
	runErr := cmd.Run()
	if ctx.Err() != nil {
		return nil, fmt.Errorf("timeout running %v", args)
	}
	logb, err := os.ReadFile(logp)
	if err != nil {
		return nil, fmt.Errorf("no strace log: %v (%v) %s", err, runErr, stderr.String())
	}
	r := &c18Run{Stderr: stderr.String()}
	r.Events, r.Exit, r.Signal, r.Startup = c18ParseLog(string(logb), dir, names)
	if r.Exit == -2 {
		// fall back to the wait status of strace (which mirrors the tracee)
		var ee *exec.ExitError
		if errors.As(runErr, &ee) {
			if ws, ok := ee.Sys().(syscall.WaitStatus); ok && ws.Signaled() {
				r.Exit, r.Signal = -1, "SIG"+strings.ToUpper(strings.TrimPrefix(ws.Signal().String(), "signal "))
				if ws.Signal() == syscall.SIGKILL {
					r.Signal = "SIGKILL"
				}
			} else {
				r.Exit = ee.ExitCode()
			}
		} else if runErr == nil {
			r.Exit = 0
		}
	}
	lines := strings.Split(strings.TrimSpace(string(logb)), "\n")
	if len(lines) > 14 {
		lines = lines[len(lines)-14:]
	}
	r.LogTail = strings.Join(lines, "\n")
	// final state of the directory
	os.Chmod(dir, 0o755)
	ents, _ := os.ReadDir(dir)
	for _, e := range ents {
		p := filepath.Join(dir, e.Name())
		fi, err := os.Lstat(p)
		if err != nil {
			continue
		}
		st := c18State{Present: true, Mode: uint32(fi.Mode().Perm())}
		if fi.Mode().IsRegular() {
			st.Data, _ = os.ReadFile(p)
		}
		switch {
		case e.Name() == s.File.Name && fi.Mode().IsRegular():
			r.Target = st
		case names[e.Name()] && fi.Mode().IsRegular():
			if r.Others == nil {
				r.Others = map[string]c18State{}
			}
			r.Others[e.Name()] = st
		case c18TempRe.MatchString(e.Name()) && fi.Mode().IsRegular() && r.TempName == "":
			r.TempName, r.Temp = e.Name(), st
		default:
			r.Extra = append(r.Extra, e.Name())
		}
	}
	return r, nil
}

// ---------- model ----------

// bytes travel as strings of code points 0..255 (one code point per byte)
func c18B2S(b []byte) string {
	rs := make([]rune, len(b))
	for i, c := range b {
		rs[i] = rune(c)
	}
	return string(rs)
}

func c18S2B(s string) []byte {
	out := make([]byte, 0, len(s))
	for _, r := range s {
		out = append(out, byte(r))
	}
	return out
}

type c18ModelOut struct {
	Status string
	Trace  []string
	Target c18State
	Temp   c18State
}

func c18DecState(x SX) c18State {
	if x.Kind != "lst" || len(x.L) != 2 {
		return c18State{}
	}
	m, _ := strconv.ParseUint(x.L[1].S, 10, 32)
	return c18State{Present: true, Data: c18S2B(x.L[0].S), Mode: uint32(m)}
}

func c18AskModel(model *Model, variant string, s c18Scenario, o c18Oracle, tmp string, sched []string, kill int) (*c18ModelOut, error) {
	file := Sym("absent")
	if s.Fault.Kind != "missing" {
		file = Lst(Str(c18B2S(s.File.Content)), Int(int64(s.File.Mode)))
	}
	parts := []SX{}
	for _, p := range o.Parts {
		if p.OK {
			parts = append(parts, Lst(Str(c18B2S(p.Src)), Str(c18B2S(p.Out))))
		} else {
			parts = append(parts, Lst(Str(c18B2S(p.Src)), Sym("none")))
		}
	}
	sc := make([]SX, len(sched))
	for i, x := range sched {
		sc[i] = Sym(x) // already rendered
	}
	q := Lst(Sym(variant), Sym(s.Cmd), Str(s.File.Name), Str(tmp), Bool(s.Fault.Kind != "rodir"), file,
		LstOf(parts), Str(c18B2S(o.Joined)), LstOf(sc), Int(int64(kill)))
	ans, err := model.Ask(q.String())
	if err != nil {
		return nil, err
	}
	x, err := ParseSX(ans)
	if err != nil || x.Kind != "lst" || len(x.L) != 5 {
		return nil, fmt.Errorf("model output: %.200s", ans)
	}
	out := &c18ModelOut{Status: x.L[1].String()}
	for _, e := range x.L[2].L {
		out.Trace = append(out.Trace, e.String())
	}
	out.Target = c18DecState(x.L[3])
	out.Temp = c18DecState(x.L[4])
	return out, nil
}

func c18StateEq(a, b c18State) bool {
	return a.Present == b.Present && a.Mode == b.Mode && bytes.Equal(a.Data, b.Data)
}

func c18StateStr(a c18State) string {
	if !a.Present {
		return "absent"
	}
	d := a.Data
	suffix := ""
	if len(d) > 60 {
		d, suffix = d[:60], fmt.Sprintf("…(%d bytes)", len(a.Data))
	}
	return fmt.Sprintf("%q%s mode %04o", d, suffix, a.Mode)
}

// ---------- checking one observed run ----------

type c18Checker struct {
	mu      sync.Mutex
	models  chan *Model
	multi   chan *Model // fmtmulti model processes
	stdin   *Model      // fmtstdin model process
	variant string
	r       *Result

	modelTime time.Duration
}

func (c *c18Checker) input(s c18Scenario) map[string]any {
	b, _ := json.Marshal(s)
	var m map[string]any
	json.Unmarshal(b, &m)
	// the exact bytes of the file(s), readable (the JSON "content" fields are base64)
	q := []string{}
	for _, f := range s.all() {
		c := f.Content
		if len(c) > 300 {
			c = c[:300]
		}
		q = append(q, fmt.Sprintf("%s = %q", f.Name, c))
	}
	m["file_bytes"] = q
	return m
}

func (c *c18Checker) implView(run *c18Run) map[string]any {
	tr := []string{}
	for _, e := range run.Events {
		tr = append(tr, e.sx())
	}
	return map[string]any{"exit": run.Exit, "signal": run.Signal, "trace": tr, "target": c18StateStr(run.Target),
		"temp": c18StateStr(run.Temp), "temp_name": run.TempName, "extra": run.Extra, "stderr": strings.TrimSpace(run.Stderr), "strace_tail": run.LogTail}
}

// check evaluates (1) the property on the observed run, (2) observed run = model run.
func (c *c18Checker) check(s c18Scenario, o c18Oracle, run *c18Run) {
	if len(s.More) > 0 {
		c.checkMulti(s, run)
		return
	}
	// the model's run under the observed schedule (asked outside the lock, from a pool of model processes)
	killed := run.Signal != ""
	sched := make([]string, len(run.Events))
	for i, e := range run.Events {
		sched[i] = e.outcome()
	}
	kill := len(run.Events) + 1000
	if killed {
		kill = len(run.Events)
	}
	tmp := run.TempName
	for _, e := range run.Events {
		if e.Call == "createtemp" {
			tmp = e.Path
		}
	}
	if tmp == "" {
		tmp = "evy0"
	}
	t0 := time.Now()
	model := <-c.models
	mo, err := c18AskModel(model, c.variant, s, o, tmp, sched, kill)
	c.models <- model
	dt := time.Since(t0)

	c.mu.Lock()
	defer c.mu.Unlock()
	c.modelTime += dt
	r := c.r
	orig := c18State{Present: s.Fault.Kind != "missing", Data: s.File.Content, Mode: s.File.Mode}
	if !orig.Present {
		orig = c18State{}
	}
	nontrivial := s.Fault.Kind != "none" || len(run.Events) > 5
	r.Count(s.id()+"|"+base64.StdEncoding.EncodeToString(s.File.Content), nontrivial)
	r.Dist("cmd:" + s.Cmd)
	r.Dist("fault:" + s.Fault.Kind)
	r.Dist("file:" + s.File.Label)
	viol := func(kind, key, detail string, model any) {
		r.Violate(Violation{Kind: kind, Key: key, Detail: detail, Input: c.input(s), Impl: c.implView(run), Model: model})
	}

	// ----- (1) the property, on the implementation's observable behaviour -----
	switch {
	case !orig.Present:
		if run.Target.Present || run.TempName != "" || run.Exit == 0 {
			viol("property", "missing-file-not-reported", "a non-existent file was created or success was reported", nil)
		}
	case !run.Target.Present:
		viol("property", "target-lost", "the target file no longer exists after the run", nil)
	case bytes.Equal(run.Target.Data, orig.Data):
		// complete original text
	case s.Cmd == "write" && o.All && bytes.Equal(run.Target.Data, o.Joined):
		// complete formatted text
	default:
		viol("property", "target-damaged", "the target holds neither its complete original nor the complete formatted text", nil)
	}
	if orig.Present && run.Target.Present && run.Target.Mode != orig.Mode {
		r.Dist("mode-changed")
		viol("property", "fmt-w-mode-not-preserved",
			fmt.Sprintf("permission bits of the target changed from %04o to %04o", orig.Mode, run.Target.Mode), nil)
	}
	if len(run.Extra) > 0 {
		viol("property", "unexpected-directory-entry", "something other than the target and one evyNNN temp file is in the directory", nil)
	}
	if run.TempName != "" {
		r.Dist("temp-left:" + map[bool]string{true: "after-kill", false: "after-error-exit"}[killed])
		unlinkFailed := false
		for _, e := range run.Events {
			if e.Call == "unlink" && e.Errno != "" {
				unlinkFailed = true
			}
		}
		if !killed && !unlinkFailed && c.variant == "in-force" {
			viol("property", "temp-file-left-behind", "the process exited (was not killed) and left its temp file in the directory", nil)
		}
		if s.Cmd != "write" || !o.All || !bytes.HasPrefix(o.Joined, run.Temp.Data) {
			viol("property", "leftover-not-a-prefix", "a left-over temp file is not a prefix of the formatted text (or exists although nothing was to be written)", nil)
		}
	}
	wrote := false
	for _, e := range run.Events {
		switch e.Call {
		case "openr", "fstat", "read", "closer":
		default:
			wrote = true
		}
	}
	if orig.Present && (s.Cmd != "write" || !o.All) {
		if wrote {
			viol("property", "write-call-without-write-mode", "a file-system call other than reading the target was made although nothing may be written (check mode / unparsable input)", nil)
		}
		if !c18StateEq(run.Target, orig) {
			viol("property", "untouched-violated", "the target changed although nothing may be written", nil)
		}
	}
	if orig.Present && !o.All && run.Exit == 0 {
		viol("property", "unparsable-exit-zero", "input that does not parse, but exit status 0", nil)
	}
	if s.Cmd == "write" && run.Exit == 0 && !(o.All && bytes.Equal(run.Target.Data, o.Joined)) {
		viol("property", "success-without-formatted-text", "exit status 0 from fmt -w but the target does not hold the formatted text", nil)
	}
	if s.Cmd == "check" && orig.Present {
		if run.Exit == 0 && !o.Clean {
			viol("property", "check-false-positive", "fmt -c exits 0 for input that is not in formatted form", nil)
		}
		if s.Fault.Kind == "none" && o.Clean && run.Exit != 0 {
			viol("property", "check-false-negative", "fmt -c exits non-zero for input that is already formatted", nil)
		}
	}

	// ----- (2) correspondence: the observed run is the model's run under the observed schedule -----
	if err != nil {
		viol("correspondence", "model-crash", err.Error(), nil)
		return
	}
	r.Validated++
	obs := []string{}
	for _, e := range run.Events {
		obs = append(obs, e.sx())
	}
	mview := map[string]any{"status": mo.Status, "trace": mo.Trace, "target": c18StateStr(mo.Target), "temp": c18StateStr(mo.Temp), "variant": c.variant}
	if strings.Join(obs, "\n") != strings.Join(mo.Trace, "\n") {
		k := "end"
		for i := 0; i < len(obs) || i < len(mo.Trace); i++ {
			if i >= len(obs) || i >= len(mo.Trace) || obs[i] != mo.Trace[i] {
				if i < len(run.Events) {
					k = run.Events[i].Call
				}
				break
			}
		}
		viol("correspondence", "call-list-differs:"+k, "the system calls the binary made on the target directory are not the model's program under the same outcomes", mview)
		return
	}
	ist := fmt.Sprintf("(exit %d)", run.Exit)
	if killed {
		ist = "killed"
		if run.Signal != "SIGKILL" {
			ist = "signal:" + run.Signal
		}
	}
	if ist != mo.Status {
		viol("correspondence", "status-differs", "exit status: implementation "+ist+", model "+mo.Status, mview)
	}
	if !c18StateEq(run.Target, mo.Target) {
		viol("correspondence", "target-state-differs", "final target file differs from the model's", mview)
	}
	mt := mo.Temp
	if tmp == s.File.Name {
		mt = c18State{}
	}
	if !c18StateEq(run.Temp, mt) {
		viol("correspondence", "temp-state-differs", "left-over temp file differs from the model's", mview)
	}
	if len(r.Samples) < 4 && (s.Fault.Kind != "none" || len(r.Samples) == 0) {
		r.Sample(map[string]any{"scenario": s.id(), "trace": obs, "exit": ist, "target": c18StateStr(run.Target), "temp": c18StateStr(run.Temp)})
	}
}

// ---------- several files in one invocation ----------

func (run *c18Run) stateOf(s c18Scenario, i int) c18State {
	if i == 0 {
		return run.Target
	}
	return run.Others[s.all()[i].Name]
}

// checkMulti: the property and the correspondence for `evy fmt -c|-w f1 … fn`.
func (c *c18Checker) checkMulti(s c18Scenario, run *c18Run) {
	files := s.all()
	os_ := make([]c18Oracle, len(files))
	for i, f := range files {
		os_[i] = c18OracleFor(f)
	}
	killed := run.Signal != ""
	// temp name per file: the createtemp seen while that file was being processed
	tmps := make([]string, len(files))
	for i := range tmps {
		tmps[i] = fmt.Sprintf("unused-tmp-%d", i)
	}
	cur := 0
	sched := make([]string, len(run.Events))
	for k, e := range run.Events {
		sched[k] = e.outcome()
		if e.Call == "openr" {
			for i, f := range files {
				if f.Name == e.Path {
					cur = i
				}
			}
		}
		if e.Call == "createtemp" {
			tmps[cur] = e.Path
		}
	}
	kill := len(run.Events) + 1000
	if killed {
		kill = len(run.Events)
	}
	fl := make([]SX, len(files))
	for i, f := range files {
		parts := []SX{}
		for _, p := range os_[i].Parts {
			if p.OK {
				parts = append(parts, Lst(Str(c18B2S(p.Src)), Str(c18B2S(p.Out))))
			} else {
				parts = append(parts, Lst(Str(c18B2S(p.Src)), Sym("none")))
			}
		}
		fl[i] = Lst(Str(f.Name), Str(tmps[i]), Lst(Str(c18B2S(f.Content)), Int(int64(f.Mode))), LstOf(parts), Str(c18B2S(os_[i].Joined)))
	}
	sc := make([]SX, len(sched))
	for i, x := range sched {
		sc[i] = Sym(x)
	}
	q := Lst(Sym(c.variant), Sym(s.Cmd), Bool(true), LstOf(fl), LstOf(sc), Int(int64(kill)))
	t0 := time.Now()
	model := <-c.multi
	ans, aerr := model.Ask(q.String())
	c.multi <- model
	dt := time.Since(t0)

	c.mu.Lock()
	defer c.mu.Unlock()
	c.modelTime += dt
	r := c.r
	kinds := ""
	for _, f := range files {
		kinds += f.Label[:1]
	}
	r.Count(s.id()+"|"+kinds, true)
	r.Dist("cmd:" + s.Cmd)
	r.Dist("fault:" + s.Fault.Kind)
	r.Dist(fmt.Sprintf("multi:%d-files", len(files)))
	viol := func(kind, key, detail string, model any) {
		impl := c.implView(run)
		for i, f := range files {
			impl["file:"+f.Name] = c18StateStr(run.stateOf(s, i))
		}
		r.Violate(Violation{Kind: kind, Key: key, Detail: detail, Input: c.input(s), Impl: impl, Model: model})
	}

	// ----- the property -----
	allClean, allParse, failed := true, true, false
	for i, f := range files {
		o := os_[i]
		st := run.stateOf(s, i)
		orig := c18State{Present: true, Data: f.Content, Mode: f.Mode}
		switch {
		case !st.Present:
			viol("property", "target-lost", "file "+f.Name+" no longer exists after the run", nil)
		case bytes.Equal(st.Data, orig.Data):
		case s.Cmd == "write" && o.All && bytes.Equal(st.Data, o.Joined) && !failed:
		default:
			viol("property", "target-damaged-multi", "file "+f.Name+" holds neither its complete original nor the complete formatted text (or was rewritten after an earlier file had failed)", nil)
		}
		if st.Present && st.Mode != orig.Mode {
			viol("property", "fmt-w-mode-not-preserved", fmt.Sprintf("permission bits of %s changed from %04o to %04o", f.Name, orig.Mode, st.Mode), nil)
		}
		if s.Cmd != "write" && !c18StateEq(st, orig) {
			viol("property", "untouched-violated", "file "+f.Name+" changed although nothing may be written", nil)
		}
		if s.Cmd == "write" && run.Exit == 0 && !(o.All && bytes.Equal(st.Data, o.Joined)) {
			viol("property", "success-without-formatted-text", "exit status 0 from fmt -w but "+f.Name+" does not hold the formatted text", nil)
		}
		allClean = allClean && o.Clean
		allParse = allParse && o.All
		if !o.All {
			failed = true // fmtCmd.Run returns at the first error: later files must stay untouched
		}
	}
	if s.Cmd == "check" {
		if run.Exit == 0 && !allClean {
			viol("property", "check-false-positive-multi", "fmt -c f1 … fn exits 0 although not every file is in formatted form", nil)
		}
		if s.Fault.Kind == "none" && allClean && run.Exit != 0 {
			viol("property", "check-false-negative-multi", "fmt -c f1 … fn exits non-zero although every file is formatted", nil)
		}
		for _, e := range run.Events {
			switch e.Call {
			case "openr", "fstat", "read", "closer":
			default:
				viol("property", "write-call-without-write-mode", "a file-system call other than reading a listed file was made in check mode", nil)
			}
		}
	}
	if !allParse && run.Exit == 0 {
		viol("property", "unparsable-exit-zero", "a file does not parse, but exit status 0", nil)
	}
	if len(run.Extra) > 0 {
		viol("property", "unexpected-directory-entry", "something other than the listed files and one evyNNN temp file is in the directory", nil)
	}
	if run.TempName != "" {
		r.Dist("temp-left:" + map[bool]string{true: "after-kill", false: "after-error-exit"}[killed])
		unlinkFailed := false
		for _, e := range run.Events {
			if e.Call == "unlink" && e.Errno != "" {
				unlinkFailed = true
			}
		}
		if !killed && !unlinkFailed && c.variant == "in-force" {
			viol("property", "temp-file-left-behind", "the process exited (was not killed) and left its temp file in the directory", nil)
		}
	}

	// ----- correspondence -----
	if aerr != nil {
		viol("correspondence", "model-crash", aerr.Error(), nil)
		return
	}
	x, perr := ParseSX(ans)
	if perr != nil || x.Kind != "lst" || len(x.L) != 5 {
		viol("correspondence", "model-output", fmt.Sprintf("%.200s", ans), nil)
		return
	}
	r.Validated++
	mstatus := x.L[1].String()
	mtrace := []string{}
	for _, e := range x.L[2].L {
		mtrace = append(mtrace, e.String())
	}
	obs := []string{}
	for _, e := range run.Events {
		obs = append(obs, e.sx())
	}
	mview := map[string]any{"status": mstatus, "trace": mtrace}
	for i, f := range files {
		if i < len(x.L[3].L) {
			mview["file:"+f.Name] = c18StateStr(c18DecState(x.L[3].L[i]))
		}
	}
	if strings.Join(obs, "\n") != strings.Join(mtrace, "\n") {
		k := "end"
		for i := 0; i < len(obs) || i < len(mtrace); i++ {
			if i >= len(obs) || i >= len(mtrace) || obs[i] != mtrace[i] {
				if i < len(run.Events) {
					k = run.Events[i].Call
				}
				break
			}
		}
		viol("correspondence", "call-list-differs-multi:"+k, "the system calls of the multi-file invocation are not the model's program (fmt_files) under the same outcomes", mview)
		return
	}
	ist := fmt.Sprintf("(exit %d)", run.Exit)
	if killed {
		ist = "killed"
		if run.Signal != "SIGKILL" {
			ist = "signal:" + run.Signal
		}
	}
	if ist != mstatus {
		viol("correspondence", "status-differs-multi", "exit status: implementation "+ist+", model "+mstatus, mview)
	}
	for i, f := range files {
		if i < len(x.L[3].L) && !c18StateEq(run.stateOf(s, i), c18DecState(x.L[3].L[i])) {
			viol("correspondence", "target-state-differs-multi", "final state of "+f.Name+" differs from the model's", mview)
		}
	}
	for i := range files {
		if run.TempName != "" && tmps[i] == run.TempName && i < len(x.L[4].L) && !c18StateEq(run.Temp, c18DecState(x.L[4].L[i])) {
			viol("correspondence", "temp-state-differs-multi", "left-over temp file differs from the model's", mview)
		}
	}
	if run.TempName == "" {
		for i := range files {
			if i < len(x.L[4].L) && c18DecState(x.L[4].L[i]).Present {
				viol("correspondence", "temp-state-differs-multi", "the model leaves a temp file, the implementation does not", mview)
			}
		}
	}
}

// c18MultiFile makes the file at position pos of a multi-file invocation: kind F (formatted),
// U (unformatted), X (unparsable), C (formatted except for CRLF line endings), T (txtar with an
// unformatted member); contents differ per position.
func c18MultiFile(kind byte, pos int) c18File {
	modes := []uint32{0o644, 0o600, 0o755, 0o664}
	f := c18File{Name: fmt.Sprintf("f%d.evy", pos), Mode: modes[pos%len(modes)]}
	switch kind {
	case 'F':
		f.Label, f.Content = "Formatted", []byte(fmt.Sprintf("v%d := %d\nprint v%d\n", pos, pos+1, pos))
	case 'U':
		f.Label, f.Content = "Unformatted", []byte(fmt.Sprintf("v%d:=%d\nprint   v%d\n", pos, pos+1, pos))
	case 'X':
		f.Label, f.Content = "Xunparsable", []byte(fmt.Sprintf("v%d := \nprint )\n", pos))
	case 'C':
		f.Label, f.Content = "Crlf-formatted", []byte(fmt.Sprintf("v%d := %d\r\nprint v%d\r\n", pos, pos+1, pos))
	default:
		f.Name = fmt.Sprintf("f%d.txtar", pos)
		f.Label, f.Content = "Txtar-unformatted", []byte(fmt.Sprintf("-- a.evy --\nw%d:=1\n-- b.txt --\nkeep  \n", pos))
	}
	return f
}

func c18MultiScenario(kinds string, cmd string) c18Scenario {
	s := c18Scenario{Cmd: cmd, Fault: c18Fault{Kind: "none"}}
	for i := 0; i < len(kinds); i++ {
		f := c18MultiFile(kinds[i], i)
		if i == 0 {
			s.File = f
		} else {
			s.More = append(s.More, f)
		}
	}
	return s
}

// all words of length n over the alphabet
func c18Words(alphabet string, n int) []string {
	if n == 0 {
		return []string{""}
	}
	var out []string
	for _, w := range c18Words(alphabet, n-1) {
		for i := 0; i < len(alphabet); i++ {
			out = append(out, w+string(alphabet[i]))
		}
	}
	return out
}

// ---------- stdin mode ----------

func (c *c18Checker) checkStdin(env *c18Env, cmdName string, input []byte, label string) {
	args := []string{"fmt"}
	switch cmdName {
	case "write":
		args = append(args, "-w")
	case "check":
		args = append(args, "-c")
	}
	ctx, cancel := context.WithTimeout(context.Background(), 30*time.Second)
	defer cancel()
	cmd := exec.CommandContext(ctx, env.evy, args...)
	cmd.Stdin = bytes.NewReader(input)
	var stdout, stderr bytes.Buffer
	cmd.Stdout, cmd.Stderr = &stdout, &stderr
	cmd.Dir = env.work
	err := cmd.Run()
	exit := 0
	var ee *exec.ExitError
	if errors.As(err, &ee) {
		exit = ee.ExitCode()
	} else if err != nil {
		exit = -1
	}
	out, ok := c18Format(input)
	o := Sym("none")
	if ok {
		o = Str(c18B2S(out))
	}
	c.mu.Lock()
	defer c.mu.Unlock()
	ans, aerr := c.stdin.Ask(Lst(Sym(cmdName), Str(c18B2S(input)), o).String()) // one model process: asked under the lock
	r := c.r
	r.Count("stdin|"+cmdName+"|"+label+"|"+string(input), true)
	r.Dist("stdin:" + cmdName)
	in := map[string]any{"mode": "stdin", "cmd": cmdName, "stdin": string(input), "stdin_bytes": fmt.Sprintf("%q", input), "label": label}
	impl := map[string]any{"exit": exit, "stdout": stdout.String(), "stderr": strings.TrimSpace(stderr.String())}
	want := 1
	switch {
	case cmdName == "check" && ok && bytes.Equal(out, input), cmdName == "plain" && ok:
		want = 0
	}
	if (exit == 0) != (want == 0) {
		r.Violate(Violation{Kind: "property", Key: "stdin-status-wrong:" + cmdName, Detail: "stdin mode: exit status 0 exactly for formatted (-c) / parsable (plain) input; -w without files is refused", Input: in, Impl: impl})
	}
	if cmdName == "plain" && ok && !bytes.Equal(stdout.Bytes(), out) {
		r.Violate(Violation{Kind: "property", Key: "stdin-output-wrong", Detail: "plain fmt on stdin does not print the formatted text", Input: in, Impl: impl})
	}
	if cmdName != "plain" && stdout.Len() > 0 && exit != 0 && cmdName == "check" {
		r.Violate(Violation{Kind: "property", Key: "stdin-check-prints", Detail: "fmt -c on stdin printed to stdout", Input: in, Impl: impl})
	}
	if aerr != nil {
		r.Violate(Violation{Kind: "correspondence", Key: "model-crash", Detail: aerr.Error(), Input: in})
		return
	}
	x, perr := ParseSX(ans)
	if perr != nil || x.Kind != "lst" || len(x.L) != 3 {
		r.Violate(Violation{Kind: "correspondence", Key: "model-output", Detail: ans, Input: in})
		return
	}
	r.Validated++
	mstdout := c18S2B(x.L[2].S)
	if x.L[1].String() != fmt.Sprintf("(exit %d)", exit) || (exit == 0 && !bytes.Equal(mstdout, stdout.Bytes())) {
		r.Violate(Violation{Kind: "correspondence", Key: "stdin-differs", Detail: "stdin mode: status/stdout differ from the model (fmt_stdin)", Input: in, Impl: impl,
			Model: map[string]any{"status": x.L[1].String(), "stdout": string(mstdout)}})
	}
}

// ---------- generators ----------

var c18Stmts = []string{
	"x%d := %d", "print x%d %d", "s%d := \"a b\" + \"%d\"", "if x%d > %d\n    print \"y\"\nelse\n    print \"n\"\nend",
	"for i%d := range %d\n    print i%d\nend", "arr%d := [1 2 %d]", "m%d := {a:1 b:%d}", "// comment %d %d",
	"print \"äöü€\" %d%.0d", "while false\n    print %d %d\nend",
}

// genProgram makes a small valid program; layout decides how it is spaced.
func c18GenProgram(rng *rand.Rand, n int) string {
	var b strings.Builder
	for i := 0; i < n; i++ {
		k := rng.Intn(len(c18Stmts))
		id := i
		t := c18Stmts[k]
		var line string
		switch strings.Count(t, "%d") + strings.Count(t, "%.0d") {
		case 3:
			line = fmt.Sprintf(t, id, rng.Intn(9)+1, id)
		default:
			line = fmt.Sprintf(t, id, rng.Intn(9)+1)
		}
		if k == 1 {
			line = fmt.Sprintf("print %d %d", id, rng.Intn(9))
		}
		b.WriteString(line + "\n")
		if rng.Intn(5) == 0 {
			b.WriteString("\n")
		}
	}
	return b.String()
}

// unformat perturbs the layout of a formatted program without changing tokens.
func c18Unformat(rng *rand.Rand, src string) string {
	lines := strings.Split(src, "\n")
	for i, l := range lines {
		switch rng.Intn(6) {
		case 0:
			lines[i] = strings.Replace(l, " := ", ":=", 1)
		case 1:
			lines[i] = strings.Replace(l, "print ", "print   ", 1)
		case 2:
			lines[i] = l + "  "
		case 3:
			if strings.HasPrefix(l, "    ") {
				lines[i] = "  " + strings.TrimLeft(l, " ")
			}
		case 4:
			if l == "" {
				lines[i] = "\n"
			}
		}
	}
	return strings.Join(lines, "\n")
}

var c18Broken = []string{"x := \n", "print )\n", "if true\n    print 1\n", "x := 1\nx := 2\n", "func f\n", "print \"unterminated\n", "a := [1 2\n", "y = 1\n"}

func c18GenFile(rng *rand.Rand, i int) c18File {
	modes := []uint32{0o644, 0o664, 0o600, 0o755, 0o444, 0o640, 0o666}
	f := c18File{Name: fmt.Sprintf("g%d.evy", i), Mode: modes[rng.Intn(len(modes))]}
	src := c18GenProgram(rng, 1+rng.Intn(12))
	formatted, ok := c18Format([]byte(src))
	if ok {
		src = string(formatted)
	}
	switch k := rng.Intn(10); {
	case k < 4:
		f.Label, f.Content = "gen-formatted", []byte(src)
	case k < 8:
		f.Label, f.Content = "gen-needs-formatting", []byte(c18Unformat(rng, src))
	default:
		f.Label, f.Content = "gen-unparsable", []byte(src+c18Broken[rng.Intn(len(c18Broken))])
	}
	return f
}

func c18LargeSource(n int) []byte {
	var b bytes.Buffer
	for i := 0; i < n; i++ {
		fmt.Fprintf(&b, "x%d:=%d\nprint   x%d \"äö\"\n", i, i, i)
	}
	return b.Bytes()
}

func c18FixedFiles() []c18File {
	txt := func(s string) []byte { return []byte(s) }
	return []c18File{
		{Label: "needs-formatting", Name: "a.evy", Content: txt("x:=1\nprint   x\n"), Mode: 0o644},
		{Label: "large", Name: "l.evy", Content: c18LargeSource(2200), Mode: 0o755},
		{Label: "unparsable", Name: "c.evy", Content: txt("x := \nprint )\n"), Mode: 0o644},
		{Label: "txtar-needs-formatting", Name: "t.txtar", Content: txt("a comment\n-- one.evy --\nx:=1\nprint   x\n-- notes.txt --\nkeep   this  \n-- two.evy --\nprint \"ok\"\n"), Mode: 0o644},
		{Label: "already-formatted", Name: "b.evy", Content: txt("x := 1\nprint x\n"), Mode: 0o664},
		{Label: "empty", Name: "e.evy", Content: txt(""), Mode: 0o640},
		{Label: "txtar-unparsable-member", Name: "u.txtar", Content: txt("-- one.evy --\nprint 1\n-- two.evy --\nprint )\n"), Mode: 0o644},
		{Label: "mode-0600", Name: "m.evy", Content: txt("print   \"äöü\"\n"), Mode: 0o600},
		{Label: "read-only-file", Name: "r.evy", Content: txt("if true\nprint 1\nend\n"), Mode: 0o444},
		{Label: "txtar-formatted", Name: "f.txtar", Content: txt("-- one.evy --\nprint 1\n"), Mode: 0o600},
		{Label: "no-trailing-newline", Name: "n.evy", Content: txt("print 1"), Mode: 0o644},
		{Label: "comment-only", Name: "k.evy", Content: txt("// only a comment\n\n\n"), Mode: 0o644},
	}
}

// c18ByteVariants: byte-level variants of source files. The formatter is a function of the BYTES of
// the file: whether such a file parses, and what its formatted text is, is asked of the library
// (parser.Parse on exactly these bytes), never assumed here.
func c18ByteVariants() []c18File {
	const f = "x := 1\nprint x \"a\"\n" // formatted
	const u = "x:=1\nprint   x \"a\"\n" // unformatted
	mk := func(label, name, content string, mode uint32) c18File {
		return c18File{Label: "bytes-" + label, Name: name, Content: []byte(content), Mode: mode}
	}
	return []c18File{
		mk("crlf-all-lines", "v1.evy", strings.ReplaceAll(f, "\n", "\r\n"), 0o644),
		mk("crlf-first-line", "v2.evy", strings.Replace(f, "\n", "\r\n", 1), 0o644),
		mk("crlf-last-line", "v3.evy", strings.TrimSuffix(f, "\n")+"\r\n", 0o664),
		mk("crlf-unformatted", "v4.evy", strings.ReplaceAll(u, "\n", "\r\n"), 0o644),
		mk("lone-cr", "v5.evy", "x := 1\rprint x\n", 0o644),
		mk("cr-in-string", "v6.evy", "print \"a\rb\"\n", 0o644),
		mk("trailing-nul", "v7.evy", f+"\x00", 0o600),
		mk("utf8-bom", "v8.evy", "\xef\xbb\xbf"+f, 0o644),
		mk("no-final-newline-unformatted", "v9.evy", strings.TrimSuffix(u, "\n"), 0o644),
		mk("only-whitespace", "v10.evy", "  \n\t\n   ", 0o644),
		mk("only-newlines", "v11.evy", "\n\n\n", 0o755),
		mk("one-space", "v12.evy", " ", 0o644),
		mk("txtar-crlf-member", "v13.txtar", "-- a.evy --\n"+strings.ReplaceAll(f, "\n", "\r\n")+"-- b.evy --\nprint 2\n", 0o644),
		mk("txtar-nul-member", "v14.txtar", "-- a.evy --\nprint 1\n\x00-- b.evy --\nprint   2\n", 0o644),
		mk("invalid-utf8", "v15.evy", "print \"\xff\xfe\"\n", 0o644),
	}
}

// ---------- driver ----------

func c18RepoDir() string {
	if d := os.Getenv("C18_REPO"); d != "" { // sanity-testing the check against a mutated copy of the repo
		return d
	}
	root := os.Getenv("VERIF_ROOT")
	if root == "" {
		root = "."
	}
	if b, err := os.ReadFile(filepath.Join(root, "harness", "go.mod")); err == nil {
		re := regexp.MustCompile(`(?m)^replace\s+evylang\.dev/evy\s+=>\s+(\S+)`)
		if m := re.FindSubmatch(b); m != nil {
			return string(m[1])
		}
	}
	return "/repo"
}

func c18Build(work string) (string, error) {
	bin := filepath.Join(work, "evy")
	cmd := exec.Command("go", "build", "-o", bin, ".")
	cmd.Dir = c18RepoDir()
	cmd.Env = append(os.Environ(), "GOFLAGS=-mod=mod", "GOPROXY=off", "GOSUMDB=off", "GOTOOLCHAIN=local")
	out, err := cmd.CombinedOutput()
	if err != nil {
		return "", fmt.Errorf("go build evy in %s: %v\n%s", cmd.Dir, err, out)
	}
	os.Chmod(bin, 0o755)
	return bin, nil
}

// faultsOf enumerates kill and error injection at every call index of the fault-free run.
// errnos(i) gives the errnos to inject at call index i (all three in thorough, one in quick).
func c18FaultsOf(base *c18Run, errnos func(i int) []string) []c18Fault {
	var fs []c18Fault
	rel := map[string]int{}
	for i, e := range base.Events {
		rel[e.Syscall]++
		// all calls on the main thread (the usual case): start-up calls of the runtime count too;
		// all calls on another thread: only the calls on the target directory count
		onMain := rel[e.Syscall] + base.Startup[e.Syscall]
		fs = append(fs, c18Fault{Kind: "kill", Index: i, Syscall: e.Syscall, When: onMain, WhenAlt: rel[e.Syscall]})
		for _, en := range errnos(i) {
			fs = append(fs, c18Fault{Kind: "err", Index: i, Errno: en, Syscall: e.Syscall, When: onMain, WhenAlt: rel[e.Syscall]})
		}
	}
	return fs
}

var c18Errnos = []string{"ENOSPC", "EIO", "EACCES"}

func c18AllErrnos(int) []string { return c18Errnos }

// hit says whether the injected run really had its fault at the intended call.
func c18Hit(base, run *c18Run, f c18Fault) bool {
	same := func(a, b c18Event) bool { return a.Call == b.Call && (a.Path == b.Path || c18TempRe.MatchString(a.Path)) }
	switch f.Kind {
	case "kill":
		if run.Signal != "SIGKILL" || len(run.Events) != f.Index {
			return false
		}
	case "err":
		if f.Index >= len(run.Events) || !run.Events[f.Index].Injected || run.Events[f.Index].Errno != f.Errno {
			return false
		}
		for j, e := range run.Events {
			if e.Injected && j != f.Index {
				return false
			}
		}
	default:
		return true
	}
	for j := 0; j < f.Index && j < len(run.Events); j++ {
		if !same(base.Events[j], run.Events[j]) {
			return false
		}
	}
	return true
}

func runC18(cfg Config, r *Result) {
	r.Rule = "one evaluation = one run of the real evy binary under strace on a scratch directory, compared call by call and in its final state with the extracted model run under the observed outcomes, and judged by the property itself; for each of 4 (quick) / 30 (thorough) source files: the fault-free `fmt -w` run, then SIGKILL on entry of call i and an errno (quick: one of ENOSPC/EIO/EACCES, thorough: all three) from call i for EVERY call index i of that run (exhaustive over call indices), the same for `fmt -c` on 1 / 6 files, plus real short writes (RLIMIT_FSIZE) for the large file, a read-only directory as an unprivileged user, a missing file; fault-free `fmt -w` and `fmt -c` (and plain `fmt` on some) on every fixed and generated file; non-trivial = a fault was injected or the run made more than 5 calls; distinct = distinct (file content, command, fault)"
	work, err := os.MkdirTemp("", "c18-")
	if err != nil {
		r.Violate(Violation{Kind: "correspondence", Key: "scratch", Detail: err.Error()})
		return
	}
	os.Chmod(work, 0o755)
	defer os.RemoveAll(work)
	if _, err := exec.LookPath("strace"); err != nil {
		r.Violate(Violation{Kind: "correspondence", Key: "no-strace", Detail: "strace is not available: the tie between the model and the binary cannot be established"})
		return
	}
	bin, err := c18Build(work)
	if err != nil {
		r.Violate(Violation{Kind: "correspondence", Key: "evy-build", Detail: err.Error()})
		return
	}
	env := &c18Env{evy: bin, work: work}
	chk := &c18Checker{models: make(chan *Model, 6), variant: c18Variant(), r: r}
	for i := 0; i < 6; i++ {
		model, err := StartModel("fmtcmd")
		if err != nil {
			r.Violate(Violation{Kind: "correspondence", Key: "model-start", Detail: err.Error()})
			return
		}
		defer model.Close()
		chk.models <- model
	}

	chk.multi = make(chan *Model, 3)
	for i := 0; i < 3; i++ {
		model, err := StartModel("fmtmulti")
		if err != nil {
			r.Violate(Violation{Kind: "correspondence", Key: "model-start", Detail: err.Error()})
			return
		}
		defer model.Close()
		chk.multi <- model
	}
	if m, err := StartModel("fmtstdin"); err == nil {
		chk.stdin = m
		defer m.Close()
	} else {
		r.Violate(Violation{Kind: "correspondence", Key: "model-start", Detail: err.Error()})
		return
	}

	if cfg.Replay != "" {
		c18Replay(cfg, env, chk)
		return
	}
	r.Note("model protocol: %s (in-force = FmtCmd.write_atomically, main.go since c62275b: stat, fchmod before rename, temp file removed on errors)", chk.variant)

	thorough := cfg.Tier == "thorough"
	files := append(c18FixedFiles(), c18ByteVariants()...)
	nFaultFiles := cfg.N(4, 30)
	nCheckFault := cfg.N(1, 6)
	nGen := cfg.N(6, 300)
	if v, err := strconv.Atoi(os.Getenv("C18_NFAULT")); err == nil { // knobs for sanity-testing the check itself
		nFaultFiles = v
	}
	if v, err := strconv.Atoi(os.Getenv("C18_NGEN")); err == nil {
		nGen = v
	}
	for i := 0; i < nGen; i++ {
		files = append(files, c18GenFile(cfg.Rng, i))
	}
	// quick: SIGKILL and ONE errno per call index (which one rotates with the index and the seed);
	// thorough: SIGKILL and all three errnos
	errnos := c18AllErrnos
	if !thorough {
		errnos = func(i int) []string { return []string{c18Errnos[(i+int(cfg.Seed))%len(c18Errnos)]} }
	}

	// up to 8 strace'd processes at once, each in its own scratch directory; jobs may submit jobs
	sem := make(chan struct{}, 8)
	var pending sync.WaitGroup
	submit := func(fn func()) {
		pending.Add(1)
		go func() {
			defer pending.Done()
			sem <- struct{}{}
			defer func() { <-sem }()
			fn()
		}()
	}
	var cntMu sync.Mutex
	misses, injected, faultFiles := 0, 0, 0
	fail := func(s c18Scenario, err error) {
		chk.mu.Lock()
		r.Violate(Violation{Kind: "correspondence", Key: "run-failed", Detail: err.Error(), Input: chk.input(s)})
		chk.mu.Unlock()
	}
	plain := func(s c18Scenario, o c18Oracle) {
		submit(func() {
			run, err := env.run(s)
			if err != nil {
				fail(s, err)
				return
			}
			chk.check(s, o, run)
		})
	}
	inject := func(s c18Scenario, o c18Oracle, base *c18Run) {
		submit(func() {
			var run *c18Run
			var err error
			ok := false
			learned := 0
			for attempt := 0; attempt < 20 && !ok; attempt++ {
				sc := s
				if learned > 0 {
					sc.Fault.When = learned // the per-thread index seen in the run that was missed
				} else if attempt%2 == 1 && sc.Fault.WhenAlt > 0 {
					sc.Fault.When = sc.Fault.WhenAlt
				}
				learned = 0
				run, err = env.run(sc)
				if err != nil {
					continue
				}
				if sc.Fault.Index < len(run.Events) && run.Events[sc.Fault.Index].Syscall == sc.Fault.Syscall &&
					run.Events[sc.Fault.Index].When != sc.Fault.When {
					learned = run.Events[sc.Fault.Index].When
				}
				ok = c18Hit(base, run, s.Fault)
			}
			if err != nil {
				fail(s, err)
				return
			}
			cntMu.Lock()
			injected++
			if !ok {
				misses++
			}
			cntMu.Unlock()
			if !ok {
				chk.mu.Lock()
				r.Dist("inject-miss")
				if os.Getenv("C18_DEBUG") != "" {
					fmt.Fprintf(os.Stderr, "MISS %s syscall=%s when=%d exit=%d sig=%s n=%d\n%s\n", s.id(), s.Fault.Syscall, s.Fault.When, run.Exit, run.Signal, len(run.Events), run.LogTail)
				}
				chk.mu.Unlock()
			}
			chk.check(s, o, run)
		})
	}
	// fault-free run, then every single fault of it
	enumerateS := func(s c18Scenario, o c18Oracle) {
		submit(func() {
			base, err := env.run(s)
			if err != nil {
				fail(s, err)
				return
			}
			chk.check(s, o, base)
			for _, ft := range c18FaultsOf(base, errnos) {
				si := s
				si.Fault = ft
				inject(si, o, base)
			}
		})
	}
	enumerate := func(f c18File, o c18Oracle, cmdName string) {
		enumerateS(c18Scenario{File: f, Cmd: cmdName, Fault: c18Fault{Kind: "none"}}, o)
	}

	// several files in one invocation: every order of Formatted / Unformatted / Xunparsable for 2 files
	// (thorough: also all orders of 3 files, and samples of 4 including a txtar), with -c and -w
	words := c18Words("FUX", 2)
	if thorough {
		words = append(words, c18Words("FUX", 3)...)
		words = append(words, c18Words("FC", 2)...)
		for i := 0; i < 12; i++ {
			w := make([]byte, 4)
			for j := range w {
				w[j] = "FUXTC"[cfg.Rng.Intn(5)]
			}
			words = append(words, string(w))
		}
	} else {
		all3 := c18Words("FUX", 3)
		for i := 0; i < 4; i++ {
			words = append(words, all3[cfg.Rng.Intn(len(all3))])
		}
		words = append(words, "UFF", "FUTX", "CF", "FC")
	}
	nMulti := 0
	for _, w := range words {
		for _, cmdName := range []string{"check", "write"} {
			plain(c18MultiScenario(w, cmdName), c18Oracle{})
			nMulti++
		}
	}
	// faults on the k-th file's calls (thorough): every call index of the whole invocation
	if thorough {
		for _, wc := range [][2]string{{"UUF", "write"}, {"FUX", "write"}, {"FFU", "check"}, {"UTU", "write"}} {
			enumerateS(c18MultiScenario(wc[0], wc[1]), c18Oracle{})
		}
	}
	r.Note("multi-file invocations: %d fault-free runs over the file-kind orders %v with -c and -w%s", nMulti, words,
		map[bool]string{true: "; single faults at every call index of UUF/-w, FUX/-w, FFU/-c, UTU/-w", false: ""}[thorough])

	// stdin mode (no strace: no file-system call is involved)
	for _, in := range []struct{ label, src string }{{"formatted", "x := 1\nprint x\n"}, {"unformatted", "x:=1\nprint   x\n"},
		{"unparsable", "x := \n"}, {"empty", ""}, {"crlf-all-lines", "x := 1\r\nprint x\r\n"}, {"crlf-last-line", "x := 1\nprint x\r\n"},
		{"lone-cr", "x := 1\rprint x\n"}, {"trailing-nul", "x := 1\n\x00"}, {"utf8-bom", "\xef\xbb\xbfx := 1\n"},
		{"only-whitespace", " \n\t\n "}, {"no-final-newline", "x := 1"}} {
		for _, cmdName := range []string{"check", "plain", "write"} {
			in, cmdName := in, cmdName
			submit(func() { chk.checkStdin(env, cmdName, []byte(in.src), in.label) })
		}
	}

	nFixed := len(c18FixedFiles()) + len(c18ByteVariants())
	for fi, f := range files {
		f := f
		o := c18OracleFor(f)
		if faultFiles < nFaultFiles {
			faultFiles++
			enumerate(f, o, "write")
			if faultFiles <= nCheckFault {
				enumerate(f, o, "check") // no write may ever happen, whatever fails
			} else {
				plain(c18Scenario{File: f, Cmd: "check", Fault: c18Fault{Kind: "none"}}, o)
			}
		} else {
			plain(c18Scenario{File: f, Cmd: "write", Fault: c18Fault{Kind: "none"}}, o)
			plain(c18Scenario{File: f, Cmd: "check", Fault: c18Fault{Kind: "none"}}, o)
		}
		if fi < cfg.N(2, 4) || (fi >= nFixed && fi%4 == 0) {
			plain(c18Scenario{File: f, Cmd: "plain", Fault: c18Fault{Kind: "none"}}, o)
		}
		if f.Label == "large" {
			lims := []int{4096, 65536}
			if thorough {
				lims = []int{1, 4096, 65536}
			}
			for _, lim := range lims {
				plain(c18Scenario{File: f, Cmd: "write", Fault: c18Fault{Kind: "fsize", Fsize: lim}}, o)
			}
		}
		if fi < cfg.N(1, 3) {
			plain(c18Scenario{File: f, Cmd: "write", Fault: c18Fault{Kind: "rodir"}}, o)
			plain(c18Scenario{File: f, Cmd: "write", Fault: c18Fault{Kind: "missing"}}, o)
			plain(c18Scenario{File: f, Cmd: "check", Fault: c18Fault{Kind: "missing"}}, o)
		}
	}
	pending.Wait()
	r.Note("time spent in the extracted model (summed over 6 parallel model processes): %.1fs", chk.modelTime.Seconds())
	r.Exhaustive = misses == 0 && injected > 0
	set := "{SIGKILL, ENOSPC, EIO, EACCES}"
	if !thorough {
		set = "{SIGKILL, one of ENOSPC/EIO/EACCES (rotating with call index and seed)}"
	}
	r.Note("fault enumeration: %d source files (fmt -w; fmt -c for %d of them) x every call index of their fault-free run x %s: %d injected runs, %d did not hit the intended call (exhaustive over the enumerated indices=%v)", faultFiles, nCheckFault, set, injected, misses, r.Exhaustive)
	ks := []string{}
	for k, v := range r.Distribution {
		if strings.HasPrefix(k, "temp-left") {
			ks = append(ks, fmt.Sprintf("%s=%d", k, v))
		}
	}
	sort.Strings(ks)
	r.Note("left-over temp files (allowed only after a kill, or when the clean-up unlink itself failed; always a prefix of the formatted text): %s", strings.Join(ks, " "))
}

// c18Variant: which protocol of the model the binary is compared with. The protocol in force unless the
// check itself is being sanity-tested against a binary built from before commit c62275b.
func c18Variant() string {
	if v := os.Getenv("C18_VARIANT"); v == "before-fix" {
		return v
	}
	return "in-force"
}

func c18Replay(cfg Config, env *c18Env, chk *c18Checker) {
	b, err := os.ReadFile(cfg.Replay)
	if err != nil {
		chk.r.Violate(Violation{Kind: "correspondence", Key: "replay-read", Detail: err.Error()})
		return
	}
	var sv struct {
		Input struct {
			Mode, Cmd, Stdin, Label string
		} `json:"input"`
	}
	if json.Unmarshal(b, &sv) == nil && sv.Input.Mode == "stdin" {
		chk.checkStdin(env, sv.Input.Cmd, []byte(sv.Input.Stdin), sv.Input.Label)
		return
	}
	var v struct {
		Input c18Scenario `json:"input"`
	}
	if err := json.Unmarshal(b, &v); err != nil || v.Input.File.Name == "" {
		chk.r.Violate(Violation{Kind: "correspondence", Key: "replay-format", Detail: fmt.Sprint(err)})
		return
	}
	s := v.Input
	var run *c18Run
	if s.Fault.Kind == "kill" || s.Fault.Kind == "err" {
		// re-derive the injection point from a fresh fault-free run and insist on hitting the same call index
		base, err := env.run(c18Scenario{File: s.File, Cmd: s.Cmd, Fault: c18Fault{Kind: "none"}})
		if err == nil {
			for _, ft := range c18FaultsOf(base, c18AllErrnos) {
				if ft.Kind == s.Fault.Kind && ft.Index == s.Fault.Index && ft.Errno == s.Fault.Errno {
					s.Fault = ft
				}
			}
			for attempt := 0; attempt < 8; attempt++ {
				sc := s
				if attempt%2 == 1 {
					sc.Fault.When = sc.Fault.WhenAlt
				}
				if rr, err := env.run(sc); err == nil {
					run = rr
					if c18Hit(base, rr, sc.Fault) {
						break
					}
				}
			}
		}
	}
	if run == nil {
		var err error
		run, err = env.run(s)
		if err != nil {
			chk.r.Violate(Violation{Kind: "correspondence", Key: "run-failed", Detail: err.Error()})
			return
		}
	}
	chk.check(s, c18OracleFor(s.File), run)
}

func init() { register("C18", runC18) }
