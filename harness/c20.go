package main

// C20: sealed answers round-trip and answer verification is exact.
//
// Part A (envelope): the real learn.Encrypt / learn.Decrypt with freshly
// generated key pairs. Round trip of random texts; for a few sealed values
// EVERY single-byte corruption and EVERY truncation (of the envelope bytes and
// of the base64 text) and the other key: the result must be a rejection or
// the original text (property oracle). Correspondence: the extracted model's
// unframe/frame on the same bytes, and the rejection stage predicted by the
// model's hybrid_decrypt under the ideal functionality (too short / RSA / GCM
// / ok) against the class of the error the real Decrypt returns.
//
// Part B (front matter): random Seal/Unseal sequences on the real
// questionFrontmatter against the model's state machine.
//
// Part C (verification): all mark subsets x all equal/different assignments
// for 2..5 choices, single and multiple choice, through real markdown files,
// the real QuestionModel.Verify (which runs evy for the outputs), against
// the model's question_verify and against the property's own oracle.

import (
	"crypto/aes"
	"crypto/rsa"
	"encoding/base64"
	"encoding/hex"
	"encoding/json"
	"errors"
	"fmt"
	"math/rand"
	"os"
	"path/filepath"
	"runtime"
	"runtime/debug"
	"sort"
	"strings"
	"sync"
	"time"
	"unicode"

	"evylang.dev/evy/learn/pkg/learn"
)

// ---------- error classes (by sentinel / type, never by message) ----------

func c20DecryptClass(err error) byte {
	switch {
	case err == nil:
		return 'o'
	case errors.Is(err, learn.ErrSealedTooShort):
		return 's'
	case errors.Is(err, rsa.ErrDecryption):
		return 'r'
	}
	var pe c20Panic
	if errors.As(err, &pe) {
		return 'P'
	}
	var ce base64.CorruptInputError
	if errors.As(err, &ce) {
		return 'b'
	}
	var ke aes.KeySizeError
	if errors.As(err, &ke) {
		return 'k'
	}
	return 'g' // what is left of hybridDecrypt's failures: gcm.Open
}

func c20VerifyClass(err error) string {
	switch {
	case err == nil:
		return "ok"
	case errors.Is(err, learn.ErrWrongAnswer):
		return "wrong"
	case errors.Is(err, learn.ErrSingleChoice):
		return "singlechoice"
	case errors.Is(err, learn.ErrNoFrontmatterAnswer):
		return "noanswer"
	case errors.Is(err, learn.ErrSealedAnswerNoKey):
		return "nokey"
	case errors.Is(err, rsa.ErrDecryption):
		return "rsa"
	case errors.Is(err, learn.ErrSealedTooShort):
		return "short"
	case errors.Is(err, learn.ErrInvalidFrontmatter):
		return "invalidfm"
	}
	return "other"
}

// c20Decrypt calls learn.Decrypt, turning a Go panic into an error of its own class.
type c20Panic struct{ v any }

func (p c20Panic) Error() string { return fmt.Sprintf("Go panic: %v", p.v) }

func c20Decrypt(priv, sealed string) (plain string, err error) {
	defer func() {
		if v := recover(); v != nil {
			plain, err = "", c20Panic{v}
		}
	}()
	return learn.Decrypt(priv, sealed)
}

// c20Model restarts the model process once per question if it went away (the
// sandbox is shared; a model answer is a pure function of the question, so a
// retry cannot hide a difference).
type c20Model struct {
	m *Model
	r *Result
}

func (c *c20Model) Ask(s string) (string, error) {
	a, err := c.m.Ask(s)
	if err == nil {
		return a, nil
	}
	c.m.Close()
	m2, err2 := StartModel("seal")
	if err2 != nil {
		return "", err
	}
	c.m = m2
	c.r.Note("model process restarted after: %v", err)
	return c.m.Ask(s)
}

// ---------- text generators ----------

var c20RuneRanges = [][2]rune{{0x20, 0x7e}, {0xa0, 0x24f}, {0x370, 0x3ff}, {0x4e00, 0x4e40}, {0x1f300, 0x1f3ff},
	{0x300, 0x36f}, {0x2000, 0x206f}, {0x0, 0x1f}, {0xe000, 0xe010}, {0x10fff0, 0x10ffff}, {0xfff0, 0xffff}}

func c20RandText(rng *rand.Rand, n int) string {
	var b strings.Builder
	for i := 0; i < n; i++ {
		switch k := rng.Intn(20); {
		case k < 8:
			b.WriteByte(byte(0x20 + rng.Intn(0x5f)))
		case k < 19:
			rr := c20RuneRanges[rng.Intn(len(c20RuneRanges))]
			b.WriteRune(rr[0] + rune(rng.Intn(int(rr[1]-rr[0])+1)))
		default:
			b.WriteByte(byte(0x80 + rng.Intn(0x80))) // a stray byte: Go strings need not be UTF-8
		}
	}
	return b.String()
}

type c20Keys struct {
	Bits int
	KP   learn.KeyPair
}

type c20SealedValue struct {
	Key    int
	Text   string
	Sealed string
	Raw    []byte
}

func c20Workers() int {
	n := runtime.NumCPU()
	if n > 12 {
		n = 12
	}
	if n < 1 {
		n = 1
	}
	return n
}

// ---------- part A ----------

func c20Envelope(cfg Config, r *Result, model *c20Model, keys []c20Keys) {
	// round trips
	nRound := cfg.N(60, 600)
	lengths := []int{0, 1, 2, 5, 17, 64, 300, 2000, 20000}
	for i := 0; i < nRound; i++ {
		ki := i % len(keys)
		n := lengths[cfg.Rng.Intn(len(lengths))]
		if i < len(lengths) {
			n = lengths[i]
		}
		if n > 2000 && cfg.Tier != "thorough" && i >= len(lengths) {
			n = 300
		}
		text := c20RandText(cfg.Rng, n)
		sealed, err := learn.Encrypt(keys[ki].KP.Public, text)
		input := map[string]any{"kind": "roundtrip", "bits": keys[ki].Bits, "public": keys[ki].KP.Public, "private": keys[ki].KP.Private, "text_hex": hex.EncodeToString([]byte(text))}
		r.Count(fmt.Sprintf("rt/%d/%x", ki, text), len(text) > 0)
		r.Dist(fmt.Sprintf("roundtrip:len<=%d", c20Bucket(len(text))))
		if err != nil {
			r.Violate(Violation{Kind: "property", Key: "encrypt-fails", Detail: "Encrypt with a freshly generated public key failed: " + err.Error(), Input: input})
			continue
		}
		plain, err := c20Decrypt(keys[ki].KP.Private, sealed)
		if err != nil || plain != text {
			input["sealed"] = sealed
			r.Violate(Violation{Kind: "property", Key: "roundtrip-differs", Detail: fmt.Sprintf("Decrypt(Encrypt(text)) != text (err=%v)", err), Input: input, Impl: hex.EncodeToString([]byte(plain))})
			continue
		}
		raw, err := base64.StdEncoding.DecodeString(sealed)
		if err != nil {
			r.Violate(Violation{Kind: "property", Key: "sealed-not-base64", Detail: err.Error(), Input: input})
			continue
		}
		// framing correspondence: the model's unframe splits the real envelope where the
		// layout says (RSA part = modulus size, AES part = text + 16 byte tag) and the
		// model's frame rebuilds the real envelope from the real parts
		rlen := keys[ki].Bits / 8
		ans, err := model.Ask(Lst(Sym("unframe"), Str(hex.EncodeToString(raw))).String())
		want := fmt.Sprintf("(some %d %d)", rlen, len(text)+16)
		r.Validated++
		if err != nil || ans != want {
			r.Violate(Violation{Kind: "correspondence", Key: "unframe-differs", Detail: "model unframe of a genuine envelope", Input: input, Impl: want, Model: ans})
		} else if len(raw) >= 3+rlen {
			ans, err = model.Ask(Lst(Sym("frame"), Str(hex.EncodeToString(raw[3:3+rlen])), Str(hex.EncodeToString(raw[3+rlen:]))).String())
			var sb strings.Builder
			sb.WriteByte('(')
			for j, b := range raw {
				if j > 0 {
					sb.WriteByte(' ')
				}
				fmt.Fprintf(&sb, "%d", b)
			}
			sb.WriteByte(')')
			r.Validated++
			if err != nil || ans != sb.String() {
				r.Violate(Violation{Kind: "correspondence", Key: "frame-differs", Detail: "model frame of the real RSA and AES parts is not the real envelope", Input: input})
			}
		}
		if len(r.Samples) < 1 && len(text) > 0 {
			r.Sample(map[string]any{"text_hex": hex.EncodeToString([]byte(text)), "sealed": sealed, "model_unframe": want, "key_bits": keys[ki].Bits})
		}
	}
	// garbage through unframe/Decrypt: random byte strings (mostly short), class must agree
	nGarb := cfg.N(300, 5000)
	for i := 0; i < nGarb; i++ {
		n := cfg.Rng.Intn(12)
		if cfg.Rng.Intn(4) == 0 {
			n = cfg.Rng.Intn(400)
		}
		raw := make([]byte, n)
		cfg.Rng.Read(raw)
		if n >= 3 && cfg.Rng.Intn(2) == 0 { // plausible length field
			raw[1] = 0
			raw[2] = byte(cfg.Rng.Intn(n + 3))
		}
		_, err := c20Decrypt(keys[0].KP.Private, base64.StdEncoding.EncodeToString(raw))
		ans, merr := model.Ask(Lst(Sym("unframe"), Str(hex.EncodeToString(raw))).String())
		implShort := c20DecryptClass(err) == 's'
		r.Count(fmt.Sprintf("garb/%x", raw), n >= 3)
		r.Dist("garbage:" + string(c20DecryptClass(err)))
		r.Validated++
		if merr != nil || (ans == "none") != implShort {
			r.Violate(Violation{Kind: "correspondence", Key: "unframe-garbage-differs", Detail: "model unframe = none must coincide with ErrSealedTooShort",
				Input: map[string]any{"kind": "tamper", "private": keys[0].KP.Private, "sealed": base64.StdEncoding.EncodeToString(raw), "text_hex": ""}, Impl: fmt.Sprint(err), Model: ans})
		}
		if c20DecryptClass(err) == 'P' {
			r.Violate(Violation{Kind: "property", Key: "decrypt-panics", Detail: "Decrypt panics on garbage: " + err.Error(),
				Input: map[string]any{"kind": "tamper", "private": keys[0].KP.Private, "sealed": base64.StdEncoding.EncodeToString(raw), "text_hex": ""}})
		}
		if err == nil {
			r.Violate(Violation{Kind: "property", Key: "garbage-decrypts", Detail: "random bytes decrypt successfully",
				Input: map[string]any{"kind": "tamper", "private": keys[0].KP.Private, "sealed": base64.StdEncoding.EncodeToString(raw), "text_hex": ""}})
		}
	}

	// exhaustive tampering of a few sealed values, sealed for this purpose
	nSweep := cfg.N(3, 20)
	sweepLens := []int{1, 60, 150, 2, 5, 17, 40, 100, 200, 3, 64, 150, 250, 8, 30, 80, 120, 1, 300, 50}
	if cfg.Tier != "thorough" {
		sweepLens = []int{1, 20, 60}
	}
	for idx := 0; idx < nSweep; idx++ {
		ki := 0 // mostly the 1024-bit key (an RSA-2048 operation costs twice as much), every fifth value the 2048-bit key
		if idx%5 == 1 {
			ki = 1 % len(keys)
		}
		text := c20RandText(cfg.Rng, sweepLens[idx%len(sweepLens)])
		sealed, err := learn.Encrypt(keys[ki].KP.Public, text)
		raw, derr := base64.StdEncoding.DecodeString(sealed)
		if err != nil || derr != nil {
			r.Violate(Violation{Kind: "property", Key: "encrypt-fails", Detail: fmt.Sprint(err, derr)})
			continue
		}
		all := cfg.Tier == "thorough" || idx == 0
		c20Sweep(cfg, r, model, keys, c20SealedValue{Key: ki, Text: text, Sealed: sealed, Raw: raw}, all, cfg.Tier == "thorough" && idx < 6)
	}
}

func c20Bucket(n int) int {
	for _, b := range []int{0, 1, 16, 256, 4096} {
		if n <= b {
			return b
		}
	}
	return 1 << 20
}

// positions that are altered: all of them in thorough; in quick the given fixed
// ones (header, both ends of the RSA part), the last `tail` ones (the GCM tag /
// the base64 padding) and `extra` random ones
func c20Positions(cfg Config, n int, fixed []int, tail, extra int) []int {
	if cfg.Tier == "thorough" {
		out := make([]int, n)
		for i := range out {
			out[i] = i
		}
		return out
	}
	in := map[int]bool{}
	for _, p := range fixed {
		if p >= 0 && p < n {
			in[p] = true
		}
	}
	for p := n - tail; p < n; p++ {
		if p >= 0 {
			in[p] = true
		}
	}
	for i := 0; i < extra && n > 0; i++ {
		in[cfg.Rng.Intn(n)] = true
	}
	out := make([]int, 0, len(in))
	for p := range in {
		out = append(out, p)
	}
	sort.Ints(out)
	return out
}

// candidate replacement values for a byte: all 255 others, or the 8 single-bit flips
func c20Candidates(orig byte, all bool) []byte {
	if all {
		out := make([]byte, 0, 255)
		for v := 0; v < 256; v++ {
			if byte(v) != orig {
				out = append(out, byte(v))
			}
		}
		return out
	}
	out := make([]byte, 0, 8)
	for b := 0; b < 8; b++ {
		out = append(out, orig^(1<<b))
	}
	return out
}

type c20TamperCase struct {
	sealed string // what is handed to Decrypt
	what   string // description
	want   byte   // model class, 0 = no prediction
}

func c20Sweep(cfg Config, r *Result, model *c20Model, keys []c20Keys, v c20SealedValue, all, allText bool) {
	priv := keys[v.Key].KP.Private
	tStart := time.Now()
	ans, err := model.Ask(Lst(Sym("sweep"), Str(hex.EncodeToString(v.Raw))).String())
	tModel := time.Since(tStart)
	var perPos []string
	var trunc, otherKey string
	if err == nil {
		if sx, perr := ParseSX(ans); perr == nil && sx.Kind == "lst" && len(sx.L) == 3 {
			for _, p := range sx.L[0].L {
				perPos = append(perPos, p.S)
			}
			trunc, otherKey = sx.L[1].S, sx.L[2].S
		}
	}
	if len(perPos) != len(v.Raw) || len(trunc) != len(v.Raw)+1 || len(otherKey) != 1 {
		r.Violate(Violation{Kind: "correspondence", Key: "model-sweep-output", Detail: "model sweep answer malformed: " + ans[:min(len(ans), 200)]})
		return
	}
	var cases []c20TamperCase
	rlen := keys[v.Key].Bits / 8
	// 1. every single-byte corruption of the envelope bytes (quick: at a sample of positions)
	for _, pos := range c20Positions(cfg, len(v.Raw), []int{0, 1, 2, 3, 4, 5, 6, 3 + rlen - 4, 3 + rlen - 3, 3 + rlen - 2, 3 + rlen - 1, 3 + rlen, 3 + rlen + 1, 3 + rlen + 2, 3 + rlen + 3}, 16, 24) {
		for _, b := range c20Candidates(v.Raw[pos], all) {
			raw2 := append([]byte(nil), v.Raw...)
			raw2[pos] = b
			cases = append(cases, c20TamperCase{base64.StdEncoding.EncodeToString(raw2), fmt.Sprintf("byte %d := %#02x", pos, b), perPos[pos][b]})
		}
	}
	// 2. every truncation of the envelope bytes
	for n := 0; n < len(v.Raw); n++ {
		cases = append(cases, c20TamperCase{base64.StdEncoding.EncodeToString(v.Raw[:n]), fmt.Sprintf("first %d bytes", n), trunc[n]})
	}
	nModel := len(cases)
	// 3. every single-character corruption of the base64 text, 4. every truncation of it
	var b64cases []c20TamperCase
	for _, pos := range c20Positions(cfg, len(v.Sealed), []int{0, 1, 2, 3, 4, 5}, 6, 40) {
		for _, b := range c20Candidates(v.Sealed[pos], allText) {
			s2 := []byte(v.Sealed)
			s2[pos] = b
			b64cases = append(b64cases, c20TamperCase{string(s2), fmt.Sprintf("char %d := %#02x", pos, b), 0})
		}
	}
	for n := 0; n < len(v.Sealed); n++ {
		b64cases = append(b64cases, c20TamperCase{v.Sealed[:n], fmt.Sprintf("first %d chars", n), 0})
	}
	// model prediction for the text-level cases that are valid base64: batch classify (sampled in thorough)
	stride := 1
	if len(b64cases) > 20000 {
		stride = 8
	}
	var batchIdx []int
	var batch []SX
	flush := func() {
		if len(batch) == 0 {
			return
		}
		a, err := model.Ask(Lst(Sym("classify"), Str(hex.EncodeToString(v.Raw)), LstOf(batch)).String())
		sx, perr := ParseSX(a)
		if err != nil || perr != nil || sx.Kind != "str" || len(sx.S) != len(batch) {
			r.Violate(Violation{Kind: "correspondence", Key: "model-classify-output", Detail: a[:min(len(a), 200)]})
		} else {
			for j, i := range batchIdx {
				b64cases[i].want = sx.S[j]
			}
		}
		batch, batchIdx = nil, nil
	}
	for i := range b64cases {
		if i%stride != 0 {
			continue
		}
		raw2, derr := base64.StdEncoding.DecodeString(b64cases[i].sealed)
		if derr != nil {
			b64cases[i].want = 'b'
			continue
		}
		batch = append(batch, Str(hex.EncodeToString(raw2)))
		batchIdx = append(batchIdx, i)
		if len(batch) >= 24 {
			flush()
		}
	}
	flush()
	tClassify := time.Since(tStart)
	cases = append(cases, b64cases...)
	// 5. the other key(s), and the key material swapped
	for ki, k := range keys {
		if ki != v.Key {
			cases = append(cases, c20TamperCase{"\x00otherkey:" + k.KP.Private, fmt.Sprintf("other private key (%d bits)", k.Bits), otherKey[0]})
		}
	}

	// run the implementation on all of them, in parallel
	type outc struct {
		cls   byte
		plain string
		err   string
	}
	res := make([]outc, len(cases))
	var wg sync.WaitGroup
	nw := c20Workers()
	for w := 0; w < nw; w++ {
		wg.Add(1)
		go func(w int) {
			defer wg.Done()
			for i := w; i < len(cases); i += nw {
				key, sealed := priv, cases[i].sealed
				if strings.HasPrefix(sealed, "\x00otherkey:") {
					key, sealed = strings.TrimPrefix(sealed, "\x00otherkey:"), v.Sealed
				}
				p, err := c20Decrypt(key, sealed)
				res[i] = outc{cls: c20DecryptClass(err), plain: p}
				if err != nil {
					res[i].err = err.Error()
				}
			}
		}(w)
	}
	wg.Wait()
	tDecrypt := time.Since(tStart)
	for i, c := range cases {
		key, sealed := priv, c.sealed
		if strings.HasPrefix(sealed, "\x00otherkey:") {
			key, sealed = strings.TrimPrefix(sealed, "\x00otherkey:"), v.Sealed
		}
		input := map[string]any{"kind": "tamper", "what": c.what, "private": key, "sealed": sealed, "genuine": v.Sealed, "text_hex": hex.EncodeToString([]byte(v.Text))}
		r.Evaluations++
		r.Distinct++ // every case is a different (position, value) / length by construction
		r.Distribution["tamper:"+string(res[i].cls)]++
		if res[i].cls == 'o' && res[i].plain != v.Text {
			r.Violate(Violation{Kind: "property", Key: "tamper-yields-different-answer", Detail: "an altered sealed value decrypts to a text that is not the original (" + c.what + ")", Input: input, Impl: hex.EncodeToString([]byte(res[i].plain))})
		}
		if res[i].cls == 'P' {
			r.Violate(Violation{Kind: "property", Key: "decrypt-panics", Detail: "Decrypt panics on an altered sealed value (" + c.what + "): " + res[i].err, Input: input})
		}
		if c.want != 0 {
			r.Validated++
			if c.want != res[i].cls {
				r.Violate(Violation{Kind: "correspondence", Key: fmt.Sprintf("decrypt-stage-differs:%c-vs-%c", res[i].cls, c.want),
					Detail: "the stage at which the real Decrypt rejects differs from the model under the ideal functionality (" + c.what + ")",
					Input:  input, Impl: string(res[i].cls) + " " + res[i].err, Model: string(c.want)})
			}
		}
	}
	_ = nModel
	mode := "8 bit flips per position"
	if all {
		mode = "all 255 other values per altered envelope byte"
		if allText {
			mode += " and per base64 character"
		} else {
			mode += ", 8 bit flips per base64 character"
		}
	}
	if cfg.Tier != "thorough" {
		mode += ", sampled positions, all truncations"
	}
	r.Note("sweep of a sealed value: %d-bit key, text %d bytes, envelope %d bytes, base64 %d chars, %s, %d cases", keys[v.Key].Bits, len(v.Text), len(v.Raw), len(v.Sealed), mode, len(cases))
	r.Note("  model sweep %.1fs, +classify %.1fs, +decrypt %.1fs, total %.1fs", tModel.Seconds(), tClassify.Seconds(), tDecrypt.Seconds(), time.Since(tStart).Seconds())
}

// ---------- part B: front matter ----------

func c20WriteQuestion(dir, name, content string) (string, error) {
	d := filepath.Join(dir, "course", "unit", "exercise")
	if err := os.MkdirAll(d, 0o755); err != nil {
		return "", err
	}
	f := filepath.Join(d, name+".md")
	return f, os.WriteFile(f, []byte(content), 0o644)
}

func c20YAMLQuote(s string) string {
	var b strings.Builder
	b.WriteByte('"')
	for _, c := range s {
		switch {
		case c == '"':
			b.WriteString(`\"`)
		case c == '\\':
			b.WriteString(`\\`)
		case c == '\n':
			b.WriteString(`\n`)
		case c == '\t':
			b.WriteString(`\t`)
		case c == '\r':
			b.WriteString(`\r`)
		case c >= 0x20 && c < 0x7f:
			b.WriteRune(c)
		case c <= 0xff:
			fmt.Fprintf(&b, `\x%02x`, c)
		case c <= 0xffff:
			fmt.Fprintf(&b, `\u%04x`, c)
		default:
			fmt.Fprintf(&b, `\U%08x`, c)
		}
	}
	b.WriteByte('"')
	return b.String()
}

func c20Frontmatter(atype, answer, verification string) string {
	return c20FrontmatterV(atype, answer, verification, verification != "")
}

func c20FrontmatterV(atype, answer, verification string, verifSet bool) string {
	s := "---\ntype: question\ndifficulty: easy\nanswer-type: " + atype + "\nanswer: " + c20YAMLQuote(answer) + "\n"
	if verifSet {
		if verification == "match" || verification == "none" {
			s += "verification: " + verification + "\n" // the plain spelling authors use
		} else {
			s += "verification: " + c20YAMLQuote(verification) + "\n"
		}
	}
	return s + "---\n\n"
}

const c20SimpleBody = "## Q\n\nWrite the output of this program:\n\n```evy\nprint \"g\"\n```\n\nOutput:\n\n```\n\n```\n"

func c20FmClass(err error) string {
	switch {
	case err == nil:
		return "ok"
	case errors.Is(err, learn.ErrNoFrontmatterAnswer):
		return "noanswer"
	case errors.Is(err, rsa.ErrDecryption):
		return "rsa"
	}
	return "badkey"
}

func c20Frontmatters(cfg Config, r *Result, model *c20Model, keys []c20Keys, dir string) {
	n := cfg.N(150, 2000)
	opsPool := []string{"seal", "seal", "seal", "unseal", "unseal", "unseal", "unseal-wrong", "unseal-nokey", "set-answer"}
	for i := 0; i < n; i++ {
		answer := "a"
		if i%3 != 0 {
			answer = strings.TrimSpace(c20RandText(cfg.Rng, 1+cfg.Rng.Intn(30)))
			answer = strings.ToValidUTF8(answer, "?")
			if answer == "" {
				answer = "b"
			}
		}
		ki := i % len(keys)
		nops := 1 + cfg.Rng.Intn(6)
		ops := make([]string, nops)
		for j := range ops {
			ops[j] = opsPool[cfg.Rng.Intn(len(opsPool))]
		}
		want, ok := c20FmOps(r, model, dir, fmt.Sprintf("fm%d", i), "fmops", answer, ops, keys[ki].KP, keys[(ki+1)%len(keys)].KP.Private)
		if !ok {
			return
		}
		if i == 1 {
			r.Sample(map[string]any{"ops": ops, "answer": answer, "observed": want})
		}
	}
	c20AuthoredAnswers(cfg, r, model, keys, dir)
}

// c20FmOps runs one Seal/Unseal operation sequence on the front matter of a text question whose
// answer is `answer`: property oracles on the implementation + comparison with the model's state machine.
// ok=false: the harness could not write the file (the caller stops).
func c20FmOps(r *Result, model *c20Model, dir, name, kind, answer string, ops []string, kp learn.KeyPair, wrong string) (want string, ok bool) {
	nops := len(ops)
	content := c20Frontmatter("text", answer, "none") + c20SimpleBody
	file, err := c20WriteQuestion(dir, name, content)
	input := map[string]any{"kind": kind, "markdown": content, "answer": answer, "ops": ops, "public": kp.Public, "private": kp.Private, "wrong_private": wrong}
	if err != nil {
		r.Violate(Violation{Kind: "correspondence", Key: "harness-io", Detail: err.Error()})
		return "", false
	}
	m, err := learn.NewQuestionModel(file)
	if err != nil || m.Frontmatter.Answer != answer {
		r.Violate(Violation{Kind: "correspondence", Key: "harness-yaml-answer-differs", Detail: fmt.Sprintf("front matter did not parse to the intended answer: %v", err), Input: input})
		return "", true
	}
	opsx := make([]SX, len(ops))
	var impl []string
	sealedPlain := "" // the plaintext of what is currently in sealed-answer
	for j, op := range ops {
		opsx[j] = Sym(op)
		var e error
		a0, s0 := m.Frontmatter.Answer, m.Frontmatter.SealedAnswer
		switch op {
		case "seal":
			e = m.Frontmatter.Seal(kp.Public)
		case "unseal":
			e = m.Frontmatter.Unseal(kp.Private)
		case "unseal-wrong":
			e = m.Frontmatter.Unseal(wrong)
		case "set-answer": // a hand edit: may produce the invalid state with both fields set
			m.Frontmatter.Answer = "zz"
		default:
			e = m.Frontmatter.Unseal("")
		}
		a, s := m.Frontmatter.Answer, m.Frontmatter.SealedAnswer
		impl = append(impl, Lst(Sym(c20FmClass(e)), Str(a), Bool(s != "")).String())
		if op == "set-answer" {
			continue
		}
		// property oracle on the implementation
		if e != nil && (a != a0 || s != s0) {
			r.Violate(Violation{Kind: "property", Key: "frontmatter-changed-by-failed-op", Detail: "a failed " + op + " changed the front matter", Input: input})
		}
		if e == nil && a != "" && s != "" {
			r.Violate(Violation{Kind: "property", Key: "frontmatter-both-fields-set", Detail: "answer and sealed-answer are both set after a successful " + op, Input: input})
		}
		if e == nil && op == "seal" {
			if a != "" || s == "" {
				r.Violate(Violation{Kind: "property", Key: "frontmatter-seal-state", Detail: "after a successful Seal the answer must be empty and the sealed answer set", Input: input})
			}
			if a0 != "" {
				sealedPlain = a0
				// what was sealed is the answer itself: the sealed value opens to it
				if p, derr := c20Decrypt(kp.Private, s); derr != nil || p != a0 {
					r.Violate(Violation{Kind: "property", Key: "frontmatter-sealed-value-differs", Detail: fmt.Sprintf("Decrypt(private, sealed-answer) after Seal is not the answer that was sealed (error: %v)", derr), Input: input, Impl: p})
				}
			}
		}
		if e == nil && op != "seal" && s0 != "" && a != sealedPlain {
			r.Violate(Violation{Kind: "property", Key: "frontmatter-unseal-differs", Detail: "the unsealed answer is not the answer that was sealed", Input: input, Impl: a})
		}
	}
	ans, merr := model.Ask(Lst(Sym("fmops"), Str(answer), LstOf(opsx)).String())
	want = "(" + strings.Join(impl, " ") + ")"
	r.Count("fm/"+answer+"/"+strings.Join(ops, ","), nops >= 2)
	r.Dist(fmt.Sprintf("%s:len%d", kind, nops))
	r.Validated++
	if merr != nil || ans != want {
		r.Violate(Violation{Kind: "correspondence", Key: "frontmatter-statemachine-differs", Detail: "Seal/Unseal sequence: implementation and model disagree", Input: input, Impl: want, Model: ans})
	}
	return want, true
}

// ---------- part B': answers as authors write them ----------

// Answer texts of text / program questions are evy source or program output: several lines, comments at
// line ends, the authoring tags the learn package itself interprets when it RENDERS an answer
// (` //levy:blank`, see removeCommentTags / removeTaggedPrint / removeCommentTaggedLines), white space at
// line ends and around the whole text.  Sealing must not interpret any of it.
var c20AnsLines = []string{`print "One, two,"`, `print "bugs, shoo."`, "x := 1", "print x", "move 10 10", "circle 5", "hi", "42", "a b",
	"héllo wörld", "🐜🐛", "", "if x > 1", "    print \"deep\"", "\tprint 2", "end", "// only a comment", "a, c", "print", "//levy:blank", "levy:blank", "- item", "key: value", "'q'", "# h"}

var c20AnsSuffixes = []string{"", "", "", " //levy:blank", " //levy:blank", " //levy:blank", "//levy:blank", " // levy:blank", " //levy:blank ", "  //levy:blank",
	"\t//levy:blank", " //levy:blank //levy:blank", " //levy:Blank", " //levy:blanks", " //levy:", " //levy:hide", " //evy:blank", " // comment", " //", " #tag",
	" ", "  ", "\t", "\r", " \r", "\u00a0", " <!-- x -->", " \\", ":", " //levy:blank\r", " // 🐜 //levy:blank"}

var c20AnsEdges = []string{"", "", "", "", "\n", " ", "\n\n", "\t", " \n", "\r\n"}

func c20AuthoredAnswer(rng *rand.Rand) string {
	n := 1 + rng.Intn(5)
	sep := "\n"
	if rng.Intn(8) == 0 {
		sep = "\r\n"
	}
	lines := make([]string, n)
	for i := range lines {
		lines[i] = c20AnsLines[rng.Intn(len(c20AnsLines))] + c20AnsSuffixes[rng.Intn(len(c20AnsSuffixes))]
	}
	s := c20AnsEdges[rng.Intn(len(c20AnsEdges))] + strings.Join(lines, sep) + c20AnsEdges[rng.Intn(len(c20AnsEdges))]
	if s == "" {
		s = "x //levy:blank"
	}
	return s
}

func c20AnswerFamily(a string) string {
	var f []string
	if strings.Contains(a, "\n") {
		f = append(f, "multi-line")
	}
	if strings.Contains(a, "levy:") {
		f = append(f, "tag")
	}
	if a != strings.TrimSpace(a) {
		f = append(f, "outer-space")
	}
	for _, l := range strings.Split(a, "\n") {
		if l != strings.TrimRight(l, " \t\r\u00a0") {
			f = append(f, "line-end-space")
			break
		}
	}
	if len(f) == 0 {
		return "plain"
	}
	return strings.Join(f, "+")
}

func c20AuthoredAnswers(cfg Config, r *Result, model *c20Model, keys []c20Keys, dir string) {
	rng := rand.New(rand.NewSource(cfg.Rng.Int63())) // own generator: the cases before and after stay as they were
	n := cfg.N(160, 2500)
	opsPool := []string{"seal", "seal", "unseal", "unseal", "unseal-wrong", "unseal-nokey"}
	for i := 0; i < n; i++ {
		answer := c20AuthoredAnswer(rng)
		ki := i % len(keys)
		ops := []string{"seal", "unseal"} // the round trip itself, then a random tail
		for j := rng.Intn(4); j > 0; j-- {
			ops = append(ops, opsPool[rng.Intn(len(opsPool))])
		}
		r.Dist("authored-answer:" + c20AnswerFamily(answer))
		if _, ok := c20FmOps(r, model, dir, fmt.Sprintf("au%d", i), "fmops-authored", answer, ops, keys[ki].KP, keys[(ki+1)%len(keys)].KP.Private); !ok {
			return
		}
		if i%2 == 0 {
			c20SealFile(r, dir, fmt.Sprintf("auf%d", i), answer, keys[ki].KP)
		}
	}
}

// c20SealFile: what `levy seal FILE` followed by `levy unseal FILE` do (cmd/levy: NewQuestionModel, Seal /
// Unseal, WriteFormatted), through the file: the answer that comes back is the answer that was written.
func c20SealFile(r *Result, dir, name, answer string, kp learn.KeyPair) {
	content := c20Frontmatter("text", answer, "none") + c20SimpleBody
	input := map[string]any{"kind": "sealfile", "markdown": content, "answer": answer, "public": kp.Public, "private": kp.Private}
	file, err := c20WriteQuestion(dir, name, content)
	if err != nil {
		r.Violate(Violation{Kind: "correspondence", Key: "harness-io", Detail: err.Error()})
		return
	}
	r.Count("sealfile/"+answer, true)
	r.Dist("sealfile")
	fail := func(key, detail string, impl any) {
		r.Violate(Violation{Kind: "property", Key: key, Detail: detail, Input: input, Impl: impl})
	}
	m, err := learn.NewQuestionModel(file, learn.WithPrivateKey(kp.Private))
	if err != nil || m.Frontmatter.Answer != answer {
		r.Violate(Violation{Kind: "correspondence", Key: "harness-yaml-answer-differs", Detail: fmt.Sprintf("front matter did not parse to the intended answer: %v", err), Input: input})
		return
	}
	if err := m.Seal(kp.Public); err != nil {
		fail("sealfile-seal-fails", err.Error(), nil)
		return
	}
	if err := m.WriteFormatted(); err != nil {
		fail("sealfile-write-fails", err.Error(), nil)
		return
	}
	m2, err := learn.NewQuestionModel(file, learn.WithPrivateKey(kp.Private))
	if err != nil {
		fail("sealfile-sealed-file-rejected", "the file written by seal does not load: "+err.Error(), nil)
		return
	}
	if m2.Frontmatter.Answer != "" || m2.Frontmatter.SealedAnswer == "" {
		fail("sealfile-sealed-file-state", "the file written by seal still has an answer or has no sealed-answer", nil)
		return
	}
	if p, derr := c20Decrypt(kp.Private, m2.Frontmatter.SealedAnswer); derr != nil || p != answer {
		fail("sealfile-sealed-value-differs", fmt.Sprintf("Decrypt(private, sealed-answer of the sealed file) is not the answer that was sealed (error: %v)", derr), p)
		return
	}
	if err := m2.Unseal(); err != nil {
		fail("sealfile-unseal-fails", err.Error(), nil)
		return
	}
	if m2.Frontmatter.Answer != answer {
		fail("sealfile-unseal-differs", "seal, write, load, unseal: the answer that comes back is not the answer that was sealed", m2.Frontmatter.Answer)
		return
	}
	r.Validated++
}

// ---------- part C: verification ----------

type c20Question struct {
	AType   string   // single | multi | text
	Answer  string   // front matter answer text
	Marks   []int    // the indices the answer denotes (nil when the answer is not a valid choice answer)
	Valid   bool     // the answer text is a valid choice answer
	Style   int      // 0 question=evy, choices=inline code; 1 question=text, choices=evy; 2 question=evy, choices=text blocks
	Gen     string   // expected question output
	Outs    []string // expected choice outputs
	Body    string   // markdown below the front matter
	IsSrc   bool     // text questions: the answer block is evy source
	RunOut  string   // text questions with IsSrc: expected output of running the trimmed answer
	Comment string
	Extra    map[string]string // files written beside the question (txtar archives)
	NearMiss int // choices whose output differs from the question's only by newlines, blanks or case
}

var c20Words = []string{"hi", "ho", "hey", "héllo", "🐜🐛", "42", "a b", "x-y", "Hi", "hi!", "g", "w"}

func c20PrintProg(rng *rand.Rand, w string) string {
	switch rng.Intn(4) {
	case 0:
		return "x := \"" + w + "\"\nprint x"
	case 1:
		return "print \"" + w + "\" // say it"
	case 2:
		return "printf \"%s\\n\" \"" + w + "\""
	}
	return "print \"" + w + "\""
}

// build a choice question: n choices, equal[i] says whether choice i's output equals the question's
func c20ChoiceQuestion(rng *rand.Rand, atype string, answer string, n int, equal []bool, style int) c20Question {
	gen := c20Words[rng.Intn(len(c20Words))]
	q := c20Question{AType: atype, Answer: answer, Style: style, Gen: gen + "\n"}
	var b strings.Builder
	b.WriteString("## Question\n\n")
	switch style {
	case 0, 2:
		b.WriteString("What does this program print?\n\n```evy\n" + c20PrintProg(rng, gen) + "\n```\n\nChoose:\n\n")
	case 1, 3:
		b.WriteString("Which program prints this?\n\n```\n" + gen + "\n```\n\nChoose:\n\n")
	}
	var archive strings.Builder // style 3: the choices are the files of a txtar archive
	seenData := map[string]bool{}
	for i := 0; i < n; i++ {
		// the choice as source text (an evy program for style 1, literal output text otherwise)
		// and the output it is designed to have
		var src, out string
		if equal[i] {
			src, out = c20ChoiceSource(rng, style, gen), gen+"\n"
		} else if rng.Intn(2) == 0 {
			// a near miss: differs from the question's output only by trailing newlines,
			// leading/trailing blanks or case -- the comparison is exact, so it is different
			src, out = c20NearMiss(rng, style, gen)
		}
		if src == "" {
			w := gen
			for w == gen {
				w = c20Words[rng.Intn(len(c20Words))]
			}
			src, out = c20ChoiceSource(rng, style, w), w+"\n"
			if style == 1 && rng.Intn(6) == 0 {
				src, out = "print "+strings.ReplaceAll(w, " ", "")+"_undefined", "**ERROR**"
			}
		}
		if style == 3 {
			// a file of the archive: an evy program (run for its output) or, for a file
			// that is not .evy, the output itself; file contents must be pairwise different
			name := string(rune('a'+i)) + ".evy"
			data := strings.Replace(src+"\n", "\n", " // "+strings.Repeat("choice ", 1+i%2)+name+"\n", 1)
			if strings.HasPrefix(src, "printf") || strings.Contains(src, "_undefined") {
				data = src + "\n// " + name + "\n"
			}
			if lit := out; rng.Intn(4) == 0 && out != "**ERROR**" && strings.HasSuffix(out, "\n") && !seenData[lit] && !strings.Contains(lit, "\n\n") {
				name, data = string(rune('a'+i))+".txt", lit
			}
			seenData[data] = true
			archive.WriteString("-- " + name + " --\n" + data)
		}
		switch style {
		case 0:
			b.WriteString("- `" + src + "`\n")
		case 2:
			b.WriteString("- ```\n  " + strings.ReplaceAll(src, "\n", "\n  ") + "\n  ```\n")
		case 1:
			b.WriteString("- ```evy\n  " + strings.ReplaceAll(src, "\n", "\n  ") + "\n  ```\n")
		}
		q.Outs = append(q.Outs, out)
		if out != gen+"\n" && strings.EqualFold(strings.TrimSpace(out), strings.TrimSpace(gen)) {
			q.NearMiss++
		}
	}
	if style == 3 {
		title := []string{"evy:source", "evy:text"}[rng.Intn(2)]
		b.WriteString("- [answer](choices.txtar \"" + title + "\")\n")
		q.Extra = map[string]string{"choices.txtar": archive.String()}
	}
	q.Body = b.String()
	return q
}

// source of a choice whose output is w + "\n"
func c20ChoiceSource(rng *rand.Rand, style int, w string) string {
	if style == 1 || style == 3 {
		return c20PrintProg(rng, w)
	}
	return w
}

func c20SwapCase(w string) string {
	if u := strings.ToUpper(w); u != w {
		return u
	}
	return strings.ToLower(w)
}

// c20NearMiss returns a choice whose output differs from gen+"\n" only by
// trailing newlines, leading/trailing blanks or case ("" if this style cannot
// express the drawn kind for this word).
func c20NearMiss(rng *rand.Rand, style int, gen string) (src, out string) {
	cased := c20SwapCase(gen)
	switch style {
	case 1, 3: // evy programs
		switch rng.Intn(7) {
		case 0: // printf without newline
			return "printf \"" + gen + "\"", gen
		case 1: // an extra bare print
			return "print \"" + gen + "\"\nprint", gen + "\n\n"
		case 2: // the string itself ends in a newline
			return "print \"" + gen + "\\n\"", gen + "\n\n"
		case 3:
			return "print \" " + gen + "\"", " " + gen + "\n"
		case 4:
			return "print \"" + gen + " \"", gen + " \n"
		case 5: // two arguments: a blank is inserted, here at the end
			return "print \"" + gen + "\" \"\"", gen + " \n"
		default:
			if cased != gen {
				return "print \"" + cased + "\"", cased + "\n"
			}
		}
	case 2: // literal output in a fenced block
		switch rng.Intn(3) {
		case 0: // an extra empty line inside the fence
			return gen + "\n", gen + "\n\n"
		case 1:
			return " " + gen, " " + gen + "\n"
		default:
			if cased != gen {
				return cased, cased + "\n"
			}
		}
	case 0: // inline code: only case can differ
		if cased != gen {
			return cased, cased + "\n"
		}
	}
	return "", ""
}

func c20Letters(marks []int, rng *rand.Rand) string {
	parts := make([]string, len(marks))
	for i, m := range marks {
		parts[i] = string(rune('a' + m))
	}
	sep := []string{", ", ",", " , ", ",\t"}[rng.Intn(4)]
	s := strings.Join(parts, sep)
	if rng.Intn(4) == 0 {
		s = " " + s + " "
	}
	return s
}

type c20Mode struct {
	Name     string
	Seal     bool
	Key      string // none right wrong
	Ignore   bool
	Verif    string // value of the verification field
	VerifSet bool   // the field is written (false: absent = the default, match)
}

// the verification field as the model takes it
func (m c20Mode) verifSX() SX {
	if !m.VerifSet {
		return Sym("absent")
	}
	return Str(m.Verif)
}

var c20Modes = []c20Mode{
	{"plain", false, "none", false, "", false},
	{"plain-with-key", false, "right", false, "", false},
	{"sealed", true, "right", false, "", false},
	{"sealed", true, "right", false, "", false},
	{"sealed-wrong-key", true, "wrong", false, "", false},
	{"sealed-no-key", true, "none", false, "", false},
	{"sealed-ignored", true, "none", true, "", false},
	{"verification-none", false, "none", false, "none", true},
	{"sealed-verification-none", true, "right", false, "none", true},
	{"sealed-explicit-match", true, "right", false, "match", true},
	{"sealed-wrong-key-explicit-match", true, "wrong", false, "match", true},
	{"sealed-ignored-explicit-match", true, "none", true, "match", true},
}

// every case run in the plain mode (verification absent) is also run with the
// default spelled out
var c20ExplicitMatch = c20Mode{"plain-explicit-match", false, "none", false, "match", true}

// values that are not in validVerifications: the question must not load
var c20InvalidVerifications = []string{"", "Match", "MATCH", " match", "match ", "exact", "nil", "true", "parse_error", "no-parse-errors", "match\n", "none,match", "matc"}

type c20Env struct {
	cfg   Config
	r     *Result
	model *c20Model
	keys  []c20Keys
	dir   string
	seq   int
}

func sameSet(a []int, b []bool) bool {
	in := map[int]bool{}
	for _, m := range a {
		in[m] = true
	}
	for m := range in {
		if m < 0 || m >= len(b) || !b[m] {
			return false
		}
	}
	for i, e := range b {
		if e && !in[i] {
			return false
		}
	}
	return true
}

// run one question in one mode on the implementation and on the model
func (e *c20Env) check(q c20Question, mode c20Mode, equal []bool) {
	r := e.r
	ki := e.seq % len(e.keys)
	e.seq++
	atypeFM := map[string]string{"single": "single-choice", "multi": "multiple-choice", "text": "text"}[q.AType]
	content := c20FrontmatterV(atypeFM, q.Answer, mode.Verif, mode.VerifSet) + q.Body
	input := map[string]any{"kind": "verify", "markdown": content, "mode": mode.Name, "seal": mode.Seal, "key": mode.Key, "ignore": mode.Ignore, "verification": mode.verifSX().String(),
		"public": e.keys[ki].KP.Public, "private": e.keys[ki].KP.Private, "wrong_private": e.keys[(ki+1)%len(e.keys)].KP.Private,
		"marks": q.Marks, "equal": equal, "answer": q.Answer, "files": q.Extra}
	implClass, outs, gen, herr := c20RunVerify(e.dir, fmt.Sprintf("q%d", e.seq), content, q.Answer, mode, e.keys[ki].KP, e.keys[(ki+1)%len(e.keys)].KP.Private, q.Extra)
	canon := fmt.Sprintf("v/%s/%q/%v/%v/%d/%s", q.AType, q.Answer, equal, q.Outs, q.Style, mode.Name)
	r.Count(canon, len(q.Outs) >= 2 || q.AType == "text")
	r.Dist("verify:" + q.AType + ":" + mode.Name + ":" + implClass)
	if q.Style == 3 {
		r.Dist("verify:txtar-choices:" + implClass)
	}
	if q.NearMiss > 0 {
		r.Distribution["verify:choices-that-are-near-misses"] += q.NearMiss
		r.Dist("verify:questions-with-near-miss")
	}
	if herr != "" {
		r.Violate(Violation{Kind: "correspondence", Key: "harness-" + herr, Detail: "the generated question did not load as intended: " + herr, Input: input, Impl: implClass})
		return
	}
	// the outputs really produced (by running evy) are the designed ones
	if outs != nil {
		if q.Style == 3 && len(outs) == 1 && outs[0] == "*** txtar Content ERROR ***" {
			outs = q.Outs // one txtar renderer: the per-file outputs are not observable from outside
		}
		if gen != q.Gen || strings.Join(outs, "\x1e") != strings.Join(q.Outs, "\x1e") {
			r.Violate(Violation{Kind: "correspondence", Key: "rendered-output-differs-from-design", Detail: "RenderOutput of question/choices is not what the generator designed", Input: input,
				Impl: map[string]any{"gen": gen, "outs": outs}, Model: map[string]any{"gen": q.Gen, "outs": q.Outs}})
			return
		}
	}
	// model
	outsx := make([]SX, len(q.Outs))
	for i, o := range q.Outs {
		outsx[i] = Str(o)
	}
	ask := func(beforeFix bool) string {
		a, err := e.model.Ask(Lst(Sym("verify"), Bool(beforeFix), Bool(mode.Ignore), Sym(mode.Key), Bool(mode.Seal), mode.verifSX(), Sym(q.AType), Str(q.Answer),
			Bool(q.IsSrc), LstOf(outsx), Str(q.Gen), Str(q.RunOut), LstOf(nil)).String())
		if err != nil {
			return "model-error:" + err.Error()
		}
		return a
	}
	mclass := ask(false)
	r.Validated++
	if mclass != implClass {
		r.Violate(Violation{Kind: "correspondence", Key: "verify-model-differs:" + implClass + "-vs-" + mclass, Detail: "QuestionModel.Verify and the model's question_verify disagree", Input: input, Impl: implClass, Model: mclass})
	}
	if len(r.Samples) < 4 && mode.Name == "sealed" {
		r.Sample(map[string]any{"markdown": content, "mode": mode.Name, "verify": implClass, "model": mclass})
	}
	// property oracle, evaluated on the implementation: for a question that is really
	// verified (match verification, answer available), Verify accepts exactly when the
	// marked choices are precisely the choices whose output equals the question's
	// match verification is in force when the field is absent or says "match"
	verified := (!mode.VerifSet || mode.Verif == "match") && !mode.Ignore && !(mode.Seal && mode.Key != "right")
	if mode.Name == "invalid-verification" && implClass != "invalidfm" {
		r.Violate(Violation{Kind: "property", Key: "invalid-verification-not-rejected", Detail: fmt.Sprintf("a question whose verification field is %q (not a documented value) loads and verifies as %s", mode.Verif, implClass), Input: input, Impl: implClass, Model: mclass})
	}
	if mode.Name == "plain" {
		defer e.check(q, c20ExplicitMatch, equal)
	}
	if q.AType != "text" && q.Valid && verified {
		want := sameSet(q.Marks, equal)
		switch {
		case implClass == "ok" && !want:
			key := "verify-accepts-wrong-marks"
			inRange := []int{}
			for _, m := range q.Marks {
				if m < len(equal) {
					inRange = append(inRange, m)
				}
			}
			if sameSet(inRange, equal) {
				key = "verify-mark-beyond-last-choice"
			}
			r.Violate(Violation{Kind: "property", Key: key,
				Detail: fmt.Sprintf("Verify accepts answer %q although the marked choices %v are not the matching choices %v (%d choices)", q.Answer, q.Marks, equal, len(equal)),
				Input:  input, Impl: implClass, Model: mclass})
		case implClass != "ok" && want:
			r.Violate(Violation{Kind: "property", Key: "verify-rejects-exact-marks", Detail: fmt.Sprintf("Verify rejects answer %q although it marks exactly the matching choices", q.Answer), Input: input, Impl: implClass, Model: mclass})
		case implClass != "ok" && implClass != "wrong":
			r.Violate(Violation{Kind: "property", Key: "verify-unexpected-error:" + implClass, Detail: "a valid answer was rejected with something other than ErrWrongAnswer", Input: input, Impl: implClass})
		}
		// the model in force (proved to decide the property's statement) must coincide with the oracle
		if (mclass == "ok") != want {
			r.Violate(Violation{Kind: "correspondence", Key: "model-differs-from-oracle", Detail: "the model's verify_choice does not decide the property's statement on this case", Input: input, Model: mclass})
		}
	}
}

// c20RunVerify writes the question, optionally seals it the way `evy learn seal`
// does (Seal + WriteFormatted), reloads it with the options of the mode and
// returns the class of Verify's error plus the rendered outputs.
func c20RunVerify(dir, name, content, answer string, mode c20Mode, kp learn.KeyPair, wrongPriv string, extra map[string]string) (class string, outs []string, gen string, harnessErr string) {
	file, err := c20WriteQuestion(dir, name, content)
	if err != nil {
		return "", nil, "", "io"
	}
	defer os.Remove(file)
	for fn, data := range extra {
		p := filepath.Join(filepath.Dir(file), fn)
		if err := os.WriteFile(p, []byte(data), 0o644); err != nil {
			return "", nil, "", "io"
		}
		defer os.Remove(p)
	}
	defer func() {
		if v := recover(); v != nil {
			class, outs, gen, harnessErr = "panic", nil, "", ""
		}
	}()
	if mode.Seal {
		m, err := learn.NewQuestionModel(file)
		if err != nil {
			// e.g. an empty answer: rejected when the front matter is validated
			return c20VerifyClass(err), nil, "", ""
		}
		if m.Frontmatter.Answer != answer {
			return "", nil, "", "yaml-answer-differs"
		}
		if err := m.Seal(kp.Public); err != nil {
			return c20VerifyClass(err), nil, "", ""
		}
		if err := m.WriteFormatted(); err != nil {
			return "", nil, "", "writeformatted:" + c20VerifyClass(err)
		}
	}
	var opts []learn.Option
	switch mode.Key {
	case "right":
		opts = append(opts, learn.WithPrivateKey(kp.Private))
	case "wrong":
		opts = append(opts, learn.WithPrivateKey(wrongPriv))
	}
	if mode.Ignore {
		opts = append(opts, learn.WithIgnoreSealed())
	}
	m, err := learn.NewQuestionModel(file, opts...)
	if err != nil {
		return c20VerifyClass(err), nil, "", ""
	}
	if !mode.Seal && m.Frontmatter.Answer != answer {
		return "", nil, "", "yaml-answer-differs"
	}
	if mode.Seal && (!m.IsSealed() || m.Frontmatter.Answer != "") {
		return "", nil, "", "not-sealed-after-seal"
	}
	verr := m.Verify()
	if m.Question != nil {
		gen = m.Question.RenderOutput()
	}
	for _, c := range m.AnswerChoices {
		outs = append(outs, c.RenderOutput())
	}
	if outs == nil {
		outs = []string{}
	}
	return c20VerifyClass(verr), outs, gen, ""
}

func c20Verification(e *c20Env) {
	cfg, rng := e.cfg, e.cfg.Rng
	// corpus: the two refuted witnesses of Props/C20.v first
	w1 := c20ChoiceQuestion(rng, "multi", "c, e", 4, []bool{false, false, true, false}, 0)
	w1.Marks, w1.Valid = []int{2, 4}, true
	e.check(w1, c20Modes[0], []bool{false, false, true, false})
	w2 := c20ChoiceQuestion(rng, "single", "e", 4, []bool{false, false, false, false}, 1)
	w2.Marks, w2.Valid = []int{4}, true
	e.check(w2, c20Modes[0], []bool{false, false, false, false})

	// exhaustive: n = 2..5 choices, every assignment of equal/different, every non-empty
	// subset of the letters a..(one beyond the last choice) for multiple choice, every
	// single letter of those plus 'z' for single choice
	for n := 2; n <= 5; n++ {
		for pat := 0; pat < 1<<n; pat++ {
			equal := make([]bool, n)
			for i := range equal {
				equal[i] = pat&(1<<i) != 0
			}
			for sub := 1; sub < 1<<(n+1); sub++ {
				var marks []int
				for i := 0; i <= n; i++ {
					if sub&(1<<i) != 0 {
						marks = append(marks, i)
					}
				}
				if rng.Intn(3) == 0 {
					rng.Shuffle(len(marks), func(i, j int) { marks[i], marks[j] = marks[j], marks[i] })
				}
				q := c20ChoiceQuestion(rng, "multi", c20Letters(marks, rng), n, equal, rng.Intn(4))
				q.Marks, q.Valid = marks, true
				e.check(q, c20Modes[0], equal)
				if rng.Intn(4) == 0 || cfg.Tier == "thorough" {
					e.check(q, c20Modes[1+rng.Intn(len(c20Modes)-1)], equal)
				}
			}
			singles := []int{25}
			for i := 0; i <= n; i++ {
				singles = append(singles, i)
			}
			for _, mk := range singles {
				q := c20ChoiceQuestion(rng, "single", string(rune('a'+mk)), n, equal, rng.Intn(4))
				q.Marks, q.Valid = []int{mk}, true
				e.check(q, c20Modes[0], equal)
				if rng.Intn(4) == 0 || cfg.Tier == "thorough" {
					e.check(q, c20Modes[1+rng.Intn(len(c20Modes)-1)], equal)
				}
			}
		}
	}
	// choices that live in a txtar archive beside the question (one renderer, one output per
	// file): 2..6 files, marks anywhere incl. the last file and one beyond the archive
	exhaustUpTo := cfg.N(3, 5)
	for n := 2; n <= 6; n++ {
		total := (1 << n) * ((1 << (n + 1)) - 1)
		step := 1
		if n > exhaustUpTo {
			step = total/cfg.N(100, 1500) + 1
		}
		for k := rng.Intn(step); k < total; k += step {
			pat, sub := k%(1<<n), k/(1<<n)+1
			equal := make([]bool, n)
			for i := range equal {
				equal[i] = pat&(1<<i) != 0
			}
			var marks []int
			for i := 0; i <= n; i++ {
				if sub&(1<<i) != 0 {
					marks = append(marks, i)
				}
			}
			q := c20ChoiceQuestion(rng, "multi", c20Letters(marks, rng), n, equal, 3)
			q.Marks, q.Valid = marks, true
			e.check(q, c20Modes[0], equal)
			if len(marks) == 1 {
				q := c20ChoiceQuestion(rng, "single", string(rune('a'+marks[0])), n, equal, 3)
				q.Marks, q.Valid = marks, true
				e.check(q, c20Modes[rng.Intn(3)], equal)
			}
		}
	}
	c20ParseErrorQuestions(e, exhaustUpTo)

	// verification values that are not documented: the question must be rejected when it is
	// loaded, whatever the marks (right and wrong), the answer type and the content form
	for _, v := range c20InvalidVerifications {
		mode := c20Mode{"invalid-verification", false, "none", false, v, true}
		for _, right := range []bool{true, false} {
			equal := []bool{false, true, false}
			marks := []int{1}
			if !right {
				marks = []int{0}
			}
			for style := 0; style < 4; style++ {
				q := c20ChoiceQuestion(rng, "multi", c20Letters(marks, rng), 3, equal, style)
				q.Marks, q.Valid = marks, true
				e.check(q, mode, equal)
				q = c20ChoiceQuestion(rng, "single", string(rune('a'+marks[0])), 3, equal, style)
				q.Marks, q.Valid = marks, true
				e.check(q, mode, equal)
			}
			e.check(c20TextQuestion(rng), mode, nil)
		}
	}

	// malformed answers (the answer text does not denote marks)
	bad := []string{"", "A", "ab", "a,,b", "a,", ",", "1", "a b", "\u00e9", "a;b", "a, B", "aa", " ", "{", "a, b", "a,\u200bb", "\u3000c ", "a,\u00a0b\u2003", "c\n"}
	for i, ans := range bad {
		for _, at := range []string{"single", "multi"} {
			equal := []bool{i%2 == 0, false, true}
			q := c20ChoiceQuestion(rng, at, ans, 3, equal, rng.Intn(4))
			// a few of these are valid after all (splitTrim trims Unicode white space): let the model say
			q.Valid = false
			e.check(q, c20Modes[0], equal)
			e.check(q, c20Modes[2], equal)
		}
	}
	// text answers
	nText := cfg.N(300, 4000)
	for i := 0; i < nText; i++ {
		e.check(c20TextQuestion(rng), c20Modes[[]int{0, 0, 0, 2, 4, 5, 6, 7, 9, 10, 11}[rng.Intn(11)]], nil)
	}
}

// verification modes parse-error / no-parse-error: the choices are the files of a txtar
// archive, there is no question output; accepted iff the marked files are precisely the
// files that have (parse-error) / do not have (no-parse-error) a parse error
func c20ParseErrorQuestions(e *c20Env, exhaustUpTo int) {
	r, rng := e.r, e.cfg.Rng
	good := []string{"print \"%s\"", "x := \"%s\"\nprint x", "print (len \"%s\")", "for i := range 2\n    print i \"%s\"\nend"}
	bad := []string{"print \"%s", "x := \nprint \"%s\"", "print undefined_%s", "if true\n    print \"%s\"", "print \"%s\" +", "x := 1\nx := \"%s\""}
	for n := 2; n <= 6; n++ {
		total := 2 * (1 << n) * ((1 << (n + 1)) - 1)
		step := 1
		if n > exhaustUpTo {
			step = total/e.cfg.N(100, 1500) + 1
		}
		for k := rng.Intn(step); k < total; k += step {
			want := k%2 == 0
			pat, sub := (k/2)%(1<<n), (k/2)/(1<<n)+1
			flags := make([]bool, n)
			flagsx := make([]SX, n)
			var archive strings.Builder
			for i := range flags {
				flags[i] = pat&(1<<i) != 0
				flagsx[i] = Bool(flags[i])
				tmpl := good[rng.Intn(len(good))]
				if flags[i] {
					tmpl = bad[rng.Intn(len(bad))]
				}
				fmt.Fprintf(&archive, "-- %c.evy --\n%s\n", 'a'+i, fmt.Sprintf(tmpl, fmt.Sprintf("w%d", i)))
			}
			var marks []int
			for i := 0; i <= n; i++ {
				if sub&(1<<i) != 0 {
					marks = append(marks, i)
				}
			}
			atype, answer := "multi", c20Letters(marks, rng)
			if len(marks) == 1 && rng.Intn(2) == 0 {
				atype, answer = "single", string(rune('a'+marks[0]))
			}
			verification := "no-parse-error"
			if want {
				verification = "parse-error"
			}
			content := c20Frontmatter(map[string]string{"single": "single-choice", "multi": "multiple-choice"}[atype], answer, verification) +
				"## Parse errors\n\nWhich of these programs are as the question says?\n\nChoose:\n\n- [answer](choices.txtar \"evy:source\")\n"
			files := map[string]string{"choices.txtar": archive.String()}
			e.seq++
			class, _, _, herr := c20RunVerify(e.dir, fmt.Sprintf("p%d", e.seq), content, answer, c20Modes[0], e.keys[0].KP, "", files)
			input := map[string]any{"kind": "verify-parse", "markdown": content, "files": files, "marks": marks, "parse_error": flags, "verification": verification, "answer": answer}
			r.Count(fmt.Sprintf("pe/%s/%v/%v/%v", atype, marks, flags, want), true)
			r.Dist("verify:" + verification + ":" + class)
			if herr != "" {
				r.Violate(Violation{Kind: "correspondence", Key: "harness-" + herr, Detail: "the generated parse-error question did not load as intended", Input: input})
				continue
			}
			mclass, merr := e.model.Ask(Lst(Sym("verify"), Bool(false), Bool(false), Sym("none"), Bool(false), Str(verification), Sym(atype), Str(answer),
				Bool(false), LstOf(nil), Str(""), Str(""), LstOf(flagsx)).String())
			r.Validated++
			if merr != nil || mclass != class {
				r.Violate(Violation{Kind: "correspondence", Key: "verify-model-differs:" + class + "-vs-" + mclass, Detail: "parse-error verification: QuestionModel.Verify and the model disagree", Input: input, Impl: class, Model: mclass})
			}
			wanted := make([]bool, n)
			for i := range wanted {
				wanted[i] = flags[i] == want
			}
			if exact := sameSet(marks, wanted); (class == "ok") != exact {
				key := "verify-parse-error-rejects-exact-marks"
				if class == "ok" {
					key = "verify-parse-error-accepts-wrong-marks"
				}
				r.Violate(Violation{Kind: "property", Key: key,
					Detail: fmt.Sprintf("verification %s: marks %v, files with parse error %v, Verify: %s", verification, marks, flags, class), Input: input, Impl: class, Model: mclass})
			}
		}
	}
}

var c20Pads = []string{"", "", " ", "\n", "\t ", "\u00a0", "\u2003", "\u3000\n", "\u0085", "\v\f\r", " \n \n", "\u2028", "\u1680", "\u202f\u205f"}
var c20NonPads = []string{"\u200b", "\u180e", "\ufeff", "\u2060", ".", "\x1f", "\u00ad", "\u001c"}
var c20Cores = []string{"peppy pixel parade", "hi", "a", "One, two,\nbugs, shoo.", "🐜🐛🧹", "x  y", "42", "héllo wörld", "line1\n\nline3"}

func c20Pad(rng *rand.Rand) string { return c20Pads[rng.Intn(len(c20Pads))] }

func c20EvyPrints(s string) string {
	var lines []string
	for _, l := range strings.Split(s, "\n") {
		if l == "" {
			lines = append(lines, "print")
		} else {
			lines = append(lines, "print \""+l+"\"")
		}
	}
	return strings.Join(lines, "\n")
}

func c20TextQuestion(rng *rand.Rand) c20Question {
	core := c20Cores[rng.Intn(len(c20Cores))]
	other := core
	switch rng.Intn(5) {
	case 0: // a different text
		for other == core {
			other = c20Cores[rng.Intn(len(c20Cores))]
		}
	case 1: // differs only by something that is not white space for TrimSpace
		np := c20NonPads[rng.Intn(len(c20NonPads))]
		if rng.Intn(2) == 0 {
			other = np + core
		} else {
			other = core + np
		}
	case 2: // inner white space differs
		other = strings.Replace(core, " ", "  ", 1)
	}
	q := c20Question{AType: "text", Valid: true}
	if rng.Intn(2) == 0 {
		// question: an evy program; the answer is its output (text block)
		q.IsSrc = false
		lead := []string{"", "", " ", "  "}[rng.Intn(4)]
		q.Gen = lead + core + "\n"
		q.Body = "## Question\n\nWrite the output of this program:\n\n```evy\n" + c20EvyPrints(lead+core) + "\n```\n\nOutput:\n\n```\n\n```\n"
		q.Answer = c20Pad(rng) + other + c20Pad(rng)
		if rng.Intn(25) == 0 {
			q.Answer = c20Pad(rng)
		}
	} else {
		// question: a text block; the answer is a program producing it
		q.IsSrc = true
		q.Gen = core + "\n"
		q.Body = "## Question\n\nWrite a program that generates this output:\n\n```\n" + core + "\n```\n\nProgram:\n\n```evy\n\n```\n"
		prog := c20EvyPrints(other)
		q.RunOut = other + "\n"
		if rng.Intn(10) == 0 {
			prog, q.RunOut = "print "+"undefined_name", "**ERROR**"
		}
		q.Answer = c20Pad(rng) + prog + c20Pad(rng)
	}
	return q
}

// ---------- part C': the question files that exist in the repository ----------

func c20LearnDir() string {
	if bi, ok := debug.ReadBuildInfo(); ok {
		for _, d := range bi.Deps {
			if d.Path == "evylang.dev/evy/learn" && d.Replace != nil {
				return d.Replace.Path
			}
		}
	}
	return "/repo/learn"
}

func c20CopyTree(src, dst string) error {
	return filepath.Walk(src, func(p string, info os.FileInfo, err error) error {
		if err != nil {
			return err
		}
		rel, _ := filepath.Rel(src, p)
		if info.IsDir() {
			return os.MkdirAll(filepath.Join(dst, rel), 0o755)
		}
		b, err := os.ReadFile(p)
		if err != nil {
			return err
		}
		return os.WriteFile(filepath.Join(dst, rel), b, 0o644)
	})
}

// independent reading of a choice answer: letters separated by commas
func c20ParseMarks(atype, answer string) ([]int, bool) {
	parts := []string{answer}
	if atype == "multiple-choice" {
		parts = strings.Split(answer, ",")
	}
	var marks []int
	for _, p := range parts {
		if atype == "multiple-choice" {
			p = strings.TrimFunc(p, unicode.IsSpace)
		}
		if len(p) != 1 || p[0] < 'a' || p[0] > 'z' {
			return nil, false
		}
		marks = append(marks, int(p[0]-'a'))
	}
	return marks, true
}

// every unsealed match-verified choice/text question file of the learn module
// (testdata and content), copied to a scratch directory (loading may write
// generated .svg files next to the sources), verified by the real code and by
// the model on the outputs the real renderers produce
func c20RepoQuestions(e *c20Env) {
	r := e.r
	src := c20LearnDir()
	n := 0
	for _, sub := range []string{"pkg/learn/testdata", "content"} {
		from := filepath.Join(src, sub)
		if _, err := os.Stat(from); err != nil {
			continue
		}
		to := filepath.Join(e.dir, "repo", sub)
		if err := c20CopyTree(from, to); err != nil {
			r.Note("repo questions: copy of %s failed: %v", from, err)
			continue
		}
		filepath.Walk(to, func(p string, info os.FileInfo, err error) error {
			if err != nil || info.IsDir() || !strings.HasSuffix(p, ".md") {
				return nil
			}
			b, _ := os.ReadFile(p)
			if !strings.Contains(string(b), "\ntype: question") && !strings.HasPrefix(string(b), "---\ntype: question") {
				return nil
			}
			class, atype, answer, gen, outs, skip := c20LoadRepoQuestion(p)
			rel, _ := filepath.Rel(e.dir, p)
			if skip != "" {
				r.Dist("repo-question:skipped:" + skip)
				return nil
			}
			n++
			mt := map[string]string{"single-choice": "single", "multiple-choice": "multi", "text": "text"}[atype]
			outsx := make([]SX, len(outs))
			equal := make([]bool, len(outs))
			for i, o := range outs {
				outsx[i] = Str(o)
				equal[i] = o == gen
			}
			r.Count("repo/"+rel, true)
			r.Dist("repo-question:" + mt + ":" + class)
			input := map[string]any{"kind": "repo-question", "file": rel, "answer": answer}
			if mt == "text" {
				return nil // the answer block's kind and evy output are not observable from outside: only counted
			}
			verif := Sym("absent")
			if strings.Contains(string(b), "\nverification:") {
				verif = Str("match") // the other values were skipped above
			}
			ans, merr := e.model.Ask(Lst(Sym("verify"), Bool(false), Bool(false), Sym("none"), Bool(false), verif, Sym(mt), Str(answer),
				Bool(false), LstOf(outsx), Str(gen), Str(""), LstOf(nil)).String())
			r.Validated++
			if merr != nil || ans != class {
				r.Violate(Violation{Kind: "correspondence", Key: "verify-model-differs:" + class + "-vs-" + ans, Detail: "a question file of the repository: Verify and the model disagree", Input: input, Impl: class, Model: ans})
			}
			if marks, ok := c20ParseMarks(atype, answer); ok {
				want := sameSet(marks, equal)
				if (class == "ok") != want {
					key := "verify-rejects-exact-marks"
					if class == "ok" {
						key = "verify-accepts-wrong-marks"
						inRange := []int{}
						for _, m := range marks {
							if m < len(equal) {
								inRange = append(inRange, m)
							}
						}
						if sameSet(inRange, equal) {
							key = "verify-mark-beyond-last-choice"
						}
					}
					r.Violate(Violation{Kind: "property", Key: key, Detail: fmt.Sprintf("repository question %s: marks %v, matching choices %v, Verify: %s", rel, marks, equal, class), Input: input, Impl: class})
				}
			}
			return nil
		})
	}
	r.Note("question files of the repository verified by implementation and model: %d", n)
}

func c20LoadRepoQuestion(p string) (class, atype, answer, gen string, outs []string, skip string) {
	defer func() {
		if v := recover(); v != nil {
			skip = "panic"
		}
	}()
	m, err := learn.NewQuestionModel(p)
	if err != nil {
		return "", "", "", "", nil, "load-error"
	}
	fm := m.Frontmatter
	switch {
	case fm.GenerateQuestions != "":
		return "", "", "", "", nil, "generated"
	case fm.Verification != "" && fm.Verification != "match":
		return "", "", "", "", nil, "verification-" + string(fm.Verification)
	case m.IsSealed():
		return "", "", "", "", nil, "sealed"
	}
	verr := m.Verify()
	gen = m.Question.RenderOutput()
	for _, c := range m.AnswerChoices {
		o := c.RenderOutput()
		if o == "*** txtar Content ERROR ***" {
			return "", "", "", "", nil, "txtar"
		}
		outs = append(outs, o)
	}
	return c20VerifyClass(verr), string(fm.AnswerType), fm.Answer, gen, outs, ""
}

// ---------- is_space against unicode.IsSpace ----------

func c20Spaces(r *Result, model *c20Model) {
	ans, err := model.Ask("(spaces)")
	var want []string
	for c := rune(0); c <= unicode.MaxRune; c++ {
		if unicode.IsSpace(c) {
			want = append(want, fmt.Sprint(int(c)))
		}
	}
	r.Count("spaces", true)
	r.Validated++
	if err != nil || ans != "("+strings.Join(want, " ")+")" {
		r.Violate(Violation{Kind: "correspondence", Key: "is-space-differs", Detail: "the model's is_space is not unicode.IsSpace", Impl: strings.Join(want, " "), Model: ans})
	}
}

// ---------- replay ----------

func c20Replay(cfg Config, r *Result, model *c20Model, dir string) {
	b, err := os.ReadFile(cfg.Replay)
	if err != nil {
		r.Violate(Violation{Kind: "correspondence", Key: "replay-unreadable", Detail: err.Error()})
		return
	}
	var rec struct {
		Key   string         `json:"key"`
		Input map[string]any `json:"input"`
	}
	if err := json.Unmarshal(b, &rec); err != nil {
		r.Violate(Violation{Kind: "correspondence", Key: "replay-unreadable", Detail: err.Error()})
		return
	}
	str := func(k string) string { s, _ := rec.Input[k].(string); return s }
	switch str("kind") {
	case "tamper":
		text, _ := hex.DecodeString(str("text_hex"))
		p, err := c20Decrypt(str("private"), str("sealed"))
		r.Count("replay", true)
		r.Note("replay tamper: class %c", c20DecryptClass(err))
		if err == nil && p != string(text) {
			r.Violate(Violation{Kind: "property", Key: "tamper-yields-different-answer", Detail: "replayed", Input: rec.Input, Impl: hex.EncodeToString([]byte(p))})
		}
	case "verify":
		mode := c20Mode{Name: str("mode"), Key: str("key")}
		mode.Seal, _ = rec.Input["seal"].(bool)
		mode.Ignore, _ = rec.Input["ignore"].(bool)
		content := str("markdown")
		answer := str("answer")
		kp := learn.KeyPair{Public: str("public"), Private: str("private")}
		extra := map[string]string{}
		if fm, ok := rec.Input["files"].(map[string]any); ok {
			for k, v := range fm {
				extra[k], _ = v.(string)
			}
		}
		class, outs, gen, herr := c20RunVerify(dir, "replay", content, answer, mode, kp, str("wrong_private"), extra)
		r.Count("replay", true)
		r.Note("replay verify: class=%s outs=%q gen=%q harness=%s", class, outs, gen, herr)
		var marks []int
		var equal []bool
		if l, ok := rec.Input["marks"].([]any); ok {
			for _, x := range l {
				f, _ := x.(float64)
				marks = append(marks, int(f))
			}
		}
		if l, ok := rec.Input["equal"].([]any); ok {
			for _, x := range l {
				bb, _ := x.(bool)
				equal = append(equal, bb)
			}
		}
		if equal != nil && marks != nil && (class == "ok") != sameSet(marks, equal) {
			r.Violate(Violation{Kind: "property", Key: rec.Key, Detail: "replayed: Verify's verdict is not `marks are exactly the matching choices`", Input: rec.Input, Impl: class})
		}
	case "history":
		c20ReplayHistory(r, dir, rec.Input)
	case "fmops", "fmops-authored":
		var ops []string
		if l, ok := rec.Input["ops"].([]any); ok {
			for _, x := range l {
				o, _ := x.(string)
				ops = append(ops, o)
			}
		}
		answer, ok := rec.Input["answer"].(string)
		if !ok { // recorded before the answer was part of the input: read it from the front matter
			if f, err := c20WriteQuestion(dir, "replay-fm", str("markdown")); err == nil {
				if m, err := learn.NewQuestionModel(f); err == nil {
					answer = m.Frontmatter.Answer
				}
			}
		}
		want, _ := c20FmOps(r, model, dir, "replay", str("kind"), answer, ops, learn.KeyPair{Public: str("public"), Private: str("private")}, str("wrong_private"))
		r.Note("replay %s: answer %q ops %v observed %s", str("kind"), answer, ops, want)
	case "sealfile":
		c20SealFile(r, dir, "replay", str("answer"), learn.KeyPair{Public: str("public"), Private: str("private")})
	default:
		r.Note("replay of kind %q is not supported; re-run the tier with the recorded seed", str("kind"))
	}
}

func runC20(cfg Config, r *Result) {
	m0, err := StartModel("seal")
	if err != nil {
		r.Violate(Violation{Kind: "correspondence", Key: "model-start", Detail: err.Error()})
		return
	}
	model := &c20Model{m: m0, r: r}
	defer func() { model.m.Close() }()
	dir, err := os.MkdirTemp("", "c20-")
	if err != nil {
		r.Violate(Violation{Kind: "correspondence", Key: "harness-io", Detail: err.Error()})
		return
	}
	defer os.RemoveAll(dir)
	r.Rule = "A: Decrypt(Encrypt(t)) = t for random texts (0..20000 bytes, any Unicode, stray bytes) under 2 fresh key pairs (1024, 2048 bit); for 3 (quick) / 20 (thorough) sealed values single-byte corruptions of the envelope bytes and of the base64 text (thorough: every position, all 255 other values per envelope byte for all 20 values and per base64 character for the first 6, 8 bit flips per character for the rest; quick: a sample of about 55 envelope positions - header, both ends of the RSA part, the whole GCM tag, 24 random - and about 50 base64 positions, all 255 values at the sampled envelope positions of the first value, otherwise the 8 single-bit flips), every truncation of both, and the other private key: result must be rejection or the original text, and the rejection stage must be the one the model predicts under the ideal functionality; model unframe/frame on the real envelopes and on random garbage. " +
		"B: random Seal/Unseal/Unseal-with-wrong-key sequences on the real front matter vs the model, over random texts and over answers as authors write them (1-5 lines of evy source / output with line-end comments, the authoring tag ` //levy:blank` and near misses of it, white space and CR at line ends and around the text); after every Seal the sealed value must decrypt to the answer; for half of the authored answers also seal - WriteFormatted - load - unseal through the file. " +
		"C: every non-empty subset of letters a..(one beyond the last choice) x every equal/different assignment for 2..5 choices (multiple choice), every single letter of those and z (single choice), in four styles (question evy / choices inline code; question text / choices evy blocks; question evy / choices text blocks; question text / choices = the 2..6 files of a generated txtar archive linked from one list item, exhaustive up to 3 (quick) / 5 (thorough) files, sampled above; plus parse-error / no-parse-error verification over such archives), through markdown files whose outputs are produced by running evy (a choice of the different class is with probability 1/2 a near miss: output differing from the question's only by trailing newlines - printf, an extra bare print, a string ending in \\n -, by a leading/trailing blank or by case; choice outputs are compared exactly), in plain and sealed / wrong key / no key / ignored modes, with the verification field absent, spelled out as match (every plain case is run in both spellings), none, parse-error, no-parse-error, and 13 undocumented values that must be rejected at load time; text answers with white-space variants. D: histories - 40 (quick) / 400 (thorough) exercise directories of 3-4 program files (print a word, draw a circle; some print the same and draw differently, some the reverse) with 2-5 questions over the same files asking for text output or for the picture (evy:text / evy:svg / evy:source links, result type inferred), right and wrong marks, verified in one process in every order (at most 6 / 30 orders per directory), some questions twice: every verdict against the oracle, the model, and - for a sample and for every disagreement - the verdict of the same file verified alone in a fresh process. " +
		"non-trivial = non-empty text (A), >= 2 operations (B), every question (C); distinct = distinct canonical case"
	if cfg.Replay != "" {
		c20Replay(cfg, r, model, dir)
		return
	}
	var keys []c20Keys
	for _, bits := range []int{1024, 2048} {
		kp, err := learn.Keygen(bits)
		if err != nil {
			r.Violate(Violation{Kind: "property", Key: "keygen-fails", Detail: err.Error()})
			return
		}
		keys = append(keys, c20Keys{Bits: bits, KP: kp})
	}
	t0 := time.Now()
	c20Spaces(r, model)
	c20Envelope(cfg, r, model, keys)
	t1 := time.Now()
	c20Frontmatters(cfg, r, model, keys, dir)
	t2 := time.Now()
	env := &c20Env{cfg: cfg, r: r, model: model, keys: keys, dir: dir}
	c20Verification(env)
	c20RepoQuestions(env)
	t3 := time.Now()
	c20Histories(env)
	r.Note("wall: histories %.1fs", time.Since(t3).Seconds())
	r.Note("wall: envelope %.1fs, front matter %.1fs, verification %.1fs", t1.Sub(t0).Seconds(), t2.Sub(t1).Seconds(), time.Since(t2).Seconds())
	r.Exhaustive = false
	r.Note("keys are generated with crypto/rand and Encrypt draws its session key from crypto/rand: the sealed values differ from run to run even with the same VERIF_SEED; every violation's replay input carries the key material and the exact sealed string")
}

func init() { register("C20", runC20) }
