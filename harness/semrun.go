package main

import (
	"fmt"
	"os"
	"path/filepath"
	"regexp"
	"strconv"
	"strings"
	"time"

	"evylang.dev/evy/pkg/evaluator"
	"evylang.dev/evy/pkg/parser"
)

// Correspondence between the real evaluator and coq/Sem.v.

type SemEvent struct {
	Name   string
	Params []any // float64 | string | bool
}

type SemOpts struct {
	Input       []string
	StopAt      int // yield index at which the platform raises the stop flag; -1 = never
	FailFast    bool
	BeforeOnly  bool // model option: test the stop flag only before the yield (the code before the fix)
	Events      []SemEvent
	YieldBudget int
	Fuel        int
}

type SemPhase struct {
	Class   string   // outcome class
	Trace   []string // effects of this phase
	Yields  int      // cumulative
	Globals string   // canonical SX text
	Tests   string
}

type SemRun struct {
	ParseErr string
	Phases   []SemPhase // [0] = Eval, then one per event
	GoPanic  string
	Prog     *parser.Program
	Budget   bool
}

// ImplRun runs src on the real code.
func ImplRun(src string, o SemOpts) (out SemRun) {
	budget := o.YieldBudget
	if budget == 0 {
		budget = 300000
	}
	y := &budgetYielder{budget: budget}
	plat := &recPlatform{yielder: y, Input: append([]string(nil), o.Input...)}
	prog, err := safeParse(src)
	if err != nil {
		out.ParseErr = err.Error()
		return
	}
	out.Prog = prog
	ev := evaluator.NewEvaluator(plat)
	ev.TestInfo.FailFast = o.FailFast
	over := false
	y.onOver = func() { over = true; ev.Stopped = true }
	y.hook = func(n int) {
		if o.StopAt >= 0 && n == o.StopAt {
			ev.Stopped = true
		}
	}
	mark := 0
	phase := func(f func() error) (ok bool) {
		defer func() {
			if r := recover(); r != nil {
				out.GoPanic = fmt.Sprint(r)
				out.Phases = append(out.Phases, SemPhase{Class: "gopanic", Trace: append([]string(nil), plat.Trace[mark:]...), Yields: y.n})
				ok = false
			}
		}()
		err := f()
		cls := classifyErr(err)
		if over && cls == "stopped" {
			cls = "budget"
			out.Budget = true
		}
		gs := ""
		if cls != "budget" { // a run cut off by the yield / memory budget is skipped: do not dump (possibly huge) globals
			g, _ := ParseSX(ev.VerifGlobalsSX())
			gs = g.String()
		}
		out.Phases = append(out.Phases, SemPhase{Class: cls, Trace: append([]string(nil), plat.Trace[mark:]...), Yields: y.n,
			Globals: gs, Tests: fmt.Sprintf("%d/%d", ev.TestInfo.TotalCount(), ev.TestInfo.FailCount())})
		mark = len(plat.Trace)
		return true
	}
	if !phase(func() error { return ev.Eval(prog) }) {
		return
	}
	for _, e := range o.Events {
		e := e
		if _, has := prog.EventHandlers[e.Name]; !has {
			continue
		}
		if !phase(func() error { return ev.HandleEvent(evaluator.Event{Name: e.Name, Params: e.Params}) }) {
			return
		}
	}
	return
}

func semCaseSX(prog *parser.Program, o SemOpts) (SX, error) {
	p, err := ExportProgram(prog)
	if err != nil {
		return SX{}, err
	}
	stop := Sym("nil")
	if o.StopAt >= 0 {
		stop = Int(int64(o.StopAt))
	}
	inp := []SX{}
	for _, l := range o.Input {
		inp = append(inp, Str(l))
	}
	evs := []SX{}
	for _, e := range o.Events {
		if _, has := prog.EventHandlers[e.Name]; !has {
			continue
		}
		l := []SX{Str(e.Name)}
		for _, p := range e.Params {
			switch v := p.(type) {
			case float64:
				l = append(l, Lst(Sym("num"), Float(v)))
			case string:
				l = append(l, Str(v))
			case bool:
				l = append(l, Bool(v))
			}
		}
		evs = append(evs, LstOf(l))
	}
	fuel := o.Fuel
	if fuel == 0 {
		fuel = 4000
	}
	return Lst(p, stop, LstOf(inp), Bool(o.FailFast), Bool(!o.BeforeOnly), Int(int64(fuel)), LstOf(evs)), nil
}

func fmtFloat(bits string) string {
	u, _ := strconv.ParseUint(bits, 10, 64)
	return strconv.FormatFloat(float64frombits(u), 'f', -1, 64)
}

// modelPhase converts one (outcome trace yields globals tests) result of Sem.sem_case.
func modelPhase(x SX, input *[]string) (SemPhase, error) {
	if x.Kind != "lst" || len(x.L) != 5 {
		return SemPhase{}, fmt.Errorf("bad model phase %s", x.String())
	}
	var ph SemPhase
	o := x.L[0]
	switch {
	case o.Kind == "sym":
		ph.Class = map[string]string{"ok": "ok", "tests-failed": "test", "testfail": "test", "stopped": "stopped", "outoffuel": "outoffuel"}[o.S]
	case o.Kind == "lst" && len(o.L) == 2:
		switch o.L[0].S {
		case "panic":
			if o.L[1].Kind == "sym" {
				ph.Class = "panic:" + o.L[1].S
			} else {
				ph.Class = "panic:user"
			}
		case "exit":
			ph.Class = "exit:" + o.L[1].S
		case "internal":
			ph.Class = "internal"
		case "hostcrash":
			ph.Class = "gopanic"
		case "needoracle":
			ph.Class = "needoracle:" + o.L[1].S
		case "unsupported":
			ph.Class = "unsupported:" + o.L[1].S
		}
	}
	if ph.Class == "" {
		return ph, fmt.Errorf("bad model outcome %s", o.String())
	}
	for _, e := range x.L[1].L {
		switch e.L[0].S {
		case "print":
			var b strings.Builder
			for _, p := range e.L[1:] {
				if p.Kind == "str" {
					b.WriteString(p.S)
				} else {
					b.WriteString(fmtFloat(p.L[1].S))
				}
			}
			ph.Trace = append(ph.Trace, "print:"+b.String())
		case "read":
			if len(*input) == 0 {
				ph.Trace = append(ph.Trace, "read:<eof>")
			} else {
				ph.Trace = append(ph.Trace, "read:"+(*input)[0])
				*input = (*input)[1:]
			}
		case "cls":
			ph.Trace = append(ph.Trace, "cls")
		case "sleep":
			ph.Trace = append(ph.Trace, "sleep:"+e.L[1].S)
		case "gfx":
			s := e.L[1].S
			for _, n := range e.L[2].L {
				u, _ := strconv.ParseUint(n.S, 10, 64)
				s += fmt.Sprintf(":%x", u)
			}
			for _, t := range e.L[3].L {
				s += ":" + t.S
			}
			ph.Trace = append(ph.Trace, s)
		}
	}
	ph.Yields, _ = strconv.Atoi(x.L[2].S)
	ph.Globals = x.L[3].String()
	ph.Tests = x.L[4].L[0].S + "/" + x.L[4].L[1].S
	return ph, nil
}

// SemDiff is the verdict of one correspondence case.
type SemDiff struct {
	Skipped string // non-empty: why the case could not be compared
	Diff    string // non-empty: first difference
	Impl    SemRun
	Model   []SemPhase
}

var needRe = regexp.MustCompile(`^(needoracle|unsupported)`)

// SemCompare runs src on both sides and compares outcome class, effect trace,
// yield count, test counters and the structural globals dump per phase.
func SemCompare(model *Model, src string, o SemOpts, compareYields bool) SemDiff {
	var d SemDiff
	d.Impl = ImplRun(src, o)
	if d.Impl.ParseErr != "" {
		d.Skipped = "parse-error"
		return d
	}
	if d.Impl.Budget {
		d.Skipped = "budget"
		return d
	}
	// the extracted model represents strings as lists of code points and is orders of magnitude slower than the
	// evaluator on bulk data: runs whose observable data exceeds 2 MB are not sent to it (counted as skipped)
	bulk := 0
	for _, ph := range d.Impl.Phases {
		bulk += len(ph.Globals)
		for _, t := range ph.Trace {
			bulk += len(t)
		}
	}
	if bulk > 2<<20 {
		d.Skipped = "model-resource:bulk-data"
		return d
	}
	c, err := semCaseSX(d.Impl.Prog, o)
	if err != nil {
		d.Skipped = "export:" + err.Error()
		return d
	}
	ans, err := model.AskT(c.String(), 20*time.Second)
	if err == ErrModelTimeout {
		d.Skipped = "model-resource:timeout"
		return d
	}
	if err != nil {
		d.Diff = "model process failed: " + err.Error()
		return d
	}
	if ans == "model-stack-overflow" || ans == "model-out-of-memory" {
		// the extracted OCaml code ran out of stack / memory on this input: nothing was compared (counted, not a difference)
		d.Skipped = "model-resource:" + strings.TrimPrefix(ans, "model-")
		return d
	}
	mx, err := ParseSX(ans)
	if err != nil || mx.Kind != "lst" {
		d.Diff = "model answer: " + ans
		if len(d.Diff) > 300 {
			d.Diff = d.Diff[:300]
		}
		return d
	}
	input := append([]string(nil), o.Input...)
	for _, px := range mx.L {
		ph, err := modelPhase(px, &input)
		if err != nil {
			d.Diff = err.Error()
			return d
		}
		d.Model = append(d.Model, ph)
	}
	for i, ip := range d.Impl.Phases {
		if i >= len(d.Model) {
			d.Diff = fmt.Sprintf("phase %d missing in model", i)
			return d
		}
		mp := d.Model[i]
		if needRe.MatchString(mp.Class) || mp.Class == "outoffuel" {
			// the model left its subset: what it did so far must still be a prefix
			if len(mp.Trace) > len(ip.Trace) || strings.Join(mp.Trace, "\x1e") != strings.Join(ip.Trace[:len(mp.Trace)], "\x1e") {
				d.Diff = fmt.Sprintf("phase %d: model trace before %s is not a prefix of the implementation's", i, mp.Class)
				return d
			}
			d.Skipped = mp.Class
			return d
		}
		if ip.Class != mp.Class {
			d.Diff = fmt.Sprintf("phase %d: outcome impl=%s model=%s", i, ip.Class, mp.Class)
			return d
		}
		if strings.Join(ip.Trace, "\x1e") != strings.Join(mp.Trace, "\x1e") {
			d.Diff = fmt.Sprintf("phase %d: effect traces differ", i)
			return d
		}
		if compareYields && ip.Yields != mp.Yields {
			d.Diff = fmt.Sprintf("phase %d: yield count impl=%d model=%d", i, ip.Yields, mp.Yields)
			return d
		}
		if ip.Class != "gopanic" && ip.Globals != mp.Globals {
			d.Diff = fmt.Sprintf("phase %d: globals dump differs", i)
			return d
		}
		if ip.Class != "gopanic" && ip.Tests != mp.Tests {
			d.Diff = fmt.Sprintf("phase %d: test counters impl=%s model=%s", i, ip.Tests, mp.Tests)
			return d
		}
		if ip.Class == "gopanic" {
			return d
		}
	}
	return d
}

// ---------- corpus ----------

var evyBlockRe = regexp.MustCompile("(?s)```evy\n(.*?)```")

// CorpusPrograms returns the evy programs found in /repo: docs code blocks and *.evy files.
func CorpusPrograms() []string {
	var out []string
	seen := map[string]bool{}
	add := func(s string) {
		if !seen[s] && len(s) < 20000 {
			seen[s] = true
			out = append(out, s)
		}
	}
	for _, f := range []string{"docs/spec.md", "docs/builtins.md", "docs/syntax-by-example.md"} {
		b, err := os.ReadFile(filepath.Join("/repo", f))
		if err != nil {
			continue
		}
		for _, m := range evyBlockRe.FindAllStringSubmatch(string(b), -1) {
			add(m[1])
		}
	}
	filepath.Walk("/repo", func(p string, info os.FileInfo, err error) error {
		if err != nil {
			return nil
		}
		if info.IsDir() && (info.Name() == ".git" || info.Name() == "node_modules") {
			return filepath.SkipDir
		}
		if strings.HasSuffix(p, ".evy") {
			if b, err := os.ReadFile(p); err == nil {
				add(string(b))
			}
		}
		return nil
	})
	return out
}

// safeParse runs parser.Parse under recover; a Go panic inside the parser is
// reported as an error whose text starts with "gopanic:".
func safeParse(src string) (prog *parser.Program, err error) {
	defer func() {
		if r := recover(); r != nil {
			prog, err = nil, fmt.Errorf("gopanic: %v", r)
		}
	}()
	return parser.Parse(src, evaluator.BuiltinDecls())
}
