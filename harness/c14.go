package main

import (
	"fmt"
	"strings"
	"time"
)

// C14 — interruptibility: for every generated program and EVERY yield index k
// of its run (exhaustive per program up to a cap) the platform raises the stop
// flag during yield k; implementation and model must agree, and the property's
// own oracle is evaluated on the implementation: result "stopped", nothing
// evaluated after the raise, effects a prefix of the uninterrupted run.

var c14Templates = []string{
	"while true\n    print 1\nend\n",
	"i := 0\nwhile true\n    i = i + 1\nend\n",
	"func f\n    f\nend\nfor i := range 3\n    print i\nend\nprint \"done\"\n",
	"func spin n:num\n    while n > 0\n        n = n - 1\n    end\nend\nspin 5\nprint \"a\"\nspin 3\nprint \"b\"\n",
	"for c := range \"abc\"\n    for j := range 2\n        print c j\n    end\nend\n",
	"m := {a:1 b:2}\nfor k := range m\n    print k m[k]\nend\ntest 1 1\ntest 1 2\nprint \"end\"\n",
	"x := read\nprint x\ncls\nsleep 0.001\nmove 1 2\nline 3 4\nprint \"z\"\n",
}

func c14IsSummary(s string) bool {
	return strings.HasPrefix(s, "print:✅") || strings.HasPrefix(s, "print:❌")
}

func c14Program(model *Model, r *Result, src string, maxK int, cfg Config) {
	base := ImplRun(src, SemOpts{StopAt: -1, YieldBudget: 4000, Input: []string{"in1", "in2"}})
	if base.ParseErr != "" {
		r.Dist("parse-error")
		return
	}
	if len(base.Phases) == 0 {
		return
	}
	Y := base.Phases[0].Yields
	if base.Phases[0].Class == "gopanic" {
		r.Dist("gopanic-base")
		return
	}
	r.Dist("base:" + strings.SplitN(base.Phases[0].Class, ":", 2)[0])
	ks := []int{}
	if Y <= maxK {
		for k := 0; k < Y; k++ {
			ks = append(ks, k)
		}
	} else {
		for i := 0; i < maxK; i++ {
			if i < maxK/2 {
				ks = append(ks, i)
			} else {
				ks = append(ks, cfg.Rng.Intn(Y))
			}
		}
	}
	full := base.Phases[0].Trace
	for _, k := range ks {
		// the stop runs get a larger yield budget than the base run, so that a stop at the base run's last yields
		// (a program that exhausts the budget) is never confused with the budget cut-off itself
		o := SemOpts{StopAt: k, YieldBudget: 8000, Input: []string{"in1", "in2"}}
		d := semCase(model, r, src, o, true, "")
		if len(d.Impl.Phases) == 0 {
			continue
		}
		ph := d.Impl.Phases[0]
		in := map[string]any{"program": src, "stop_at": k, "input": o.Input}
		// property oracle on the implementation
		if ph.Class != "stopped" {
			r.Violate(Violation{Kind: "property", Key: "stop-not-reported:" + strings.SplitN(ph.Class, ":", 2)[0],
				Detail: fmt.Sprintf("stop flag raised during yield %d of %d but Eval returned %q instead of ErrStopped", k, Y, ph.Class), Input: in, Impl: ph})
			continue
		}
		tr := ph.Trace
		if n := len(tr); n > 0 && c14IsSummary(tr[n-1]) {
			tr = tr[:n-1]
		}
		if len(tr) > len(full) || strings.Join(tr, "\x1e") != strings.Join(full[:len(tr)], "\x1e") {
			r.Violate(Violation{Kind: "property", Key: "stopped-trace-not-prefix",
				Detail: "effects of the stopped run are not a prefix of the uninterrupted run", Input: in, Impl: map[string]any{"stopped": ph.Trace, "full": full}})
			continue
		}
		if ph.Yields != k+1 {
			r.Violate(Violation{Kind: "property", Key: "evaluation-continued-after-stop",
				Detail: fmt.Sprintf("stop raised during yield %d but the run went on to %d yields", k, ph.Yields), Input: in, Impl: ph})
		}
	}
	// effects after the raise: the trace at the moment of the raise must be final (checked through a hook)
}

// c14EffectsAfterStop re-runs src with a hook that remembers the trace length when the flag is raised.
func c14EffectsAfterStop(r *Result, src string, k int) {
	var atRaise = -1
	y := &budgetYielder{budget: 4000}
	plat := &recPlatform{yielder: y, Input: []string{"in1", "in2"}}
	prog, err := safeParse(src)
	if err != nil {
		return
	}
	ev := newEvaluatorFor(plat)
	y.onOver = func() { ev.Stopped = true }
	y.hook = func(n int) {
		if n == k {
			ev.Stopped = true
			atRaise = len(plat.Trace)
		}
	}
	func() {
		defer func() { recover() }()
		ev.Eval(prog)
	}()
	if atRaise < 0 {
		return
	}
	rest := plat.Trace[atRaise:]
	if len(rest) > 0 && c14IsSummary(rest[len(rest)-1]) {
		rest = rest[:len(rest)-1]
	}
	r.Evaluations++
	if len(rest) > 0 {
		r.Violate(Violation{Kind: "property", Key: "effect-after-stop",
			Detail: fmt.Sprintf("after the stop flag was raised during yield %d the program still performed %v", k, rest),
			Input:  map[string]any{"program": src, "stop_at": k}})
	}
}

func runC14(cfg Config, r *Result) {
	model := startSem(r)
	if model == nil {
		return
	}
	defer model.Close()
	r.Rule = "for each program (fixed templates incl. endless loops and recursion, then random typed programs with functions/loops/tests/effects) the run is stopped at EVERY yield index k (all k when the run has <= cap yields, else the first cap/2 and random others): implementation vs model (outcome, trace, yield count, globals) and the property oracle on the implementation (ErrStopped, no yield after the raise, no effect after the raise, trace prefix of the uninterrupted run); distinct = distinct (program,k); every case is non-trivial (a stop is injected)"
	if in, ok := replayInput(cfg); ok {
		k := int(in["stop_at"].(float64))
		semCase(model, r, in["program"].(string), SemOpts{StopAt: k, YieldBudget: 8000, Input: []string{"in1", "in2"}}, true, "")
		c14EffectsAfterStop(r, in["program"].(string), k)
		return
	}
	maxK := cfg.N(40, 200)
	for _, t := range c14Templates {
		c14Program(model, r, t, maxK, cfg)
		for k := 0; k < 25; k++ {
			c14EffectsAfterStop(r, t, k)
		}
	}
	n := cfg.N(60, 1500)
	for i := 0; i < n; i++ {
		src, _, _ := GenProgram(cfg.Rng, GenOpts{MaxStmts: 6, MaxDepth: 1, Funcs: true, Tests: true, Gfx: true, Reads: true, MapLitPure: false})
		c14Program(model, r, src, maxK, cfg)
		for j := 0; j < 6; j++ {
			c14EffectsAfterStop(r, src, cfg.Rng.Intn(60))
		}
		if i < 3 {
			r.Sample(map[string]any{"program": src})
		}
	}
	// liveness: an endless program keeps yielding (it reaches the yield budget instead of hanging)
	for _, t := range c14Templates[:3] {
		done := make(chan SemRun, 1)
		go func() { done <- ImplRun(t, SemOpts{StopAt: -1, YieldBudget: 20000}) }()
		select {
		case out := <-done:
			r.Evaluations++
			if !out.Budget && len(out.Phases) > 0 && out.Phases[0].Class != "gopanic" {
				r.Note("template terminated: %q", t)
			}
		case <-time.After(20 * time.Second):
			r.Violate(Violation{Kind: "property", Key: "no-yield-in-endless-program", Detail: "an endless program ran 20 s without yielding 20000 times", Input: map[string]any{"program": t}})
			return
		}
	}
}

func init() { register("C14", runC14) }
