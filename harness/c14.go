package main

import (
	"fmt"
	"math/rand"
	"strings"
	"time"

	"evylang.dev/evy/pkg/evaluator"
)

// C14 — interruptibility: for every generated program and EVERY yield index k
// of its run (exhaustive per program up to a cap) the platform raises the stop
// flag during yield k; implementation and model must agree, and the property's
// own oracle is evaluated on the implementation: result "stopped", nothing
// evaluated after the raise, effects a prefix of the uninterrupted run.

var c14Templates = []string{
	"while true\n    print 1\nend\n",
	"i := 0\nwhile true\n    i = i + 1\nend\n",
	"func f\n    f\nend\nfor i := range 3\n    print i\nend\nprint \"done\"\n",
	"func spin n:num\n    while n > 0\n        n = n - 1\n    end\nend\nspin 5\nprint \"a\"\nspin 3\nprint \"b\"\n",
	"for c := range \"abc\"\n    for j := range 2\n        print c j\n    end\nend\n",
	"m := {a:1 b:2}\nfor k := range m\n    print k m[k]\nend\ntest 1 1\ntest 1 2\nprint \"end\"\n",
	"x := read\nprint x\ncls\nsleep 0.001\nmove 1 2\nline 3 4\nprint \"z\"\n",
}

// c14Runaway reports a run that the harness had to abort by force: the yield budget raised the stop flag and the
// evaluator went on evaluating (budgetYielder's runawayGrace).
func c14Runaway(r *Result, run SemRun, in map[string]any) {
	if strings.HasPrefix(run.GoPanic, "harness: run not interruptible") {
		r.Violate(Violation{Kind: "property", Key: "not-interruptible",
			Detail: fmt.Sprintf("the stop flag raised at the yield budget was ignored (phase %d of the history): %s", len(run.Phases)-1, run.GoPanic), Input: in})
	}
}

func c14IsSummary(s string) bool {
	return strings.HasPrefix(s, "print:✅") || strings.HasPrefix(s, "print:❌")
}

func c14Program(model *Model, r *Result, src string, maxK int, cfg Config) {
	base := ImplRun(src, SemOpts{StopAt: -1, YieldBudget: 4000, Input: []string{"in1", "in2"}})
	if base.ParseErr != "" {
		r.Dist("parse-error")
		return
	}
	if len(base.Phases) == 0 {
		return
	}
	Y := base.Phases[0].Yields
	if base.Phases[0].Class == "gopanic" {
		r.Dist("gopanic-base")
		c14Runaway(r, base, map[string]any{"program": src, "stop_at": -1, "input": []string{"in1", "in2"}})
		return
	}
	r.Dist("base:" + strings.SplitN(base.Phases[0].Class, ":", 2)[0])
	ks := []int{}
	if Y <= maxK {
		for k := 0; k < Y; k++ {
			ks = append(ks, k)
		}
	} else {
		for i := 0; i < maxK; i++ {
			if i < maxK/2 {
				ks = append(ks, i)
			} else {
				ks = append(ks, cfg.Rng.Intn(Y))
			}
		}
	}
	full := base.Phases[0].Trace
	for _, k := range ks {
		// the stop runs get a larger yield budget than the base run, so that a stop at the base run's last yields
		// (a program that exhausts the budget) is never confused with the budget cut-off itself
		o := SemOpts{StopAt: k, YieldBudget: 8000, Input: []string{"in1", "in2"}}
		d := semCase(model, r, src, o, true, "")
		if len(d.Impl.Phases) == 0 {
			continue
		}
		ph := d.Impl.Phases[0]
		in := map[string]any{"program": src, "stop_at": k, "input": o.Input}
		// property oracle on the implementation
		if ph.Class != "stopped" {
			r.Violate(Violation{Kind: "property", Key: "stop-not-reported:" + strings.SplitN(ph.Class, ":", 2)[0],
				Detail: fmt.Sprintf("stop flag raised during yield %d of %d but Eval returned %q instead of ErrStopped", k, Y, ph.Class), Input: in, Impl: ph})
			continue
		}
		tr := ph.Trace
		if n := len(tr); n > 0 && c14IsSummary(tr[n-1]) {
			tr = tr[:n-1]
		}
		if len(tr) > len(full) || strings.Join(tr, "\x1e") != strings.Join(full[:len(tr)], "\x1e") {
			r.Violate(Violation{Kind: "property", Key: "stopped-trace-not-prefix",
				Detail: "effects of the stopped run are not a prefix of the uninterrupted run", Input: in, Impl: map[string]any{"stopped": ph.Trace, "full": full}})
			continue
		}
		if ph.Yields != k+1 {
			r.Violate(Violation{Kind: "property", Key: "evaluation-continued-after-stop",
				Detail: fmt.Sprintf("stop raised during yield %d but the run went on to %d yields", k, ph.Yields), Input: in, Impl: ph})
		}
	}
	// effects after the raise: the trace at the moment of the raise must be final (checked through a hook)
}

// c14EffectsAfterStop re-runs src (and then delivers evs through HandleEvent) with a hook that remembers the trace
// length when the flag is raised.
func c14EffectsAfterStop(r *Result, src string, k int, evs ...SemEvent) {
	var atRaise = -1
	y := &budgetYielder{budget: 4000}
	plat := &recPlatform{yielder: y, Input: []string{"in1", "in2"}}
	prog, err := safeParse(src)
	if err != nil {
		return
	}
	ev := newEvaluatorFor(plat)
	y.onOver = func() { ev.Stopped = true }
	y.hook = func(n int) {
		if n == k {
			ev.Stopped = true
			atRaise = len(plat.Trace)
		}
	}
	func() {
		defer func() { recover() }()
		ev.Eval(prog)
		for _, e := range evs {
			if _, has := prog.EventHandlers[e.Name]; has {
				ev.HandleEvent(evaluator.Event{Name: e.Name, Params: e.Params})
			}
		}
	}()
	if atRaise < 0 {
		return
	}
	rest := plat.Trace[atRaise:]
	if len(rest) > 0 && c14IsSummary(rest[len(rest)-1]) {
		rest = rest[:len(rest)-1]
	}
	r.Evaluations++
	if len(rest) > 0 {
		if len(rest) > 5 {
			rest = append(rest[:5:5], fmt.Sprintf("… (%d more)", len(rest)-5))
		}
		r.Violate(Violation{Kind: "property", Key: "effect-after-stop",
			Detail: fmt.Sprintf("after the stop flag was raised during yield %d the program still performed %v", k, rest),
			Input:  map[string]any{"program": src, "stop_at": k, "events": evs}})
	}
}

// ---------- stop requests that arrive while an event handler runs ----------

// c14EventTemplates: handlers with loops (bounded, endless, nested, through a called function) and effects of every
// kind, each with an event history. The main program finishes normally; every stop lands inside a handler.
var c14EventTemplates = []struct {
	src string
	evs []SemEvent
}{
	{"n := 0\non key k:string\n    for i := range 3\n        n = n + 1\n        print \"key\" k i n\n    end\nend\nprint \"main\" n\n",
		[]SemEvent{{"key", []any{"a"}}, {"key", []any{"ä"}}}},
	{"on animate t:num\n    while true\n        print \"tick\" t\n    end\nend\nprint \"main\"\n",
		[]SemEvent{{"animate", []any{16.0}}, {"animate", []any{32.0}}}},
	{"c := 0\non animate\n    while true\n        c = c + 1\n    end\nend\n",
		[]SemEvent{{"animate", []any{1.0}}}},
	{"func spin n:num\n    while n > 0\n        n = n - 1\n    end\nend\non down x:num y:num\n    spin 4\n    move x y\n    spin 2\n    line y x\n    print \"down\"\nend\non up\n    print \"up\"\n    cls\nend\nspin 2\n",
		[]SemEvent{{"down", []any{3.0, 4.5}}, {"up", []any{3.0, 4.5}}, {"down", []any{0.0, 1.0}}}},
	{"m := {a:1 b:2}\ntotal := 0\non input id:string val:string\n    for k := range m\n        for c := range val\n            total = total + m[k]\n            print id k c total\n        end\n    end\n    x := read\n    print x\n    sleep 0.001\nend\nprint total\n",
		[]SemEvent{{"input", []any{"s1", "xy"}}, {"input", []any{"s2", "日本"}}}},
	{"func rec n:num\n    if n > 0\n        print n\n        rec n-1\n    end\nend\non key k:string\n    rec 4\n    test 1 1\n    test k \"a\"\n    print \"after\"\nend\non move x:num _:num\n    while x < 3\n        x = x + 1\n        circle x\n    end\nend\n",
		[]SemEvent{{"key", []any{"a"}}, {"move", []any{0.0, 0.0}}, {"key", []any{"b"}}, {"move", []any{1.0, 0.0}}}},
}

func c14Events(in map[string]any) []SemEvent {
	var evs []SemEvent
	l, _ := in["events"].([]any)
	for _, x := range l {
		m, ok := x.(map[string]any)
		if !ok {
			continue
		}
		name, _ := m["Name"].(string)
		ps, _ := m["Params"].([]any)
		evs = append(evs, SemEvent{Name: name, Params: ps})
	}
	return evs
}

// c14EventProgram: the main program runs to its end, then the events are delivered; the stop flag is raised during
// yield k for every k (up to a cap) that lies INSIDE an event handler. Implementation vs model on the whole history,
// and the property oracle per phase: the handler in which the stop lands returns ErrStopped after exactly that yield,
// its effects are a prefix of the uninterrupted handler's, the phases before it are untouched and nothing at all is
// evaluated for later events.
func c14EventProgram(model *Model, r *Result, src string, evs []SemEvent, maxK int, cfg Config) {
	input := []string{"in1", "in2"}
	base := ImplRun(src, SemOpts{StopAt: -1, Events: evs, YieldBudget: 4000, Input: input})
	if base.ParseErr != "" {
		r.Dist("events:parse-error")
		return
	}
	if len(base.Phases) < 2 || base.Phases[0].Class != "ok" {
		r.Dist("events:no-handler-run")
		return
	}
	// the phases up to the first one cut off by the budget (an endless handler)
	ph := base.Phases
	for i, p := range ph {
		if p.Class == "gopanic" {
			r.Dist("events:gopanic-base")
			c14Runaway(r, base, map[string]any{"program": src, "stop_at": -1, "events": evs, "input": input})
			return
		}
		if p.Class == "budget" {
			ph = ph[:i+1]
			break
		}
	}
	Y0, Y := ph[0].Yields, ph[len(ph)-1].Yields
	if Y <= Y0 {
		return
	}
	r.Dist("events:base:" + strings.SplitN(ph[len(ph)-1].Class, ":", 2)[0])
	ks := []int{}
	if Y-Y0 <= maxK {
		for k := Y0; k < Y; k++ {
			ks = append(ks, k)
		}
	} else {
		seen := map[int]bool{}
		add := func(k int) {
			if k >= Y0 && k < Y && !seen[k] {
				seen[k] = true
				ks = append(ks, k)
			}
		}
		for i := 1; i < len(ph); i++ { // first two and last two yields of every handler run
			add(ph[i-1].Yields)
			add(ph[i-1].Yields + 1)
			add(ph[i].Yields - 2)
			add(ph[i].Yields - 1)
		}
		for len(ks) < maxK {
			add(Y0 + cfg.Rng.Intn(Y-Y0))
		}
	}
	for _, k := range ks {
		o := SemOpts{StopAt: k, Events: evs, YieldBudget: 8000, Input: input}
		d := semCase(model, r, src, o, true, "events:")
		got := d.Impl.Phases
		in := map[string]any{"program": src, "stop_at": k, "events": evs, "input": input}
		p := 1
		for p < len(ph) && ph[p].Yields <= k {
			p++
		}
		if len(got) <= p || p >= len(ph) {
			continue
		}
		r.Dist("events:stop-in-handler")
		bad := false
		for i := 0; i < p; i++ {
			if got[i].Class != ph[i].Class || joinLines(got[i].Trace) != joinLines(ph[i].Trace) {
				r.Violate(Violation{Kind: "property", Key: "handler-stop:earlier-phase-changed",
					Detail: fmt.Sprintf("stop raised during yield %d (inside the handler of delivered event %d) but phase %d already differs from the uninterrupted run", k, p, i), Input: in, Impl: got})
				bad = true
				break
			}
		}
		if bad {
			continue
		}
		hp := got[p]
		if hp.Class != "stopped" {
			r.Violate(Violation{Kind: "property", Key: "handler-stop-not-reported:" + strings.SplitN(hp.Class, ":", 2)[0],
				Detail: fmt.Sprintf("stop flag raised during yield %d, inside the handler of delivered event %d (yields %d..%d), but HandleEvent returned %q instead of ErrStopped", k, p, ph[p-1].Yields, ph[p].Yields-1, hp.Class),
				Input:  in, Impl: got})
			continue
		}
		if hp.Yields != k+1 {
			r.Violate(Violation{Kind: "property", Key: "handler-evaluation-continued-after-stop",
				Detail: fmt.Sprintf("stop raised during yield %d inside an event handler but the handler went on to %d yields", k, hp.Yields), Input: in, Impl: got})
			continue
		}
		full := ph[p].Trace
		if len(hp.Trace) > len(full) || joinLines(hp.Trace) != joinLines(full[:len(hp.Trace)]) {
			r.Violate(Violation{Kind: "property", Key: "handler-stopped-trace-not-prefix",
				Detail: "effects of the stopped handler are not a prefix of the uninterrupted handler's", Input: in, Impl: map[string]any{"stopped": hp.Trace, "full": full}})
			continue
		}
		for i := p + 1; i < len(got); i++ {
			if got[i].Class != "stopped" || len(got[i].Trace) > 0 || got[i].Yields != k+1 {
				r.Violate(Violation{Kind: "property", Key: "event-handled-after-stop",
					Detail: fmt.Sprintf("after the stop (yield %d, delivered event %d) a later event was still evaluated: phase %d ended %q with %d effects, %d yields", k, p, i, got[i].Class, len(got[i].Trace), got[i].Yields),
					Input:  in, Impl: got})
				break
			}
		}
	}
}

// c14EventHistory draws a history for the handlers hs of a generated program: mostly events that have a handler.
func c14EventHistory(cfg Config, hs []string) []SemEvent {
	var evs []SemEvent
	names := []string{"key", "down", "up", "move", "animate", "input"}
	for j, ne := 0, 1+cfg.Rng.Intn(5); j < ne; j++ {
		name := names[cfg.Rng.Intn(len(names))]
		if len(hs) > 0 && cfg.Rng.Intn(4) > 0 {
			name = hs[cfg.Rng.Intn(len(hs))]
		}
		evs = append(evs, SemEvent{Name: name, Params: eventPayloads[name](cfg.Rng)})
	}
	return evs
}

// c14LoopHandlers: a generated main program plus handlers whose bodies are loops (bounded / endless / nested / in a
// called function) around effects and updates of globals.
func c14LoopHandlers(cfg Config) (string, []string) {
	rng := cfg.Rng
	var b strings.Builder
	b.WriteString("cnt := 0\nacc := \"\"\nfunc work n:num\n    for i := range n\n        cnt = cnt + i\n    end\nend\n")
	fmt.Fprintf(&b, "work %d\nprint \"main\" cnt acc\n", rng.Intn(4))
	sigs := map[string]string{"key": " k:string", "down": " x:num y:num", "up": " x:num _:num", "move": " _:num y:num", "animate": " t:num", "input": " id:string val:string"}
	uses := map[string]string{"key": "k", "down": "x y", "up": "x", "move": "y", "animate": "t", "input": "id val"}
	vars := map[string][2]string{"key": {"(len k)", "k"}, "down": {"x", "\"d\""}, "up": {"x", "\"u\""}, "move": {"y", "\"m\""}, "animate": {"t", "\"t\""}, "input": {"(len val)", "id"}}
	names := []string{"key", "down", "up", "move", "animate", "input"}
	var hs []string
	for _, i := range rng.Perm(len(names))[:1+rng.Intn(3)] {
		name := names[i]
		hs = append(hs, name)
		sig := sigs[name]
		num, str := vars[name][0], vars[name][1]
		use := uses[name]
		if rng.Intn(4) == 0 {
			sig, num, str, use = "", "cnt", "acc", ""
		}
		b.WriteString("on " + name + sig + "\n    print \"on\" " + use + "\n")
		effects := []string{"print \"" + name + "\" cnt " + str, "move cnt 1", "cnt = cnt + 1", "acc = acc + \"" + name[:1] + "\"", "work 2", "sleep 0.001", "circle 1", "cls"}
		eff := func(ind string) {
			for j, n := 0, 1+rng.Intn(2); j < n; j++ {
				b.WriteString(ind + effects[rng.Intn(len(effects))] + "\n")
			}
		}
		for j, n := 0, 1+rng.Intn(2); j < n; j++ {
			switch rng.Intn(6) {
			case 0: // endless
				b.WriteString("    while true\n")
				eff("        ")
				b.WriteString("    end\n")
			case 1:
				fmt.Fprintf(&b, "    for i := range %d\n", 1+rng.Intn(4))
				eff("        ")
				b.WriteString("        print i\n    end\n")
			case 2:
				fmt.Fprintf(&b, "    lim%d := %s + %d\n    while lim%d > 0\n        lim%d = lim%d - %d\n", j, num, rng.Intn(3), j, j, j, 1+rng.Intn(40))
				eff("        ")
				b.WriteString("    end\n")
			case 3:
				fmt.Fprintf(&b, "    for c := range (%s + \"é%d\")\n        for range %d\n", str, rng.Intn(10), 1+rng.Intn(2))
				eff("            ")
				b.WriteString("        end\n        print c\n    end\n")
			case 4:
				fmt.Fprintf(&b, "    work %d\n", 1+rng.Intn(5))
				eff("    ")
			default:
				eff("    ")
				fmt.Fprintf(&b, "    if cnt > %d\n        return\n    end\n", rng.Intn(6))
				eff("    ")
			}
		}
		b.WriteString("end\n")
	}
	return b.String(), hs
}

func runC14(cfg Config, r *Result) {
	model := startSem(r)
	if model == nil {
		return
	}
	defer model.Close()
	r.Rule = "for each program (fixed templates incl. endless loops and recursion, then random typed programs with functions/loops/tests/effects) the run is stopped at EVERY yield index k (all k when the run has <= cap yields, else the first cap/2 and random others): implementation vs model (outcome, trace, yield count, globals) and the property oracle on the implementation (ErrStopped, no yield after the raise, no effect after the raise, trace prefix of the uninterrupted run); distinct = distinct (program,k); every case is non-trivial (a stop is injected). Event histories (stream events:): fixed templates and generated programs whose handlers contain bounded, endless and nested loops, calls and effects; the main program runs to its end, the events are delivered through HandleEvent and the stop is raised at every yield k INSIDE a handler run (all k up to a cap, else the first and last two yields of every handler run and random others): implementation vs model over the whole history, and the oracle per phase (earlier phases untouched, the interrupted handler returns ErrStopped after exactly yield k with a prefix of its effects, no effect after the raise, later events evaluate nothing)"
	if in, ok := replayInput(cfg); ok {
		k := int(in["stop_at"].(float64))
		evs := c14Events(in)
		semCase(model, r, in["program"].(string), SemOpts{StopAt: k, Events: evs, YieldBudget: 8000, Input: []string{"in1", "in2"}}, true, "")
		c14EffectsAfterStop(r, in["program"].(string), k, evs...)
		if len(evs) > 0 {
			cfg.Rng = rand.New(rand.NewSource(1))
			c14EventProgram(model, r, in["program"].(string), evs, 1<<30, cfg)
		}
		return
	}
	maxK := cfg.N(40, 200)
	for _, t := range c14Templates {
		c14Program(model, r, t, maxK, cfg)
		for k := 0; k < 25; k++ {
			c14EffectsAfterStop(r, t, k)
		}
	}
	n := cfg.N(60, 1500)
	for i := 0; i < n; i++ {
		src, _, _ := GenProgram(cfg.Rng, GenOpts{MaxStmts: 6, MaxDepth: 1, Funcs: true, Tests: true, Gfx: true, Reads: true, MapLitPure: false})
		c14Program(model, r, src, maxK, cfg)
		for j := 0; j < 6; j++ {
			c14EffectsAfterStop(r, src, cfg.Rng.Intn(60))
		}
		if i < 3 {
			r.Sample(map[string]any{"program": src})
		}
	}
	// stop requests while an event handler runs
	maxKE := cfg.N(24, 120)
	for _, t := range c14EventTemplates {
		c14EventProgram(model, r, t.src, t.evs, maxKE, cfg)
		for k := 0; k < 60; k++ {
			c14EffectsAfterStop(r, t.src, k, t.evs...)
		}
	}
	for i, n := 0, cfg.N(70, 1500); i < n; i++ {
		var src string
		var hs []string
		if i%2 == 0 {
			src, hs = c14LoopHandlers(cfg)
		} else {
			src, hs, _ = GenProgram(cfg.Rng, GenOpts{MaxStmts: 4, MaxDepth: 1, Funcs: true, Handlers: true, Tests: true, Gfx: true, Reads: true, MapLitPure: false})
			if len(hs) == 0 {
				continue
			}
		}
		evs := c14EventHistory(cfg, hs)
		c14EventProgram(model, r, src, evs, maxKE, cfg)
		for j := 0; j < 6; j++ {
			c14EffectsAfterStop(r, src, cfg.Rng.Intn(120), evs...)
		}
		if i < 2 {
			r.Sample(map[string]any{"program": src, "events": evs})
		}
	}
	// liveness: an endless program keeps yielding (it reaches the yield budget instead of hanging)
	for _, t := range c14Templates[:3] {
		done := make(chan SemRun, 1)
		go func() { done <- ImplRun(t, SemOpts{StopAt: -1, YieldBudget: 20000}) }()
		select {
		case out := <-done:
			r.Evaluations++
			if !out.Budget && len(out.Phases) > 0 && out.Phases[0].Class != "gopanic" {
				r.Note("template terminated: %q", t)
			}
		case <-time.After(20 * time.Second):
			r.Violate(Violation{Kind: "property", Key: "no-yield-in-endless-program", Detail: "an endless program ran 20 s without yielding 20000 times", Input: map[string]any{"program": t}})
			return
		}
	}
}

func init() { register("C14", runC14) }
