package main

// C19: SVG output is well formed and shows exactly what was drawn.
//
// Random histories of graphics calls are run (a) on the real
// svg.GraphicsPlatform in-process and (b), for a subset, as evy programs
// through the real binary `evy run --svg-out`, and on the extracted Coq model
// (coq/Svg.v).  Oracles:
//   well-formedness   the output parses with encoding/xml (strict), one <svg> root
//   correspondence    the XML element tree equals the model's render tree
//   property          the flattened tree (attributes inherited from <g>/<svg>,
//                     numbers parsed to float64; flattening implemented here,
//                     independently of the model's) equals `spec` (intended
//                     meaning); differences are classified by stable keys
//   termination       histories with gridn units <= 0 run in a subprocess under
//                     timeout and ulimit -v
// A history is an S-expression list of commands; the same text is sent to the
// model, interpreted on the platform API, rendered as an evy program, and
// stored in replays.

import (
	"bytes"
	"encoding/json"
	"encoding/xml"
	"fmt"
	"io"
	"math"
	"math/rand"
	"os"
	"os/exec"
	"path/filepath"
	"regexp"
	"runtime"
	"runtime/debug"
	"sort"
	"strconv"
	"strings"
	"sync"
	"time"

	"evylang.dev/evy/pkg/cli/svg"
)

// ---------- generic XML-like tree ----------

type xnode struct {
	Tag   string            `json:"tag"`
	Attrs map[string]string `json:"attrs"` // canonical values: s:<text> f:<bits> fl:<bits,…> tf:<a b c>
	Kids  []*xnode          `json:"kids,omitempty"`
	Text  string            `json:"text,omitempty"`
}

func (n *xnode) canon() string {
	var b strings.Builder
	n.write(&b)
	return b.String()
}

func (n *xnode) write(b *strings.Builder) {
	b.WriteString("<" + n.Tag)
	ks := make([]string, 0, len(n.Attrs))
	for k := range n.Attrs {
		ks = append(ks, k)
	}
	sort.Strings(ks)
	for _, k := range ks {
		fmt.Fprintf(b, " %s=%q", k, n.Attrs[k])
	}
	b.WriteString(">")
	if n.Text != "" {
		fmt.Fprintf(b, "%q", n.Text)
	}
	for _, c := range n.Kids {
		c.write(b)
	}
	b.WriteString("</" + n.Tag + ">")
}

var c19Numeric = map[string]bool{"x": true, "y": true, "x1": true, "y1": true, "x2": true, "y2": true, "cx": true, "cy": true,
	"r": true, "rx": true, "ry": true, "stroke-width": true, "font-size": true, "font-weight": true, "letter-spacing": true}
var c19Paint = []string{"fill", "stroke", "stroke-width", "stroke-linecap", "stroke-dasharray"}
var c19Font = []string{"text-anchor", "dominant-baseline", "font-size", "font-weight", "font-style", "font-family", "letter-spacing"}
var c19Rotate = regexp.MustCompile(`^rotate\((\S+) (\S+) (\S+)\)$`)

func fbits(f float64) string { return fmt.Sprintf("f:%016x", canonBits(f)) }

func flCanon(fs []float64) string {
	parts := make([]string, len(fs))
	for i, f := range fs {
		parts[i] = fmt.Sprintf("%016x", canonBits(f))
	}
	return "fl:" + strings.Join(parts, ",")
}

// canonical value of an attribute as written in the SVG text
func c19CanonAttr(tag, name, val string) string {
	switch {
	case c19Numeric[name] || ((name == "width" || name == "height") && tag == "rect"):
		if f, err := strconv.ParseFloat(val, 64); err == nil {
			return fbits(f)
		}
		return "s:" + val
	case name == "points" || name == "stroke-dasharray":
		fields := strings.FieldsFunc(val, func(r rune) bool { return r == ' ' || r == ',' })
		fs := make([]float64, 0, len(fields))
		for _, fld := range fields {
			f, err := strconv.ParseFloat(fld, 64)
			if err != nil {
				return "s:" + val
			}
			fs = append(fs, f)
		}
		return flCanon(fs)
	case name == "transform":
		if m := c19Rotate.FindStringSubmatch(val); m != nil {
			return "tf:" + m[1] + " " + m[2] + " " + m[3]
		}
		return "s:" + val
	}
	return "s:" + val
}

// parseSVG parses the document strictly; error = not well formed.
func parseSVG(doc []byte) (*xnode, error) {
	dec := xml.NewDecoder(bytes.NewReader(doc))
	dec.Strict = true
	var stack []*xnode
	var root *xnode
	for {
		tok, err := dec.Token()
		if err == io.EOF {
			break
		}
		if err != nil {
			return nil, err
		}
		switch t := tok.(type) {
		case xml.StartElement:
			n := &xnode{Tag: t.Name.Local, Attrs: map[string]string{}}
			for _, a := range t.Attr {
				if a.Name.Space != "" || a.Name.Local == "xmlns" {
					continue
				}
				if _, dup := n.Attrs[a.Name.Local]; dup {
					return nil, fmt.Errorf("duplicate attribute %s", a.Name.Local)
				}
				n.Attrs[a.Name.Local] = a.Value
			}
			if len(stack) == 0 {
				if root != nil {
					return nil, fmt.Errorf("second root element")
				}
				root = n
			} else {
				p := stack[len(stack)-1]
				p.Kids = append(p.Kids, n)
			}
			stack = append(stack, n)
		case xml.EndElement:
			stack = stack[:len(stack)-1]
		case xml.CharData:
			if len(stack) > 0 && stack[len(stack)-1].Tag == "text" {
				stack[len(stack)-1].Text += string(t)
			} else if strings.TrimSpace(string(t)) != "" {
				return nil, fmt.Errorf("character data outside <text>: %q", string(t))
			}
		}
	}
	if root == nil || len(stack) != 0 {
		return nil, fmt.Errorf("no root element")
	}
	return root, nil
}

// canonTree turns raw attribute text into canonical values; on the root only
// the presentation attributes are kept (viewBox/style/width/height are checked separately).
func canonTree(n *xnode, isRoot bool) *xnode {
	m := &xnode{Tag: n.Tag, Attrs: map[string]string{}, Text: n.Text}
	for k, v := range n.Attrs {
		if isRoot && (k == "viewBox" || k == "style" || k == "width" || k == "height") {
			continue
		}
		m.Attrs[k] = c19CanonAttr(n.Tag, k, v)
	}
	for _, c := range n.Kids {
		m.Kids = append(m.Kids, canonTree(c, false))
	}
	return m
}

// SVG's initial values (see Svg.v initial_a / initial_t)
var c19Initial = map[string]string{
	"fill": "s:black", "stroke": "s:none", "stroke-width": fbits(1), "stroke-linecap": "s:butt",
	"text-anchor": "s:start", "dominant-baseline": "s:alphabetic", "font-size": fbits(16), "font-weight": fbits(400),
	"font-style": "s:normal", "letter-spacing": fbits(0),
}

// flattenTree resolves inherited presentation attributes: one node per leaf shape.
func flattenTree(root *xnode) []*xnode {
	var out []*xnode
	isPres := map[string]bool{}
	for _, k := range c19Paint {
		isPres[k] = true
	}
	for _, k := range c19Font {
		isPres[k] = true
	}
	var walk func(n *xnode, inh map[string]string)
	walk = func(n *xnode, inh map[string]string) {
		cur := map[string]string{}
		for k, v := range inh {
			cur[k] = v
		}
		for k, v := range n.Attrs {
			if isPres[k] {
				cur[k] = v
			}
		}
		if n.Tag == "svg" || n.Tag == "g" {
			for _, c := range n.Kids {
				walk(c, cur)
			}
			return
		}
		f := &xnode{Tag: n.Tag, Attrs: map[string]string{}, Text: n.Text}
		for k, v := range n.Attrs {
			if !isPres[k] {
				f.Attrs[k] = v
			}
		}
		keys := c19Paint
		if n.Tag == "text" {
			keys = append(append([]string{}, c19Paint...), c19Font...)
		}
		for _, k := range keys {
			if v, ok := cur[k]; ok {
				f.Attrs[k] = v
			} else if v, ok := c19Initial[k]; ok {
				f.Attrs[k] = v
			}
		}
		out = append(out, f)
	}
	walk(root, map[string]string{})
	return out
}

// ---------- model answer -> trees ----------

func sxNode(x SX) (*xnode, error) {
	if x.Kind != "lst" || len(x.L) != 4 {
		return nil, fmt.Errorf("bad node %s", x.String())
	}
	n := &xnode{Tag: x.L[0].S, Attrs: map[string]string{}, Text: x.L[3].S}
	for _, a := range x.L[1].L {
		if len(a.L) != 2 || len(a.L[1].L) < 1 {
			return nil, fmt.Errorf("bad attr %s", a.String())
		}
		name, v := a.L[0].S, a.L[1]
		var fs []float64
		for _, b := range v.L[1:] {
			if v.L[0].S == "s" {
				break
			}
			u, err := strconv.ParseUint(b.S, 10, 64)
			if err != nil {
				return nil, err
			}
			fs = append(fs, math.Float64frombits(u))
		}
		switch v.L[0].S {
		case "s":
			n.Attrs[name] = "s:" + v.L[1].S
		case "f":
			n.Attrs[name] = fbits(fs[0])
		case "fl":
			if name == "transform" && len(fs) == 3 {
				// number -> text oracle: the code prints the rotation with %f
				n.Attrs[name] = fmt.Sprintf("tf:%f %f %f", fs[0], fs[1], fs[2])
			} else {
				n.Attrs[name] = flCanon(fs)
			}
		}
	}
	for _, k := range x.L[2].L {
		c, err := sxNode(k)
		if err != nil {
			return nil, err
		}
		n.Kids = append(n.Kids, c)
	}
	return n, nil
}

func sxNodes(x SX) ([]*xnode, error) {
	out := []*xnode{}
	for _, y := range x.L {
		n, err := sxNode(y)
		if err != nil {
			return nil, err
		}
		out = append(out, n)
	}
	return out, nil
}

type c19Model struct {
	Hang, Rejected                  bool
	Brief                           bool // only Tree (of the variant asked for) is set
	Tree, TreeFixed                 *xnode
	Flat, SpecAsIs, Spec, FlatFixed []*xnode // Spec: the intended meaning (grid positions by the loop in force)
	SpecAll                         []*xnode // the specification of the model with every proposed fix
	RejectedAll                     bool
	Guard                           bool
}

const c19Fuel = 12000 // gridn 0.01 needs 10001 rounds

// c19UseFixed selects the model the implementation is compared with: the model
// in force (`cur` in Svg.v = /repo HEAD, default) or the model with every
// proposed fix (`all`; after the remaining diffs have been applied: C19_MODEL=fixed).
func c19UseFixed() bool { return os.Getenv("C19_MODEL") == "fixed" }

// a gridn unit below this draws more than 2000 lines: the model is then asked
// for its render tree only (encoding seven flattened copies takes seconds)
func cmdsLargeGrid(cmds []SX) bool {
	for _, c := range cmds {
		if c.L[0].S == "gridn" {
			if u := sxF(c.L[1]); u > 0 && u < 0.1 {
				return true
			}
		}
	}
	return false
}

func c19AskModel(model *Model, cmds []SX) (*c19Model, error) {
	q := Lst(Int(c19Fuel), LstOf(cmds))
	if cmdsLargeGrid(cmds) {
		which := "cur"
		if c19UseFixed() {
			which = "all"
		}
		q = Lst(Int(c19Fuel), LstOf(cmds), Sym(which))
	}
	ans, err := model.Ask(q.String())
	if err != nil {
		return nil, err
	}
	x, err := ParseSX(ans)
	if err != nil {
		return nil, fmt.Errorf("model output: %v", err)
	}
	if x.Kind == "lst" && len(x.L) == 4 && x.L[0].S == "brief" {
		m := &c19Model{Brief: true, Rejected: x.L[2].S == "true", RejectedAll: x.L[3].S == "true", Guard: true}
		if m.Tree, err = sxNode(x.L[1]); err != nil {
			return nil, err
		}
		m.TreeFixed = m.Tree
		return m, nil
	}
	if x.Kind == "lst" && len(x.L) == 3 && x.L[0].S == "hang" {
		return &c19Model{Hang: true, Rejected: x.L[1].S == "true", RejectedAll: x.L[2].S == "true"}, nil
	}
	if x.Kind != "lst" || len(x.L) != 11 || x.L[0].S != "ok" {
		return nil, fmt.Errorf("model output: %.200s", ans)
	}
	m := &c19Model{Guard: x.L[5].S == "true", Rejected: x.L[9].S == "true", RejectedAll: x.L[10].S == "true"}
	if m.SpecAll, err = sxNodes(x.L[8]); err != nil {
		return nil, err
	}
	if m.Tree, err = sxNode(x.L[1]); err != nil {
		return nil, err
	}
	if m.Flat, err = sxNodes(x.L[2]); err != nil {
		return nil, err
	}
	if m.SpecAsIs, err = sxNodes(x.L[3]); err != nil {
		return nil, err
	}
	if m.Spec, err = sxNodes(x.L[4]); err != nil {
		return nil, err
	}
	if m.TreeFixed, err = sxNode(x.L[6]); err != nil {
		return nil, err
	}
	if m.FlatFixed, err = sxNodes(x.L[7]); err != nil {
		return nil, err
	}
	return m, nil
}

func canonList(l []*xnode) string {
	parts := make([]string, len(l))
	for i, n := range l {
		parts[i] = n.canon()
	}
	return strings.Join(parts, "\n")
}

// ---------- commands ----------
// (move X Y) (line X Y) (rect W H) (circle R) (clear "c") (poly ((X Y)…)) (ellipse X Y RX RY ROT)
// (text "s") (gridn U "c") (width W) (color "c") (stroke "c") (fill "c") (dash (F…)) (linecap "c")
// (font ((key val)…))      numbers are float64 bit patterns

func sxF(x SX) float64 {
	u, _ := strconv.ParseUint(x.S, 10, 64)
	return math.Float64frombits(u)
}

// applyCmd performs the call on the real platform (what evaluator/builtin.go's wrappers do).
func applyCmd(rt *svg.GraphicsPlatform, c SX) {
	a := c.L
	switch a[0].S {
	case "move":
		rt.Move(sxF(a[1]), sxF(a[2]))
	case "line":
		rt.Line(sxF(a[1]), sxF(a[2]))
	case "rect":
		rt.Rect(sxF(a[1]), sxF(a[2]))
	case "circle":
		rt.Circle(sxF(a[1]))
	case "clear":
		rt.Clear(a[1].S)
	case "poly":
		vs := make([][]float64, len(a[1].L))
		for i, v := range a[1].L {
			vs[i] = []float64{sxF(v.L[0]), sxF(v.L[1])}
		}
		rt.Poly(vs)
	case "ellipse":
		rt.Ellipse(sxF(a[1]), sxF(a[2]), sxF(a[3]), sxF(a[4]), sxF(a[5]), 0, 360)
	case "text":
		rt.Text(a[1].S)
	case "gridn":
		rt.Gridn(sxF(a[1]), a[2].S)
	case "width":
		rt.Width(sxF(a[1]))
	case "color":
		rt.Color(a[1].S)
	case "stroke":
		rt.Stroke(a[1].S)
	case "fill":
		rt.Fill(a[1].S)
	case "linecap":
		rt.Linecap(a[1].S)
	case "dash":
		fs := make([]float64, len(a[1].L))
		for i, v := range a[1].L {
			fs[i] = sxF(v)
		}
		rt.Dash(fs)
	case "font":
		props := map[string]any{}
		for _, kv := range a[1].L {
			if kv.L[1].Kind == "str" {
				props[kv.L[0].S] = kv.L[1].S
			} else {
				props[kv.L[0].S] = sxF(kv.L[1])
			}
		}
		rt.Font(props)
	}
}

// gridnFunc (since 292a02f) rejects such a unit with ErrBadArguments; before, the loop never ended.
func gridUnitHangs(u float64) bool { return u <= 0 } // NaN: false (the loop ends after one round)

// c19MinGridUnit is the documented minimum of proposed_fixes/C19-gridn-tiny-unit.diff.
const c19MinGridUnit = 0.01

// a positive unit below the minimum: the accumulating loop of Gridn needs
// 1000/(10*unit) rounds (1e8 for 1e-6) or stalls for good once 10*unit is below
// the resolution of the loop variable (1e-17): such a call must be rejected
func gridUnitTiny(u float64) bool { return u > 0 && u < c19MinGridUnit }

var (
	c19BoundOnce sync.Once
	c19Bound     bool
)

// c19BoundInSource: has the gridn bound landed in the tree under test?
func c19BoundInSource() bool {
	c19BoundOnce.Do(func() {
		_, c19Bound = readMinGridUnit(filepath.Join(c19EvyRepoDir(), "pkg", "evaluator", "builtin.go"))
	})
	return c19Bound
}

func cmdsTiny(cmds []SX) (float64, bool) {
	for _, c := range cmds {
		if c.L[0].S == "gridn" {
			if u := sxF(c.L[1]); gridUnitTiny(u) {
				return u, true
			}
			if gridUnitHangs(sxF(c.L[1])) {
				return 0, false // rejected before the tiny one is reached
			}
		}
	}
	return 0, false
}

// with the bound: `if !(unit.V >= minGridUnit)` rejects small units, zero, negatives and NaN
func cmdsBelowMin(cmds []SX) bool {
	for _, c := range cmds {
		if c.L[0].S == "gridn" && !(sxF(c.L[1]) >= c19MinGridUnit) {
			return true
		}
	}
	return false
}

func cmdsHang(cmds []SX) bool {
	for _, c := range cmds {
		if c.L[0].S == "gridn" && gridUnitHangs(sxF(c.L[1])) {
			return true
		}
	}
	return false
}

// ---------- generator ----------

// numbers are drawn as evy source texts so that the evy program computes the same float64
type numTxt struct {
	src string
	v   float64
}

func c19Lit(s string) numTxt {
	v, err := strconv.ParseFloat(s, 64)
	if err != nil {
		panic(s)
	}
	return numTxt{s, v}
}

var c19Nice = []numTxt{c19Lit("0"), c19Lit("1"), c19Lit("2.5"), c19Lit("10"), c19Lit("33.3"), c19Lit("50"), c19Lit("75.25"), c19Lit("99"), c19Lit("100"), c19Lit("7"), c19Lit("0.1"), c19Lit("42")}
var c19Degenerate = []numTxt{
	c19Lit("0"), {"(0*(0-1))", math.Copysign(0, -1)}, {"(0-7)", -7}, {"(0-33.3)", -33.3}, {"(0/0)", math.NaN()}, {"(1/0)", math.Inf(1)}, {"(0-1/0)", math.Inf(-1)},
	c19Lit("1000000000000000000000000000000"), c19Lit("0.000000000000000000000000000001"), c19Lit("123456789.125"), c19Lit("150"),
}

func c19GenNum(rng *rand.Rand) numTxt {
	if rng.Intn(5) == 0 {
		return c19Degenerate[rng.Intn(len(c19Degenerate))]
	}
	return c19Nice[rng.Intn(len(c19Nice))]
}

func genPos(rng *rand.Rand) numTxt { // mostly positive sizes
	if rng.Intn(8) == 0 {
		return c19Degenerate[rng.Intn(len(c19Degenerate))]
	}
	return c19Nice[1+rng.Intn(len(c19Nice)-1)]
}

var c19Colors = []string{"red", "blue", "black", "white", "none", "green", "hsl(0deg 100% 0% / 50%)", "#ff00aa", "", "<b>&", "a\"b'c", " sp ", "é✓", "]]>", "black"}
var c19Texts = []string{"hello", "", "<b>&</b>", "a\nb\tc", " lead", "trail ", "“Time” é ✓", "<!-- x -->", "&amp;", "]]>", "x"}
var c19Caps = []string{"round", "butt", "square", "", "<x>"}
var c19Families = []string{"Tahoma, sans-serif", "\"Fira Code\", monospace", "serif", "", "<f&>"}
var c19Baselines = []string{"top", "middle", "bottom", "alphabetic"}
var c19Aligns = []string{"left", "center", "right"}
var c19GridUnits = []numTxt{c19Lit("10"), c19Lit("20"), c19Lit("25"), c19Lit("7.5"), c19Lit("50"), c19Lit("100"), c19Lit("1000"), c19Lit("2"), {"(0/0)", math.NaN()}, {"(1/0)", math.Inf(1)}, c19Lit("1000000000000000000000000000000")}

// positive units around the proposed minimum 0.01: far below (the loop stalls or
// needs 1e8.. rounds), just below, at, just above
var c19TinyUnits = []numTxt{c19Lit("0.00000000000000001"), c19Lit("0." + strings.Repeat("0", 323) + "5"), c19Lit("0.0000000000001"), c19Lit("0.000001"),
	c19Lit("0.0099999"), c19Lit("0.01"), c19Lit("0.0100001"), c19Lit("0.001")}
var c19HangUnits = []numTxt{c19Lit("0"), {"(0*(0-1))", math.Copysign(0, -1)}, {"(0-1)", -1}, {"(0-10)", -10}, {"(0-1/0)", math.Inf(-1)}}

// a generated command: the S-expression and its evy source line
type gcmd struct {
	sx  SX
	evy string
}

func evyStr(s string) string {
	var b strings.Builder
	b.WriteByte('"')
	for _, r := range s {
		switch r {
		case '"':
			b.WriteString(`\"`)
		case '\\':
			b.WriteString(`\\`)
		case '\n':
			b.WriteString(`\n`)
		case '\t':
			b.WriteString(`\t`)
		default:
			b.WriteRune(r)
		}
	}
	b.WriteByte('"')
	return b.String()
}

func c19Pick(rng *rand.Rand, l []string) string { return l[rng.Intn(len(l))] }

// genCmd: api = true allows values the evaluator's wrappers would reject
// (arbitrary baseline/align strings, non-positive font size) since the platform API accepts them.
func genCmd(rng *rand.Rand, api bool, unitPool []numTxt) gcmd {
	two := func(name string) gcmd {
		a, b := c19GenNum(rng), c19GenNum(rng)
		return gcmd{Lst(Sym(name), Float(a.v), Float(b.v)), name + " " + a.src + " " + b.src}
	}
	str := func(name string, pool []string) gcmd {
		s := c19Pick(rng, pool)
		src := name
		if name == "color" && rng.Intn(3) == 0 {
			src = "colour"
		}
		return gcmd{Lst(Sym(name), Str(s)), src + " " + evyStr(s)}
	}
	switch k := rng.Intn(100); {
	case k < 10:
		return two("move")
	case k < 20:
		return two("line")
	case k < 28:
		return two("rect")
	case k < 36:
		r := genPos(rng)
		return gcmd{Lst(Sym("circle"), Float(r.v)), "circle " + r.src}
	case k < 42:
		if rng.Intn(4) == 0 {
			return gcmd{Lst(Sym("clear"), Str("")), "clear"}
		}
		return str("clear", c19Colors)
	case k < 47:
		n := rng.Intn(5)
		pts, src := []SX{}, "poly"
		for i := 0; i < n; i++ {
			a, b := c19GenNum(rng), c19GenNum(rng)
			pts = append(pts, Lst(Float(a.v), Float(b.v)))
			src += " [" + a.src + " " + b.src + "]"
		}
		return gcmd{Lst(Sym("poly"), LstOf(pts)), src}
	case k < 54:
		x, y, rx := c19GenNum(rng), c19GenNum(rng), genPos(rng)
		ry, rot := rx, c19Lit("0")
		src := "ellipse " + x.src + " " + y.src + " " + rx.src
		if n := rng.Intn(3); n >= 1 {
			ry = genPos(rng)
			src += " " + ry.src
			if n == 2 {
				rot = []numTxt{c19Lit("0"), c19Lit("30"), c19Lit("45.5"), c19Lit("360"), {"(0-90)", -90}, {"(0/0)", math.NaN()}, {"(0*(0-1))", math.Copysign(0, -1)}}[rng.Intn(7)]
				src += " " + rot.src
			}
		}
		return gcmd{Lst(Sym("ellipse"), Float(x.v), Float(y.v), Float(rx.v), Float(ry.v), Float(rot.v)), src}
	case k < 62:
		return str("text", c19Texts)
	case k < 66:
		if rng.Intn(3) == 0 {
			return gcmd{Lst(Sym("gridn"), Float(10), Str("hsl(0deg 100% 0% / 50%)")), "grid"}
		}
		u := c19GridUnits[rng.Intn(len(c19GridUnits))]
		if unitPool != nil {
			u = unitPool[rng.Intn(len(unitPool))]
		}
		c := c19Pick(rng, c19Colors)
		return gcmd{Lst(Sym("gridn"), Float(u.v), Str(c)), "gridn " + u.src + " " + evyStr(c)}
	case k < 72:
		w := genPos(rng)
		if rng.Intn(3) == 0 {
			w = c19Lit("0.1") // scale(0.1) == 1 == the default stroke width
		}
		return gcmd{Lst(Sym("width"), Float(w.v)), "width " + w.src}
	case k < 79:
		return str("color", c19Colors)
	case k < 84:
		return str("stroke", c19Colors)
	case k < 89:
		return str("fill", c19Colors)
	case k < 92:
		n := rng.Intn(4)
		fs, src := []SX{}, "dash"
		for i := 0; i < n; i++ {
			a := c19GenNum(rng)
			fs = append(fs, Float(a.v))
			src += " " + a.src
		}
		return gcmd{Lst(Sym("dash"), LstOf(fs)), src}
	case k < 95:
		return str("linecap", c19Caps)
	default:
		// font: always at least one string and one number property so that the
		// evy literal has type {}any
		kv, src := []SX{}, []string{}
		addS := func(key, v string) {
			kv = append(kv, Lst(Sym(key), Str(v)))
			src = append(src, key+":"+evyStr(v))
		}
		addN := func(key string, n numTxt) {
			kv = append(kv, Lst(Sym(key), Float(n.v)))
			src = append(src, key+":"+n.src)
		}
		if rng.Intn(2) == 0 {
			addS("family", c19Pick(rng, c19Families))
		}
		if rng.Intn(2) == 0 {
			if api && rng.Intn(4) == 0 {
				addN("size", c19GenNum(rng))
			} else {
				addN("size", []numTxt{c19Lit("6"), c19Lit("4"), c19Lit("0.5"), c19Lit("12")}[rng.Intn(4)])
			}
		}
		if rng.Intn(3) == 0 {
			addN("weight", []numTxt{c19Lit("400"), c19Lit("700"), c19Lit("100"), c19Lit("0.5")}[rng.Intn(4)])
		}
		if rng.Intn(3) == 0 {
			addS("style", c19Pick(rng, []string{"italic", "normal", "oblique 35deg", ""}))
		}
		if rng.Intn(2) == 0 {
			if api && rng.Intn(5) == 0 {
				addS("baseline", c19Pick(rng, []string{"hanging", "", "<b>"}))
			} else {
				addS("baseline", c19Pick(rng, c19Baselines))
			}
		}
		if rng.Intn(2) == 0 {
			if api && rng.Intn(5) == 0 {
				addS("align", c19Pick(rng, []string{"start", "", "justify"}))
			} else {
				addS("align", c19Pick(rng, c19Aligns))
			}
		}
		if rng.Intn(3) == 0 {
			addN("letterspacing", []numTxt{c19Lit("0"), c19Lit("1"), {"(0-0.1)", -0.1}, {"(0*(0-1))", math.Copysign(0, -1)}, {"(0/0)", math.NaN()}}[rng.Intn(5)])
		}
		hasS, hasN := false, false
		for _, x := range kv {
			if x.L[1].Kind == "str" {
				hasS = true
			} else {
				hasN = true
			}
		}
		if !hasS {
			addS("style", "normal")
		}
		if !hasN {
			addN("weight", c19Lit("700"))
		}
		return gcmd{Lst(Sym("font"), LstOf(kv)), "font {" + strings.Join(src, " ") + "}"}
	}
}

// c19NumSrc renders a float64 as an evy expression that evaluates to exactly that value.
func c19NumSrc(v float64) numTxt {
	switch {
	case v != v:
		return numTxt{"(0/0)", v}
	case math.IsInf(v, 1):
		return numTxt{"(1/0)", v}
	case math.IsInf(v, -1):
		return numTxt{"(0-1/0)", v}
	case v == 0 && math.Signbit(v):
		return numTxt{"(0*(0-1))", v}
	case v < 0:
		return numTxt{"(0-" + strconv.FormatFloat(-v, 'f', -1, 64) + ")", v}
	}
	return numTxt{strconv.FormatFloat(v, 'f', -1, 64), v}
}

// genCoincident draws with geometry that is degenerate RELATIVE TO THE CURRENT
// STATE: the target equals the cursor (cx, cy are the cursor in evy
// coordinates), the previous line is repeated, or the shape has no extent.
// The specification counts each of these calls as one shape.
func genCoincident(rng *rand.Rand, cx, cy float64, prev *gcmd) gcmd {
	x, y := c19NumSrc(cx), c19NumSrc(cy)
	pt := func(a, b numTxt) (SX, string) { return Lst(Float(a.v), Float(b.v)), "[" + a.src + " " + b.src + "]" }
	switch k := rng.Intn(12); k {
	case 0, 1, 2: // line to the cursor: to where move / line / rect left it, or `line 0 0` first
		return gcmd{Lst(Sym("line"), Float(x.v), Float(y.v)), "line " + x.src + " " + y.src}
	case 3: // the previous line once more
		if prev != nil && prev.sx.L[0].S == "line" {
			return *prev
		}
		return gcmd{Lst(Sym("line"), Float(x.v), Float(y.v)), "line " + x.src + " " + y.src}
	case 4: // rectangle without extent (in one or both directions)
		w, h := c19Lit("0"), c19Lit("0")
		switch rng.Intn(3) {
		case 1:
			w = genPos(rng)
		case 2:
			h = genPos(rng)
		}
		return gcmd{Lst(Sym("rect"), Float(w.v), Float(h.v)), "rect " + w.src + " " + h.src}
	case 5:
		return gcmd{Lst(Sym("circle"), Float(0)), "circle 0"}
	case 6: // ellipse with zero radii, at the cursor
		return gcmd{Lst(Sym("ellipse"), Float(x.v), Float(y.v), Float(0), Float(0), Float(0)), "ellipse " + x.src + " " + y.src + " 0"}
	case 7: // ellipse flat in one direction
		rx := genPos(rng)
		return gcmd{Lst(Sym("ellipse"), Float(x.v), Float(y.v), Float(rx.v), Float(0), Float(0)), "ellipse " + x.src + " " + y.src + " " + rx.src + " 0"}
	case 8: // polyline of a single point (the cursor)
		p, src := pt(x, y)
		return gcmd{Lst(Sym("poly"), Lst(p)), "poly " + src}
	case 9: // polyline whose points coincide
		a, b := c19GenNum(rng), c19GenNum(rng)
		p, src := pt(a, b)
		n := 2 + rng.Intn(2)
		ps, srcs := []SX{}, []string{}
		for i := 0; i < n; i++ {
			ps, srcs = append(ps, p), append(srcs, src)
		}
		return gcmd{Lst(Sym("poly"), LstOf(ps)), "poly " + strings.Join(srcs, " ")}
	case 10:
		return gcmd{Lst(Sym("text"), Str("")), `text ""`}
	default: // move to where the cursor already is, then nothing changes for the next call
		return gcmd{Lst(Sym("move"), Float(x.v), Float(y.v)), "move " + x.src + " " + y.src}
	}
}

// genHistory: with a unitPool one call (at a random place) is a gridn whose unit is drawn from the pool.
// About one call in five is degenerate relative to the current state (genCoincident); the
// generator follows the cursor (evy coordinates) for that.
func genHistory(rng *rand.Rand, n int, api bool, unitPool []numTxt) []gcmd {
	out := make([]gcmd, 0, n)
	hangAt := -1
	if unitPool != nil {
		hangAt = rng.Intn(n)
	}
	cx, cy := 0.0, 0.0
	for i := 0; i < n; i++ {
		var c gcmd
		switch {
		case i == hangAt:
			c = genCmd(rng, api, unitPool)
			for c.sx.L[0].S != "gridn" || c.evy == "grid" {
				c = genCmd(rng, api, unitPool)
			}
		case rng.Intn(5) == 0:
			var prev *gcmd
			if i > 0 {
				prev = &out[i-1]
			}
			c = genCoincident(rng, cx, cy, prev)
		default:
			c = genCmd(rng, api, nil)
		}
		switch a := c.sx.L; a[0].S {
		case "move", "line":
			cx, cy = sxF(a[1]), sxF(a[2])
		case "rect":
			cx, cy = cx+sxF(a[1]), cy+sxF(a[2])
		}
		out = append(out, c)
	}
	return out
}

// ---------- family: the same drawing call repeated under changing pens ----------

var c19DrawKinds = []string{"line", "rect", "circle", "clear", "poly", "ellipse", "text", "gridn", "grid"}

func c19IsDraw(name string) bool {
	switch name {
	case "line", "rect", "circle", "clear", "poly", "ellipse", "text", "gridn":
		return true
	}
	return false
}

func c19IsStyle(name string) bool { return name != "move" && !c19IsDraw(name) }

// grid units every tree accepts (no rejected, tiny or thousand-line grids): the family is about the pen, not the unit
var c19RepeatUnits = []numTxt{c19Lit("10"), c19Lit("20"), c19Lit("25"), c19Lit("50"), c19Lit("100"), c19Lit("1000"), c19Lit("33.3")}

// genDrawOf: one drawing call of the given kind ("grid" = the evy built-in without arguments)
func genDrawOf(rng *rand.Rand, api bool, kind string) gcmd {
	switch kind {
	case "grid":
		return gcmd{Lst(Sym("gridn"), Float(10), Str("hsl(0deg 100% 0% / 50%)")), "grid"}
	case "gridn":
		u, c := c19RepeatUnits[rng.Intn(len(c19RepeatUnits))], c19Pick(rng, c19Colors)
		return gcmd{Lst(Sym("gridn"), Float(u.v), Str(c)), "gridn " + u.src + " " + evyStr(c)}
	}
	for {
		if c := genCmd(rng, api, nil); c.sx.L[0].S == kind {
			return c
		}
	}
}

func genStyle(rng *rand.Rand, api bool) gcmd {
	for {
		if c := genCmd(rng, api, nil); c19IsStyle(c.sx.L[0].S) {
			return c
		}
	}
}

// genRepeatHistory: one or two drawing calls (kind given for the first; any of the
// nine kinds) are issued again and again with identical arguments - optionally
// each time after the same `move`, so that the geometry is identical as well -
// in 2..5 rounds.  Between two rounds the pen changes (1..2 style calls: width,
// colour, stroke, fill, dash, line cap, font), sometimes it does not (the
// repetitions share a group).  In a round the repeated call stands alone (the
// only shape between two style changes, or before the end of the program),
// twice in a row, or at a random place among 1..3 other shapes.  The history
// starts with or without a style call and ends with or without one.
// The specification wants one shape per call, each with the pen of its own round.
func genRepeatHistory(rng *rand.Rand, api bool, kind string) (h []gcmd, shape string) {
	type unit struct{ pre, draw gcmd }
	mk := func(k string) unit {
		u := unit{draw: genDrawOf(rng, api, k)}
		if rng.Intn(2) == 0 {
			a, b := c19GenNum(rng), c19GenNum(rng)
			u.pre = gcmd{Lst(Sym("move"), Float(a.v), Float(b.v)), "move " + a.src + " " + b.src}
		}
		return u
	}
	reps := []unit{mk(kind)}
	if rng.Intn(4) == 0 {
		reps = append(reps, mk(c19DrawKinds[rng.Intn(len(c19DrawKinds))]))
	}
	emit := func(u unit) {
		if u.pre.evy != "" {
			h = append(h, u.pre)
		}
		h = append(h, u.draw)
	}
	other := func() {
		if rng.Intn(8) == 0 {
			h = append(h, genDrawOf(rng, api, "move"))
		}
		h = append(h, genDrawOf(rng, api, c19DrawKinds[rng.Intn(len(c19DrawKinds))])) // a grid here may equal a repeated one, or differ in unit / colour only
	}
	rounds := 2 + rng.Intn(4)
	lone, grouped := 0, 0
	for i := 0; i < rounds; i++ {
		nStyle := 1 + rng.Intn(2)
		if i == 0 && rng.Intn(3) == 0 || i > 0 && rng.Intn(6) == 0 {
			nStyle = 0
		}
		for j := 0; j < nStyle; j++ {
			h = append(h, genStyle(rng, api))
		}
		u := reps[rng.Intn(len(reps))]
		switch k := rng.Intn(10); {
		case k < 4: // alone
			emit(u)
			lone++
		case k < 5: // twice in a row
			emit(u)
			emit(u)
			grouped++
		default: // among other shapes
			n := 1 + rng.Intn(3)
			at := rng.Intn(n + 1)
			for j := 0; j <= n; j++ {
				if j == at {
					emit(u)
				} else {
					other()
				}
			}
			grouped++
		}
	}
	if rng.Intn(2) == 0 {
		h = append(h, genStyle(rng, api))
	}
	switch {
	case lone > 0 && grouped > 0:
		shape = "lone+grouped"
	case lone > 1:
		shape = "lone+lone"
	case lone == 1:
		shape = "lone-once"
	default:
		shape = "grouped-only"
	}
	return h, shape
}

func c19Nontrivial(cmds []SX) bool {
	draws, styleBetween, seenDraw := 0, false, false
	for _, c := range cmds {
		switch c.L[0].S {
		case "line", "rect", "circle", "clear", "poly", "ellipse", "text", "gridn":
			draws++
			seenDraw = true
		case "move":
		default:
			if seenDraw {
				styleBetween = true
			}
		}
	}
	return draws >= 2 && styleBetween
}

// ---------- oracles ----------

var c19ViewBox string

func c19ExpectedViewBox() string {
	if c19ViewBox == "" {
		c, err := readSvgConsts(filepath.Join(c19EvyRepoDir(), "pkg", "cli", "svg", "runtime.go"))
		if err == nil {
			c19ViewBox = fmt.Sprintf("0 0 %d %d", c.ints["evyWidth"]*c.ints["scaleFactor"], c.ints["evyHeight"]*c.ints["scaleFactor"])
		}
	}
	return c19ViewBox
}

// classify one attribute difference between the implementation's flattened
// shape and the specification
func c19Key(tag, attr string, implShape *xnode, guard bool) string {
	switch {
	case tag == "ellipse" && (attr == "cy" || attr == "transform"):
		return "ellipse-cy-not-flipped"
	case tag == "text" && (attr == "fill" || attr == "stroke"):
		return "text-painted-with-stroke-colour"
	case tag == "text" && attr == "dominant-baseline":
		return "font-baseline-not-mapped"
	case tag == "text" && attr == "font-family":
		return "default-font-family-not-written"
	case !guard && tag == "text" && attr == "fill":
		return "text-painted-with-stroke-colour"
	}
	return "svg-differs-from-spec:" + tag + ":" + attr
}

func diffShapes(impl, spec []*xnode, guard bool) map[string]string {
	keys := map[string]string{}
	if len(impl) != len(spec) {
		keys["shape-count-differs"] = fmt.Sprintf("%d shapes in the document, %d drawn", len(impl), len(spec))
		return keys
	}
	for i := range impl {
		a, b := impl[i], spec[i]
		if a.Tag != b.Tag {
			keys["shape-kind-differs"] = fmt.Sprintf("shape %d is <%s>, drawn was <%s>", i, a.Tag, b.Tag)
			continue
		}
		if a.Text != b.Text {
			keys["svg-differs-from-spec:text:content"] = fmt.Sprintf("shape %d text %q, drawn %q", i, a.Text, b.Text)
		}
		names := map[string]bool{}
		for k := range a.Attrs {
			names[k] = true
		}
		for k := range b.Attrs {
			names[k] = true
		}
		for k := range names {
			if a.Attrs[k] != b.Attrs[k] {
				key := c19Key(a.Tag, k, a, guard)
				if _, ok := keys[key]; !ok {
					keys[key] = fmt.Sprintf("shape %d <%s> %s: document %q, drawn %q", i, a.Tag, k, a.Attrs[k], b.Attrs[k])
				}
			}
		}
	}
	return keys
}

type c19Input struct {
	Case    string `json:"case"`              // S-expression list of commands
	Mode    string `json:"mode"`              // api | binary | gridn-rejected | gridn-tiny
	Program string `json:"program,omitempty"` // evy source (binary / gridn-rejected)
	// binary-overwrite: what the --svg-out file holds before the run, and how it was made
	Existing     string `json:"existing,omitempty"`
	ExistingKind string `json:"existing_kind,omitempty"`
}

func cmdsSX(h []gcmd) []SX {
	out := make([]SX, len(h))
	for i, c := range h {
		out[i] = c.sx
	}
	return out
}

func evyProgram(h []gcmd) string {
	var b strings.Builder
	for _, c := range h {
		b.WriteString(c.evy + "\n")
	}
	return b.String()
}

// checkDoc runs all oracles on one produced document.
func c19CheckDoc(doc []byte, cmds []SX, m *c19Model, in c19Input, r *Result) {
	viol := func(kind, key, detail string, extra any) {
		r.Violate(Violation{Kind: kind, Key: key, Detail: detail, Input: in, Impl: map[string]any{"svg": string(doc)}, Model: extra})
	}
	raw, err := parseSVG(doc)
	if err != nil {
		viol("property", "svg-not-well-formed", "the document does not parse as XML: "+err.Error(), nil)
		return
	}
	if raw.Tag != "svg" {
		viol("property", "svg-not-well-formed", "root element is <"+raw.Tag+">", nil)
		return
	}
	if vb := c19ExpectedViewBox(); vb != "" && raw.Attrs["viewBox"] != vb {
		viol("property", "svg-viewbox", fmt.Sprintf("viewBox %q, expected %q", raw.Attrs["viewBox"], vb), nil)
	}
	tree := canonTree(raw, true)
	r.Validated++
	if m.Brief {
		r.Dist("cc:tree-only(large grid)")
		if tree.canon() != m.Tree.canon() {
			viol("correspondence", "svg-tree-differs-from-model", "the element tree written by the implementation differs from the model's render tree (large grid: tree comparison only)", nil)
		}
		return
	}
	if c19UseFixed() {
		if tree.canon() != m.TreeFixed.canon() {
			viol("correspondence", "svg-tree-differs-from-fixed-model", "the element tree written by the implementation differs from the fixed model's render tree",
				map[string]any{"impl_tree": tree.canon(), "model_tree": m.TreeFixed.canon()})
		}
		if canonList(m.FlatFixed) != canonList(m.SpecAll) {
			viol("correspondence", "model-theorem-fixed", "extracted model contradicts C19_svg_shows_what_was_drawn_fixed", nil)
		}
		for key, detail := range diffShapes(flattenTree(tree), m.SpecAll, true) {
			viol("property", key, "the flattened SVG does not show what was drawn: "+detail, nil)
		}
		return
	}
	if tree.canon() != m.Tree.canon() {
		viol("correspondence", "svg-tree-differs-from-model", "the element tree written by the implementation differs from the model's render tree",
			map[string]any{"impl_tree": tree.canon(), "model_tree": m.Tree.canon()})
		r.Dist("cc:differs")
	}
	flat := flattenTree(tree)
	// model's flatten vs the harness's independent flatten of the model tree
	if canonList(flattenTree(m.Tree)) != canonList(m.Flat) {
		viol("correspondence", "flatten-model-vs-harness", "the model's flatten and the harness's flatten disagree on the model's own tree",
			map[string]any{"harness": canonList(flattenTree(m.Tree)), "model": canonList(m.Flat)})
	}
	// the proved theorem, re-checked on this run: guard -> flat = spec_asis; fixed model: flat_fixed = spec
	if m.Guard && canonList(m.Flat) != canonList(m.SpecAsIs) {
		viol("correspondence", "model-theorem-asis", "extracted model contradicts C19_svg_shows_what_was_drawn", nil)
	}
	if canonList(m.FlatFixed) != canonList(m.SpecAll) {
		viol("correspondence", "model-theorem-fixed", "extracted model contradicts C19_svg_shows_what_was_drawn_fixed", nil)
	}
	if m.Guard {
		r.Dist("guard:holds")
		if canonList(flat) != canonList(m.SpecAsIs) {
			viol("property", "svg-differs-from-asis-spec", "guard holds but the flattened document differs from the specification of the model in force (four remaining deviations)",
				map[string]any{"impl_flat": canonList(flat), "spec_asis": canonList(m.SpecAsIs)})
		}
	} else {
		r.Dist("guard:fails(lone text, stroke unset)")
	}
	// the property itself
	keys := diffShapes(flat, m.Spec, m.Guard)
	if len(keys) == 0 {
		r.Dist("property:holds")
	}
	for key, detail := range keys {
		r.Dist("property:" + strings.SplitN(key, ":", 2)[0])
		viol("property", key, "the flattened SVG does not show what was drawn: "+detail,
			map[string]any{"impl_flat": canonList(flat), "spec": canonList(m.Spec)})
	}
}

func c19RunAPI(cmds []SX) (doc []byte, panicked string) {
	defer func() {
		if e := recover(); e != nil {
			panicked = fmt.Sprint(e)
		}
	}()
	rt := svg.NewGraphicsPlatform()
	for _, c := range cmds {
		applyCmd(rt, c)
	}
	var b bytes.Buffer
	if err := rt.WriteSVG(&b); err != nil {
		return nil, "WriteSVG: " + err.Error()
	}
	return b.Bytes(), ""
}

// ---------- the real binary ----------

var (
	evyBinOnce sync.Once
	evyBinPath string
	evyBinErr  error
)

func evyBinary() (string, error) {
	evyBinOnce.Do(func() {
		dir, err := os.MkdirTemp("", "c19-evy-")
		if err != nil {
			evyBinErr = err
			return
		}
		evyBinPath = filepath.Join(dir, "evy")
		cmd := exec.Command("go", "build", "-o", evyBinPath, ".")
		cmd.Dir = c19EvyRepoDir()
		cmd.Env = append(os.Environ(), "GOFLAGS=-mod=mod", "GOPROXY=off", "GOSUMDB=off", "GOTOOLCHAIN=local", "CGO_ENABLED=0")
		if out, err := cmd.CombinedOutput(); err != nil {
			evyBinErr = fmt.Errorf("go build evy: %v: %s", err, out)
		}
	})
	return evyBinPath, evyBinErr
}

type c19BinResult struct {
	doc      []byte
	exit     int
	timedOut bool
	stderr   string
}

// runBinary runs `evy run --svg-out out.svg prog.evy` under timeout and ulimit -v.
var (
	c19BinCacheMu sync.Mutex
	c19BinCache   = map[string]c19BinResult{}
)

func runBinary(prog string, timeoutS int) (res c19BinResult, err error) {
	return runBinaryOver(prog, nil, timeoutS)
}

// runBinaryOver: as runBinary; with existing != nil the output path already holds *existing when evy starts.
func runBinaryOver(prog string, existing *string, timeoutS int) (res c19BinResult, err error) {
	key := fmt.Sprintf("%d\x00%s", timeoutS, prog)
	if existing != nil {
		key += "\x00over\x00" + *existing
	}
	c19BinCacheMu.Lock()
	if r, ok := c19BinCache[key]; ok {
		c19BinCacheMu.Unlock()
		return r, nil
	}
	c19BinCacheMu.Unlock()
	defer func() {
		if err == nil {
			c19BinCacheMu.Lock()
			c19BinCache[key] = res
			c19BinCacheMu.Unlock()
		}
	}()
	bin, err := evyBinary()
	if err != nil {
		return c19BinResult{}, err
	}
	dir, err := os.MkdirTemp("", "c19-run-")
	if err != nil {
		return c19BinResult{}, err
	}
	defer os.RemoveAll(dir)
	src := filepath.Join(dir, "prog.evy")
	out := filepath.Join(dir, "out.svg")
	if err := os.WriteFile(src, []byte(prog), 0o644); err != nil {
		return c19BinResult{}, err
	}
	if existing != nil {
		if err := os.WriteFile(out, []byte(*existing), 0o644); err != nil {
			return c19BinResult{}, err
		}
	}
	sh := fmt.Sprintf("ulimit -v 3000000; exec timeout -s KILL %d %q run --skip-sleep --svg-out %q %q", timeoutS, bin, out, src)
	cmd := exec.Command("bash", "-c", sh)
	cmd.Env = append(os.Environ(), "GOMAXPROCS=2")
	var stderr bytes.Buffer
	cmd.Stderr = &stderr
	cmd.Stdout = io.Discard
	runErr := cmd.Run()
	res = c19BinResult{stderr: stderr.String()}
	if ee, ok := runErr.(*exec.ExitError); ok {
		res.exit = ee.ExitCode()
		if res.exit == -1 || res.exit == 137 || res.exit == 124 {
			res.timedOut = true
		}
	} else if runErr != nil {
		return res, runErr
	}
	res.doc, _ = os.ReadFile(out)
	return res, nil
}

// ---------- one case ----------

func c19Case(h []gcmd, mode string, model *Model, r *Result) {
	cmds := cmdsSX(h)
	caseSX := LstOf(cmds).String()
	in := c19Input{Case: caseSX, Mode: mode}
	if mode != "api" {
		in.Program = evyProgram(h)
	}
	c19CaseSX(cmds, in, model, r)
}

func c19CaseSX(cmds []SX, in c19Input, model *Model, r *Result) {
	r.Count(in.Mode+in.Case, c19Nontrivial(cmds))
	r.Dist("mode:" + in.Mode)
	for _, c := range cmds {
		r.Dist("cmd:" + c.L[0].S)
	}
	r.Dist(fmt.Sprintf("len:%02d-%02d", len(cmds)/10*10, len(cmds)/10*10+9))
	m, err := c19AskModel(model, cmds)
	if err != nil {
		r.Violate(Violation{Kind: "correspondence", Key: "model-crash", Detail: err.Error(), Input: in})
		return
	}
	rejectExpected := cmdsHang(cmds) // a gridn unit <= 0: BadArguments before the platform is called
	tinyUnit, tiny := cmdsTiny(cmds)
	if c19BoundInSource() {
		// the bound has landed: units below it and NaN are BadArguments as well
		mRej := m.Rejected
		if c19UseFixed() {
			mRej = m.RejectedAll
		}
		rejectExpected = mRej
		if want := cmdsBelowMin(cmds); mRej != want {
			r.Violate(Violation{Kind: "correspondence", Key: "model-rejected-class", Detail: fmt.Sprintf("model rejected=%v, harness rule (unit not >= %v): %v", mRej, c19MinGridUnit, want), Input: in})
			return
		}
	} else if tiny {
		c19TinyUnbounded(tinyUnit, cmds, m, in, r)
		return
	}
	if m.Hang {
		r.Violate(Violation{Kind: "correspondence", Key: "model-out-of-fuel", Detail: "the model's gridn loop did not end within the fuel", Input: in})
		return
	}
	if !c19BoundInSource() && m.Rejected != rejectExpected {
		r.Violate(Violation{Kind: "correspondence", Key: "model-rejected-class", Detail: fmt.Sprintf("model rejected=%v, history has a gridn unit <= 0: %v", m.Rejected, rejectExpected), Input: in})
		return
	}
	switch in.Mode {
	case "api":
		if rejectExpected || tiny {
			return // the platform API has no check: never run in-process (the loop would not end)
		}
		doc, p := c19RunAPI(cmds)
		if p != "" {
			r.Violate(Violation{Kind: "property", Key: "svg-platform-panics", Detail: p, Input: in})
			return
		}
		c19CheckDoc(doc, cmds, m, in, r)
		if len(r.Samples) < 2 {
			r.Sample(map[string]any{"mode": "api", "case": in.Case, "svg": string(doc)})
		}
	case "binary-overwrite":
		// the --svg-out path already holds a file when evy starts: what evy leaves there must be the
		// document alone (the one the same program writes to a fresh path, and the model's tree)
		if rejectExpected || tiny || in.Program == "" {
			return
		}
		fresh, err := runBinary(in.Program, 10)
		if err != nil {
			r.Violate(Violation{Kind: "correspondence", Key: "evy-binary", Detail: err.Error(), Input: in})
			return
		}
		if fresh.timedOut || fresh.exit != 0 {
			return // reported by mode binary
		}
		ex := in.Existing
		res, err := runBinaryOver(in.Program, &ex, 10)
		if err != nil {
			r.Violate(Violation{Kind: "correspondence", Key: "evy-binary", Detail: err.Error(), Input: in})
			return
		}
		r.Dist("existing:" + in.ExistingKind)
		if res.timedOut || res.exit != 0 {
			r.Violate(Violation{Kind: "property", Key: "svg-out-over-existing-file-fails", Detail: fmt.Sprintf("evy run --svg-out FILE with FILE already present (%d bytes): exit %d (timed out: %v): %s", len(ex), res.exit, res.timedOut, c19Tail(res.stderr, 300)), Input: in})
			return
		}
		if !bytes.Equal(res.doc, fresh.doc) {
			wf := "it is still well-formed XML"
			if _, perr := parseSVG(res.doc); perr != nil {
				wf = "it is not well-formed: " + perr.Error()
			}
			r.Violate(Violation{Kind: "property", Key: "svg-out-existing-file-not-replaced",
				Detail: fmt.Sprintf("evy run --svg-out FILE over an existing FILE of %d bytes (%s) leaves %d bytes; the same program writes %d bytes to a fresh path and the two differ (first difference at byte %d); %s",
					len(ex), in.ExistingKind, len(res.doc), len(fresh.doc), c19FirstDiff(res.doc, fresh.doc), wf),
				Input: in, Impl: map[string]any{"svg": string(res.doc)}, Model: map[string]any{"fresh_path_svg": string(fresh.doc)}})
			return
		}
		c19CheckDoc(res.doc, cmds, m, in, r)
	case "binary", "gridn-rejected", "gridn-tiny":
		to := 10
		if rejectExpected {
			to = 5
		}
		res, err := runBinary(in.Program, to)
		if err != nil {
			r.Violate(Violation{Kind: "correspondence", Key: "evy-binary", Detail: err.Error(), Input: in})
			return
		}
		if res.timedOut {
			key, what := "evy-run-timeout", "evy run --svg-out did not terminate"
			if rejectExpected {
				key, what = "gridn-nonpositive-unit-hangs", "evy run --svg-out did not terminate: gridn with unit <= 0 reached the platform loop, which never advances"
				if tiny {
					key, what = "gridn-tiny-unit-does-not-terminate", "evy run --svg-out did not terminate: gridn with a positive unit below the minimum reached the platform loop"
				}
			}
			r.Violate(Violation{Kind: "property", Key: key, Detail: what, Input: in, Impl: map[string]any{"stderr_tail": c19Tail(res.stderr, 300)}})
			return
		}
		wantExit := 0
		if rejectExpected {
			wantExit = 1 // panic: bad arguments; main.go still writes the SVG drawn so far
			r.Dist("termination:gridn-rejected")
		}
		if res.exit != wantExit {
			r.Violate(Violation{Kind: "correspondence", Key: "evy-run-exit", Detail: fmt.Sprintf("exit %d, want %d: %s", res.exit, wantExit, c19Tail(res.stderr, 300)), Input: in})
			return
		}
		c19CheckDoc(res.doc, cmds, m, in, r)
		if len(r.Samples) < 4 {
			r.Sample(map[string]any{"mode": in.Mode, "program": in.Program, "svg": string(res.doc)})
		}
	}
}

// c19TinyUnbounded: a gridn call with a positive unit below the minimum on a
// tree that does not have the bound.  Oracle: the call must be rejected (exit 1,
// document of the calls before it).  Only ever run through the binary under
// timeout/ulimit; a timeout is the finding.
func c19TinyUnbounded(u float64, cmds []SX, m *c19Model, in c19Input, r *Result) {
	if in.Mode == "api" || in.Program == "" {
		return // never in-process: the loop may not end
	}
	to := 3
	if u >= 1e-4 {
		to = 30 // ends after 1000/(10u) <= 1e6 rounds: slow and large, but it ends
	}
	res, err := runBinary(in.Program, to)
	if err != nil {
		r.Violate(Violation{Kind: "correspondence", Key: "evy-binary", Detail: err.Error(), Input: in})
		return
	}
	switch {
	case res.timedOut:
		r.Dist("termination:gridn-tiny-timeout")
		r.Violate(Violation{Kind: "property", Key: "gridn-tiny-unit-does-not-terminate",
			Detail: fmt.Sprintf("evy run --svg-out did not terminate within %d s (killed; %d bytes of SVG): gridn with the positive unit %v is accepted, and the loop `for i := 0.0; i <= 1000; i += unit` needs %.3g rounds or stalls (i + unit == i)",
				to, len(res.doc), u, 1000/(10*u)),
			Input: in, Impl: map[string]any{"stderr_tail": c19Tail(res.stderr, 300)}})
	case res.exit == 1 && strings.Contains(res.stderr, "gridn"):
		// rejected although the translator did not find the bound: compare with the fixed model's prefix
		r.Dist("termination:gridn-tiny-rejected")
		if !m.RejectedAll {
			r.Violate(Violation{Kind: "correspondence", Key: "model-rejected-class", Detail: "the binary rejects the unit, the model with the bound does not", Input: in})
		}
	case res.exit != 0:
		r.Violate(Violation{Kind: "correspondence", Key: "evy-run-exit", Detail: fmt.Sprintf("exit %d: %s", res.exit, c19Tail(res.stderr, 300)), Input: in})
	default:
		// accepted and it ended (units not far below the minimum): the document must still be right
		r.Dist("termination:gridn-tiny-accepted-and-ended")
		if m.Hang {
			if _, err := parseSVG(res.doc); err != nil {
				r.Violate(Violation{Kind: "property", Key: "svg-not-well-formed", Detail: err.Error(), Input: in})
			}
			return
		}
		c19CheckDoc(res.doc, cmds, m, in, r)
	}
}

func c19FirstDiff(a, b []byte) int {
	i := 0
	for i < len(a) && i < len(b) && a[i] == b[i] {
		i++
	}
	return i
}

var c19ExistingKinds = []string{"longer-svg", "longer-svg", "same-document-plus-tail", "junk-longer", "one-byte-longer", "shorter-prefix", "empty", "same-length-junk", "much-longer-svg"}

// c19Existing: the content the output file holds before the run, relative to the document `fresh`
// the program writes to a fresh path (valid UTF-8, so that the replay file carries it verbatim).
func c19Existing(rng *rand.Rand, kind string, fresh []byte) string {
	junk := func(n int) string {
		b := make([]byte, n)
		for i := range b {
			b[i] = " \n<>/=\"abcsvg0123456789-"[rng.Intn(24)]
		}
		return string(b)
	}
	apiDoc := func(minLen, cmdsMin int) string {
		var acc []byte
		for try := 0; try < 8; try++ {
			h := genHistory(rng, cmdsMin+rng.Intn(30), true, nil)
			cmds := cmdsSX(h)
			if _, tiny := cmdsTiny(cmds); tiny || cmdsHang(cmds) || cmdsBelowMin(cmds) {
				continue
			}
			doc, p := c19RunAPI(cmds)
			if p != "" {
				continue
			}
			if len(doc) > minLen {
				return strings.ToValidUTF8(string(doc), "?")
			}
			acc = append(acc, doc...)
		}
		return strings.ToValidUTF8(string(acc), "?") + junk(minLen+1)
	}
	switch kind {
	case "longer-svg":
		return apiDoc(len(fresh), 10)
	case "much-longer-svg":
		return apiDoc(4*len(fresh)+1000, 40)
	case "same-document-plus-tail":
		tails := []string{"\n", "<!-- old -->\n", "</svg>\n", "<circle cx=\"1\" cy=\"1\" r=\"1\" />\n</svg>\n", " "}
		return strings.ToValidUTF8(string(fresh), "?") + tails[rng.Intn(len(tails))]
	case "junk-longer":
		return junk(len(fresh) + 1 + rng.Intn(300))
	case "one-byte-longer":
		return junk(len(fresh) + 1)
	case "shorter-prefix":
		return strings.ToValidUTF8(string(fresh[:len(fresh)/2]), "?")
	case "same-length-junk":
		return junk(len(fresh))
	}
	return ""
}

func c19Tail(s string, n int) string {
	if len(s) > n {
		return s[len(s)-n:]
	}
	return s
}

// evaluator-level argument validation: the call is rejected before the platform
// is reached; the document holds what was drawn before it.
func c19Rejected(model *Model, r *Result) {
	cases := []struct{ bad, what string }{
		{"ellipse 1 2", "ellipse with 2 arguments"},
		{"ellipse 1 2 3 4 5 6", "ellipse with 6 arguments"},
		{"poly [1 2] [3]", "poly vertex with 1 element"},
		{"poly [1 2 3]", "poly vertex with 3 elements"},
		{"font {size:0 style:\"x\"}", "font size 0"},
		{"font {baseline:\"up\" size:1}", "unknown baseline"},
		{"font {colour:\"up\" size:1}", "unknown font property"},
		{"clear \"a\" \"b\"", "clear with 2 arguments"},
		{"gridn 0 \"red\"", "gridn unit 0"},
		{"gridn (0-5) \"red\"", "gridn negative unit"},
	}
	prefix := []gcmd{{Lst(Sym("color"), Str("red")), `color "red"`}, {Lst(Sym("circle"), Float(5)), "circle 5"}}
	for _, c := range cases {
		prog := evyProgram(prefix) + c.bad + "\ncircle 7\n"
		in := c19Input{Case: LstOf(cmdsSX(prefix)).String(), Mode: "binary-rejected", Program: prog}
		r.Count(in.Mode+prog, true)
		r.Dist("mode:binary-rejected")
		res, err := runBinary(prog, 10)
		if err != nil {
			r.Violate(Violation{Kind: "correspondence", Key: "evy-binary", Detail: err.Error(), Input: in})
			return
		}
		if res.timedOut || res.exit != 1 {
			r.Violate(Violation{Kind: "property", Key: "rejected-call-exit-status", Detail: fmt.Sprintf("%s: exit %d, want 1", c.what, res.exit), Input: in})
			continue
		}
		m, err := c19AskModel(model, cmdsSX(prefix))
		if err != nil {
			r.Violate(Violation{Kind: "correspondence", Key: "model-crash", Detail: err.Error(), Input: in})
			continue
		}
		c19CheckDoc(res.doc, cmdsSX(prefix), m, in, r)
	}
}

var c19Corpus = []string{
	// the _refuted witnesses of coq/Props/C19.v
	`((ellipse 4632233691727265792 4626322717216342016 4621819117588971520 4621819117588971520 0))`, // ellipse 50 20 10
	`((color "red") (clear "blue") (width 4611686018427387904) (circle 4607182418800017408))`,       // lone clear
	`((width 4591870180066957722) (clear "blue"))`,                                                  // width 0.1 (= default value, other pointer), lone clear
	`((color "red") (gridn 4632233691727265792 "green") (color "blue"))`,                            // lone grid
	`((stroke "blue") (fill "red") (text "x"))`,                                                     // text paint
	`((font ((baseline "top") (size 4618441417868443648))) (text "x"))`,                             // baseline
	`((text "x"))`, // default family
	`((color "<b>&") (text "<b>&</b>") (text "") (linecap "\"'") (line 4607182418800017408 4607182418800017408))`,
}

func runC19(cfg Config, r *Result) {
	// the run is a sequential ask/answer loop: a small GOMAXPROCS and a lazier GC
	// keep it fast when the machine is oversubscribed
	defer runtime.GOMAXPROCS(runtime.GOMAXPROCS(4))
	defer debug.SetGCPercent(debug.SetGCPercent(400))
	model, err := StartModel("svg")
	if err != nil {
		r.Violate(Violation{Kind: "correspondence", Key: "model-start", Detail: err.Error()})
		return
	}
	defer model.Close()
	r.Rule = "random histories of graphics calls (move/line/rect/circle/clear/poly/ellipse/text/gridn/grid + width/color/colour/stroke/fill/dash/linecap/font; " +
		"arguments from nice and degenerate pools: 0, -0, negative, NaN (0/0), +-Inf, 1e30, 1e-30; empty and markup-like strings; " +
		"about one call in five degenerate relative to the current state: line to the cursor (after move/line/rect, or `line 0 0` first), a repeated line, rect/circle/ellipse without extent, single-point and coincident-point poly, text \"\") " +
		"run on svg.GraphicsPlatform in-process (mode api), as evy programs through the built binary `evy run --svg-out` (mode binary), " +
		"the same programs with the --svg-out file already present (mode binary-overwrite: a longer / much longer earlier SVG document, the same document plus a tail, longer / one byte longer / same-length junk, a shorter prefix, an empty file; the file left must equal the fresh-path document byte for byte and match the model), " +
		"with a positive gridn unit around the proposed minimum 0.01 (1e-17, 5e-324, 1e-13, 1e-6, 0.0099999, 0.01, 0.0100001; thorough: 0.001) through the binary under a short timeout (mode gridn-tiny), " +
		"and with a gridn unit <= 0 through the binary under timeout/ulimit (mode gridn-rejected: exit 1, document of the calls before it); " +
		"the same drawing call repeated with identical arguments (every shape kind in turn: line/rect/circle/clear/poly/ellipse/text/gridn/grid; optionally after the same move each time; one or two repeated calls per history) in 2..5 rounds with the pen changed between the rounds (or not), " +
		"the repeated call alone between two style changes / before the end, twice in a row, or anywhere inside a group of 2..4 shapes (modes api and binary); non-trivial = at least 2 drawing calls with a style change after a drawing call; " +
		"distinct = distinct (mode, command list)"
	if cfg.Replay != "" {
		b, err := os.ReadFile(cfg.Replay)
		var rep struct {
			Input c19Input `json:"input"`
		}
		if err == nil {
			err = json.Unmarshal(b, &rep)
		}
		var x SX
		if err == nil {
			x, err = ParseSX(rep.Input.Case)
		}
		if err != nil {
			r.Violate(Violation{Kind: "correspondence", Key: "replay-unreadable", Detail: err.Error()})
			return
		}
		c19CaseSX(x.L, rep.Input, model, r)
		return
	}
	corpus := append([]string{}, c19Corpus...)
	if b, err := os.ReadFile(filepath.Join(os.Getenv("VERIF_ROOT"), "corpus", "C19", "witnesses.sx")); err == nil {
		for _, l := range strings.Split(string(b), "\n") {
			if strings.TrimSpace(l) != "" {
				corpus = append(corpus, l)
			}
		}
	}
	for _, c := range corpus {
		x, err := ParseSX(c)
		if err != nil {
			r.Violate(Violation{Kind: "correspondence", Key: "corpus-unreadable", Detail: err.Error() + ": " + c})
			continue
		}
		c19CaseSX(x.L, c19Input{Case: c, Mode: "api"}, model, r)
	}
	maxLen := cfg.N(15, 60)
	t0 := time.Now()
	nAPI := cfg.N(400, 8000)
	for i := 0; i < nAPI; i++ {
		n := 1 + cfg.Rng.Intn(maxLen)
		if i%10 == 0 {
			n = 1 + cfg.Rng.Intn(4) // short histories: lone elements are frequent
		}
		c19Case(genHistory(cfg.Rng, n, true, nil), "api", model, r)
	}
	tAPI := time.Since(t0)
	t0 = time.Now()
	if _, err := evyBinary(); err != nil {
		r.Violate(Violation{Kind: "correspondence", Key: "evy-binary", Detail: err.Error()})
		return
	}
	tBuild := time.Since(t0)
	t0 = time.Now()
	defer func() {
		r.Note("wall: api cases %.1fs, go build evy %.1fs, binary cases %.1fs", tAPI.Seconds(), tBuild.Seconds(), time.Since(t0).Seconds())
	}()
	nBin := cfg.N(24, 300)
	var binHs [][]gcmd
	for i := 0; i < nBin; i++ {
		h := genHistory(cfg.Rng, 1+cfg.Rng.Intn(maxLen), false, nil)
		binHs = append(binHs, h)
		c19Case(h, "binary", model, r)
	}
	// the same programs once more, the output file already present (own generator: the cases above stay as they were)
	tOver := time.Now()
	orng := rand.New(rand.NewSource(cfg.Rng.Int63()))
	var overIns []c19Input
	var overCmds [][]SX
	for i, h := range binHs {
		prog := evyProgram(h)
		fresh, err := runBinary(prog, 10) // cached
		if err != nil || fresh.timedOut || fresh.exit != 0 || len(fresh.doc) == 0 {
			continue
		}
		kind := c19ExistingKinds[i%len(c19ExistingKinds)]
		cmds := cmdsSX(h)
		in := c19Input{Case: LstOf(cmds).String(), Mode: "binary-overwrite", Program: prog, ExistingKind: kind, Existing: c19Existing(orng, kind, fresh.doc)}
		overIns, overCmds = append(overIns, in), append(overCmds, cmds)
	}
	// the runs are independent processes: started four at a time (the results are cached), judged in order
	sem := make(chan struct{}, 4)
	var owg sync.WaitGroup
	for i, in := range overIns {
		if _, tiny := cmdsTiny(overCmds[i]); tiny || cmdsHang(overCmds[i]) || cmdsBelowMin(overCmds[i]) {
			continue // not run by the case either
		}
		owg.Add(1)
		sem <- struct{}{}
		go func(prog, ex string) { defer owg.Done(); runBinaryOver(prog, &ex, 10); <-sem }(in.Program, in.Existing)
	}
	owg.Wait()
	for i, in := range overIns {
		c19CaseSX(overCmds[i], in, model, r)
	}
	r.Note("wall: binary-overwrite cases %.1fs (within the binary cases)", time.Since(tOver).Seconds())
	c19Rejected(model, r)
	nHang := cfg.N(4, 40)
	for i := 0; i < nHang; i++ {
		c19Case(genHistory(cfg.Rng, 1+cfg.Rng.Intn(6), false, c19HangUnits), "gridn-rejected", model, r)
	}
	// gridn with a positive unit around the minimum: every unit of the pool once
	// (quick: all but 0.001, whose 200 000 lines take seconds to write), binary only.
	// The runs that are expected to be killed by the timeout are started together.
	pool := c19TinyUnits
	if cfg.Tier != "thorough" {
		pool = pool[:len(pool)-1]
	}
	var hs [][]gcmd
	for i := range pool {
		hs = append(hs, genHistory(cfg.Rng, 1+cfg.Rng.Intn(5), false, pool[i:i+1]))
	}
	if !c19BoundInSource() {
		var wg sync.WaitGroup
		for _, h := range hs {
			if u, tiny := cmdsTiny(cmdsSX(h)); tiny && u < 1e-4 {
				wg.Add(1)
				go func(prog string) { defer wg.Done(); runBinary(prog, 3) }(evyProgram(h)) // result is cached
			}
		}
		wg.Wait()
	}
	for _, h := range hs {
		c19Case(h, "gridn-tiny", model, r)
	}
	// the same drawing call again and again under changing pens (own generator, after everything else:
	// the cases above stay as they were); every shape kind in turn, the two grid forms twice as often
	tRep := time.Now()
	rrng := rand.New(rand.NewSource(cfg.Rng.Int63()))
	kinds := append(append([]string{}, c19DrawKinds...), "gridn", "grid")
	rep := func(i int, api bool, mode string) {
		kind := kinds[i%len(kinds)]
		h, shape := genRepeatHistory(rrng, api, kind)
		r.Dist("repeat:" + mode + ":" + kind)
		r.Dist("repeat-rounds:" + shape)
		c19Case(h, mode, model, r)
	}
	for i, n := 0, cfg.N(110, 3300); i < n; i++ {
		rep(i, true, "api")
	}
	for i, n := 0, cfg.N(11, 110); i < n; i++ {
		rep(i, false, "binary")
	}
	r.Note("wall: repeated-call family %.1fs", time.Since(tRep).Seconds())
}

func init() { register("C19", runC19) }
