package main

import (
	"fmt"
	"os"
	"testing"

	"evylang.dev/evy/pkg/evaluator"
	"evylang.dev/evy/pkg/parser"
)

func TestDbgExport(t *testing.T) {
	src, _ := os.ReadFile(os.Getenv("DBG_SRC"))
	prog, err := parser.Parse(string(src), evaluator.BuiltinDecls())
	if err != nil {
		t.Fatal(err)
	}
	sx, err := ExportProgram(prog)
	fmt.Println(sx.String(), err)
}
