package main

import "time"

// temporary smoke test of the Sem correspondence on the corpus
func runSemSmoke(cfg Config, r *Result) {
	model, err := StartModel("sem")
	if err != nil {
		r.Violate(Violation{Kind: "correspondence", Key: "model-start", Detail: err.Error()})
		return
	}
	defer model.Close()
	for _, src := range CorpusPrograms() {
		t0 := time.Now()
		d := SemCompare(model, src, SemOpts{StopAt: -1, YieldBudget: 100000}, true)
		if dt := time.Since(t0); dt > 2*time.Second {
			r.Note("slow %.1fs yields=%d: %.60q", dt.Seconds(), d.Impl.Phases[0].Yields, src)
		}
		r.Count(src, true)
		switch {
		case d.Skipped != "":
			k := d.Skipped
			if len(k) > 40 {
				k = k[:40]
			}
			r.Dist("skipped:" + k)
		case d.Diff != "":
			r.Dist("diff")
			r.Violate(Violation{Kind: "correspondence", Key: d.Diff, Detail: d.Diff, Input: src, Impl: d.Impl.Phases, Model: d.Model})
		default:
			r.Dist("equal")
			r.Validated++
		}
	}
}

func init() { register("semsmoke", runSemSmoke) }
