package main

import (
	"strings"
	"time"
)

// temporary smoke test of the Sem correspondence on the corpus
func runSemSmoke(cfg Config, r *Result) {
	model, err := StartModel("sem")
	if err != nil {
		r.Violate(Violation{Kind: "correspondence", Key: "model-start", Detail: err.Error()})
		return
	}
	defer model.Close()
	for _, src := range CorpusPrograms() {
		t0 := time.Now()
		d := SemCompare(model, src, SemOpts{StopAt: -1, YieldBudget: 100000}, true)
		if dt := time.Since(t0); dt > 2*time.Second {
			r.Note("slow %.1fs yields=%d: %.60q", dt.Seconds(), d.Impl.Phases[0].Yields, src)
		}
		r.Count(src, true)
		switch {
		case d.Skipped != "":
			k := d.Skipped
			if len(k) > 40 {
				k = k[:40]
			}
			r.Dist("skipped:" + k)
		case d.Diff != "":
			r.Dist("diff")
			r.Violate(Violation{Kind: "correspondence", Key: d.Diff, Detail: d.Diff, Input: src, Impl: d.Impl.Phases, Model: d.Model})
		default:
			r.Dist("equal")
			r.Validated++
		}
	}
}

func init() { register("semsmoke", runSemSmoke) }

func runGenSmoke(cfg Config, r *Result) {
	model, err := StartModel("sem")
	if err != nil {
		r.Violate(Violation{Kind: "correspondence", Key: "model-start", Detail: err.Error()})
		return
	}
	defer model.Close()
	n := cfg.N(1000, 20000)
	for i := 0; i < n; i++ {
		src, _, _ := GenProgram(cfg.Rng, GenOpts{MaxStmts: 8, MaxDepth: 2, Funcs: true, Specials: true, Tests: true, Gfx: true, MapLitPure: true})
		d := SemCompare(model, src, SemOpts{StopAt: -1, YieldBudget: 100000}, true)
		r.Count(src, true)
		switch {
		case d.Skipped != "":
			k := d.Skipped
			if k == "parse-error" {
				pe := d.Impl.ParseErr
				if i := strings.Index(pe, ": "); i > 0 {
					pe = pe[i+2:]
				}
				if len(pe) > 50 {
					pe = pe[:50]
				}
				r.Dist("parse-error: " + pe)
				if len(r.Samples) < 8 && strings.Contains(d.Impl.ParseErr, "whitespace") {
					r.Sample(map[string]any{"src": src, "err": d.Impl.ParseErr})
				}
				continue
			}
			if len(k) > 40 {
				k = k[:40]
			}
			r.Dist("skipped:" + k)
		case d.Diff != "":
			r.Dist("diff")
			r.Violate(Violation{Kind: "correspondence", Key: d.Diff, Detail: d.Diff, Input: src, Impl: d.Impl.Phases, Model: d.Model})
		default:
			r.Dist("equal:" + d.Impl.Phases[0].Class)
			r.Validated++
		}
	}
}

func init() { register("gensmoke", runGenSmoke) }
