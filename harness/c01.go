package main

// C01 — expressions: (a) every documented example (```evy block followed by an
// ```evy:output block in docs/*.md) must print exactly the documented output
// on the real implementation (the language definition as oracle); (b) random
// well-typed expression programs over all operators and operand types with
// random redundant parentheses, compared with the model on printed text,
// outcome, yields and globals (numbers as bit patterns through the dump).

import (
	"fmt"
	"os"
	"strings"
)

type docExample struct {
	file, src, want string
	input           []string
}

// docExamples scans the documentation for an ```evy block followed (within a few lines of prose) by an
// optional ```evy:input block and an ```evy:output block.
func docExamples() []docExample {
	var out []docExample
	for _, f := range []string{"docs/spec.md", "docs/builtins.md", "docs/syntax-by-example.md"} {
		b, err := os.ReadFile("/repo/" + f)
		if err != nil {
			continue
		}
		lines := strings.Split(string(b), "\n")
		type blk struct {
			kind       string
			start, end int
			text       string
		}
		var blks []blk
		for i := 0; i < len(lines); i++ {
			if strings.HasPrefix(lines[i], "```evy") {
				kind := strings.TrimSpace(lines[i][3:])
				j := i + 1
				for j < len(lines) && strings.TrimSpace(lines[j]) != "```" {
					j++
				}
				blks = append(blks, blk{kind, i, j, strings.Join(lines[i+1:j], "\n") + "\n"})
				i = j
			}
		}
		for i, bl := range blks {
			if bl.kind != "evy" {
				continue
			}
			ex := docExample{file: f, src: bl.text}
			found := false
			for j := i + 1; j < len(blks) && j <= i+2; j++ {
				if blks[j].start-blks[j-1].end > 8 || blks[j].kind == "evy" {
					break
				}
				if blks[j].kind == "evy:input" {
					ex.input = strings.Split(strings.TrimRight(blks[j].text, "\n"), "\n")
				}
				if blks[j].kind == "evy:output" {
					ex.want = blks[j].text
					found = true
				}
			}
			if found {
				out = append(out, ex)
			}
		}
	}
	return out
}

func runC01(cfg Config, r *Result) {
	model := startSem(r)
	if model == nil {
		return
	}
	defer model.Close()
	r.Rule = "(a) all documented evy/evy:output example pairs of docs/spec.md, docs/builtins.md, docs/syntax-by-example.md run on the implementation and compared with the documented output, and through the model; (b) random typed programs biased to deep expressions (depth 3-4) over all operators, operand types incl. NaN/Inf/-0/2^53/2^63, non-ASCII strings, nested composites and any, with parenthesised sub-expressions; implementation vs model (outcome, printed text, yields, globals dump with numbers as IEEE bit patterns); non-trivial = the program evaluates at least one binary operator; distinct = distinct program text"
	if in, ok := replayInput(cfg); ok {
		semCase(model, r, in["program"].(string), SemOpts{StopAt: -1, YieldBudget: 100000}, true, "")
		return
	}
	for _, ex := range docExamples() {
		out := ImplRun(ex.src, SemOpts{StopAt: -1, YieldBudget: 200000, Input: ex.input})
		r.Evaluations++
		if out.ParseErr != "" || len(out.Phases) == 0 {
			r.Dist("doc:not-runnable")
			continue
		}
		var got strings.Builder
		for _, t := range out.Phases[0].Trace {
			if strings.HasPrefix(t, "print:") {
				got.WriteString(t[6:])
			}
		}
		nondet := strings.Contains(ex.src, "rand") || strings.Contains(ex.src, "read") || strings.Contains(ex.src, "sleep")
		if strings.TrimSpace(got.String()) == strings.TrimSpace(ex.want) {
			r.Dist("doc:matches")
			r.Validated++
		} else if nondet {
			r.Dist("doc:nondeterministic-skipped")
		} else if out.Phases[0].Class != "ok" && strings.HasPrefix(strings.TrimSpace(ex.want), strings.TrimSpace(got.String())) {
			// documented output includes the error text printed by the CLI
			r.Dist("doc:matches-up-to-error-text")
		} else {
			r.Dist("doc:differs")
			r.Violate(Violation{Kind: "property", Key: "documented-example-differs:" + shortKey(ex.file+":"+firstLine(ex.src)),
				Detail: "the implementation does not print what the language documentation says for this example",
				Input:  map[string]any{"program": ex.src, "file": ex.file}, Impl: got.String(), Model: ex.want})
		}
		semCase(model, r, ex.src, SemOpts{StopAt: -1, YieldBudget: 200000, Input: ex.input}, strings.ContainsAny(ex.src, "+-*/%<>="), "doc:")
	}
	n := cfg.N(2000, 50000)
	for i := 0; i < n; i++ {
		depth := 3
		if i%3 == 0 {
			depth = 4
		}
		src, _, _ := GenProgram(cfg.Rng, GenOpts{MaxStmts: 5, MaxDepth: depth, Funcs: i%2 == 0, Specials: true})
		semCase(model, r, src, SemOpts{StopAt: -1, YieldBudget: 100000}, strings.ContainsAny(src, "+*/%<>"), "gen:")
		if i < 2 {
			r.Sample(map[string]any{"program": src})
		}
	}
	// operator table sweep: every operator on every ordered pair of a pool of values per operand type
	for _, src := range c01OperatorSweep(cfg) {
		semCase(model, r, src, SemOpts{StopAt: -1, YieldBudget: 200000}, true, "sweep:")
	}
	// the array operators on composite and any-held operands followed by updates through one alias (the alias programs of
	// C09): `*` deep-copies per repetition, `+` and slices copy the spine - the VALUE of the operator expression
	for i := 0; i < cfg.N(150, 3000); i++ {
		semCase(model, r, c09Program(cfg.Rng), SemOpts{StopAt: -1, YieldBudget: 50000}, true, "alias:")
	}
	// precedence / associativity / layout: derivations of the layered grammar as oracle (harness/c01prec.go)
	rule := r.Rule
	runC01prec(cfg, r)
	r.Rule = rule + "; (c) " + r.Rule
}

func firstLine(s string) string {
	if i := strings.Index(s, "\n"); i > 0 {
		return s[:i]
	}
	return s
}

func init() { register("C01", runC01) }

// c01OperatorSweep returns programs that apply every applicable binary operator to every ordered pair of
// values from a pool per operand type (numbers incl. NaN/Inf/-0, strings incl. non-ASCII and prefixes,
// bools, arrays incl. prefixes and nested, maps incl. sub/supersets of keys, reordered keys and nested
// values, any-boxed values), each operand held in a typed variable.
func c01OperatorSweep(cfg Config) []string {
	type pool struct {
		ty   string
		vals []string
		ops  []string
	}
	cmp := []string{"==", "!=", "<", ">", "<=", ">="}
	pools := []pool{
		{"num", []string{"0", "1", "-1", "2.5", "(0/0)", "(1/0)", "(-1/0)", "(-0)", "7", "9007199254740993"}, append([]string{"+", "-", "*", "/", "%"}, cmp...)},
		{"string", []string{`""`, `"a"`, `"ab"`, `"b"`, `"äö"`, `"A"`, `"a b"`, `"日本"`}, append([]string{"+"}, cmp...)},
		{"bool", []string{"true", "false"}, []string{"==", "!=", "and", "or"}},
		{"[]num", []string{"[]", "[1]", "[1 2]", "[2 1]", "[1 2 3]", "[(0/0)]"}, []string{"==", "!=", "+"}},
		{"[][]num", []string{"[]", "[[1]]", "[[1] [2]]", "[[1 2]]", "[[]]", "[[1] []]"}, []string{"==", "!=", "+"}},
		{"{}num", []string{"{}", "{a:1}", "{a:1 b:2}", "{b:2 a:1}", "{a:1 b:3}", "{a:2}", "{b:2}", "{a:1 b:2 c:3}"}, []string{"==", "!="}},
		{"{}[]num", []string{"{}", "{a:[1]}", "{a:[1] b:[2]}", "{b:[2] a:[1]}", "{a:[1 2]}", "{a:[]}"}, []string{"==", "!="}},
		{"[]{}num", []string{"[]", "[{a:1}]", "[{a:1 b:2}]", "[{a:1} {b:2}]", "[{}]"}, []string{"==", "!=", "+"}},
		{"any", []string{"1", `"a"`, "true", "[1]", "{a:1}", "{a:1 b:2}", "[1 2]", "2"}, []string{"==", "!="}},
	}
	var out []string
	for _, p := range pools {
		var b strings.Builder
		n := 0
		flush := func() {
			if n > 0 {
				out = append(out, b.String())
				b.Reset()
				n = 0
			}
		}
		for i, x := range p.vals {
			for j, y := range p.vals {
				fmt.Fprintf(&b, "x%d_%d:%s\ny%d_%d:%s\nx%d_%d = %s\ny%d_%d = %s\n", i, j, p.ty, i, j, p.ty, i, j, x, i, j, y)
				for _, op := range p.ops {
					fmt.Fprintf(&b, "print %q (x%d_%d %s y%d_%d)\n", x+" "+op+" "+y, i, j, op, i, j)
				}
				n++
				if n >= 12 {
					flush()
				}
			}
		}
		flush()
	}
	// array repetition
	var b strings.Builder
	for i, a := range []string{"[]", "[1]", "[1 2]", "[[1] [2 3]]", "[{a:1}]"} {
		for j, k := range []string{"0", "1", "2", "3", "(-1)", "1.5", "(0/0)", "(1/0)"} {
			ty := "[]num"
			if i == 3 {
				ty = "[][]num"
			} else if i == 4 {
				ty = "[]{}num"
			}
			fmt.Fprintf(&b, "r%d_%d:%s\nr%d_%d = %s\nn%d_%d := %s\n", i, j, ty, i, j, a, i, j, k)
			if j >= 4 {
				out = append(out, fmt.Sprintf("r:%s\nr = %s\nn := %s\nprint (r * n)\n", ty, a, k))
				continue
			}
			fmt.Fprintf(&b, "print (r%d_%d * n%d_%d)\n", i, j, i, j)
		}
	}
	out = append(out, b.String())
	return out
}
