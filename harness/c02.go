package main

// C02 — accepted programs never go wrong. Property oracle on the real code for
// every accepted generated program: Eval ends with nil, an evy panic, exit,
// failed tests or stopped — never ErrInternal, never a Go panic, never a dead
// or hung process; plus correspondence with the model (which has explicit
// Internal/HostCrash outcomes) and a stream of risky programs run in a child
// process (cycles, huge repetitions, deep recursion).

import (
	"fmt"
	"strings"
	"time"
)

var c02Risky = []struct{ key, src string }{
	{"cyclic-value-print-stack-overflow", "a:[]any\na = [1]\na[0] = a\nprint \"before\"\nprint a\n"},
	{"cyclic-value-equals-stack-overflow", "a:[]any\na = [1]\na[0] = a\nb:[]any\nb = [1]\nb[0] = b\nprint (a == b)\n"},
	{"cyclic-map-print-stack-overflow", "m:{}any\nm.self = m\nprint m\n"},
	{"repetition-huge-count-host-oom", "a := [1] * 10000000000\nprint (len a)\n"},
	{"repetition-overflow-makeslice-panic", "a := [1 2 3 4] * 1000000000000000000\nprint (len a)\n"},
	{"unbounded-recursion-stack-overflow", "func f:num n:num\n    return (f n+1) + 1\nend\nprint (f 1)\n"},
	{"nan-index", "a := [1 2]\nprint a[0/0]\n"},
	{"inf-range", "for i := range 1/0\n    if i > 3\n        break\n    end\nend\nprint \"ok\"\n"},
	{"nan-repeat", "print [1] * (0/0)\n"},
	{"sleep-nan", "sleep 0/0\nprint 1\n"},
	{"exit-nan", "exit 0/0\n"},
	{"empty-times", "x := [] * 3\nprint x\n"},
	// a procedure call (type none) as an operand of == / != was accepted by the parser: nil dereference in evalBinaryExpr
	{"none-operand-of-equality-host-crash", "func f\n    return\nend\nprint ((f) == (f))\n"},
	{"none-operand-of-equality-host-crash", "func f\n    print 1\nend\nx := (f) != (f)\nprint x\n"},
	// repeating the EMPTY array a huge number of times: the element-count cap (6185acc) does not apply (0 elements),
	// and the loop ran `count` times doing nothing - a hang that cannot be interrupted (no yield inside)
	{"empty-repetition-huge-count-hangs", "x:[]num\nx = x * 9007199254740992\nprint \"done\" x\n"},
	{"empty-repetition-huge-count-hangs", "print ([] * 4000000000) ([[]][0] * 1e18)\n"},
	{"empty-plus", "x := [] + []\nprint x (typeof x)\n"},
	{"assert-empty", "a:any\na = []\nprint a.([]any)\n"},
}

func c02Bad(class string) bool {
	return class == "internal" || class == "gopanic" || class == "crash" || class == "timeout" || strings.HasPrefix(class, "unknown")
}

func runC02(cfg Config, r *Result) {
	model := startSem(r)
	if model == nil {
		return
	}
	defer model.Close()
	r.Rule = "random typed programs (all statement and expression forms, functions, any, empty literals in arbitrary positions, NaN/Inf/-0/huge values, tests, effects) accepted by the real parser: Eval must end with ok / an evy panic / exit / failed tests / stopped (oracle on the implementation; ErrInternal, a Go panic, a dead or hung process are violations), and agree with the model; a fixed stream of risky programs (cyclic values, huge repetition counts, unbounded recursion, NaN in index/range/repeat/sleep/exit, empty-literal operators) is run in a child process under time and memory limits; non-trivial = accepted by the parser; distinct = distinct program text"
	if in, ok := replayInput(cfg); ok {
		src := in["program"].(string)
		o := SubRun(src, 20*time.Second)
		r.Evaluations++
		if c02Bad(o.Class) {
			r.Violate(Violation{Kind: "property", Key: "replay:" + o.Class, Detail: o.Err + o.Stderr, Input: in})
		}
		return
	}
	for _, c := range c02Risky {
		o := SubRun(c.src, 30*time.Second)
		r.Evaluations++
		r.Dist("risky:" + o.Class)
		if c02Bad(o.Class) {
			d := o.Err
			if len(d) > 300 {
				d = d[:300]
			}
			r.Violate(Violation{Kind: "property", Key: c.key, Detail: "accepted program ends with " + o.Class + ": " + d,
				Input: map[string]any{"program": c.src}, Impl: o})
		}
	}
	n := cfg.N(1500, 40000)
	for i := 0; i < n; i++ {
		src, _, _ := GenProgram(cfg.Rng, GenOpts{MaxStmts: 8, MaxDepth: 2, Funcs: true, Specials: true, Tests: true, Gfx: true, Reads: true, Empties: i%2 == 0, MoreBuiltins: i%3 == 0})
		d := semCase(model, r, src, SemOpts{StopAt: -1, YieldBudget: 100000, Input: []string{"l1", "5"}}, true, "")
		if strings.HasPrefix(d.Impl.ParseErr, "gopanic") {
			// a parser crash is C03's concern; count it here without failing C02
			r.Dist("parser-gopanic(C03)")
			continue
		}
		for _, p := range d.Impl.Phases {
			if c02Bad(p.Class) {
				r.Violate(Violation{Kind: "property", Key: "accepted-program-goes-wrong:" + p.Class + ":" + shortKey(firstLine(d.Impl.GoPanic)),
					Detail: "an accepted program ended with " + p.Class + " " + d.Impl.GoPanic, Input: map[string]any{"program": src}, Impl: p})
			}
		}
		if i < 2 {
			r.Sample(map[string]any{"program": src})
		}
	}
	// typed functions whose if / else-if / else branches return or fall through in every combination:
	// the parser must reject those with a path that does not return; accepted ones must never go wrong
	for i := 0; i < cfg.N(400, 6000); i++ {
		src := c02ReturnPaths(cfg)
		d := semCase(model, r, src, SemOpts{StopAt: -1, YieldBudget: 100000}, true, "retpaths:")
		for _, p := range d.Impl.Phases {
			if c02Bad(p.Class) {
				r.Violate(Violation{Kind: "property", Key: "accepted-program-goes-wrong:" + p.Class + ":" + shortKey(firstLine(d.Impl.GoPanic)),
					Detail: "a function accepted by the parser reaches its end without returning a value: " + p.Class + " " + d.Impl.GoPanic, Input: map[string]any{"program": src}, Impl: p})
			}
		}
	}
	// names of built-in globals and functions declared as variables / parameters / loop variables in nested
	// scopes, followed by the built-ins that look them up: must be rejected, or run without going wrong
	for _, src := range c02BuiltinNames(cfg) {
		d := semCase(model, r, src, SemOpts{StopAt: -1, YieldBudget: 100000}, true, "builtin-names:")
		for _, p := range d.Impl.Phases {
			if c02Bad(p.Class) {
				r.Violate(Violation{Kind: "property", Key: "accepted-program-goes-wrong:" + p.Class + ":" + shortKey(firstLine(d.Impl.GoPanic)),
					Detail: "a program that declares the name of a built-in in a nested scope is accepted and goes wrong: " + p.Class + " " + d.Impl.GoPanic, Input: map[string]any{"program": src}, Impl: p})
			}
		}
	}
	// untyped empty literals against operands / declared types / parameters of every kind, in every typed position
	// (harness/c02empty.go): the ill-typed combinations must be rejected, the accepted ones must not go wrong
	for i := 0; i < cfg.N(1200, 12000); i++ {
		src, fam := c02EmptyProgram(cfg.Rng)
		d := semCase(model, r, src, SemOpts{StopAt: -1, YieldBudget: 100000}, true, "empty-"+fam+":")
		if strings.HasPrefix(d.Impl.ParseErr, "gopanic") {
			r.Dist("parser-gopanic(C03)")
			continue
		}
		for _, p := range d.Impl.Phases {
			if c02Bad(p.Class) {
				r.Violate(Violation{Kind: "property", Key: "accepted-program-goes-wrong:" + p.Class + ":" + shortKey(firstLine(d.Impl.GoPanic)),
					Detail: "an untyped empty literal next to an operand / declared type of another kind is accepted by the parser and the run goes wrong: " + p.Class + " " + d.Impl.GoPanic, Input: map[string]any{"program": src}, Impl: p})
			}
		}
	}
	// the certificate checker Static.wt on every parser-accepted tree (corpus, generated programs, witnesses)
	runC02WT(cfg, r)
}

// c02ReturnPaths builds a typed function with an if / else-if* / else? chain (possibly nested in a loop or a
// second chain) in which each branch independently returns or falls through, followed or not by a final return,
// and calls it so that every branch is taken and the result is used.
func c02ReturnPaths(cfg Config) string {
	rng := cfg.Rng
	var b strings.Builder
	rt := []string{"num", "string", "[]num"}[rng.Intn(3)]
	val := map[string]string{"num": "n", "string": `"s"`, "[]num": "[n]"}[rt]
	b.WriteString("func f:" + rt + " n:num\n")
	nb := 1 + rng.Intn(3)
	branch := func(ind string) {
		switch rng.Intn(4) {
		case 0:
			b.WriteString(ind + "print \"fall\" n\n")
		case 1:
			b.WriteString(ind + "if n > 100\n" + ind + "    return " + val + "\n" + ind + "end\n")
		default:
			b.WriteString(ind + "return " + val + "\n")
		}
	}
	b.WriteString("    if n < 0\n")
	branch("        ")
	for i := 0; i < nb; i++ {
		fmt.Fprintf(&b, "    else if n == %d\n", i)
		branch("        ")
	}
	if rng.Intn(4) > 0 {
		b.WriteString("    else\n")
		branch("        ")
	}
	b.WriteString("    end\n")
	if rng.Intn(3) == 0 {
		b.WriteString("    return " + val + "\n")
	}
	b.WriteString("end\n")
	for i, v := range []string{"-1", "0", "1", "2", "7"} {
		fmt.Fprintf(&b, "r%d := (f %s)\nprint r%d (typeof r%d)\n", i, v, i, i)
	}
	return b.String()
}

func c02BuiltinNames(cfg Config) []string {
	var out []string
	names := []string{"err", "errmsg", "pi", "print", "len", "str2num"}
	vals := []string{`"text"`, "0", "true", "[1]", "{a:1}"}
	uses := []string{"n := str2num \"zz\"\n%sprint n err errmsg\n", "b := str2bool \"maybe\"\n%sprint b\n", "print pi (len \"ab\")\n%sprint 1\n"}
	for _, n := range names {
		for _, v := range vals {
			for _, u := range uses {
				use1 := fmt.Sprintf(u, "    ")
				use2 := fmt.Sprintf(u, "        ")
				out = append(out,
					fmt.Sprintf("func f\n    %s := %s\n    print %s\n    %send\nf\n", n, v, n, use1),
					fmt.Sprintf("if true\n    %s := %s\n    print %s\n    %send\n", n, v, n, use1),
					fmt.Sprintf("for %s := range 2\n    print %s\n    %send\n", n, n, use1),
					fmt.Sprintf("func g %s:string\n    print %s\n    %send\ng \"p\"\n", n, n, use1),
					fmt.Sprintf("while true\n    if true\n        %s := %s\n        print %s\n        %s    end\n    break\nend\n", n, v, n, use2),
					fmt.Sprintf("on key %s:string\n    print %s\n    %send\n", n, n, use1))
			}
		}
	}
	return out
}

func init() { register("C02", runC02) }
