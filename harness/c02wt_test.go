package main

import (
	"fmt"
	"math/rand"
	"os"
	"sort"
	"strings"
	"testing"
)

// TestWtCorpus runs the certificate checker Static.wt_case (model "static") on
// the exported tree of every corpus program the Go parser accepts and prints
// the rejected ones with the reason symbol: each is a candidate hole of the
// Go checker (or an incompleteness of wt).
// VERIF_MODELRUN=<worktree>/build/modelrun go test -tags verif -run TestWtCorpus -v
func TestWtCorpus(t *testing.T) {
	m, err := StartModel("static")
	if err != nil {
		t.Fatal(err)
	}
	defer m.Close()
	progs := CorpusPrograms()
	if f := os.Getenv("WT_SRC"); f != "" {
		b, _ := os.ReadFile(f)
		progs = strings.Split(string(b), "\n====\n")
	}
	acc, rej, s1 := 0, 0, 0
	reasons := map[string]int{}
	for _, src := range progs {
		prog, err := safeParse(src)
		if err != nil {
			continue
		}
		sx, err := ExportProgram(prog)
		if err != nil {
			continue
		}
		ans, err := m.Ask(sx.String())
		if err != nil {
			t.Fatal(err)
		}
		switch {
		case strings.HasPrefix(ans, "(wt true"):
			acc++
			if strings.HasPrefix(ans, "(wt true true") {
				s1++
			}
		default:
			rej++
			reasons[ans]++
			if os.Getenv("WT_VERBOSE") != "" || reasons[ans] <= 2 {
				fmt.Printf("REJECT %s\n%s\n--------\n", ans, src)
			}
		}
	}
	keys := []string{}
	for k := range reasons {
		keys = append(keys, k)
	}
	sort.Strings(keys)
	for _, k := range keys {
		fmt.Println(reasons[k], k)
	}
	fmt.Printf("go-accepted: wt accepts %d (stage-1 fragment: %d), wt rejects %d\n", acc, s1, rej)
}

// TestC02Export prints the exported tree of the program in $DBG_SRC.
func TestC02Export(t *testing.T) {
	if os.Getenv("DBG_SRC") == "" {
		t.Skip("DBG_SRC not set")
	}
	src, _ := os.ReadFile(os.Getenv("DBG_SRC"))
	prog, err := safeParse(string(src))
	if err != nil {
		t.Fatal(err)
	}
	sx, err := ExportProgram(prog)
	fmt.Println(sx.String(), err)
}

// TestC02Verdict prints, for every program of $DBG_SRC (separated by a line "===="), the parser's verdict,
// Static.wt's verdict on the exported tree and the evaluator's outcome.
func TestC02Verdict(t *testing.T) {
	if os.Getenv("DBG_SRC") == "" {
		t.Skip("DBG_SRC not set")
	}
	b, _ := os.ReadFile(os.Getenv("DBG_SRC"))
	model, err := StartModel("static")
	if err != nil {
		t.Fatal(err)
	}
	defer model.Close()
	for _, src := range strings.Split(string(b), "\n====\n") {
		fmt.Printf("---- %q\n", src)
		prog, perr := safeParse(src)
		if perr != nil {
			fmt.Println("  parser:", strings.ReplaceAll(perr.Error(), "\n", " | "))
			continue
		}
		sx, err := ExportProgram(prog)
		if err != nil {
			fmt.Println("  unexportable:", err)
			continue
		}
		if os.Getenv("DBG_TREE") != "" {
			fmt.Println("  tree:", sx.String())
		}
		ans, err := model.Ask(sx.String())
		out := RunEvy(src, RunOpts{YieldBudget: 200000, NoSummary: true, Input: []string{"1", "abc"}})
		fmt.Printf("  parser: accepted; Static: %s %v; run: %s %q %s%s\n", ans, err, out.Class, out.Prints, out.GoPanic, out.ErrText)
	}
}

// TestSwtOutside prints generated / corpus programs that wt accepts and the specification-driven checker swt does not.
func TestSwtOutside(t *testing.T) {
	if os.Getenv("DBG_SWT") == "" {
		t.Skip("DBG_SWT not set")
	}
	model, err := StartModel("statictypes")
	if err != nil {
		t.Fatal(err)
	}
	defer model.Close()
	rng := rand.New(rand.NewSource(7))
	progs := CorpusPrograms()
	for i := 0; i < 300; i++ {
		opts := GenOpts{MaxStmts: 5, MaxDepth: 2, Funcs: i%2 == 0, Handlers: i%3 == 0, Specials: true, MapLitPure: true}
		if os.Getenv("DBG_SWT") == "stress" {
			opts = GenOpts{MaxStmts: 8, MaxDepth: 2, Funcs: i%2 == 0, Handlers: i%3 == 0, Reads: i%5 == 0, Empties: i%4 == 0, Tests: i%7 == 0, Specials: true, Gfx: true, MapLitPure: true}
		}
		src, _, _ := GenProgram(rng, opts)
		progs = append(progs, src)
	}
	in, out, shown := 0, 0, 0
	for _, src := range progs {
		prog, perr := safeParse(src)
		if perr != nil {
			continue
		}
		sx, err := ExportProgram(prog)
		if err != nil {
			continue
		}
		ans, _ := model.Ask(sx.String())
		switch {
		case strings.HasPrefix(ans, "(swt true"):
			in++
		case strings.HasPrefix(ans, "(swt false true"):
			out++
			if shown < 25 && len(src) < 4000 {
				shown++
				fmt.Printf("---- outside:\n%s\n", src)
			}
		}
	}
	fmt.Println("inside", in, "outside (wt accepts)", out)
}
