package main

// C06 — accepted token mutants.  The property says that NO piece of accepted source text is dropped or
// changed by the formatter.  The other C06 inputs are programs built to be valid; this stream instead takes
// small valid programs (one per header / statement form) and corpus programs, applies every single-token
// deletion, insertion and substitution by a representative of every token kind (the C03 mutator), and sends
// the mutants through the same oracles: a mutant the parser REJECTS is not an input of the property (counted);
// a mutant the parser ACCEPTS must keep its significant-token sequence under Format(), re-parse to the same
// tree and behave the same.  This is how "tolerated but unrecorded" tokens show up (a parameter written
// `a=num`, text after a handler's parameters, ...): the parser skips them, so the formatter cannot print them.

import (
	"math/rand"
	"strings"
)

// one small program per line-structured form: every header line and every statement kind
var c06MutSeeds = []string{
	"func f a:num\n    print a\nend\nf 1\n",
	"func f:num a:num b:string\n    print b\n    return a\nend\nprint (f 1 \"x\")\n",
	"func f nums:num...\n    print nums\nend\nf 1 2\n",
	"func f:[]num\n    return [1 2]\nend\nprint (f)\n",
	"func f m:{}[]any\n    print m\nend\nf {}\n",
	"on key k:string\n    print k\nend\n",
	"on down x:num y:num\n    print x y\nend\n",
	"on down\n    print 1\nend\n",
	"on move x:num _:num\n    print x\nend\n",
	"x:num\ny:[]string\nz:{}any\nprint x y z\n",
	"x := 1\nx = x + 1\nprint x\n",
	"a := [1 2 3]\na[0] = 2\nprint a[1:] a[:1] a[0]\n",
	"m := {a:1 b:2}\nm.a = 3\nm[\"b\"] = 4\nprint m.a m[\"b\"]\n",
	"x:any\nx = 1\nprint x.(num)\n",
	"if true\n    print 1\nelse if false\n    print 2\nelse\n    print 3\nend\n",
	"while false\n    print 1\n    break\nend\n",
	"for i := range 1 5 2\n    print i\nend\n",
	"for range 3\n    print 1\nend\n",
	"for k := range {a:1}\n    print k\nend\n",
	"for c := range \"ab\"\n    print c\nend\n",
	"print 1 -2 (3 - 4) [5 -6] {a:-7}\n",
	"print (len \"a\") // tail\n// own line\nprint !true -1\n",
	"x := [\n    1 // one\n    2\n]\nprint x\n",
	"func g\n    return\nend\ng\n",
}

func c06AcceptedMutants(cfg Config, c *c06Ctx) {
	kinds, err := tokenKinds()
	if err != nil {
		c.r.Violate(Violation{Kind: "correspondence", Key: "mutation-table", Detail: err.Error()})
		return
	}
	rng := rand.New(rand.NewSource(cfg.Seed*7919 + 11))
	var bases []corpusProg
	for i, s := range c06MutSeeds {
		bases = append(bases, corpusProg{Name: "form#" + itoa(i), Src: s})
	}
	// corpus programs of moderate size, a rotating share per seed
	corpus := loadCorpus()
	share := cfg.N(8, 2)
	for i, p := range corpus {
		if len(p.Src) <= 500 && i%share == int(cfg.Seed)%share {
			bases = append(bases, p)
		}
	}
	budget := cfg.N(40, 400)
	seen := map[string]bool{}
	before := len(c.r.Violations)
	for _, b := range bases {
		var out []mutCase
		mutate(b, kinds, rng, budget, &out)
		for _, m := range out {
			switch m.Stream {
			case "delete1", "insert", "substitute", "swap", "delete2":
			default:
				continue // prefixes and line edits are C03's business; they rarely stay valid
			}
			if seen[m.Src] || strings.ContainsRune(m.Src, 0) {
				continue
			}
			seen[m.Src] = true
			c06Check(c, fmtInput{m.Src, "accepted-mutant"})
			if len(c.r.Violations)-before > 40 {
				return // enough witnesses
			}
		}
	}
}

func itoa(i int) string {
	if i == 0 {
		return "0"
	}
	s := ""
	for i > 0 {
		s = string(rune('0'+i%10)) + s
		i /= 10
	}
	return s
}
