package main

import (
	"time"
	"fmt"
	"reflect"
	"strconv"
	"strings"

	"evylang.dev/evy/pkg/bytecode"
	"evylang.dev/evy/pkg/parser"
)

// Export of the parsed AST (exported fields of pkg/parser nodes only) as the
// S-expression Compile.v decodes: exactly what compiler.go looks at.

func bcIsNilNode(n parser.Node) bool {
	return n == nil || (reflect.ValueOf(n).Kind() == reflect.Ptr && reflect.ValueOf(n).IsNil())
}

func etyOf(n parser.Node) string {
	t := n.Type()
	switch {
	case t == parser.NUM_TYPE:
		return "num"
	case t == parser.STRING_TYPE:
		return "string"
	case t != nil && t.Name == parser.ARRAY:
		return "array"
	case t != nil && t.Name == parser.MAP:
		return "map"
	}
	return "other"
}

func astExpr(n parser.Node) string {
	switch n := n.(type) {
	case *parser.NumLiteral:
		return fmt.Sprintf("(num %d)", canonBits(n.Value))
	case *parser.BoolLiteral:
		return fmt.Sprintf("(bool %v)", n.Value)
	case *parser.StringLiteral:
		return "(str " + quoteSX(n.Value) + ")"
	case *parser.Var:
		return "(var " + quoteSX(n.Name) + ")"
	case *parser.ArrayLiteral:
		parts := []string{"arr"}
		for _, e := range n.Elements {
			parts = append(parts, astExpr(e))
		}
		return "(" + strings.Join(parts, " ") + ")"
	case *parser.MapLiteral:
		parts := []string{"map", strconv.Itoa(len(n.Pairs))}
		for _, k := range n.Order {
			parts = append(parts, "("+quoteSX(k)+" "+astExpr(n.Pairs[k])+")")
		}
		return "(" + strings.Join(parts, " ") + ")"
	case *parser.UnaryExpression:
		op := "other"
		switch n.Op {
		case parser.OP_MINUS:
			op = "minus"
		case parser.OP_BANG:
			op = "bang"
		}
		return "(un " + op + " " + astExpr(n.Right) + ")"
	case *parser.BinaryExpression:
		return fmt.Sprintf("(bin %s %s %s %s %s)", quoteSX(n.Op.String()), etyOf(n.Left), etyOf(n.Right), astExpr(n.Left), astExpr(n.Right))
	case *parser.IndexExpression:
		return "(index " + astExpr(n.Left) + " " + astExpr(n.Index) + ")"
	case *parser.SliceExpression:
		return "(slice " + astExpr(n.Left) + " " + astOpt(n.Start) + " " + astOpt(n.End) + ")"
	case *parser.GroupExpression:
		return "(group " + astExpr(n.Expr) + ")"
	}
	return "(unsupported " + quoteSX(fmt.Sprintf("%T", n)) + ")"
}

func astOpt(n parser.Node) string {
	if bcIsNilNode(n) {
		return "none"
	}
	return astExpr(n)
}

func astBlock(b *parser.BlockStatement) string {
	parts := make([]string, 0, len(b.Statements))
	for _, s := range b.Statements {
		parts = append(parts, astStmt(s))
	}
	return "(" + strings.Join(parts, " ") + ")"
}

func astStmt(n parser.Node) string {
	switch n := n.(type) {
	case *parser.EmptyStmt:
		return "(empty)"
	case *parser.InferredDeclStmt:
		return "(decl " + quoteSX(n.Decl.Var.Name) + " " + astExpr(n.Decl.Value) + ")"
	case *parser.AssignmentStmt:
		return "(assign " + astExpr(n.Target) + " " + astExpr(n.Value) + ")"
	case *parser.BreakStmt:
		return "(break)"
	case *parser.BlockStatement:
		return "(block " + strings.TrimSuffix(strings.TrimPrefix(astBlock(n), "("), ")") + ")"
	case *parser.WhileStmt:
		return "(while " + astExpr(n.Condition) + " " + astBlock(n.Block) + ")"
	case *parser.IfStmt:
		elifs := []string{}
		for _, b := range n.ElseIfBlocks {
			elifs = append(elifs, "("+astExpr(b.Condition)+" "+astBlock(b.Block)+")")
		}
		els := "noelse"
		if n.Else != nil {
			els = "(else " + strings.TrimSuffix(strings.TrimPrefix(astBlock(n.Else), "("), ")") + ")"
		}
		return "(if (" + astExpr(n.IfBlock.Condition) + " " + astBlock(n.IfBlock.Block) + ") (" + strings.Join(elifs, " ") + ") " + els + ")"
	case *parser.ForStmt:
		lv := "none"
		if n.LoopVar != nil {
			lv = quoteSX(n.LoopVar.Name)
		}
		if sr, ok := n.Range.(*parser.StepRange); ok && etyOf(n.Range) == "num" {
			return "(forstep " + lv + " " + astOpt(sr.Start) + " " + astExpr(sr.Stop) + " " + astOpt(sr.Step) + " " + astBlock(n.Block) + ")"
		}
		return "(foriter " + lv + " " + etyOf(n.Range) + " " + astExpr(n.Range) + " " + astBlock(n.Block) + ")"
	}
	return "(unsupported " + quoteSX(fmt.Sprintf("%T", n)) + ")"
}

func astProgram(p *parser.Program) string {
	parts := make([]string, 0, len(p.Statements))
	for _, s := range p.Statements {
		parts = append(parts, astStmt(s))
	}
	return "(" + strings.Join(parts, " ") + ")"
}

// c16ModelBytes compares the Compile.v model with the real compiler: bytes,
// constants, GlobalCount, LocalCount (or the error class).
func c16ModelBytes(src string, c c17Compiled, in map[string]any, r *Result, model *Model) {
	ast := astProgram(c.prog)
	ans, err := model.Ask("(compile true " + ast + ")") // the model in force mirrors HEAD (strict)
	if err != nil {
		r.Violate(Violation{Kind: "correspondence", Key: "model-crash", Detail: err.Error(), Input: in})
		return
	}
	mx, err := ParseSX(ans)
	if err != nil || mx.Kind != "lst" || len(mx.L) < 2 {
		r.Violate(Violation{Kind: "correspondence", Key: "compile-model-output", Detail: ans + " for " + ast, Input: in})
		return
	}
	r.Dist("compile-model-compared")
	if mx.L[0].S == "err" {
		if c.CompileErr == "" {
			r.Violate(Violation{Kind: "correspondence", Key: "compile-model-differs", Detail: "model: error " + mx.L[1].S + ", Go: compiled", Input: in})
		} else if mx.L[1].S != c.CompileErrClass {
			r.Violate(Violation{Kind: "correspondence", Key: "compile-model-differs",
				Detail: "compile errors of different classes: model " + mx.L[1].S + ", Go " + c.CompileErrClass + " (" + c.CompileErr + ")", Input: in})
		}
		return
	}
	if c.CompileErr != "" {
		r.Violate(Violation{Kind: "correspondence", Key: "compile-model-differs", Detail: "model: compiled, Go: " + c.CompileErr, Input: in})
		return
	}
	var mb strings.Builder
	for i, b := range mx.L[1].L {
		if i > 0 {
			mb.WriteByte(' ')
		}
		mb.WriteString(b.S)
	}
	gb := strings.TrimSuffix(strings.TrimPrefix(bytesSX(c.Code), "("), ")")
	mconsts := make([]string, len(mx.L[2].L))
	for i, k := range mx.L[2].L {
		if k.L[0].S == "num" {
			u, _ := strconv.ParseUint(k.L[1].S, 10, 64)
			mconsts[i] = fmt.Sprintf("N%016x", u)
		} else {
			mconsts[i] = "S" + strconv.Quote(k.L[1].S)
		}
	}
	gconsts := c.bc.VerifConstants()
	for i, k := range gconsts {
		p := &bcDumpParser{s: k}
		v, err := p.vmValue()
		if err != nil {
			v = "unparsable:" + k
		}
		gconsts[i] = v
	}
	if mb.String() != gb || strings.Join(mconsts, " ") != strings.Join(gconsts, " ") ||
		mx.L[3].S != strconv.Itoa(c.GCount) || mx.L[4].S != strconv.Itoa(c.LCount) {
		what := "bytes"
		if mb.String() == gb {
			what = "constants/counts"
		}
		r.Violate(Violation{Kind: "correspondence", Key: "compile-model-differs",
			Detail: "the Compile.v model and bytecode.Compiler disagree on " + what,
			Input:  in, Impl: map[string]any{"bytes": gb, "consts": gconsts, "globals": c.GCount, "locals": c.LCount, "disasm": headLines(c.bc.Instructions.String(), 80)},
			Model: map[string]any{"bytes": mb.String(), "consts": mconsts, "globals": mx.L[3].S, "locals": mx.L[4].S, "ast": ast}})
	}
}

// ---------- the VM model (Vm.v, through Compile.v's run_case) against the real VM ----------
func sxBytes(l []SX) string {
	b := make([]byte, len(l))
	for i, x := range l {
		n, _ := strconv.Atoi(x.S)
		b[i] = byte(n)
	}
	return string(b)
}

func canonModelValue(x SX) string {
	if x.Kind == "sym" {
		if x.S == "nil" {
			return "unset"
		}
		return x.S
	}
	if x.Kind != "lst" || len(x.L) == 0 {
		return "?" + x.String()
	}
	switch x.L[0].S {
	case "num":
		u, _ := strconv.ParseUint(x.L[1].S, 10, 64)
		return fmt.Sprintf("N%016x", u)
	case "bool":
		if x.L[1].S == "true" {
			return "Bt"
		}
		return "Bf"
	case "str":
		return "S" + strconv.Quote(sxBytes(x.L[1:]))
	case "arr":
		parts := make([]string, 0, len(x.L)-1)
		for _, e := range x.L[1:] {
			parts = append(parts, canonModelValue(e))
		}
		return "A[" + strings.Join(parts, " ") + "]"
	case "map":
		parts := make([]string, 0, len(x.L)-1)
		for _, kv := range x.L[1:] {
			parts = append(parts, strconv.Quote(sxBytes(kv.L[0].L))+":"+canonModelValue(kv.L[1]))
		}
		return "M{" + strings.Join(parts, " ") + "}"
	}
	return "?" + x.String()
}

func hasOpcode(code []byte, want bytecode.Opcode) bool {
	for i := 0; i < len(code); {
		def, err := bytecode.Lookup(bytecode.Opcode(code[i]))
		if err != nil {
			return false
		}
		if bytecode.Opcode(code[i]) == want {
			return true
		}
		i++
		for _, w := range def.OperandWidths {
			i += w
		}
	}
	return false
}

// c16ModelVM runs the program on the extracted VM models and compares them
// with the real VM: outcome class, sp, every global slot.
//   - Vm.v (model vmrun): value semantics for arrays and maps, OpSetIndex only
//     checks — only programs whose bytecode has no OpSetIndex;
//   - VmHeap.v (model vmheap): arrays and maps are references into a heap,
//     OpSetIndex stores — EVERY program, element stores and aliasing included
//     (the model mirrors the real VM, the recorded VM/evaluator divergences
//     such as vm-map-insert-lost included, so they do not show up here).
func c16ModelVM(c c17Compiled, vm c16VM, in map[string]any, r *Result, vmModel *Model) {
	if vm.Class == "timeout" || len(c.Code) > 20000 {
		// (the models fetch by skipn: quadratic on very long code)
		return
	}
	store := hasOpcode(c.Code, bytecode.OpSetIndex)
	if vmModel != nil && !store {
		c16ModelVMOne(c, vm, in, r, vmModel, "Vm.v", "vm-model")
	}
	if c16VMHeapModel != nil {
		if c16ModelVMOne(c, vm, in, r, c16VMHeapModel, "VmHeap.v", "vm-heap-model") && store {
			r.Dist("vm-heap-model-compared:with-element-store")
			if vm.Class == "ok" {
				r.Dist("vm-heap-model-compared:with-element-store/ok")
			}
		}
	}
}

// c16ModelVMOne: one model against the real VM; true when compared.
func c16ModelVMOne(c c17Compiled, vm c16VM, in map[string]any, r *Result, vmModel *Model, name, tag string) bool {
	// time-limited: on very large programs (or bytecode shapes the model was not built for) the extracted VM may not
	// answer for minutes; such a case is counted as skipped (DESIGN 0.4: model resource limits), never compared, and
	// the run goes on - an unlimited wait here once turned a seeded compiler change into "the harness did not finish"
	ans, err := vmModel.AskT("(run "+astProgram(c.prog)+")", 60*time.Second)
	if err == ErrModelTimeout {
		r.Dist("skipped:model-resource:" + tag + "-no-answer-in-60s")
		return false
	}
	if err != nil {
		r.Violate(Violation{Kind: "correspondence", Key: "model-crash", Detail: name + ": " + err.Error(), Input: in})
		return false
	}
	mx, err := ParseSX(ans)
	if err != nil || mx.Kind != "lst" || len(mx.L) < 1 {
		r.Violate(Violation{Kind: "correspondence", Key: tag + "-output", Detail: ans, Input: in})
		return false
	}
	r.Dist(tag + "-compared")
	mclass := mx.L[0].S
	switch mclass {
	case "halted":
		mclass = "ok"
	case "failed":
		mclass = "panic:" + mx.L[1].S
	case "crashed":
		mclass = "gopanic"
	case "outoffuel":
		r.Dist(tag + "-outoffuel")
		return false
	}
	differ := func(what string, impl, model any) {
		r.Violate(Violation{Kind: "correspondence", Key: tag + "-differs", Detail: "the " + name + " model and bytecode.VM disagree on " + what,
			Input: in, Impl: impl, Model: model})
	}
	if mclass != vm.Class {
		differ("the outcome", vm.Class+" "+vm.Detail, ans)
		return true
	}
	if mclass != "ok" {
		return true
	}
	slots := make([]string, c.GCount)
	for i := range slots {
		slots[i] = "unset"
	}
	for name, i := range c.comp.VerifGlobalSymbols() {
		if i < len(slots) {
			slots[i] = vm.Globals[name]
		}
	}
	mslots := make([]string, len(mx.L[2].L))
	for i, g := range mx.L[2].L {
		mslots[i] = canonModelValue(g)
	}
	if strings.Join(slots, "\x1e") != strings.Join(mslots, "\x1e") || mx.L[1].S != strconv.Itoa(c.LCount) {
		differ("the final globals / sp", map[string]any{"globals": slots, "sp": c.LCount}, map[string]any{"globals": mslots, "sp": mx.L[1].S})
	}
	return true
}
