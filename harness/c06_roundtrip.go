package main

import (
	"fmt"
	"sort"
	"strings"
	"unicode"

	"evylang.dev/evy/pkg/lexer"
	"evylang.dev/evy/pkg/parser"
)

// C06 round trip (coq/FormatParse.v, Props/C06_roundtrip.v): for every expression of an
// accepted program, the extracted models format it (Format.fmt_expr), turn the writes into
// tokens (FormatParse.toks_of_pieces) and parse them with the Pratt model; the resulting tree
// must be the tree of the expression at the same place of the REAL re-parse of Format(), and
// the hypotheses of the theorem (prec_ok, lex_ok, tight in list items) must hold on every
// expression the real parser built. The token view itself is tied to the real lexer at
// program level (token types of everything the formatter writes vs lexer tokens of Format()).

type rtExpr struct {
	n   parser.Node
	wss bool // item of a whitespace-sensitive list (call argument, array element, map value, range argument)
}

// rtCollect lists the expression positions of a program in source order; list items of
// nested calls / array / map literals are listed as positions of their own.
func rtCollect(prog *parser.Program) []rtExpr {
	var out []rtExpr
	var sub func(n parser.Node)
	add := func(n parser.Node, wss bool) {
		if n == nil || fmtIsNil(n) {
			return
		}
		out = append(out, rtExpr{n, wss})
		sub(n)
	}
	sub = func(n parser.Node) {
		switch n := n.(type) {
		case *parser.Any:
			sub(n.Value)
		case *parser.ArrayLiteral:
			for _, e := range n.Elements {
				add(e, true)
			}
		case *parser.MapLiteral:
			for _, k := range n.Order {
				add(n.Pairs[k], true)
			}
		case *parser.FuncCall:
			for _, a := range n.Arguments {
				add(a, true)
			}
		case *parser.UnaryExpression:
			sub(n.Right)
		case *parser.BinaryExpression:
			sub(n.Left)
			sub(n.Right)
		case *parser.IndexExpression:
			sub(n.Left)
			sub(n.Index)
		case *parser.SliceExpression:
			sub(n.Left)
			if n.Start != nil {
				sub(n.Start)
			}
			if n.End != nil {
				sub(n.End)
			}
		case *parser.DotExpression:
			sub(n.Left)
		case *parser.GroupExpression:
			sub(n.Expr)
		case *parser.TypeAssertion:
			sub(n.Left)
		}
	}
	var stmts func(ns []parser.Node)
	block := func(b *parser.BlockStatement) {
		if b != nil {
			stmts(b.Statements)
		}
	}
	stmts = func(ns []parser.Node) {
		for _, s := range ns {
			switch s := s.(type) {
			case *parser.InferredDeclStmt:
				add(s.Decl.Value, false)
			case *parser.AssignmentStmt:
				add(s.Value, false)
			case *parser.FuncCallStmt:
				for _, a := range s.FuncCall.Arguments {
					add(a, true)
				}
			case *parser.ReturnStmt:
				if s.Value != nil {
					add(s.Value, false)
				}
			case *parser.IfStmt:
				add(s.IfBlock.Condition, false)
				block(s.IfBlock.Block)
				for _, c := range s.ElseIfBlocks {
					add(c.Condition, false)
					block(c.Block)
				}
				block(s.Else)
			case *parser.WhileStmt:
				add(s.Condition, false)
				block(s.Block)
			case *parser.ForStmt:
				if sr, ok := s.Range.(*parser.StepRange); ok && sr != nil {
					if sr.Start != nil {
						add(sr.Start, true)
					}
					add(sr.Stop, true)
					if sr.Step != nil {
						add(sr.Step, true)
					}
				} else if s.Range != nil {
					add(s.Range, true)
				}
				block(s.Block)
			case *parser.FuncDefStmt:
				block(s.Body)
			case *parser.EventHandlerStmt:
				block(s.Body)
			}
		}
	}
	stmts(prog.Statements)
	return out
}

// rtEnv lists the variables and the called functions (name, declared without parameters) of an expression.
func rtEnv(n parser.Node) (funcs, vars SX) {
	seenV, seenF := map[string]bool{}, map[string]bool{}
	var fs, vs []SX
	var walk func(n parser.Node)
	walk = func(n parser.Node) {
		if n == nil || fmtIsNil(n) {
			return
		}
		switch n := n.(type) {
		case *parser.Var:
			if !seenV[n.Name] {
				seenV[n.Name] = true
				vs = append(vs, Str(n.Name))
			}
		case *parser.Any:
			walk(n.Value)
		case *parser.ArrayLiteral:
			for _, e := range n.Elements {
				walk(e)
			}
		case *parser.MapLiteral:
			for _, k := range n.Order {
				walk(n.Pairs[k])
			}
		case *parser.FuncCall:
			if !seenF[n.Name] {
				seenF[n.Name] = true
				niladic := n.FuncDef != nil && len(n.FuncDef.Params) == 0 && n.FuncDef.VariadicParam == nil
				fs = append(fs, Lst(Str(n.Name), Bool(niladic)))
			}
			for _, a := range n.Arguments {
				walk(a)
			}
		case *parser.UnaryExpression:
			walk(n.Right)
		case *parser.BinaryExpression:
			walk(n.Left)
			walk(n.Right)
		case *parser.IndexExpression:
			walk(n.Left)
			walk(n.Index)
		case *parser.SliceExpression:
			walk(n.Left)
			walk(n.Start)
			walk(n.End)
		case *parser.DotExpression:
			walk(n.Left)
		case *parser.GroupExpression:
			walk(n.Expr)
		case *parser.TypeAssertion:
			walk(n.Left)
		}
	}
	walk(n)
	return LstOf(fs), LstOf(vs)
}

type rtCtx struct {
	model *Model
	asked int
	max   int
	lex   *Model // FormatLex.fmtlex_case: the lexer model on the formatter model's text
	lexed int    // programs on which pieces_ok and lex_matches were evaluated
	lexOK int    // ... and pieces_ok held (lex_reads_pieces applies)
}

// rtLexTable is the oracle table ((cp isLetter isDigit) ...) for the code points of text.
func rtLexTable(text string) SX {
	seen := map[rune]bool{}
	var distinct []rune
	for _, r := range []rune(text) {
		if !seen[r] {
			seen[r] = true
			distinct = append(distinct, r)
		}
	}
	sort.Slice(distinct, func(i, j int) bool { return distinct[i] < distinct[j] })
	var rows []SX
	for _, r := range distinct {
		rows = append(rows, Lst(Int(int64(r)), Bool(unicode.IsLetter(r)), Bool(unicode.IsDigit(r))))
	}
	return Lst(rows...)
}

// c06LexLink evaluates, on the extracted models, the hypothesis and the conclusion of
// FormatLexProofs.lex_reads_pieces for the pieces the formatter model writes for prog.
func c06LexLink(c *rtCtx, r *Result, src, formatted string, psx SX) {
	if c.lex == nil || c.lexed >= 400 {
		return
	}
	for _, ch := range formatted {
		if ch >= 0x80 { // model strings are byte lists, the lexer model reads code points
			return
		}
	}
	ans, err := c.lex.Ask(Lst(rtLexTable(formatted), psx).String())
	if err != nil {
		r.Violate(Violation{Kind: "correspondence", Key: "lexlink-model-failed", Detail: err.Error(), Input: src})
		c.lex = nil
		return
	}
	tx, err := ParseSX(ans)
	if err != nil || tx.Kind != "lst" || len(tx.L) != 3 {
		r.Violate(Violation{Kind: "correspondence", Key: "lexlink-model-failed", Detail: "answer: " + ans, Input: src})
		return
	}
	c.lexed++
	piecesOK, matches := tx.L[0].S == "true", tx.L[1].S == "true"
	if piecesOK {
		c.lexOK++
	}
	if !matches {
		r.Violate(Violation{Kind: "correspondence", Key: "lexer-model-differs-from-token-view",
			Detail: "Lexer.lex (render (fmt_prog p)) is not FormatParse.toks_of_pieces (fmt_prog p) (types, literals of non-strings)", Input: src, Impl: formatted})
	}
	if piecesOK && !matches {
		r.Violate(Violation{Kind: "correspondence", Key: "lex-reads-pieces-contradicted",
			Detail: "pieces_ok holds and lex_matches does not: contradicts FormatLexProofs.lex_reads_pieces", Input: src, Impl: formatted})
	}
	if !piecesOK && matches {
		// the local condition is sufficient, not necessary; count only
	}
}

// c06RoundTrip runs the model round trip for the expressions of prog against the re-parse prog2.
func c06RoundTrip(c *rtCtx, r *Result, src, formatted string, prog, prog2 *parser.Program) {
	if c == nil || c.model == nil || c.asked >= c.max {
		return
	}
	// ---- token view of the whole program vs the real lexer ----
	psx, err := ExportFmtProgram(prog)
	if err != nil {
		return
	}
	c06LexLink(c, r, src, formatted, psx)
	ans, err := c.model.Ask(Lst(Sym("progtoks"), psx).String())
	if err != nil {
		r.Violate(Violation{Kind: "correspondence", Key: "roundtrip-model-failed", Detail: err.Error(), Input: src})
		c.model = nil
		return
	}
	if tx, err := ParseSX(ans); err == nil && tx.Kind == "lst" {
		var mt []string
		for _, t := range tx.L {
			mt = append(mt, t.S)
		}
		var lt []string
		l := lexer.New(formatted)
		for t := l.Next(); t.Type != lexer.EOF; t = l.Next() {
			lt = append(lt, t.Type.String())
		}
		if d := firstDiff(mt, lt); d != "" {
			r.Violate(Violation{Kind: "correspondence", Key: "token-view-differs-from-lexer",
				Detail: "FormatParse.toks_of_pieces (fmt_prog p) is not the real lexer's token-type sequence of Format(): " + d, Input: src, Impl: formatted})
			return
		}
	}
	// ---- expression by expression ----
	es, es2 := rtCollect(prog), rtCollect(prog2)
	if len(es) != len(es2) {
		r.Violate(Violation{Kind: "property", Key: "reparse-has-different-expression-positions",
			Detail: fmt.Sprintf("the tree of the source has %d expression positions, the tree of Format() %d", len(es), len(es2)), Input: src, Impl: formatted})
		return
	}
	x1, x2 := &fmtExporter{prog: prog}, &fmtExporter{prog: prog2}
	for i := range es {
		if c.asked >= c.max || i >= 60 {
			break
		}
		e1, e2 := x1.expr(es[i].n), x2.expr(es2[i].n)
		if x1.err != nil || x2.err != nil {
			return
		}
		funcs, vars := rtEnv(es[i].n)
		c.asked++
		ans, err := c.model.Ask(Lst(Bool(es[i].wss), funcs, vars, e1, e2).String())
		if err != nil {
			r.Violate(Violation{Kind: "correspondence", Key: "roundtrip-model-failed", Detail: err.Error(), Input: src})
			c.model = nil
			return
		}
		a, err := ParseSX(ans)
		if err != nil || a.Kind != "lst" || len(a.L) != 12 {
			r.Violate(Violation{Kind: "correspondence", Key: "roundtrip-model-answer", Detail: truncKey(ans, 300), Input: src})
			return
		}
		status, parsed, t1, t2 := a.L[0].S, a.L[1].String(), a.L[2].String(), a.L[3].String()
		nerrs, nrest := a.L[4].S, a.L[5].S
		frag, precOK, tight, lexOK := a.L[6].S == "true", a.L[7].S == "true", a.L[8].S == "true", a.L[9].S == "true"
		covered := a.L[10].S == "true" // the syntactic part of item_ok (list-level theorems) / of the top-level theorems
		in := map[string]any{"program": src, "expression": e1.String(), "list_item": es[i].wss}
		r.Dist(fmt.Sprintf("roundtrip:%s:%s", map[bool]string{true: "list-item", false: "expression"}[es[i].wss],
			map[bool]string{true: "covered-by-theorem", false: "model-run-only"}[covered]))
		switch {
		case !precOK:
			r.Violate(Violation{Kind: "correspondence", Key: "roundtrip-hypothesis-prec-ok-false",
				Detail: "the real parser built an expression tree outside prec_ok (hypothesis of C06_roundtrip_expr_partial)", Input: in})
		case frag && !lexOK:
			r.Violate(Violation{Kind: "correspondence", Key: "roundtrip-hypothesis-lex-ok-false",
				Detail: "an expression of the fragment is outside lex_ok (names/numbers/types)", Input: in})
		case es[i].wss && !tight:
			r.Violate(Violation{Kind: "correspondence", Key: "roundtrip-hypothesis-tight-false",
				Detail: "a list item has a binary operator outside brackets without formatting.wss", Input: in})
		case t1 != t2:
			r.Violate(Violation{Kind: "property", Key: "reparse-expression-tree-differs",
				Detail: "the expression at the same place of parse(Format()) has a different tree (positions and Any wrappers aside)", Input: in,
				Impl: map[string]any{"source_tree": t1, "reparsed_tree": t2, "formatted": formatted}})
		case status != "ok" || parsed != t2 || nerrs != "0" || nrest != "1":
			key := "roundtrip-model-parse-differs"
			if covered {
				key = "roundtrip-theorem-instance-false"
			}
			r.Violate(Violation{Kind: "correspondence", Key: key,
				Detail: fmt.Sprintf("model: Pratt.parse (toks_of_pieces (fmt_expr e)) gives %s %s (errors %s, tokens left %s); the real re-parse has %s", status, truncKey(parsed, 300), nerrs, nrest, truncKey(t2, 300)),
				Input:  in})
		}
	}
}

func rtNote(r *Result, c *rtCtx) {
	if c != nil {
		r.Note("round trip: %d expressions formatted and re-parsed on the models (Format.fmt_expr -> FormatParse.toks_of_pieces -> Pratt.parse_expr) and compared with the real re-parse", c.asked)
		r.Note("lexer link: on %d formatted programs the lexer model applied to the formatter model's text gave the token view; on %d of them the local hypothesis pieces_ok of lex_reads_pieces held", c.lexed, c.lexOK)
	}
}

var _ = strings.TrimSpace
