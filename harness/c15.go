package main

import (
	"fmt"
	"math/rand"
	"regexp"
	"strconv"
	"strings"
)

// C15 — events: random handler sets × random event sequences through the real
// HandleEvent, compared with the model phase by phase; plus the property's own
// oracle on the implementation: the same program with handlers turned into
// procedures and the events into calls must produce the same effects.

var eventPayloads = map[string]func(rng *rand.Rand) []any{
	"key":     func(rng *rand.Rand) []any { return []any{[]string{"a", "Enter", "ä", "", "x y"}[rng.Intn(5)]} },
	"down":    func(rng *rand.Rand) []any { return []any{float64(rng.Intn(100)), float64(rng.Intn(100)) + 0.5} },
	"up":      func(rng *rand.Rand) []any { return []any{float64(rng.Intn(100)), -float64(rng.Intn(10))} },
	"move":    func(rng *rand.Rand) []any { return []any{float64(rng.Intn(100)), float64(rng.Intn(100))} },
	"animate": func(rng *rand.Rand) []any { return []any{float64(rng.Intn(5000))} },
	"input": func(rng *rand.Rand) []any {
		return []any{[]string{"s1", "id2"}[rng.Intn(2)], []string{"7", "val", ""}[rng.Intn(3)]}
	},
}

var onRe = regexp.MustCompile(`(?m)^on (\w+)(.*)$`)

// c15AsProcedures rewrites `on <ev> params` into `func h_<ev> params` and appends one call per event.
func c15AsProcedures(src string, evs []SemEvent) (string, bool) {
	nparams := map[string]int{}
	out := onRe.ReplaceAllStringFunc(src, func(line string) string {
		m := onRe.FindStringSubmatch(line)
		nparams[m[1]] = len(strings.Fields(m[2]))
		return "func h_" + m[1] + m[2]
	})
	var b strings.Builder
	b.WriteString(out)
	for _, e := range evs {
		n, ok := nparams[e.Name]
		if !ok {
			continue
		}
		b.WriteString("h_" + e.Name)
		for i := 0; i < n && i < len(e.Params); i++ {
			switch v := e.Params[i].(type) {
			case float64:
				s := strconv.FormatFloat(v, 'f', -1, 64)
				if v < 0 {
					s = "(" + s + ")"
				}
				b.WriteString(" " + s)
			case string:
				b.WriteString(" " + strconv.Quote(v))
			case bool:
				b.WriteString(" " + strconv.FormatBool(v))
			}
		}
		b.WriteString("\n")
	}
	return b.String(), true
}

func flatTrace(r SemRun) []string {
	var t []string
	for _, p := range r.Phases {
		t = append(t, p.Trace...)
	}
	return t
}

func runC15(cfg Config, r *Result) {
	model := startSem(r)
	if model == nil {
		return
	}
	defer model.Close()
	r.Rule = "random typed programs with a random subset of the six event handlers (each declaring a prefix of the payload parameters, some as `_`), followed by a random sequence of events with payloads; implementation vs model after Eval and after every HandleEvent (outcome, effects, yields, globals dump); property oracle on the implementation: handlers rewritten as procedures + one call per event give the same effect trace; stream errglobals: handlers and top-level code that index / slice / range over the built-in globals errmsg / err in place while str2num / str2bool fail and succeed from event to event (model comparison per event + procedures oracle); non-trivial = at least one delivered event reaches a handler; distinct = distinct (program, event list)"
	if in, ok := replayInput(cfg); ok {
		if src, ok := in["program"].(string); ok {
			semCase(model, r, src, SemOpts{StopAt: -1, Events: c14Events(in), YieldBudget: 50000}, true, "replay:")
		}
		return
	}
	c15Signatures(cfg, r, model)
	c15HiddenNames(cfg, r, model)
	c15ErrGlobals(cfg, r, model)
	n := cfg.N(400, 10000)
	maxEv := cfg.N(10, 40)
	for i := 0; i < n; i++ {
		src, hs, _ := GenProgram(cfg.Rng, GenOpts{MaxStmts: 5, MaxDepth: 1, Funcs: true, Handlers: true, Gfx: true, MapLitPure: false})
		var evs []SemEvent
		names := []string{"key", "down", "up", "move", "animate", "input"}
		ne := cfg.Rng.Intn(maxEv + 1)
		delivered := 0
		for j := 0; j < ne; j++ {
			name := names[cfg.Rng.Intn(len(names))]
			if len(hs) > 0 && cfg.Rng.Intn(3) > 0 {
				name = hs[cfg.Rng.Intn(len(hs))]
			}
			if len(evs) > 0 && cfg.Rng.Intn(4) == 0 {
				// the same event again, payload bit for bit (a pointer that rests, a key held down): every delivered event
				// runs its handler exactly once
				prev := evs[len(evs)-1-cfg.Rng.Intn(min(len(evs), 3))]
				name = prev.Name
				evs = append(evs, SemEvent{Name: prev.Name, Params: append([]any(nil), prev.Params...)})
			} else {
				evs = append(evs, SemEvent{Name: name, Params: eventPayloads[name](cfg.Rng)})
			}
			for _, h := range hs {
				if h == name {
					delivered++
				}
			}
		}
		o := SemOpts{StopAt: -1, Events: evs, YieldBudget: 50000}
		d := semCase(model, r, src, o, delivered > 0, "")
		r.Dist(fmt.Sprintf("handlers:%d", len(hs)))
		if d.Impl.ParseErr != "" || d.Impl.Budget || len(d.Impl.Phases) == 0 {
			continue
		}
		if i < 2 {
			r.Sample(map[string]any{"program": src, "events": evs})
		}
		// property oracle: equivalent procedures. Only when the top-level run and all events ended normally
		// (a panic inside one event does not stop later events, while a panicking call ends the program).
		allOK := true
		for _, p := range d.Impl.Phases {
			if p.Class != "ok" {
				allOK = false
			}
		}
		if !allOK || delivered == 0 {
			continue
		}
		psrc, _ := c15AsProcedures(src, evs)
		pr := ImplRun(psrc, SemOpts{StopAt: -1, YieldBudget: 50000})
		if pr.ParseErr != "" {
			r.Dist("procedures:parse-error")
			continue
		}
		a, b := flatTrace(d.Impl), flatTrace(pr)
		r.Dist("procedures:compared")
		if strings.Join(a, "\x1e") != strings.Join(b, "\x1e") || (len(pr.Phases) > 0 && pr.Phases[0].Class != "ok") {
			r.Violate(Violation{Kind: "property", Key: "events-differ-from-equivalent-procedures",
				Detail: "delivering the events does not have the effects of calling equivalent procedures in that order",
				Input:  map[string]any{"program": src, "events": evs, "procedures": psrc}, Impl: map[string]any{"events": a, "procedures": b}})
		}
	}
}

// c15Signatures: "any handler signatures the parser accepts". Every event x parameter-list variation (the documented
// types, `_`, fewer parameters, one parameter retyped as any / num / string / bool / []num / {}any, an extra parameter): the
// parser decides; for an ACCEPTED signature every delivered event must run the handler like the equivalent procedure call
// (implementation vs model, and events vs procedures even when a phase fails).
func c15Signatures(cfg Config, r *Result, model *Model) {
	retypes := []string{"", "any", "num", "string", "bool", "[]num", "{}any"}
	for _, h := range handlerSigs {
		for nDecl := 0; nDecl <= len(h.params)+1; nDecl++ {
			for pos := -1; pos < nDecl; pos++ {
				for _, rt := range retypes {
					if (pos < 0) != (rt == "") {
						continue
					}
					hdr := "on " + h.name
					var used []string
					for j := 0; j < nDecl; j++ {
						name, ty := fmt.Sprintf("p%d", j), "num"
						if j < len(h.params) {
							ty = h.params[j].t.String()
						}
						if j == pos {
							ty = rt
						}
						if cfg.Rng.Intn(5) == 0 {
							name = "_"
						} else {
							used = append(used, name)
						}
						hdr += " " + name + ":" + ty
					}
					src := "g := 0\n" + hdr + "\n    g = g + 1\n    print \"h\" g " + strings.Join(used, " ") + "\nend\nprint \"top\" g\n"
					evs := []SemEvent{{Name: h.name, Params: eventPayloads[h.name](cfg.Rng)}, {Name: h.name, Params: eventPayloads[h.name](cfg.Rng)}}
					d := semCase(model, r, src, SemOpts{StopAt: -1, Events: evs, YieldBudget: 50000}, true, "sig:")
					if d.Impl.ParseErr != "" || len(d.Impl.Phases) == 0 {
						r.Dist("sig:rejected-by-parser")
						continue
					}
					r.Dist("sig:accepted-by-parser")
					psrc, _ := c15AsProcedures(src, evs)
					pr := ImplRun(psrc, SemOpts{StopAt: -1, YieldBudget: 50000})
					if pr.ParseErr != "" || len(pr.Phases) == 0 || pr.Phases[0].Class != "ok" {
						continue
					}
					a, b := flatTrace(d.Impl), flatTrace(pr)
					bad := strings.Join(a, "\x1e") != strings.Join(b, "\x1e")
					for _, ph := range d.Impl.Phases {
						if ph.Class != "ok" {
							bad = true
						}
					}
					if bad {
						r.Violate(Violation{Kind: "property", Key: "accepted-handler-signature-does-not-run-like-procedure",
							Detail: "the parser accepts this handler signature, the equivalent procedure calls run normally, but delivering the events does not have the same effects",
							Input:  map[string]any{"program": src, "events": evs, "procedures": psrc}, Impl: map[string]any{"events": d.Impl.Phases, "procedures": b}})
					}
				}
			}
		}
	}
}

// c15HiddenNames: handlers that declare NO parameters (or `_`) ignore the payload - in particular no name of the built-in
// signature (x y / s / n / id val) may become visible in the handler: globals with exactly those names are read and
// updated by parameterless handlers, events are delivered, and the result must be that of the equivalent procedures.
func c15HiddenNames(cfg Config, r *Result, model *Model) {
	for v := 0; v < cfg.N(12, 200); v++ {
		under := v%3 == 1 // declare the parameters as `_`
		sig := func(ev, params string) string {
			if under {
				return "on " + ev + params
			}
			return "on " + ev
		}
		src := "x := 100\ny := 200\nn := 0\ns := \"S\"\nid := \"ID\"\nval := \"V\"\n" +
			sig("down", " _:num _:num") + "\n    x = x - 1\n    y = y + 1\n    print \"down\" x y\nend\n" +
			sig("up", " _:num _:num") + "\n    print \"up\" x y n\nend\n" +
			sig("key", " _:string") + "\n    s = s + \"!\"\n    print \"key\" s\nend\n" +
			sig("animate", " _:num") + "\n    n = n + 1\n    print \"anim\" n\nend\n" +
			sig("input", " _:string _:string") + "\n    id = id + \"#\"\n    val = val + \"?\"\n    print \"input\" id val\nend\n" +
			"print x y n s id val\n"
		var evs []SemEvent
		names := []string{"down", "up", "key", "animate", "input"}
		for j := 0; j < 4+cfg.Rng.Intn(8); j++ {
			name := names[cfg.Rng.Intn(len(names))]
			ev := SemEvent{Name: name, Params: eventPayloads[name](cfg.Rng)}
			evs = append(evs, ev)
			if cfg.Rng.Intn(3) == 0 {
				evs = append(evs, SemEvent{Name: name, Params: append([]any(nil), ev.Params...)})
			}
		}
		d := semCase(model, r, src, SemOpts{StopAt: -1, Events: evs, YieldBudget: 50000}, true, "hidden:")
		if d.Impl.ParseErr != "" || len(d.Impl.Phases) == 0 {
			continue
		}
		psrc, _ := c15AsProcedures(src, evs)
		if under { // the procedure twin of `on ev _:T` needs arguments; compare only the parameterless form with procedures
			continue
		}
		pr := ImplRun(psrc, SemOpts{StopAt: -1, YieldBudget: 50000})
		if pr.ParseErr != "" || len(pr.Phases) == 0 {
			continue
		}
		a, b := flatTrace(d.Impl), flatTrace(pr)
		if strings.Join(a, "\x1e") != strings.Join(b, "\x1e") {
			r.Violate(Violation{Kind: "property", Key: "parameterless-handler-differs-from-procedure",
				Detail: "handlers declared without parameters do not read and update the same globals as the equivalent procedures (a payload name of the built-in signature is visible in the handler?)",
				Input:  map[string]any{"program": src, "events": evs, "procedures": psrc}, Impl: map[string]any{"events": a, "procedures": b}})
		}
	}
}

// c15ErrGlobals: handlers (and top-level code) that look INTO the built-in globals err / errmsg directly - index, slice,
// for-range, len, comparison, not through a copy - while conversion built-ins (str2num, str2bool) fail and succeed from
// event to event: every handler run must see the cell as the conversion of THIS run left it (same global as all earlier
// code, no state of an earlier run). Implementation vs model per event, plus the equivalent-procedures oracle.
func c15ErrGlobals(cfg Config, r *Result, model *Model) {
	rng := cfg.Rng
	good := []string{"7", "1", "-3", "+42", "123456", "0", "true", "false", "T", "f"}
	// (ASCII only: the model defers the text of a message that quotes a non-ASCII string to an oracle)
	bad := []string{"abc", "xyz", "", "q", "hello world", "zz top", "x", "a b c d e f g", "no", "tru", "seven", "#", "yes!"}
	pick := func() string {
		if rng.Intn(2) == 0 {
			return good[rng.Intn(len(good))]
		}
		return bad[rng.Intn(len(bad))]
	}
	for v, n := 0, cfg.N(300, 6000); v < n; v++ {
		var b strings.Builder
		nid := 0
		// looks writes 1-3 statements that read errmsg / err in place
		looks := func(ind string) {
			for j, m := 0, 1+rng.Intn(3); j < m; j++ {
				idx := []string{"0", "-1", "1", "-2", "8", "22", "23", fmt.Sprint(rng.Intn(34))}[rng.Intn(8)]
				switch rng.Intn(8) {
				case 0:
					fmt.Fprintf(&b, "%sprint (len errmsg) err\n", ind)
				case 1:
					fmt.Fprintf(&b, "%sif err\n%s    print errmsg[%s] errmsg[:8] errmsg[-2:] errmsg[23:-1]\n%send\n", ind, ind, idx, ind)
				case 2:
					fmt.Fprintf(&b, "%sfor c := range errmsg\n%s    seen = seen + c\n%send\n%sprint \"seen\" seen\n%sseen = \"\"\n", ind, ind, ind, ind, ind)
				case 3:
					fmt.Fprintf(&b, "%sprint errmsg[%s]\n", ind, idx) // out of bounds when the conversion succeeded: a panic in this event only
				case 4:
					fmt.Fprintf(&b, "%sprint errmsg[%s:]\n", ind, idx)
				case 5:
					fmt.Fprintf(&b, "%sif (len errmsg) > %s\n%s    print errmsg[%s] errmsg[%s:] errmsg[:%s]\n%send\n", ind, strings.TrimPrefix(idx, "-"), ind, idx, idx, idx, ind)
				case 6:
					fmt.Fprintf(&b, "%sfor range errmsg\n%s    cnt = cnt + 1\n%send\n%sprint \"cnt\" cnt (errmsg == \"\")\n", ind, ind, ind, ind)
				default:
					nid++
					fmt.Fprintf(&b, "%sm%d := errmsg\n%sprint m%d (m%d == errmsg) errmsg\n", ind, nid, ind, nid, nid)
				}
			}
		}
		conv := func(ind, arg string) {
			nid++
			if rng.Intn(3) == 0 {
				fmt.Fprintf(&b, "%sb%d := str2bool %s\n%sif b%d\n%s    total = total + 1\n%send\n", ind, nid, arg, ind, nid, ind, ind)
			} else {
				fmt.Fprintf(&b, "%sn%d := str2num %s\n%stotal = total + n%d\n", ind, nid, arg, ind, nid)
			}
		}
		b.WriteString("total := 0\ncnt := 0\nseen := \"\"\n")
		if rng.Intn(2) == 0 { // the top-level program already looks into the cell
			conv("", strconv.Quote(pick()))
			looks("")
		}
		type hd struct{ name, sig, arg, use string }
		all := []hd{{"input", " id:string val:string", "val", "id val"}, {"key", " k:string", "k", "k"}, {"input", " _:string val:string", "val", "val"},
			{"animate", "", "", ""}, {"down", " x:num _:num", "", "x"}, {"up", "", "", ""}}
		var hs []hd
		used := map[string]bool{}
		for _, i := range rng.Perm(len(all))[:1+rng.Intn(3)] {
			if !used[all[i].name] {
				used[all[i].name] = true
				hs = append(hs, all[i])
			}
		}
		for _, h := range hs {
			fmt.Fprintf(&b, "on %s%s\n    print \"%s\" %s total\n", h.name, h.sig, h.name, h.use)
			if rng.Intn(4) == 0 { // looks at what the previous run / the main program left
				looks("    ")
			}
			for j, m := 0, 1+rng.Intn(2); j < m; j++ {
				arg := h.arg
				if arg == "" || rng.Intn(5) == 0 {
					arg = strconv.Quote(pick())
				}
				conv("    ", arg)
				looks("    ")
			}
			b.WriteString("end\n")
		}
		b.WriteString("print total cnt seen err errmsg\n")
		src := b.String()
		var evs []SemEvent
		for j, m := 0, 2+rng.Intn(6); j < m; j++ {
			h := hs[rng.Intn(len(hs))]
			var ps []any
			switch h.name {
			case "input":
				ps = []any{[]string{"s1", "id2"}[rng.Intn(2)], pick()}
			case "key":
				ps = []any{pick()}
			default:
				ps = eventPayloads[h.name](rng)
			}
			evs = append(evs, SemEvent{Name: h.name, Params: ps})
		}
		d := semCase(model, r, src, SemOpts{StopAt: -1, Events: evs, YieldBudget: 50000}, true, "errglobals:")
		if d.Impl.ParseErr != "" {
			if r.Distribution["errglobals:parse-error"]++; r.Distribution["errglobals:parse-error"] <= 2 {
				r.Note("errglobals program rejected by the parser (%s): %q", d.Impl.ParseErr, src)
			}
			continue
		}
		if len(d.Impl.Phases) == 0 || d.Impl.Budget {
			continue
		}
		allOK := true
		for _, p := range d.Impl.Phases {
			if p.Class != "ok" {
				allOK = false
			}
		}
		if !allOK {
			r.Dist("errglobals:some-event-panics")
			continue
		}
		psrc, _ := c15AsProcedures(src, evs)
		pr := ImplRun(psrc, SemOpts{StopAt: -1, YieldBudget: 50000})
		if pr.ParseErr != "" || len(pr.Phases) == 0 {
			r.Dist("errglobals:procedures-parse-error")
			continue
		}
		r.Dist("errglobals:procedures-compared")
		a, bb := flatTrace(d.Impl), flatTrace(pr)
		if joinLines(a) != joinLines(bb) || pr.Phases[0].Class != "ok" {
			r.Violate(Violation{Kind: "property", Key: "err-globals-in-handlers-differ-from-procedures",
				Detail: "handlers that read the built-in globals err/errmsg in place (index, slice, range) after conversions do not behave like the equivalent procedures called in that order",
				Input:  map[string]any{"program": src, "events": evs, "procedures": psrc}, Impl: map[string]any{"events": a, "procedures": bb}})
		}
	}
}

func init() { register("C15", runC15) }
