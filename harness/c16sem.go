package main

import (
	"fmt"
	"math/rand"
	"strconv"
	"strings"
	"time"

	"evylang.dev/evy/pkg/parser"
)

// C16, the tie of compile_correct's semantics to the evaluator: the theorem
// C16_compile_correct_ctl_partial relates the VM model to exec_l, the direct
// big-step semantics of coq/CompileSem.v.  This stream runs exec_l (extracted,
// model "semexec") next to the REAL evaluator and next to the evaluator model
// coq/Sem.v on generated programs of the fragment psfrag: whenever exec_l is
// defined, the evaluator (and Sem.v) must finish without error and every
// declared global must have exec_l's value; whenever exec_l is undefined with
// ample fuel, the evaluator must have failed at run time.
// Stream sem-tie-locals does the same for lx_l, the semantics with block
// scopes of C16_compile_correct_locals_partial, on programs of lpfrag.
// Both are differential correspondences, not theorems.

// ---------- a generator for exactly the fragment psfrag ----------

type fragGen struct {
	rng      *rand.Rand
	b        strings.Builder
	nums     []string // global num variables that may be assigned
	strs     []string
	bools    []string
	arrs     []string
	maps     []string // {}num variables with the keys a and b
	ctrs     []string // while counters (pre-declared)
	lvs      []string // loop variables in scope (read only), with their type
	lvTyp    map[string]string
	nid      int
	errs     bool // allow run-time errors (index out of range, zero step)
	stmtsMax int
	locals   bool            // lpfrag: declarations and loop variables inside blocks too
	curDecl  map[string]bool // names declared in the block being generated
}

func (g *fragGen) line(ind int, s string) {
	g.b.WriteString(strings.Repeat("    ", ind))
	g.b.WriteString(s)
	g.b.WriteByte('\n')
}

func (g *fragGen) pick(l []string) string { return l[g.rng.Intn(len(l))] }

func (g *fragGen) numLit() string {
	switch g.rng.Intn(6) {
	case 0:
		return strconv.Itoa(g.rng.Intn(4)) + ".5"
	default:
		return strconv.Itoa(g.rng.Intn(7))
	}
}

func (g *fragGen) idx(n int) string {
	if g.errs && g.rng.Intn(12) == 0 {
		return strconv.Itoa(n + g.rng.Intn(3)) // out of range
	}
	if g.rng.Intn(4) == 0 {
		return "-" + strconv.Itoa(1+g.rng.Intn(n))
	}
	return strconv.Itoa(g.rng.Intn(n))
}

func (g *fragGen) num(d int) string {
	k := g.rng.Intn(13)
	if d <= 0 {
		k = g.rng.Intn(4)
	}
	lvn := []string{}
	for _, v := range g.lvs {
		if g.lvTyp[v] == "num" {
			lvn = append(lvn, v)
		}
	}
	switch {
	case k < 2:
		return g.numLit()
	case k < 4:
		if len(lvn) > 0 && g.rng.Intn(2) == 0 {
			return g.pick(lvn)
		}
		return g.pick(g.nums)
	case k < 8:
		op := g.pick([]string{"+", "-", "*"})
		return "(" + g.num(d-1) + " " + op + " " + g.num(d-1) + ")"
	case k < 9:
		return "(" + g.num(d-1) + " " + g.pick([]string{"/", "%"}) + " " + strconv.Itoa(1+g.rng.Intn(4)) + ")"
	case k < 10:
		return "(-" + g.pick(g.nums) + ")"
	case k < 11:
		// arrays are kept at 3 elements by the generator
		switch g.rng.Intn(6) {
		case 0: // concatenation: 4 elements
			return "(" + g.pick(g.arrs) + " + [" + g.numLit() + "])[" + g.idx(4) + "]"
		case 1: // a slice: 2 elements
			return g.pick(g.arrs) + g.pick([]string{"[1:]", "[:2]", "[-2:]", "[1:3]"}) + "[" + g.idx(2) + "]"
		case 2: // repetition: 4 elements
			return "([" + g.numLit() + " " + g.numLit() + "] * " + g.repCount("2") + ")[" + g.idx(4) + "]"
		}
		return g.pick(g.arrs) + "[" + g.idx(3) + "]"
	default:
		// maps are kept at the keys a and b by the generator
		if g.rng.Intn(5) == 0 {
			return g.mapLit() + "[" + g.key() + "]"
		}
		return g.pick(g.maps) + "[" + g.key() + "]"
	}
}

func (g *fragGen) repCount(n string) string {
	if g.errs && g.rng.Intn(8) == 0 {
		return g.pick([]string{"-1", "1.5"}) // ErrBadRepetition
	}
	return n
}

func (g *fragGen) key() string {
	if g.errs && g.rng.Intn(10) == 0 {
		return `"zz"` // no such key
	}
	return g.pick([]string{`"a"`, `"b"`})
}

func (g *fragGen) mapLit() string {
	if g.rng.Intn(2) == 0 {
		return "{b:" + g.num(1) + " a:" + g.num(0) + "}"
	}
	return "{a:" + g.num(1) + " b:" + g.num(0) + "}"
}

func (g *fragGen) mapv() string {
	if g.rng.Intn(3) == 0 {
		return g.pick(g.maps)
	}
	return g.mapLit()
}

func (g *fragGen) strLit() string {
	return strconv.Quote(g.pick([]string{"", "a", "bc", "héé", "x y", "日本"}))
}

func (g *fragGen) str(d int) string {
	k := g.rng.Intn(9)
	if d <= 0 {
		k = g.rng.Intn(4)
	}
	lvs := []string{}
	for _, v := range g.lvs {
		if g.lvTyp[v] == "string" {
			lvs = append(lvs, v)
		}
	}
	switch {
	case k < 2:
		return g.strLit()
	case k < 4:
		if len(lvs) > 0 && g.rng.Intn(2) == 0 {
			return g.pick(lvs)
		}
		return g.pick(g.strs)
	case k < 7:
		return "(" + g.str(d-1) + " + " + g.str(d-1) + ")"
	case k < 8:
		// index into a literal of known length (strings grow, their length is not tracked)
		return `"héllo"[` + g.idx(5) + "]"
	default:
		if g.errs && g.rng.Intn(6) == 0 {
			return `"héllo"` + g.pick([]string{"[3:1]", "[2:9]", "[-7:]"}) // ErrSlice / ErrBounds
		}
		return `"héllo"` + g.pick([]string{"[1:3]", "[:2]", "[2:]", "[-3:-1]", "[4:4]", "[:]"})
	}
}

func (g *fragGen) boolean(d int) string {
	k := g.rng.Intn(10)
	if d <= 0 {
		k = g.rng.Intn(3)
	}
	switch {
	case k < 1:
		return g.pick([]string{"true", "false"})
	case k < 3:
		return g.pick(g.bools)
	case k < 6:
		return "(" + g.num(d-1) + " " + g.pick([]string{"<", "<=", ">", ">=", "==", "!="}) + " " + g.num(d-1) + ")"
	case k < 7:
		return "(" + g.str(d-1) + " " + g.pick([]string{"<", "==", "!=", ">="}) + " " + g.str(d-1) + ")"
	case k < 8:
		return "(" + g.boolean(d-1) + " " + g.pick([]string{"==", "!="}) + " " + g.boolean(d-1) + ")"
	case k < 9: // structural equality
		if g.rng.Intn(2) == 0 {
			return "(" + g.mapv() + " " + g.pick([]string{"==", "!="}) + " " + g.mapv() + ")"
		}
		return "(" + g.arr() + " " + g.pick([]string{"==", "!="}) + " " + g.arr() + ")"
	default:
		return "(!" + g.boolean(d-1) + ")"
	}
}

func (g *fragGen) arr() string {
	switch g.rng.Intn(9) {
	case 0, 1, 2:
		return g.pick(g.arrs)
	case 3: // 1 + 2 elements
		return "(" + g.pick(g.arrs) + "[:1] + " + g.pick(g.arrs) + "[1:])"
	case 4: // 3 × 1 element
		return "([" + g.num(1) + "] * " + g.repCount("3") + ")"
	case 5: // 2 + 1 elements
		if g.errs && g.rng.Intn(6) == 0 {
			return "(" + g.pick(g.arrs) + "[2:1] + [0])" // ErrSlice
		}
		return "(" + g.pick(g.arrs) + "[1:] + [" + g.num(0) + "])"
	}
	return "[" + g.num(1) + " " + g.num(1) + " " + g.num(0) + "]"
}

func (g *fragGen) assign(ind int) {
	switch g.rng.Intn(9) {
	case 8:
		g.line(ind, g.pick(g.maps)+" = "+g.mapv())
	case 0, 1, 2:
		g.line(ind, g.pick(g.nums)+" = "+g.num(2))
	case 3, 4:
		g.line(ind, g.pick(g.strs)+" = "+g.str(2))
	case 5:
		g.line(ind, g.pick(g.bools)+" = "+g.boolean(2))
	default:
		g.line(ind, g.pick(g.arrs)+" = "+g.arr())
	}
}

func (g *fragGen) rangeHdr() string {
	r := g.rng
	switch r.Intn(3) {
	case 0:
		return strconv.Itoa(r.Intn(4))
	case 1:
		a := r.Intn(4) - 1
		return fmt.Sprintf("%d %d", a, a+r.Intn(4))
	default:
		step := []int{1, 2, 3, -1, -2}[r.Intn(5)]
		if g.errs && r.Intn(10) == 0 {
			step = 0
		}
		a := r.Intn(5)
		return fmt.Sprintf("%d %d %d", a, a+step*r.Intn(4), step)
	}
}

func (g *fragGen) block(ind, depth int, inLoop, top bool) {
	// a block is a scope: what it declares is gone at its end
	ln, ls, lb, la, lm, cd := len(g.nums), len(g.strs), len(g.bools), len(g.arrs), len(g.maps), g.curDecl
	g.curDecl = map[string]bool{}
	n := 1 + g.rng.Intn(3)
	for i := 0; i < n; i++ {
		g.stmt(ind, depth, inLoop, top)
	}
	g.nums, g.strs, g.bools, g.arrs, g.maps, g.curDecl = g.nums[:ln], g.strs[:ls], g.bools[:lb], g.arrs[:la], g.maps[:lm], cd
}

// declName: a fresh name, or (inside a block, sometimes) the name of a visible
// variable of the same type declared in an outer scope: a shadowing declaration
func (g *fragGen) declName(same []string) string {
	if g.locals && g.curDecl != nil && g.rng.Intn(3) == 0 {
		v := g.pick(same)
		if !g.curDecl[v] {
			g.curDecl[v] = true
			return v
		}
	}
	g.nid++
	v := fmt.Sprintf("d%d", g.nid)
	if g.curDecl != nil {
		g.curDecl[v] = true
	}
	return v
}

func (g *fragGen) stmt(ind, depth int, inLoop, top bool) {
	g.stmtsMax--
	k := g.rng.Intn(20)
	if depth >= 3 || g.stmtsMax < 0 {
		k = g.rng.Intn(6)
	}
	switch {
	case k < 5:
		g.assign(ind)
	case k < 6:
		if inLoop {
			g.line(ind, "if "+g.boolean(1))
			g.line(ind+1, "break")
			g.line(ind, "end")
		} else {
			g.assign(ind)
		}
	case k < 10: // if / else if / else
		g.line(ind, "if "+g.boolean(2))
		g.block(ind+1, depth+1, inLoop, false)
		for j := g.rng.Intn(3); j > 0; j-- {
			g.line(ind, "else if "+g.boolean(1))
			g.block(ind+1, depth+1, inLoop, false)
		}
		if g.rng.Intn(2) == 0 {
			g.line(ind, "else")
			g.block(ind+1, depth+1, inLoop, false)
		}
		g.line(ind, "end")
	case k < 13: // while with a counter
		if len(g.ctrs) == 0 {
			g.assign(ind)
			return
		}
		c := g.ctrs[0]
		g.ctrs = g.ctrs[1:]
		g.line(ind, c+" = 0")
		g.line(ind, fmt.Sprintf("while %s < %d", c, 1+g.rng.Intn(4)))
		g.line(ind+1, c+" = "+c+" + 1")
		g.block(ind+1, depth+1, true, false)
		g.line(ind, "end")
	case k < 16: // for range without loop variable
		switch g.rng.Intn(5) {
		case 0:
			g.line(ind, "for range "+g.arr())
		case 1:
			g.line(ind, "for range "+g.str(1))
		case 4:
			g.line(ind, "for range "+g.mapv())
		default:
			g.line(ind, "for range "+g.rangeHdr())
		}
		g.block(ind+1, depth+1, true, false)
		g.line(ind, "end")
	default:
		if !top && !g.locals {
			g.assign(ind)
			return
		}
		// a declaration or a loop with a loop variable: at top level a global for the
		// compiler, inside a block (locals mode) a local of the block's scope
		switch g.rng.Intn(4) {
		case 0:
			// the parser rejects variables that are never read: a block-local one is read right away
			switch g.rng.Intn(5) {
			case 4:
				e := g.mapv()
				v := g.declName(g.maps)
				g.line(ind, v+" := "+e)
				g.maps = append(g.maps, v)
				if !top {
					g.line(ind, "n1 = n1 + "+v+`["a"]`)
				}
			case 0:
				e := g.num(2)
				v := g.declName(g.nums)
				g.line(ind, v+" := "+e)
				g.nums = append(g.nums, v)
				if !top {
					g.line(ind, "n1 = n1 + "+v)
				}
			case 1:
				e := g.str(2)
				v := g.declName(g.strs)
				g.line(ind, v+" := "+e)
				g.strs = append(g.strs, v)
				if !top {
					g.line(ind, "s1 = s1 + "+v)
				}
			case 2:
				e := g.boolean(2)
				v := g.declName(g.bools)
				g.line(ind, v+" := "+e)
				g.bools = append(g.bools, v)
				if !top {
					g.line(ind, "b0 = b0 == "+v)
				}
			default:
				e := g.arr()
				v := g.declName(g.arrs)
				g.line(ind, v+" := "+e)
				g.arrs = append(g.arrs, v)
				if !top {
					g.line(ind, "n1 = n1 + "+v+"[0]")
				}
			}
		case 1, 2:
			g.nid++
			lv := fmt.Sprintf("i%d", g.nid)
			g.line(ind, "for "+lv+" := range "+g.rangeHdr())
			g.lvs = append(g.lvs, lv)
			g.lvTyp[lv] = "num"
			g.line(ind+1, "n1 = n1 + "+lv)
			g.block(ind+1, depth+1, true, false)
			g.lvs = g.lvs[:len(g.lvs)-1]
			g.line(ind, "end")
		default:
			g.nid++
			lv := fmt.Sprintf("e%d", g.nid)
			if r := g.rng.Intn(5); r == 4 {
				g.line(ind, "for "+lv+" := range "+g.mapv())
				g.lvTyp[lv] = "string"
			} else if r < 2 {
				g.line(ind, "for "+lv+" := range "+g.arr())
				g.lvTyp[lv] = "num"
			} else {
				g.line(ind, "for "+lv+" := range "+g.str(1))
				g.lvTyp[lv] = "string"
			}
			g.lvs = append(g.lvs, lv)
			if g.lvTyp[lv] == "num" {
				g.line(ind+1, "n1 = n1 + "+lv)
			} else {
				g.line(ind+1, "s1 = "+lv+" + s1")
			}
			g.block(ind+1, depth+1, true, false)
			g.lvs = g.lvs[:len(g.lvs)-1]
			g.line(ind, "end")
		}
	}
}

// genFragProgram: a program of psfrag; with locals, of lpfrag (declarations and
// loop variables inside blocks, shadowing declarations)
func genFragProgram(rng *rand.Rand, errs, locals bool) string {
	g := &fragGen{rng: rng, errs: errs, locals: locals, lvTyp: map[string]string{}, stmtsMax: 6 + rng.Intn(14)}
	g.line(0, "n0 := "+g.numLit())
	g.line(0, "n1 := "+g.numLit())
	g.line(0, `s0 := "ab"`)
	g.line(0, `s1 := ""`)
	g.line(0, "b0 := true")
	g.line(0, "a0 := [1 2 3]")
	g.line(0, "m0 := {a:1 b:2}")
	g.nums, g.strs, g.bools, g.arrs, g.maps = []string{"n0", "n1"}, []string{"s0", "s1"}, []string{"b0"}, []string{"a0"}, []string{"m0"}
	for i := 0; i < 4; i++ {
		c := fmt.Sprintf("w%d", i)
		g.line(0, c+" := 0")
		g.ctrs = append(g.ctrs, c)
	}
	// the parser rejects variables that are never read
	g.line(0, `n0 = n0 + n1 + w0 + w1 + w2 + w3 + a0[0] + m0["a"]`)
	g.line(0, "s0 = s0 + s1")
	g.line(0, "b0 = b0 == b0")
	n := 3 + rng.Intn(6)
	for i := 0; i < n; i++ {
		g.stmt(0, 0, false, true)
	}
	for _, v := range g.nums[2:] {
		g.line(0, "n1 = n1 + "+v)
	}
	for _, v := range g.strs[2:] {
		g.line(0, "s1 = s1 + "+v)
	}
	for _, v := range g.bools[1:] {
		g.line(0, "b0 = b0 == "+v)
	}
	for _, v := range g.arrs[1:] {
		g.line(0, "n1 = n1 + "+v+"[0]")
	}
	for _, v := range g.maps[1:] {
		g.line(0, "n1 = n1 + "+v+`["a"]`)
	}
	return g.b.String()
}

// ---------- canonical values of the Sem.v / VerifGlobalsSX dump format ----------

func semDumpCanon(x SX, ids map[string]string) string {
	if x.Kind == "sym" {
		return x.S // none / nil / too-deep
	}
	if x.Kind != "lst" || len(x.L) < 2 {
		return "?" + x.String()
	}
	if x.L[0].Kind == "sym" && x.L[0].S == "ref" {
		return ids[x.L[1].S]
	}
	id := x.L[0].S
	var out string
	switch x.L[1].S {
	case "num":
		u, _ := strconv.ParseUint(x.L[2].S, 10, 64)
		out = fmt.Sprintf("N%016x", u)
	case "str":
		out = "S" + strconv.Quote(x.L[2].S)
	case "bool":
		if x.L[2].S == "true" {
			out = "Bt"
		} else {
			out = "Bf"
		}
	case "any":
		out = semDumpCanon(x.L[3], ids)
	case "arr":
		parts := []string{}
		for _, e := range x.L[2:] {
			parts = append(parts, semDumpCanon(e, ids))
		}
		out = "A[" + strings.Join(parts, " ") + "]"
	case "map":
		parts := []string{}
		for _, kv := range x.L[2:] {
			parts = append(parts, strconv.Quote(kv.L[0].S)+":"+semDumpCanon(kv.L[1], ids))
		}
		out = "M{" + strings.Join(parts, " ") + "}"
	default:
		out = "?" + x.String()
	}
	ids[id] = out
	return out
}

// semGlobalsCanon: the text of a globals dump -> name -> canonical value
func semGlobalsCanon(dump string) (map[string]string, error) {
	x, err := ParseSX(dump)
	if err != nil || x.Kind != "lst" {
		return nil, fmt.Errorf("globals dump: %v %q", err, dump)
	}
	ids := map[string]string{}
	out := map[string]string{}
	for _, g := range x.L {
		if g.Kind != "lst" || len(g.L) != 2 {
			return nil, fmt.Errorf("globals dump entry %s", g.String())
		}
		out[g.L[0].S] = semDumpCanon(g.L[1], ids)
	}
	return out, nil
}

// ---------- one case ----------

// stream "sem-tie": exec_l on psfrag; stream "sem-tie-locals": lx_l (block scopes) on lpfrag
func c16SemTie(stream, src string, r *Result, execModel, semModel *Model) {
	in := map[string]any{"program": src, "stream": stream}
	tag, semName, fragName := "exec", "exec_l", "psfrag"
	if stream == "sem-tie-locals" {
		tag, semName, fragName = "lexec", "lx_l", "lpfrag"
	}
	c := c17Compile(src)
	if c.ParseErr != "" {
		r.Dist(stream + ":generator-parse-error")
		if r.Distribution[stream+":generator-parse-error"] <= 3 {
			r.Note(stream+": generated program rejected by the parser (%s): %q", c.ParseErr, src)
		}
		return
	}
	ans, err := execModel.AskT("("+tag+" 200000 "+astProgram(c.prog)+")", 20*time.Second)
	if err != nil {
		if err == ErrModelTimeout {
			r.Dist(stream + ":model-timeout")
			if r.Distribution[stream+":model-timeout"] <= 2 {
				r.Note("%s: the extracted semantics did not answer within 20 s (skipped): %q", stream, src)
			}
			return
		}
		r.Violate(Violation{Kind: "correspondence", Key: stream + ":model-crash", Detail: err.Error(), Input: in})
		return
	}
	if ans == "model-stack-overflow" || ans == "model-out-of-memory" {
		// exponentially growing strings (s = s + s in nested loops) are lists of code points in the model: a resource skip
		r.Dist(stream + ":" + ans)
		return
	}
	mx, err := ParseSX(ans)
	if err != nil || mx.Kind != "lst" || len(mx.L) < 1 {
		r.Violate(Violation{Kind: "correspondence", Key: stream + ":model-output", Detail: ans, Input: in})
		return
	}
	class := mx.L[0].S
	if class == "outside" {
		// the generator left psfrag: a harness defect, not a property violation — but never silent
		r.Violate(Violation{Kind: "correspondence", Key: stream + ":generator-outside-fragment",
			Detail: "the fragment generator produced a program outside " + fragName, Input: in})
		return
	}
	d := SemCompare(semModel, src, SemOpts{StopAt: -1, YieldBudget: 2_000_000, Fuel: 200000}, false)
	if d.Skipped == "parse-error" || d.Skipped == "budget" || len(d.Impl.Phases) == 0 {
		r.Dist(stream + ":skipped:" + d.Skipped)
		return
	}
	impl := d.Impl.Phases[0]
	r.Count(src, strings.Contains(src, "for ") || strings.Contains(src, "while "))
	r.Dist(stream + ":exec-" + class + "/eval-" + impl.Class)
	declared := map[string]bool{}
	for _, st := range c.prog.Statements {
		if ds, ok := st.(*parser.InferredDeclStmt); ok {
			declared[ds.Decl.Var.Name] = true
		}
	}
	if class == "undefined" {
		if impl.Class == "ok" {
			r.Violate(Violation{Kind: "correspondence", Key: stream + ":undefined-but-evaluator-ok",
				Detail: semName + " (CompileSem.v) is undefined with fuel 200000 on a program the evaluator finishes without error",
				Input:  in, Impl: impl.Class, Model: ans})
		} else {
			r.Validated++
		}
		return
	}
	// exec_l is defined: the evaluator must finish without error, with the same globals
	if impl.Class != "ok" {
		r.Violate(Violation{Kind: "correspondence", Key: stream + ":defined-but-evaluator-" + strings.SplitN(impl.Class, ":", 2)[0],
			Detail: semName + " (CompileSem.v) is defined but the evaluator ended with " + impl.Class, Input: in, Impl: impl.Class, Model: ans})
		return
	}
	eg := map[string]string{}
	for _, g := range mx.L[1:] {
		eg[g.L[0].S] = canonModelValue(g.L[1])
	}
	cmp := func(side, dump string) bool {
		gs, err := semGlobalsCanon(dump)
		if err != nil {
			r.Violate(Violation{Kind: "correspondence", Key: stream + ":dump-unparsable", Detail: err.Error(), Input: in})
			return false
		}
		for name := range declared {
			if gs[name] != eg[name] {
				r.Violate(Violation{Kind: "correspondence", Key: stream + ":exec-vs-" + side,
					Detail: fmt.Sprintf("global %s: %s (CompileSem.v) has %s, the %s has %s", name, semName, eg[name], side, gs[name]),
					Input:  in, Impl: gs[name], Model: eg[name]})
				return false
			}
		}
		return true
	}
	if !cmp("evaluator", impl.Globals) {
		return
	}
	switch {
	case d.Diff != "":
		// Sem.v and the evaluator differ: reported by the properties that own that correspondence; noted here
		r.Dist(stream + ":semmodel-differs-from-evaluator")
	case d.Skipped != "":
		r.Dist(stream + ":semmodel-skipped:" + strings.SplitN(d.Skipped, ":", 2)[0])
	case len(d.Model) > 0:
		if !cmp("evaluator-model", d.Model[0].Globals) {
			return
		}
		r.Dist(stream + ":semmodel-compared")
	}
	r.Validated++
}

// ---------- the side conditions of the whole-program theorems ----------

// hasElementStore: an assignment whose target is an index expression, anywhere
func hasElementStore(n parser.Node) bool {
	found := false
	var blk func(b *parser.BlockStatement)
	var st func(n parser.Node)
	blk = func(b *parser.BlockStatement) {
		if b == nil {
			return
		}
		for _, x := range b.Statements {
			st(x)
		}
	}
	st = func(n parser.Node) {
		switch x := n.(type) {
		case *parser.Program:
			for _, y := range x.Statements {
				st(y)
			}
		case *parser.AssignmentStmt:
			if _, ok := x.Target.(*parser.IndexExpression); ok {
				found = true
			}
		case *parser.IfStmt:
			if x.IfBlock != nil {
				blk(x.IfBlock.Block)
			}
			for _, e := range x.ElseIfBlocks {
				blk(e.Block)
			}
			blk(x.Else)
		case *parser.WhileStmt:
			blk(x.Block)
		case *parser.ForStmt:
			blk(x.Block)
		case *parser.BlockStatement:
			blk(x)
		}
	}
	st(n)
	return found
}

// c16Shape: C17_compile_wf_all / C16_compile_correct_plain_partial are stated under
// wplain_slist (no key-twice map literal, no bare block) and nb_slist (no break
// outside a loop), called guaranteed by the parser: checked here on the AST of
// every program the real parser accepts.  And for a program the real compiler
// accepts: no element store (read off the Go AST) must mean plain, and plain
// must mean lfrag (compile_covered on the exported AST).
func c16Shape(src string, r *Result, em *Model) {
	in := map[string]any{"program": src, "stream": "shape"}
	c := c17Compile(src)
	if c.ParseErr != "" || c.prog == nil {
		r.Dist("shape:parse-error")
		return
	}
	ans, err := em.AskT("(shape "+astProgram(c.prog)+")", 20*time.Second)
	if err != nil {
		if err == ErrModelTimeout {
			r.Dist("shape:model-timeout")
			return
		}
		r.Violate(Violation{Kind: "correspondence", Key: "shape:model-crash", Detail: err.Error(), Input: in})
		return
	}
	x, err := ParseSX(ans)
	if err != nil || x.Kind != "lst" || len(x.L) != 5 {
		r.Violate(Violation{Kind: "correspondence", Key: "shape:model-output", Detail: ans, Input: in})
		return
	}
	wplain, nb, plain, lfrag := x.L[1].S == "t", x.L[2].S == "t", x.L[3].S == "t", x.L[4].S == "t"
	r.Count(src, true)
	if !wplain {
		r.Violate(Violation{Kind: "correspondence", Key: "shape:parsed-program-not-wplain",
			Detail: "the parser accepted a program whose AST is not wplain_slist (a map literal with len(Pairs) <> len(Order), or a block as a statement)", Input: in, Model: ans})
		return
	}
	if !nb {
		r.Violate(Violation{Kind: "correspondence", Key: "shape:parsed-program-break-outside-loop",
			Detail: "the parser accepted a program with a break outside a loop (nb_slist false)", Input: in, Model: ans})
		return
	}
	if c.CompileErr != "" {
		r.Dist("shape:parsed/compile-error")
		r.Validated++
		return
	}
	store := hasElementStore(c.prog)
	if plain == store {
		r.Violate(Violation{Kind: "correspondence", Key: "shape:plain-vs-element-store",
			Detail: fmt.Sprintf("plain_slist = %v but the Go AST has an element store: %v", plain, store), Input: in, Model: ans})
		return
	}
	if plain && !lfrag {
		r.Violate(Violation{Kind: "correspondence", Key: "shape:accepted-plain-not-in-fragment",
			Detail: "the real compiler accepts the program, it is plain, and lfrag_slist is false (contradicts compile_covered on the exported AST)", Input: in, Model: ans})
		return
	}
	if plain {
		r.Dist("shape:compiled/plain")
	} else {
		r.Dist("shape:compiled/element-store")
	}
	r.Validated++
}

// ---------- stream "ast-tie": the two exported ASTs of one program are related as the tie theorems require ----------
func c16AstTie(src string, r *Result, tieModel *Model) {
	in := map[string]any{"program": src, "stream": "ast-tie"}
	c := c17Compile(src)
	if c.ParseErr != "" {
		r.Dist("ast-tie:generator-parse-error")
		if r.Distribution["ast-tie:generator-parse-error"] <= 3 {
			r.Note("ast-tie: generated program rejected by the parser (%s): %q", c.ParseErr, src)
		}
		return
	}
	px, err := ExportProgram(c.prog)
	if err != nil {
		r.Dist("ast-tie:export-skipped")
		return
	}
	ans, err := tieModel.AskT("(tie "+astProgram(c.prog)+" "+px.String()+")", 20*time.Second)
	if err != nil {
		if err == ErrModelTimeout {
			r.Dist("ast-tie:model-timeout")
			return
		}
		r.Violate(Violation{Kind: "correspondence", Key: "ast-tie:model-crash", Detail: err.Error(), Input: in})
		return
	}
	r.Count("ast-tie:"+src, true)
	switch ans {
	case "(tie related)":
		r.Dist("ast-tie:related")
		r.Validated++
	case "(tie outside)":
		r.Dist("ast-tie:outside-tfrag") // for loops, maps, slices, ...: the tie theorems do not speak about it
	case "(tie unrelated)":
		r.Violate(Violation{Kind: "correspondence", Key: "ast-tie:unrelated",
			Detail: "the compiler-side and the evaluator-side AST of one source program are not related by CompileSemTie.lrel although the program is in tfrag_l",
			Input:  in, Model: ans})
	default:
		r.Violate(Violation{Kind: "correspondence", Key: "ast-tie:model-output", Detail: ans, Input: in})
	}
}

// ---------- a generator for the fragment tfrag_l of the tie theorems (coq/CompileSemTie.v) ----------
// numbers, ASCII strings, bools, arrays of numbers; declarations anywhere, assignments, if / else if / else,
// while with a counter, break; no for loops, maps, slices, element stores
func genTieProgram(rng *rand.Rand) string {
	var b strings.Builder
	line := func(ind int, s string) { b.WriteString(strings.Repeat("    ", ind)); b.WriteString(s); b.WriteByte('\n') }
	nums, strs, arrs := []string{"n0"}, []string{"s0"}, []string{"a0"}
	line(0, "n0 := "+strconv.Itoa(rng.Intn(5)))
	line(0, `s0 := "ab"`)
	line(0, "a0 := [1 2 3]")
	id := 0
	fresh := func(p string) string { id++; return p + strconv.Itoa(id) }
	var num func(d int) string
	num = func(d int) string {
		if d <= 0 || rng.Intn(3) == 0 {
			if rng.Intn(2) == 0 {
				return nums[rng.Intn(len(nums))]
			}
			return strconv.Itoa(rng.Intn(7))
		}
		switch rng.Intn(5) {
		case 0:
			return "(" + num(d-1) + " " + []string{"+", "-", "*", "%"}[rng.Intn(4)] + " " + num(d-1) + ")"
		case 1:
			return "-" + "(" + num(d-1) + ")"
		case 2:
			return arrs[rng.Intn(len(arrs))] + "[" + strconv.Itoa(rng.Intn(3)) + "]"
		case 3:
			return "(" + num(d-1) + " / 2)"
		default:
			return "(" + num(d-1) + ")"
		}
	}
	str := func() string {
		switch rng.Intn(4) {
		case 0:
			return strs[rng.Intn(len(strs))] + ` + "x"`
		case 1:
			return strs[rng.Intn(len(strs))] + "[0]"
		case 2:
			return `"hey"`
		default:
			return strs[rng.Intn(len(strs))]
		}
	}
	cond := func() string {
		switch rng.Intn(4) {
		case 0:
			return num(1) + " " + []string{"<", "<=", ">", ">="}[rng.Intn(4)] + " " + num(1)
		case 1:
			return num(1) + " == " + strconv.Itoa(rng.Intn(4))
		case 2:
			return strs[rng.Intn(len(strs))] + ` != "ab"`
		default:
			return "!(" + num(1) + " < 3)"
		}
	}
	var block func(ind, depth int, inLoop bool)
	block = func(ind, depth int, inLoop bool) {
		nn, ns, na := len(nums), len(strs), len(arrs)
		for i, k := 0, 1+rng.Intn(4); i < k; i++ {
			switch rng.Intn(9) {
			case 0:
				v := fresh("n")
				line(ind, v+" := "+num(2))
				nums = append(nums, v)
			case 1:
				v := fresh("s")
				line(ind, v+" := "+str())
				strs = append(strs, v)
			case 2:
				v := fresh("a")
				line(ind, v+" := "+arrs[rng.Intn(len(arrs))]+" + ["+num(1)+"]")
				arrs = append(arrs, v)
			case 3:
				line(ind, nums[rng.Intn(len(nums))]+" = "+num(2))
			case 4:
				line(ind, strs[rng.Intn(len(strs))]+" = "+str())
			case 5:
				if depth > 0 {
					line(ind, "if "+cond())
					block(ind+1, depth-1, inLoop)
					if rng.Intn(2) == 0 {
						line(ind, "else if "+cond())
						block(ind+1, depth-1, inLoop)
					}
					if rng.Intn(2) == 0 {
						line(ind, "else")
						block(ind+1, depth-1, inLoop)
					}
					line(ind, "end")
				}
			case 6:
				if depth > 0 {
					c := fresh("c")
					line(ind, c+" := 0")
					line(ind, "while "+c+" < "+strconv.Itoa(1+rng.Intn(3)))
					line(ind+1, c+" = "+c+" + 1")
					block(ind+1, depth-1, true)
					line(ind, "end")
				}
			case 7:
				if inLoop && rng.Intn(3) == 0 {
					line(ind, "break")
					i = k
				}
			default:
				line(ind, arrs[rng.Intn(len(arrs))]+" = ["+num(1)+" "+num(1)+"]")
			}
		}
		// the parser rejects variables that are declared but not used: read every variable of this block once
		for _, v := range nums[nn:] {
			line(ind, "n0 = "+v)
		}
		for _, v := range strs[ns:] {
			line(ind, "s0 = "+v)
		}
		for _, v := range arrs[na:] {
			line(ind, "a0 = "+v)
		}
		nums, strs, arrs = nums[:nn], strs[:ns], arrs[:na]
	}
	block(0, 2, false)
	line(0, "n0 = n0")
	line(0, "s0 = s0")
	line(0, "a0 = a0")
	return b.String()
}
