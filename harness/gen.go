package main

// genTables regenerates coq/Gen/*.v from /repo (translator). Filled in per
// property; see gen_*.go.
func genTables(dir string) error {
	for _, g := range generators {
		if err := g(dir); err != nil {
			return err
		}
	}
	return nil
}

var generators []func(dir string) error
