package main

// C03 - Parsing is total and every diagnostic is located.
//
//  (a) lexer correspondence: lexer.New(input) token stream (type, literal,
//      Offset, Line, Col) against the extracted Coq model coq/Lexer.v, plus the
//      lexer's own property oracle (offsets tile the input, positions are the
//      positions of those characters) evaluated directly on the implementation;
//  (b) parser property oracle on the real parser.Parse, run in worker
//      subprocesses (recover + 2 s watchdog + memory watchdog): never panics,
//      never hangs, returns a program or a non-empty error list whose every
//      entry is located at the start of a token of the input;
//  (c) the mutation stream over corpus programs that feeds (a) and (b).

import (
	"bufio"
	"encoding/hex"
	"encoding/json"
	"errors"
	"fmt"
	"io"
	"math/rand"
	"os"
	"os/exec"
	"path/filepath"
	"regexp"
	"runtime"
	"sort"
	"strconv"
	"strings"
	"sync"
	"time"
	"unicode"

	"evylang.dev/evy/pkg/evaluator"
	"evylang.dev/evy/pkg/lexer"
	"evylang.dev/evy/pkg/parser"
)

// ---------------------------------------------------------------- lexer, implementation side

type lexTok struct {
	Type string `json:"type"`
	Lit  string `json:"lit"`
	Off  int    `json:"off"`
	Line int    `json:"line"`
	Col  int    `json:"col"`
}

// c03ImplLex runs the real lexer up to and including the first EOF token.
// The token count is capped (a lexer that stops making progress would
// otherwise loop for ever): every token before EOF spans at least one rune.
func c03ImplLex(src string) (toks []lexTok, panicMsg string, runaway bool) {
	defer func() {
		if p := recover(); p != nil {
			panicMsg = fmt.Sprint(p)
		}
	}()
	limit := len([]rune(src)) + 2
	l := lexer.New(src)
	for {
		t := l.Next()
		toks = append(toks, lexTok{Type: t.Type.String(), Lit: t.Literal, Off: t.Offset, Line: t.Line, Col: t.Col})
		if t.Type == lexer.EOF {
			return toks, "", false
		}
		if len(toks) > limit {
			return toks, "", true
		}
	}
}

// posOf computes (line, col) of rune offset off independently of the lexer:
// line = 1 + number of newlines before off, col = 1 + runes since the last one.
func posOf(runes []rune, off int) (int, int) {
	line, col := 1, 1
	for i := 0; i < off && i < len(runes); i++ {
		if runes[i] == '\n' {
			line++
			col = 1
		} else {
			col++
		}
	}
	return line, col
}

// lexOracle is the property oracle of the lexer part, evaluated on the
// implementation's own token stream. It returns "" or a violation key + detail.
func lexOracle(runes []rune, toks []lexTok) (string, string) {
	if len(toks) == 0 || toks[len(toks)-1].Type != "EOF" {
		return "lex-no-eof", "token stream does not end with EOF"
	}
	if toks[0].Off != 0 {
		return "lex-first-offset", fmt.Sprintf("first token starts at offset %d", toks[0].Off)
	}
	for i, t := range toks {
		if i > 0 && t.Off <= toks[i-1].Off {
			return "lex-offsets-not-increasing", fmt.Sprintf("token %d offset %d after offset %d", i, t.Off, toks[i-1].Off)
		}
		if t.Off > len(runes) {
			return "lex-offset-beyond-input", fmt.Sprintf("token %d offset %d, input has %d runes", i, t.Off, len(runes))
		}
		line, col := posOf(runes, t.Off)
		if t.Line != line || t.Col != col {
			return "lex-position-wrong", fmt.Sprintf("token %d (%s) at offset %d has line %d col %d, the character is at line %d col %d", i, t.Type, t.Off, t.Line, t.Col, line, col)
		}
	}
	eof := toks[len(toks)-1]
	if eof.Off != len(runes) {
		if eof.Off < len(runes) && runes[eof.Off] == 0 {
			return "lex-nul-truncates-input", fmt.Sprintf("EOF token at offset %d of %d: a U+0000 in the source is taken for the end of input, the remaining %d runes are never tokenised (no diagnostic)", eof.Off, len(runes), len(runes)-eof.Off)
		}
		return "lex-eof-offset", fmt.Sprintf("EOF token at offset %d, input has %d runes", eof.Off, len(runes))
	}
	return "", ""
}

// ---------------------------------------------------------------- lexer, model side

func c03CaseSX(runes []rune) string {
	seen := map[rune]bool{}
	var distinct []rune
	for _, r := range runes {
		if !seen[r] {
			seen[r] = true
			distinct = append(distinct, r)
		}
	}
	sort.Slice(distinct, func(i, j int) bool { return distinct[i] < distinct[j] })
	var b strings.Builder
	b.WriteString("((")
	for i, r := range distinct {
		if i > 0 {
			b.WriteByte(' ')
		}
		fmt.Fprintf(&b, "(%d %t %t)", r, unicode.IsLetter(r), unicode.IsDigit(r))
	}
	b.WriteString(") (")
	for i, r := range runes {
		if i > 0 {
			b.WriteByte(' ')
		}
		b.WriteString(strconv.Itoa(int(r)))
	}
	b.WriteString("))")
	return b.String()
}

func c03ModelLex(model *Model, runes []rune) ([]lexTok, error) {
	ans, err := model.Ask(c03CaseSX(runes))
	if err != nil {
		return nil, err
	}
	x, err := ParseSX(ans)
	if err != nil {
		return nil, fmt.Errorf("model output: %v: %.200s", err, ans)
	}
	if x.Kind != "lst" {
		return nil, fmt.Errorf("model output: %.200s", ans)
	}
	toks := make([]lexTok, 0, len(x.L))
	for _, t := range x.L {
		if t.Kind != "lst" || len(t.L) != 5 {
			return nil, fmt.Errorf("model token: %s", t.String())
		}
		off, _ := strconv.Atoi(t.L[2].S)
		line, _ := strconv.Atoi(t.L[3].S)
		col, _ := strconv.Atoi(t.L[4].S)
		toks = append(toks, lexTok{Type: t.L[0].S, Lit: t.L[1].S, Off: off, Line: line, Col: col})
	}
	return toks, nil
}

func srcInput(src string) map[string]any {
	return map[string]any{"src": strconv.Quote(src), "src_hex": hex.EncodeToString([]byte(src))}
}

func inputFromReplay(v any) (string, bool) {
	m, ok := v.(map[string]any)
	if !ok {
		return "", false
	}
	if h, ok := m["src_hex"].(string); ok {
		b, err := hex.DecodeString(h)
		if err == nil {
			return string(b), true
		}
	}
	return "", false
}

// c03Lex checks one input against the lexer oracle and (if model != nil) the model.
func c03Lex(src string, stream string, model *Model, r *Result) []lexTok {
	runes := []rune(src)
	toks, pmsg, runaway := c03ImplLex(src)
	if pmsg != "" {
		r.Violate(Violation{Kind: "property", Key: "lex-panic", Detail: "lexer.Next panicked: " + pmsg, Input: srcInput(src)})
		return nil
	}
	if runaway {
		r.Violate(Violation{Kind: "property", Key: "lex-no-progress", Detail: "more tokens than runes without reaching EOF", Input: srcInput(src)})
		return nil
	}
	if key, detail := lexOracle(runes, toks); key != "" {
		r.Violate(Violation{Kind: "property", Key: key, Detail: detail, Input: srcInput(src), Impl: tail(toks, 4)})
	}
	if model == nil {
		return toks
	}
	mtoks, err := c03ModelLex(model, runes)
	if err != nil {
		r.Violate(Violation{Kind: "correspondence", Key: "lex-model-failed", Detail: err.Error(), Input: srcInput(src)})
		return toks
	}
	r.Validated++
	r.Dist("lexer-vs-model:" + stream)
	if i := firstTokDiff(toks, mtoks); i >= 0 {
		var it, mt any
		if i < len(toks) {
			it = toks[i]
		}
		if i < len(mtoks) {
			mt = mtoks[i]
		}
		r.Violate(Violation{Kind: "correspondence", Key: "lex-token-stream-differs",
			Detail: fmt.Sprintf("token %d differs between lexer.Next and the Coq model (impl has %d tokens, model %d)", i, len(toks), len(mtoks)),
			Input:  srcInput(src), Impl: it, Model: mt})
	}
	return toks
}

func tail(t []lexTok, n int) []lexTok {
	if len(t) > n {
		return t[len(t)-n:]
	}
	return t
}

func firstTokDiff(a, b []lexTok) int {
	for i := 0; i < len(a) && i < len(b); i++ {
		if a[i] != b[i] {
			return i
		}
	}
	if len(a) != len(b) {
		if len(a) < len(b) {
			return len(a)
		}
		return len(b)
	}
	return -1
}

// ---------------------------------------------------------------- parser oracle (runs in the worker)

type parseReport struct {
	Status   string   `json:"status"` // accept | reject | violation
	Key      string   `json:"key,omitempty"`
	Detail   string   `json:"detail,omitempty"`
	Frames   []string `json:"frames,omitempty"`
	NErrs    int      `json:"nerrs,omitempty"`
	FirstErr string   `json:"first_err,omitempty"`
	Fatal    bool     `json:"fatal,omitempty"` // the worker must be restarted (hang)
}

var errLocRE = regexp.MustCompile(`^line (-?\d+) column (-?\d+): `)

type parseOut struct {
	prog   *parser.Program
	err    error
	panicV any
	frames []string
}

func evyFrames() []string {
	pcs := make([]uintptr, 64)
	n := runtime.Callers(2, pcs)
	fr := runtime.CallersFrames(pcs[:n])
	var out []string
	past := false
	for {
		f, more := fr.Next()
		if strings.HasPrefix(f.Function, "runtime.") {
			past = true
		} else if past && strings.Contains(f.Function, "evylang.dev/evy/") {
			out = append(out, shortFunc(f.Function))
		}
		if !more || len(out) >= 6 {
			break
		}
	}
	return out
}

// shortFunc turns evylang.dev/evy/pkg/parser.(*parser).parseFunc into parser.parseFunc.
func shortFunc(f string) string {
	if i := strings.LastIndex(f, "/"); i >= 0 {
		f = f[i+1:]
	}
	parts := strings.Split(f, ".")
	keep := []string{}
	for _, p := range parts {
		if strings.HasPrefix(p, "(") {
			continue
		}
		keep = append(keep, p)
	}
	return strings.Join(keep, ".")
}

var (
	reQuoted  = regexp.MustCompile("\"[^\"]*\"|`[^`]*`|'[^']*'")
	reNum     = regexp.MustCompile(`[0-9]+`)
	reNonKey  = regexp.MustCompile(`[^a-z]+`)
	reLineCol = regexp.MustCompile(`line -?[0-9]+ column -?[0-9]+`)
)

// panicClass maps a recovered value to a message class (never the input).
func panicClass(v any) string {
	msg := fmt.Sprint(v)
	if e, ok := v.(error); ok {
		msg = e.Error()
	}
	switch {
	case strings.Contains(msg, "nil pointer dereference"):
		return "nil-deref"
	case strings.Contains(msg, "index out of range"):
		return "index-out-of-range"
	case strings.Contains(msg, "slice bounds out of range"):
		return "slice-bounds"
	case strings.Contains(msg, "interface conversion"):
		return "type-assertion"
	case strings.Contains(msg, "Token is nil for error"):
		return "error-without-token"
	case strings.Contains(msg, "internal error"):
		// "internal error: line 2 column 13 incompatible types: target []any, value []num"
		// -> internal-error-incompatible-types (first two colon-separated segments, no position)
		seg := strings.SplitN(strings.ToLower(msg), ":", 3)
		if len(seg) > 2 {
			seg = seg[:2]
		}
		m := reQuoted.ReplaceAllString(strings.Join(seg, " "), "")
		m = reLineCol.ReplaceAllString(m, " ")
		m = reNum.ReplaceAllString(m, "")
		m = strings.Trim(reNonKey.ReplaceAllString(m, "-"), "-")
		if len(m) > 60 {
			m = strings.Trim(m[:60], "-")
		}
		return m
	}
	m := reQuoted.ReplaceAllString(strings.ToLower(msg), "")
	m = reNum.ReplaceAllString(m, "")
	m = strings.Trim(reNonKey.ReplaceAllString(m, "-"), "-")
	if len(m) > 40 {
		m = strings.Trim(m[:40], "-")
	}
	return "other-" + m
}

// parseTimeout is the watchdog of one parser.Parse call: 2 s (VERIF_C03_PARSE_TIMEOUT_MS overrides, for probing).
func parseTimeout() time.Duration {
	if ms, err := strconv.Atoi(os.Getenv("VERIF_C03_PARSE_TIMEOUT_MS")); err == nil && ms > 0 {
		return time.Duration(ms) * time.Millisecond
	}
	return 2 * time.Second
}

// parseOracle evaluates the parser part of the property on one input.
func parseOracle(src string, builtins func() parser.Builtins) parseReport {
	ch := make(chan parseOut, 1)
	go func() {
		var out parseOut
		defer func() {
			if p := recover(); p != nil {
				out.panicV = p
				out.frames = evyFrames()
			}
			ch <- out
		}()
		out.prog, out.err = parser.Parse(src, builtins())
	}()
	var out parseOut
	select {
	case out = <-ch:
	case <-time.After(parseTimeout()):
		return parseReport{Status: "violation", Key: "parse-hang", Detail: "parser.Parse did not return within 2 s", Fatal: true}
	}
	if out.panicV != nil {
		top := "unknown"
		if len(out.frames) > 0 {
			top = out.frames[0]
		}
		msg := fmt.Sprint(out.panicV)
		if len(msg) > 300 {
			msg = msg[:300]
		}
		return parseReport{Status: "violation", Key: "parse-panic:" + panicClass(out.panicV) + "@" + top,
			Detail: "parser.Parse panicked: " + msg, Frames: out.frames}
	}
	if out.err == nil {
		if out.prog == nil {
			return parseReport{Status: "violation", Key: "parse-nil-program-without-error", Detail: "Parse returned (nil, nil)"}
		}
		return parseReport{Status: "accept"}
	}
	var errs parser.Errors
	if !errors.As(out.err, &errs) {
		return parseReport{Status: "violation", Key: "parse-foreign-error-type", Detail: fmt.Sprintf("Parse returned an error of type %T", out.err)}
	}
	if len(errs) == 0 {
		return parseReport{Status: "violation", Key: "parse-empty-error-list", Detail: "Parse returned an empty parser.Errors"}
	}
	// every error is located at the start of a token of the input
	runes := []rune(src)
	toks, _, _ := c03ImplLex(src)
	starts := map[[2]int]bool{}
	for _, t := range toks {
		starts[[2]int{t.Line, t.Col}] = true
	}
	lineLen := []int{0}
	for _, c := range runes {
		if c == '\n' {
			lineLen = append(lineLen, 0)
		} else {
			lineLen[len(lineLen)-1]++
		}
	}
	rep := parseReport{Status: "reject", NErrs: len(errs)}
	for i, e := range errs {
		if e == nil {
			return parseReport{Status: "violation", Key: "parse-nil-error-entry", Detail: fmt.Sprintf("errors[%d] is nil", i)}
		}
		var text string
		func() {
			defer func() {
				if p := recover(); p != nil {
					text = "\x00panic: " + fmt.Sprint(p)
				}
			}()
			text = e.Error()
		}()
		if strings.HasPrefix(text, "\x00panic") {
			return parseReport{Status: "violation", Key: "parse-error-without-token", Detail: fmt.Sprintf("errors[%d].Error() panicked: %s", i, text[1:])}
		}
		if i == 0 {
			rep.FirstErr = text
		}
		m := errLocRE.FindStringSubmatch(text)
		if m == nil {
			return parseReport{Status: "violation", Key: "parse-error-unlocated", Detail: fmt.Sprintf("errors[%d] has no `line L column C: ` prefix: %.100q", i, text)}
		}
		line, _ := strconv.Atoi(m[1])
		col, _ := strconv.Atoi(m[2])
		if line < 1 || col < 1 || line > len(lineLen) || col > lineLen[line-1]+1 {
			return parseReport{Status: "violation", Key: "parse-error-position-out-of-input",
				Detail: fmt.Sprintf("errors[%d] %.120q: line %d column %d does not exist in the input (%d lines)", i, text, line, col, len(lineLen))}
		}
		if !starts[[2]int{line, col}] {
			return parseReport{Status: "violation", Key: "parse-error-position-not-a-token",
				Detail: fmt.Sprintf("errors[%d] %.120q: no token of the input starts at line %d column %d", i, text, line, col)}
		}
	}
	return rep
}

// runC03Worker: `vharness C03-worker` reads one hex-encoded source per line and
// answers one JSON report per line. A hang ends the worker (the parent restarts it).
func runC03Worker(cfg Config, r *Result) {
	go func() { // memory watchdog
		var ms runtime.MemStats
		for {
			time.Sleep(100 * time.Millisecond)
			runtime.ReadMemStats(&ms)
			if ms.HeapAlloc > 3<<30 {
				fmt.Fprintln(os.Stderr, "C03-worker: heap above 3 GiB, exiting")
				os.Exit(3)
			}
		}
	}()
	in := bufio.NewReaderSize(os.Stdin, 1<<20)
	out := bufio.NewWriter(os.Stdout)
	enc := json.NewEncoder(out)
	for {
		line, err := in.ReadString('\n')
		if err != nil {
			os.Exit(0)
		}
		var reps []parseReport
		fatal := false
		for _, f := range strings.Fields(line) {
			src := ""
			if f != "-" { // "-" stands for the empty source
				b, err := hex.DecodeString(f)
				if err != nil {
					os.Exit(2)
				}
				src = string(b)
			}
			rep := parseOracle(src, evaluator.BuiltinDecls)
			reps = append(reps, rep)
			if rep.Fatal {
				fatal = true
				break
			}
		}
		enc.Encode(reps)
		out.Flush()
		if fatal {
			os.Exit(4)
		}
	}
}

type parseWorker struct {
	cmd   *exec.Cmd
	in    io.WriteCloser
	lines chan string // answers of the worker; closed when it dies
	timer *time.Timer
}

func startParseWorker(env ...string) (*parseWorker, error) {
	exe, err := os.Executable()
	if err != nil {
		return nil, err
	}
	cmd := exec.Command(exe, "C03-worker")
	cmd.Env = append(os.Environ(), env...)
	in, err := cmd.StdinPipe()
	if err != nil {
		return nil, err
	}
	o, err := cmd.StdoutPipe()
	if err != nil {
		return nil, err
	}
	cmd.Stderr = io.Discard // a fatal Go error (stack exhaustion) prints megabytes; the death itself is what is reported
	if err := cmd.Start(); err != nil {
		return nil, err
	}
	w := &parseWorker{cmd: cmd, in: in, lines: make(chan string, 1), timer: time.NewTimer(time.Hour)}
	go func() {
		rd := bufio.NewReaderSize(o, 1<<20)
		for {
			line, err := rd.ReadString('\n')
			if err != nil {
				close(w.lines)
				return
			}
			w.lines <- line
		}
	}()
	return w, nil
}

func (w *parseWorker) kill() {
	w.in.Close()
	w.cmd.Process.Kill()
	w.cmd.Wait()
	w.timer.Stop()
}

// askBatch sends sources and returns the reports the worker produced for a prefix of them
// (all of them unless it died or hung on one). alive = false: the worker must be replaced.
func (w *parseWorker) askBatch(srcs []string) (reps []parseReport, alive bool) {
	var b strings.Builder
	for i, s := range srcs {
		if i > 0 {
			b.WriteByte(' ')
		}
		if s == "" {
			b.WriteByte('-')
		} else {
			b.WriteString(hex.EncodeToString([]byte(s)))
		}
	}
	b.WriteByte('\n')
	if _, err := io.WriteString(w.in, b.String()); err != nil {
		return nil, false
	}
	if !w.timer.Stop() {
		select {
		case <-w.timer.C:
		default:
		}
	}
	w.timer.Reset(parseTimeout()*time.Duration(len(srcs)) + 20*time.Second)
	select {
	case line, ok := <-w.lines:
		if !ok {
			return nil, false
		}
		if err := json.Unmarshal([]byte(line), &reps); err != nil {
			return nil, false
		}
		if n := len(reps); n > 0 && reps[n-1].Fatal {
			return reps[:n-1], false
		}
		return reps, len(reps) == len(srcs)
	case <-w.timer.C:
		return nil, false
	}
}

// ask runs one source on this worker; a missing answer or a dead worker is itself a report.
func (w *parseWorker) ask(src string) (parseReport, bool) {
	reps, alive := w.askBatch([]string{src})
	if len(reps) == 1 {
		return reps[0], alive
	}
	// no report: find out why with the worker's own watchdog answer, if any
	return parseReport{Status: "violation", Key: "parse-process-died",
		Detail: "the process running parser.Parse hung or died (a fatal error such as stack exhaustion or out of memory cannot be caught by recover)", Fatal: true}, false
}

// confirmFatal re-runs, twice, on a fresh worker with a 10 s watchdog, an input on which a worker
// hung or died, so that a slow machine is never reported as a hang. The worker's own watchdog
// tells a hang (it answers parse-hang before exiting) from a death (no answer).
func confirmFatal(src string) parseReport {
	var last parseReport
	for k := 0; k < 2; k++ {
		w, err := startParseWorker("VERIF_C03_PARSE_TIMEOUT_MS=10000")
		if err != nil {
			return parseReport{Status: "violation", Key: "parse-worker-start", Detail: err.Error()}
		}
		if _, err := io.WriteString(w.in, hex.EncodeToString([]byte(src))+"\n"); err != nil {
			w.kill()
			continue
		}
		var reps []parseReport
		select {
		case line, ok := <-w.lines:
			if ok {
				json.Unmarshal([]byte(line), &reps)
			}
		case <-time.After(40 * time.Second):
		}
		w.kill()
		if len(reps) == 1 && !reps[0].Fatal {
			return reps[0]
		}
		if len(reps) == 1 {
			last = reps[0]
			last.Detail = "parser.Parse did not return within 2 s; confirmed twice on a fresh process with a 10 s limit"
		} else {
			last = parseReport{Status: "violation", Key: "parse-process-died", Fatal: true,
				Detail: "the process running parser.Parse died without an answer (fatal error such as stack exhaustion or out of memory, which recover cannot catch); confirmed twice on a fresh process"}
		}
	}
	return last
}

// fatalConfirmed counts confirmed hangs / process deaths of this run; after 3 the parser stream is
// cut short (every further one costs seconds; the run fails with replays anyway).
var fatalConfirmed int

// parsePool runs the parser oracle over srcs with nw workers in batches; results keep the order of
// srcs. Sources of a batch on which the worker hung or died are re-run one by one.
func parsePool(srcs []string, nw int) []parseReport {
	const batch = 48
	reps := make([]parseReport, len(srcs))
	var next int
	var mu sync.Mutex
	for i := range reps { // what stays if the stream is cut short by a storm of hangs
		reps[i] = parseReport{Status: "skipped"}
	}
	var wg sync.WaitGroup
	for k := 0; k < nw; k++ {
		wg.Add(1)
		go func() {
			defer wg.Done()
			var w *parseWorker
			defer func() {
				if w != nil {
					w.kill()
				}
			}()
			for {
				mu.Lock()
				lo := next
				next += batch
				storm := fatalConfirmed >= 3
				mu.Unlock()
				if lo >= len(srcs) || storm {
					return
				}
				hi := min(lo+batch, len(srcs))
				for lo < hi {
					mu.Lock()
					storm = fatalConfirmed >= 3
					mu.Unlock()
					if storm {
						return
					}
					if w == nil {
						var err error
						if w, err = startParseWorker(); err != nil {
							for i := lo; i < hi; i++ {
								reps[i] = parseReport{Status: "violation", Key: "parse-worker-start", Detail: err.Error()}
							}
							break
						}
					}
					got, alive := w.askBatch(srcs[lo:hi])
					copy(reps[lo:], got)
					lo += len(got)
					if !alive {
						w.kill()
						w = nil
						if lo < hi { // srcs[lo] is the one the worker hung or died on
							reps[lo] = confirmFatal(srcs[lo])
							if reps[lo].Fatal {
								mu.Lock()
								fatalConfirmed++
								mu.Unlock()
							}
							lo++
						}
					}
				}
			}
		}()
	}
	wg.Wait()
	return reps
}

// ---------------------------------------------------------------- corpus

func repoRoot() string { return filepath.Clean(filepath.Join(lexerSourceDir(), "..", "..")) }

type corpusProg struct {
	Name string
	Src  string
}

func loadCorpus() []corpusProg {
	root := repoRoot()
	var progs []corpusProg
	mds, _ := filepath.Glob(filepath.Join(root, "docs", "*.md"))
	sort.Strings(mds)
	for _, md := range mds {
		b, err := os.ReadFile(md)
		if err != nil {
			continue
		}
		lines := strings.Split(string(b), "\n")
		var cur []string
		in := false
		n := 0
		for _, l := range lines {
			t := strings.TrimSpace(l)
			if !in && strings.HasPrefix(t, "```evy") {
				in, cur = true, nil
				continue
			}
			if in && strings.HasPrefix(t, "```") {
				in = false
				n++
				progs = append(progs, corpusProg{Name: fmt.Sprintf("%s#%d", filepath.Base(md), n), Src: strings.Join(cur, "\n") + "\n"})
				continue
			}
			if in {
				cur = append(cur, l)
			}
		}
	}
	var files []string
	filepath.WalkDir(root, func(p string, d os.DirEntry, err error) error {
		if err != nil {
			return nil
		}
		if d.IsDir() {
			if n := d.Name(); n == "node_modules" || n == ".git" || n == "out" {
				return filepath.SkipDir
			}
			return nil
		}
		if strings.HasSuffix(p, ".evy") {
			files = append(files, p)
		}
		return nil
	})
	sort.Strings(files)
	seen := map[string]bool{}
	for _, f := range files {
		b, err := os.ReadFile(f)
		if err != nil || seen[string(b)] {
			continue
		}
		seen[string(b)] = true
		rel, _ := filepath.Rel(root, f)
		progs = append(progs, corpusProg{Name: rel, Src: string(b)})
	}
	return progs
}

// ---------------------------------------------------------------- generators

// one representative lexeme per token kind (by TokenType.String()); checked
// against the real lexer at start-up, and every TokenType must be covered.
var kindLexemes = map[string][]string{
	"ILLEGAL": {"$", "\"abc", "#", "\"\\q\"", "\r"}, "EOF": {"\x00"}, "COMMENT": {"// c"},
	"IDENT": {"x", "print", "foo", "len", "err", "_"}, "NUM_LIT": {"1", "2.5", "1.2.3"}, "STRING_LIT": {`"a"`, `""`, `"\n\x41"`},
	"DECLARE": {":="}, "ASSIGN": {"="}, "PLUS": {"+"}, "MINUS": {"-"}, "BANG": {"!"}, "ASTERISK": {"*"}, "SLASH": {"/"}, "PERCENT": {"%"},
	"EQ": {"=="}, "NOT_EQ": {"!="}, "LT": {"<"}, "GT": {">"}, "LTEQ": {"<="}, "GTEQ": {">="},
	"LPAREN": {"("}, "RPAREN": {")"}, "LBRACKET": {"["}, "RBRACKET": {"]"}, "LCURLY": {"{"}, "RCURLY": {"}"},
	"COLON": {":"}, "WS": {" ", "\t"}, "NL": {"\n"}, "DOT": {"."}, "DOT3": {"..."},
	"NUM": {"num"}, "STRING": {"string"}, "BOOL": {"bool"}, "ANY": {"any"}, "TRUE": {"true"}, "FALSE": {"false"}, "AND": {"and"}, "OR": {"or"},
	"IF": {"if"}, "ELSE": {"else"}, "FUNC": {"func"}, "RETURN": {"return"}, "ON": {"on"}, "FOR": {"for"}, "RANGE": {"range"},
	"WHILE": {"while"}, "BREAK": {"break"}, "END": {"end"}, "PKG": {"pkg"}, "IMPORT": {"import"},
}

func tokenKinds() ([]string, error) {
	var kinds []string
	for i := 0; ; i++ {
		n := lexer.TokenType(i).String()
		if n == "UNKNOWN" {
			break
		}
		lx, ok := kindLexemes[n]
		if !ok {
			return nil, fmt.Errorf("token type %s (%d) has no representative lexeme in the mutation table", n, i)
		}
		for _, s := range lx {
			if n == "EOF" {
				continue // a NUL rune: an ILLEGAL token now (EOF before commit d745e6e); inserted for its own sake
			}
			toks, _, _ := c03ImplLex(s)
			if len(toks) == 0 || toks[0].Type != n {
				return nil, fmt.Errorf("representative %q of token type %s lexes as %v", s, n, toks)
			}
		}
		kinds = append(kinds, n)
	}
	return kinds, nil
}

// spans cuts src into the lexemes of the real lexer (by rune offsets).
func spans(src string) []string {
	runes := []rune(src)
	toks, pmsg, runaway := c03ImplLex(src)
	if pmsg != "" || runaway || len(toks) == 0 {
		return []string{src}
	}
	var out []string
	for i := 0; i+1 < len(toks); i++ {
		a, b := toks[i].Off, toks[i+1].Off
		if a < 0 || b > len(runes) || a > b {
			return []string{src}
		}
		out = append(out, string(runes[a:b]))
	}
	if last := toks[len(toks)-1].Off; last < len(runes) {
		out = append(out, string(runes[last:]))
	}
	return out
}

type mutCase struct {
	Src    string
	Stream string
}

func pick(rng *rand.Rand, l []string) string { return l[rng.Intn(len(l))] }

// mutations of one corpus program; budget limits the number per family.
func mutate(p corpusProg, kinds []string, rng *rand.Rand, budget int, out *[]mutCase) {
	sp := spans(p.Src)
	n := len(sp)
	if n == 0 {
		return
	}
	join := func(parts ...[]string) string {
		var b strings.Builder
		for _, ps := range parts {
			for _, s := range ps {
				b.WriteString(s)
			}
		}
		return b.String()
	}
	add := func(stream, s string) { *out = append(*out, mutCase{Src: s, Stream: stream}) }
	idx := func(m int) []int { // all of 0..m-1 if within budget, else a sample
		if m <= budget {
			l := make([]int, m)
			for i := range l {
				l[i] = i
			}
			return l
		}
		l := make([]int, budget)
		for i := range l {
			l[i] = rng.Intn(m)
		}
		return l
	}
	// every prefix at a token boundary, and prefixes cutting a token in two
	for _, i := range idx(n) {
		add("prefix-token", join(sp[:i]))
	}
	runes := []rune(p.Src)
	for _, i := range idx(len(runes)) {
		add("prefix-rune", string(runes[:i]))
	}
	// single and double deletion
	for _, i := range idx(n) {
		add("delete1", join(sp[:i], sp[i+1:]))
	}
	for k := 0; k < budget && n >= 2; k++ {
		i := rng.Intn(n - 1)
		j := i + 1 + rng.Intn(min(n-1-i, 6))
		add("delete2", join(sp[:i], sp[i+1:j], sp[j+1:]))
	}
	// insertion and substitution by every token kind
	for _, i := range idx(n + 1) {
		for _, k := range kinds {
			if budget < n && rng.Intn(4) != 0 {
				continue
			}
			add("insert", join(sp[:i], []string{pick(rng, kindLexemes[k])}, sp[i:]))
		}
	}
	for _, i := range idx(n) {
		for _, k := range kinds {
			if budget < n && rng.Intn(4) != 0 {
				continue
			}
			add("substitute", join(sp[:i], []string{pick(rng, kindLexemes[k])}, sp[i+1:]))
		}
	}
	// swap adjacent non-space tokens
	for k := 0; k < budget/2 && n >= 3; k++ {
		i := rng.Intn(n - 2)
		add("swap", join(sp[:i], []string{sp[i+2], sp[i+1], sp[i]}, sp[i+3:]))
	}
	// duplicated / deleted / swapped lines
	lines := strings.SplitAfter(p.Src, "\n")
	for _, i := range idx(len(lines)) {
		add("dup-line", strings.Join(lines[:i+1], "")+strings.Join(lines[i:], ""))
		add("del-line", strings.Join(lines[:i], "")+strings.Join(lines[i+1:], ""))
	}
	for k := 0; k < budget/2 && len(lines) >= 2; k++ {
		i, j := rng.Intn(len(lines)), rng.Intn(len(lines))
		l2 := append([]string{}, lines...)
		l2[i], l2[j] = l2[j], l2[i]
		add("swap-lines", strings.Join(l2, ""))
	}
	// two programs spliced at token boundaries come from the caller
}

var soupFragments = []string{
	"x", "y", "abc", "print", "len", "f", "_", "a1", "if", "else", "end", "func", "return", "on", "for", "range", "while", "break",
	"num", "string", "bool", "any", "true", "false", "and", "or", "pkg", "import",
	"0", "1", "12.5", "1.2.3", "1..", "007", ".5", "1e5",
	`"a"`, `""`, `"a b"`, `"\""`, `"\\"`, `"\n"`, `"é"`, `"\x41"`, `"\xff"`, `"\u00e9"`, `"\U0001F600"`, `"\101"`, `"\400"`, `"\'"`, `"\q"`, `"\x4"`, `"\ud800"`, `"\U00110000"`, `"abc`, `"`, `"\"`, `"\`,
	"// c", "//", "// \"x", "/", "/ /",
	" ", "  ", "\t", " \r", "\r", "\n", "\n\n", "\r\n",
	":=", "=", "==", "!=", "!", "<", "<=", ">", ">=", "+", "-", "*", "%", ":", ".", "..", "...", "....",
	"(", ")", "[", "]", "{", "}", "[]", "{}", "[]num", "{}string", "x:num", "x:=1", "a[0]", "m.k", "f(1)", "-x", "!b",
	"$", "#", "@", "~", "`", "'", "\\", ";", ",", "?", "|", "&", "^", "\x00", "\x7f", "\x01",
	"é", "ñ", "日本", "π", "х", "٣", "௧", "Ⅷ", "²", "\u0301", "\u200b", "\u00a0", "\u2028", "\ufeff", "\ufffd", "😀", "𝒳", "\U0010ffff",
}

func genSoup(rng *rand.Rand, n int) string {
	var b strings.Builder
	for i := 0; i < n; i++ {
		b.WriteString(soupFragments[rng.Intn(len(soupFragments))])
		if rng.Intn(3) == 0 {
			b.WriteByte(' ')
		}
	}
	return b.String()
}

// statement-shaped soup: lines made of plausible statement skeletons with holes filled at random.
var stmtSkeletons = []string{
	"@ := @\n", "@ = @\n", "@:@\n", "print @ @\n", "if @\n    @\nend\n", "if @\n@\nelse if @\n@\nelse\n@\nend\n", "while @\n@\nend\n",
	"for @ := range @\n@\nend\n", "for range @\n@\nend\n", "func @\n@\nend\n", "func @:@ @:@\n    return @\nend\n", "func @ @:@...\n@\nend\n",
	"on @\n@\nend\n", "on key k:string\n@\nend\n", "return @\n", "break\n", "@\n", "@ @ @\n", "@[@] = @\n", "@.@ = @\n", "@ := [@ @ @]\n", "@ := {@:@ @:@}\n",
	"@ := @.(@)\n", "@ := [[@] @ [@]]\n", "@ := @[@:@]\n", "(@)\n", "@ @\n",
	"a:[]any\na = @\n", "a:{}any\na = @\n", "a:[]num\na = @\n", "b:[][]num\na:[]any\na = @\n", "b:{}[]num\na:[]any\na = @\n", "b:[]{}num\na:{}any\na = @\n",
	"b:[][]num\nfor x := range b\n    a:@\n    a = @\nend\n", "print (typeof (@))\n", "print (@)\n", "func g a:[]any\n    print a\nend\ng @\n", "b:@\na:@\na = @\n",
}

var holeFill = []string{
	"x", "y", "f", "1", "2", `"a"`, "true", "num", "string", "any", "[]num", "{}any", "[]", "{}", "[1]", "[x]", `["a"]`, "{a:1}", "(f 1)", "(len x)",
	"x+1", "x + 1", "-x", "!x", "x[0]", "x.a", "x == y", "x and y", "print", "len", "func", "end", "if", "", " ", "\n", "(", ")", "[", "]", "{", "}", ":", ":=", "=", ".", "...",
	"x:num", "f x", "1 2", "a b c", "// c", "$",
	// empty literals and slices / elements / fields of literals and of nested variables
	"[][:]", "[[]][0]", "[{}][0]", "{a:[]}.a", "{a:{}}.a", "([][:])", "([])", "({})", "[[1]][0]", "{b:[1]}.b", "{b:[1]}[\"b\"]", "[{b:1}][0]",
	"[]+[]", "[]*2", "[[]]", "[1][:]", "[[1] [2]][1:]", "(typeof [])", "b[0]", "b.x", "b[0][:]", "b[:1]", "[b][0]", "[][]num", "{}[]num", "[]any", "{}any", "b", "a",
}

func genStmtSoup(rng *rand.Rand, n int) string {
	var b strings.Builder
	for i := 0; i < n; i++ {
		sk := stmtSkeletons[rng.Intn(len(stmtSkeletons))]
		for _, c := range sk {
			if c == '@' {
				b.WriteString(holeFill[rng.Intn(len(holeFill))])
			} else {
				b.WriteRune(c)
			}
		}
	}
	return b.String()
}

var unicodeRanges = [][2]rune{
	{0x20, 0x7e}, {0x20, 0x7e}, {0x00, 0x1f}, {0xa0, 0xff}, {0x100, 0x24f}, {0x370, 0x3ff}, {0x400, 0x4ff}, {0x5d0, 0x5ea},
	{0x660, 0x669}, {0x966, 0x96f}, {0x300, 0x36f}, {0x2000, 0x206f}, {0x2150, 0x218f}, {0x3040, 0x30ff}, {0x4e00, 0x4e80},
	{0xd7f0, 0xd7ff}, {0xe000, 0xe010}, {0xfff0, 0xffff}, {0x10000, 0x10050}, {0x1d400, 0x1d7ff}, {0x1f600, 0x1f64f}, {0x10fff0, 0x10ffff},
}

func genUnicode(rng *rand.Rand, n int) string {
	rs := make([]rune, 0, n)
	for i := 0; i < n; i++ {
		switch rng.Intn(8) {
		case 0:
			sp := []rune(" \n\t\"\\/=._0a")
			rs = append(rs, sp[rng.Intn(len(sp))])
		default:
			rg := unicodeRanges[rng.Intn(len(unicodeRanges))]
			rs = append(rs, rg[0]+rune(rng.Intn(int(rg[1]-rg[0])+1)))
		}
	}
	return string(rs)
}

func genBytes(rng *rand.Rand, n int) string {
	b := make([]byte, n)
	mode := rng.Intn(3)
	for i := range b {
		switch mode {
		case 0: // uniform bytes
			b[i] = byte(rng.Intn(256))
		case 1: // mostly ASCII program characters with some garbage
			if rng.Intn(6) == 0 {
				b[i] = byte(rng.Intn(256))
			} else {
				const pc = "abfx01 \n\t\r\"\\/=:.()[]{}+-*<>!%\x00"
				b[i] = pc[rng.Intn(len(pc))]
			}
		default: // UTF-8 lead/continuation byte salad
			sal := []byte{0xc3, 0xa9, 0xe2, 0x82, 0xac, 0xf0, 0x9f, 0x98, 0x80, 0xff, 0xc0, 0x80, 0xed, 0xa0, 0x80, 'a', ' ', '"', '\n'}
			b[i] = sal[rng.Intn(len(sal))]
		}
	}
	return string(b)
}

var escFragments = []string{
	`\a`, `\b`, `\f`, `\n`, `\r`, `\t`, `\v`, `\\`, `\"`, `\'`, `\x41`, `\x7f`, `\x80`, `\xff`, `\xFf`, `\xc3\xa9`, `\x4`, `\xg1`, `\x`, `\u0041`, `\u00e9`, `\ud7ff`, `\ud800`, `\udfff`, `\ue000`, `\uffff`, `\u12`,
	`\U0001F600`, `\U0010FFFF`, `\U00110000`, `\UFFFFFFFF`, `\U7FFFFFFF`, `\U80000000`, `\U0000004`, `\000`, `\101`, `\377`, `\400`, `\777`, `\08`, `\18`, `\1`, `\12`, `\8`, `\9`, `\q`, `\ `, `\é`, `\`,
	"a", "b", " ", "é", "日", "😀", "\ufffd", "'", "//", "0", "\t", "\r", "\xff",
}

func genStringLit(rng *rand.Rand) string {
	var b strings.Builder
	pre := []string{"", "x := ", "print ", "  "}[rng.Intn(4)]
	b.WriteString(pre)
	b.WriteByte('"')
	for i, n := 0, rng.Intn(6); i < n; i++ {
		b.WriteString(escFragments[rng.Intn(len(escFragments))])
	}
	switch rng.Intn(8) {
	case 0: // unterminated
	case 1:
		b.WriteString("\n\"")
	case 2:
		b.WriteString("\x00\"")
	default:
		b.WriteByte('"')
	}
	b.WriteString([]string{"", " ", "\n", " \"b\"", "x", "\""}[rng.Intn(6)])
	return b.String()
}

// ---------------------------------------------------------------- run

var c03FixedCorpus = []mutCase{
	// regression witnesses of the repaired findings (findings.d/C03.txt fixed: lines) and of C03_*_before_fix
	{"func 1", "corpus"}, {"func", "corpus"}, {"func\n", "corpus"}, {"func 1\nend\n", "corpus"},
	{"x := [1]\narr := [[2] x [\"a\"]]\n", "corpus"}, {"x := [1]\nm := {a:[2] b:x c:[\"a\"]}\n", "corpus"},
	{"a\x00b", "corpus"}, {"print 1\x00 ))) garbage \"", "corpus"}, {"\x00", "corpus"},
	{"", "corpus"}, {"\n", "corpus"}, {" ", "corpus"}, {"\r", "corpus"}, {"\"", "corpus"}, {"\"\\", "corpus"}, {"//", "corpus"}, {"1..", "corpus"},
	{"x := \"\\xff\\xc3\\xa9\\101\\u00e9\"\nprint x\n", "corpus"}, {"\xff\xfe", "corpus"}, {"é := 1\nprint é\n", "corpus"},
	{"a٣ := 1\nprint a٣\n", "corpus"}, {"٣", "corpus"},
}

func runC03(cfg Config, r *Result) {
	r.Rule = "inputs: evy programs of the repository (code blocks of docs/*.md, every *.evy file), their mutations (every prefix at token and rune boundaries, single/double token deletion, insertion and substitution by a lexeme of every token kind, token swaps, duplicated/deleted/swapped lines, splices of two programs), statement-skeleton soups, token soups, string literals built from escape fragments, random Unicode and random bytes (invalid UTF-8, NUL, CR). Every input goes through the lexer oracle (offsets strictly increasing from 0 to the input length, Line/Col recomputed independently) and the parser oracle (parser.Parse with evaluator.BuiltinDecls in a worker process: no panic, returns within 2 s (a hang is reported only if confirmed twice on a fresh process with a 10 s limit), program or non-empty parser.Errors, every error located at the start of a token of the input); a sample goes through the extracted Coq lexer model and is compared token by token (type, literal bytes, Offset, Line, Col). non-trivial = the input has at least 3 tokens besides EOF; distinct = distinct source texts"

	if cfg.Replay != "" {
		c03Replay(cfg, r)
		return
	}
	kinds, err := tokenKinds()
	if err != nil {
		r.Violate(Violation{Kind: "correspondence", Key: "mutation-table", Detail: err.Error()})
		return
	}
	if unicode.IsLetter(0) || unicode.IsDigit(0) {
		r.Violate(Violation{Kind: "correspondence", Key: "oracle-hypothesis", Detail: "unicode.IsLetter(0) or IsDigit(0) holds: hypothesis uni_nul of the lexer theorems is false"})
	}
	model, err := StartModel(c03ModelName(r))
	if err != nil {
		r.Violate(Violation{Kind: "correspondence", Key: "model-start", Detail: err.Error()})
		return
	}
	defer model.Close()
	rng := cfg.Rng
	corpus := loadCorpus()
	r.Note("corpus: %d programs (%d from docs code blocks)", len(corpus), countDocs(corpus))
	if len(corpus) < 50 {
		r.Violate(Violation{Kind: "correspondence", Key: "corpus-missing", Detail: fmt.Sprintf("only %d corpus programs found under %s", len(corpus), repoRoot())})
	}

	nw := runtime.NumCPU()
	if nw > 8 {
		nw = 8
	}
	modelEvery := map[string]int{"corpus": 1, "program": 1, "prefix-rune": 3, "prefix-token": 6, "string-escapes": 1, "random-unicode": 1, "random-bytes": 1, "token-soup": 1, "stmt-soup": 4, "deep-nest": 2}
	streamN := map[string]int{}
	shrunk := map[string]bool{}
	var shrinker *parseWorker
	defer func() {
		if shrinker != nil {
			shrinker.kill()
		}
	}()
	var tParse, tLex time.Duration
	total := 0
	var cases []mutCase
	// flush runs (b) the parser oracle in worker processes and (a) the lexer oracle on every
	// pending case, and the model correspondence on a per-stream sample.
	flush := func() {
		srcs := make([]string, len(cases))
		for i, c := range cases {
			srcs[i] = c.Src
		}
		t0 := time.Now()
		reps := parsePool(srcs, nw)
		tParse += time.Since(t0)
		t0 = time.Now()
		for i, c := range cases {
			streamN[c.Stream]++
			every, ok := modelEvery[c.Stream]
			if !ok {
				every = 12
			}
			var m *Model
			if every == 1 || streamN[c.Stream]%every == 0 {
				m = model
			}
			toks := c03Lex(c.Src, c.Stream, m, r)
			r.Count(c.Src, len(toks) >= 4)
			r.Dist("stream:" + c.Stream)
			rep := reps[i]
			r.Dist("parse:" + rep.Status)
			if rep.Status == "violation" {
				r.Dist("parse-violation:" + rep.Key)
				src, note := c.Src, ""
				if !shrunk[rep.Key] && !rep.Fatal {
					shrunk[rep.Key] = true
					src = shrinkCase(c.Src, rep.Key, &shrinker)
					note = fmt.Sprintf(" (shrunk from a %d-byte input)", len(c.Src))
				}
				r.Violate(Violation{Kind: "property", Key: rep.Key, Detail: rep.Detail + " [stream " + c.Stream + "]" + note, Input: srcInput(src),
					Impl: map[string]any{"frames": rep.Frames}})
			}
			if len(r.Samples) < 4 && c.Stream != "corpus" && c.Stream != "program" && (total+i)%97 == 0 {
				r.Sample(map[string]any{"stream": c.Stream, "src": strconv.Quote(c.Src), "tokens": len(toks), "parse": rep.Status, "errors": rep.NErrs, "first_error": rep.FirstErr})
			}
		}
		tLex += time.Since(t0)
		total += len(cases)
		cases = cases[:0]
	}
	add := func(c mutCase) {
		cases = append(cases, c)
		if len(cases) >= 40000 {
			flush()
		}
	}

	for _, c := range c03FixedCorpus {
		add(c)
	}
	if files, _ := filepath.Glob(filepath.Join(os.Getenv("VERIF_ROOT"), "corpus", "C03", "*")); len(files) > 0 {
		sort.Strings(files)
		for _, f := range files {
			if b, err := os.ReadFile(f); err == nil {
				add(mutCase{string(b), "corpus"})
			}
		}
	}
	for _, p := range corpus {
		add(mutCase{p.Src, "program"})
	}
	// mutation stream
	nmut := cfg.N(14, 70)    // programs mutated
	budget := cfg.N(25, 100) // per-family budget per program
	small := []corpusProg{}
	for _, p := range corpus {
		if n := len(p.Src); n >= 20 && n <= cfg.N(700, 2500) {
			small = append(small, p)
		}
	}
	for k := 0; k < nmut && len(small) > 0; k++ {
		var ms []mutCase
		mutate(small[rng.Intn(len(small))], kinds, rng, budget, &ms)
		for _, c := range ms {
			add(c)
		}
	}
	// decorated generated programs as mutation bases: comments at every legal position, blank runs and
	// multi-line array/map literals with comments between their items (layouts the repository corpus hardly
	// has), so that every prefix / deletion also cuts inside those
	for k := 0; k < cfg.N(30, 300); k++ {
		src, _, _ := GenProgram(rng, fmtGenOpts[k%len(fmtGenOpts)])
		src = decorate(rng, src, 0.5)
		if len(src) < 20 || len(src) > cfg.N(1200, 4000) {
			continue
		}
		add(mutCase{src, "decorated-program"})
		var ms []mutCase
		mutate(corpusProg{Src: src}, kinds, rng, cfg.N(12, 60), &ms)
		for _, c := range ms {
			c.Stream = "decorated:" + c.Stream
			add(c)
		}
	}
	// binder programs (harness/c03binders.go): parameters, variadic and `_` parameters, handler parameters, loop variables,
	// locals, each used or not; as they are and cut / edited by every mutation family (function stubs typed so far)
	for k := 0; k < cfg.N(300, 3000); k++ {
		src := genBinderProgram(rng)
		add(mutCase{src, "binders"})
		if k%10 == 0 {
			var ms []mutCase
			mutate(corpusProg{Src: src}, kinds, rng, cfg.N(4, 12), &ms)
			for _, c := range ms {
				c.Stream = "binders:" + c.Stream
				add(c)
			}
		} else { // the cheap cuts: every line prefix, and one deleted line
			lines := strings.SplitAfter(src, "\n")
			for i := 1; i < len(lines); i++ {
				add(mutCase{strings.Join(lines[:i], ""), "binders:prefix-line"})
			}
			if i := rng.Intn(len(lines)); len(lines) > 1 {
				add(mutCase{strings.Join(lines[:i], "") + strings.Join(lines[i+1:], ""), "binders:del-line"})
			}
		}
	}
	for k := 0; k < cfg.N(150, 3000) && len(small) > 1; k++ { // splices
		a, b := spans(small[rng.Intn(len(small))].Src), spans(small[rng.Intn(len(small))].Src)
		i, j := rng.Intn(len(a)+1), rng.Intn(len(b)+1)
		add(mutCase{strings.Join(a[:i], "") + strings.Join(b[j:], ""), "splice"})
	}
	for k := 0; k < cfg.N(2500, 60000); k++ {
		add(mutCase{genStmtSoup(rng, 1+rng.Intn(5)), "stmt-soup"})
	}
	for k := 0; k < cfg.N(1500, 40000); k++ {
		add(mutCase{genSoup(rng, 1+rng.Intn(14)), "token-soup"})
	}
	for k := 0; k < cfg.N(600, 15000); k++ {
		add(mutCase{genStringLit(rng), "string-escapes"})
	}
	for k := 0; k < cfg.N(500, 10000); k++ {
		add(mutCase{genUnicode(rng, 1+rng.Intn(40)), "random-unicode"})
	}
	for k := 0; k < cfg.N(500, 10000); k++ {
		add(mutCase{genBytes(rng, 1+rng.Intn(60)), "random-bytes"})
	}
	for k := 0; k < cfg.N(40, 400); k++ {
		add(mutCase{genDeepNest(rng, cfg.N(300, 600)), "deep-nest"})
	}
	flush()
	// the statement-parser model (coq/Parser.v) against parser.Parse: accept/reject and all error positions (harness/c03parse.go)
	rule := r.Rule
	runC03parse(cfg, r)
	r.Rule = rule + "; PARSER MODEL: " + r.Rule
	c03DeepNestingProbe(cfg, r)
	if fatalConfirmed >= 3 {
		r.Note("parser oracle cut short after %d confirmed hangs / process deaths (remaining inputs counted as parse:skipped)", fatalConfirmed)
	}
	r.Note("parser oracle: %d inputs in %.1fs on %d workers; lexer oracle + model correspondence: %.1fs", total, tParse.Seconds(), nw, tLex.Seconds())
}

// c03DeepNestingProbe records, as notes only, how parser.Parse behaves on deep nesting: recursive
// descent uses Go stack proportional to the depth, and 4 000 000 nested parentheses (8 MB of source)
// exhaust the 1 GB stack limit, a fatal error recover cannot catch (observed once by hand, about 50 s;
// not part of the run). The probe stays at depths that are safe and shows the trend.
func c03DeepNestingProbe(cfg Config, r *Result) {
	w, err := startParseWorker("VERIF_C03_PARSE_TIMEOUT_MS=60000")
	if err != nil {
		r.Note("deep nesting probe: could not start a worker: %v", err)
		return
	}
	defer func() { w.kill() }()
	probe := func(name, prefix, open, inner, cl string, depths []int) {
		parts := []string{}
		for _, d := range depths {
			src := prefix + strings.Repeat(open, d) + inner + strings.Repeat(cl, d) + "\n"
			t0 := time.Now()
			rep, alive := w.ask(src)
			dt := time.Since(t0)
			st := rep.Status
			if rep.Status == "violation" {
				st = rep.Key
			}
			parts = append(parts, fmt.Sprintf("depth %d: %s in %.2fs", d, st, dt.Seconds()))
			r.Dist("deep-nesting-probe:" + st)
			if !alive {
				w.kill()
				if w, err = startParseWorker("VERIF_C03_PARSE_TIMEOUT_MS=60000"); err != nil {
					break
				}
			}
		}
		r.Note("deep nesting probe (note only, not a violation), %s: %s", name, strings.Join(parts, "; "))
	}
	probe("nested parentheses `x := (((…1…)))`; 4,000,000 levels exhaust the 1 GB Go stack (fatal, not recoverable)", "x := ", "(", "1", ")", []int{5000, 10000, 20000})
	probe("nested array literals `print [[[…1…]]]` (the type of depth d is rebuilt, printed or compared at every level: superlinear)", "print ", "[", "1", "]", []int{400, 800, 1600, 3200}[:cfg.N(3, 4)])
}

// genDeepNest: deeply nested (balanced or cut) brackets. Depth stays below 700: parsing nested array
// literals is superlinear in the depth (about 4 s at depth 1600, 13 s at 3200 on the reference machine),
// which is slow but not a hang, and depth 4 000 000 exhausts the 1 GB Go stack (see findings.d/C03.txt, notes).
func genDeepNest(rng *rand.Rand, maxDepth int) string {
	d := 50 + rng.Intn(maxDepth)
	open, cl := []string{"(", "[", "{a:", "(-", "[1 ", "(f "}, []string{")", "]", "}", ")", "]", ")"}
	k := rng.Intn(len(open))
	var b strings.Builder
	b.WriteString([]string{"x := ", "print ", "f ", "x = ", ""}[rng.Intn(5)])
	mixed := rng.Intn(3) == 0
	ks := make([]int, d)
	for i := 0; i < d; i++ {
		if mixed {
			k = rng.Intn(len(open))
		}
		ks[i] = k
		b.WriteString(open[k])
	}
	b.WriteString([]string{"1", "", "x", "\"a\""}[rng.Intn(4)])
	closeN := d
	if rng.Intn(3) == 0 {
		closeN = rng.Intn(d + 1)
	}
	for i := 0; i < closeN; i++ {
		b.WriteString(cl[ks[d-1-i]])
	}
	b.WriteString("\n")
	return b.String()
}

// shrinkCase minimises src by delta debugging (whole lines, then tokens) while parser.Parse
// keeps failing with the same key. At most 600 oracle calls.
func shrinkCase(src, key string, w **parseWorker) string {
	calls := 0
	check := func(s string) bool {
		if calls >= 600 {
			return false
		}
		calls++
		if *w == nil {
			nw, err := startParseWorker()
			if err != nil {
				return false
			}
			*w = nw
		}
		rep, alive := (*w).ask(s)
		if !alive {
			(*w).kill()
			*w = nil
		}
		return rep.Status == "violation" && rep.Key == key
	}
	ddmin := func(parts []string) []string {
		n := 2
		for len(parts) >= 2 && calls < 600 {
			chunk := (len(parts) + n - 1) / n
			reduced := false
			for i := 0; i < len(parts); i += chunk {
				j := min(i+chunk, len(parts))
				cand := append(append([]string{}, parts[:i]...), parts[j:]...)
				if len(cand) > 0 && check(strings.Join(cand, "")) {
					parts, reduced = cand, true
					n = max(n-1, 2)
					break
				}
			}
			if !reduced {
				if n >= len(parts) {
					break
				}
				n = min(2*n, len(parts))
			}
		}
		return parts
	}
	cur := strings.Join(ddmin(strings.SplitAfter(src, "\n")), "")
	return strings.Join(ddmin(spans(cur)), "")
}

// c03ModelName: the model in force is `lexer` (Lexer.lex: lookAt returns a non-rune sentinel
// beyond the end, a NUL in the source is an ILLEGAL token). The witness of
// C03_lex_before_fix_tiles_whole_input_refuted (a, NUL, b) is replayed on the implementation as
// a regression check: if the token stream ends at the NUL again, the lexer oracle reports
// lex-nul-truncates-input and the correspondence with `lexer` fails.
func c03ModelName(r *Result) string {
	toks, _, _ := c03ImplLex("a\x00b")
	if len(toks) == 4 && toks[1].Type == "ILLEGAL" && toks[3].Off == 3 {
		r.Note("lexer model: `lexer`; regression witness a NUL b lexes as IDENT ILLEGAL IDENT EOF@3 (not as before commit d745e6e: IDENT EOF@1)")
	} else {
		r.Note("lexer model: `lexer`; REGRESSION: a NUL b no longer lexes as IDENT ILLEGAL IDENT EOF@3")
	}
	return "lexer"
}

func countDocs(c []corpusProg) int {
	n := 0
	for _, p := range c {
		if strings.Contains(p.Name, ".md#") {
			n++
		}
	}
	return n
}

func c03Replay(cfg Config, r *Result) {
	b, err := os.ReadFile(cfg.Replay)
	if err != nil {
		r.Violate(Violation{Kind: "correspondence", Key: "replay-read", Detail: err.Error()})
		return
	}
	var v struct {
		Input any `json:"input"`
	}
	if err := json.Unmarshal(b, &v); err != nil {
		r.Violate(Violation{Kind: "correspondence", Key: "replay-read", Detail: err.Error()})
		return
	}
	src, ok := inputFromReplay(v.Input)
	if !ok {
		if m, isMap := v.Input.(map[string]any); isMap {
			if _, has := m["source"].(string); has { // a difference found by the parser-model correspondence
				runC03parse(cfg, r)
				return
			}
		}
		r.Note("replay file carries no src_hex input; nothing to re-run")
		return
	}
	model, err := StartModel(c03ModelName(r))
	if err != nil {
		r.Violate(Violation{Kind: "correspondence", Key: "model-start", Detail: err.Error()})
		return
	}
	defer model.Close()
	toks := c03Lex(src, "replay", model, r)
	r.Count(src, len(toks) >= 4)
	rep := parsePool([]string{src}, 1)[0]
	r.Dist("parse:" + rep.Status)
	if rep.Status == "violation" {
		r.Violate(Violation{Kind: "property", Key: rep.Key, Detail: rep.Detail, Input: srcInput(src), Impl: map[string]any{"frames": rep.Frames}})
	}
	r.Sample(map[string]any{"src": strconv.Quote(src), "tokens": toks, "parse": rep})
}

func init() {
	register("C03", runC03)
	register("C03-worker", runC03Worker)
}
