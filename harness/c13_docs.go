package main

import (
	"fmt"
	"os"
	"path/filepath"
	"regexp"
	"strings"
)

// Documented examples: every ```evy / ```evy:err block of the documentation
// that is followed by an ```evy:output block (optionally with ```evy:input in
// between) — the convention of /repo/build-tools/doctest.awk — is run on the
// real implementation, which must print exactly the documented output
// (stdout and the error text `evy run` writes, text before a `cls` dropped,
// final newline ignored). This is the property oracle against the definition.

type c13docExample struct {
	File     string
	Line     int
	Code     string
	Input    []string
	Output   string
	WantErr  bool
}

func extractDocExamples(path string) ([]c13docExample, error) {
	b, err := os.ReadFile(path)
	if err != nil {
		return nil, err
	}
	var out []c13docExample
	var cur *c13docExample
	mode := ""
	var buf []string
	for i, line := range strings.Split(string(b), "\n") {
		switch {
		case mode == "" && strings.HasPrefix(line, "### "):
			cur = nil
		case mode == "" && (line == "```evy" || line == "```evy:err"):
			cur = &c13docExample{File: filepath.Base(path), Line: i + 1, WantErr: line == "```evy:err"}
			mode, buf = "code", nil
		case mode == "" && line == "```evy:input" && cur != nil:
			mode, buf = "input", nil
		case mode == "" && line == "```evy:output" && cur != nil:
			mode, buf = "output", nil
		case mode == "" && strings.HasPrefix(line, "```"):
			mode, buf = "other", nil
		case mode != "" && line == "```":
			switch mode {
			case "code":
				cur.Code = strings.Join(buf, "\n") + "\n"
			case "input":
				cur.Input = append([]string(nil), buf...)
			case "output":
				cur.Output = strings.Join(buf, "\n")
				out = append(out, *cur)
				cur = nil
			}
			mode = ""
		case mode != "":
			buf = append(buf, line)
		}
	}
	return out, nil
}

func c13repoRoot() string {
	// the tree the harness was built against: where the linked lexer package's source is
	if r := repoRoot(); r != "" {
		if _, err := os.Stat(filepath.Join(r, "docs", "builtins.md")); err == nil {
			return r
		}
	}
	root := os.Getenv("VERIF_ROOT")
	if root == "" {
		root = "/verif"
	}
	if b, err := os.ReadFile(filepath.Join(root, "harness", "go.mod")); err == nil {
		if m := regexp.MustCompile(`(?m)^replace\s+evylang\.dev/evy\s*=>\s*(\S+)`).FindSubmatch(b); m != nil {
			return string(m[1])
		}
	}
	return "/repo"
}

// what `evy run` shows for a program: stdout, then the error line on stderr
func shownOutput(out RunOutcome) string {
	var b strings.Builder
	for _, t := range out.Trace {
		switch {
		case t == "cls":
			b.Reset()
		case strings.HasPrefix(t, "print:"):
			b.WriteString(t[len("print:"):])
		}
	}
	switch {
	case out.Class == "parse-error":
		b.WriteString(out.ParseErr + "\n")
	case out.Class == "ok" || strings.HasPrefix(out.Class, "exit:"):
	case out.Class == "gopanic":
		b.WriteString("<host panic: " + out.GoPanic + ">\n")
	default:
		b.WriteString(out.ErrText + "\n")
	}
	return b.String()
}

func c13DocExamples(cfg Config, r *Result) {
	root := c13repoRoot()
	total := 0
	for _, f := range []string{"docs/builtins.md", "docs/spec.md", "docs/syntax-by-example.md"} {
		exs, err := extractDocExamples(filepath.Join(root, f))
		if err != nil {
			r.Violate(Violation{Kind: "correspondence", Key: "doc-unreadable:" + f, Detail: err.Error()})
			continue
		}
		for _, ex := range exs {
			total++
			r.Count("doc:"+ex.File+":"+ex.Code, true)
			r.Dist("doc-example:" + ex.File)
			out := RunEvy(ex.Code, RunOpts{Input: ex.Input, YieldBudget: 500000})
			r.Validated++
			got := strings.TrimRight(shownOutput(out), "\n")
			want := strings.TrimRight(ex.Output, "\n")
			failed := out.Class != "ok"
			if got != want || out.Class == "gopanic" || out.Class == "budget" || (failed && !ex.WantErr) {
				r.Violate(Violation{Kind: "property", Key: fmt.Sprintf("doc-example:%s:%d", ex.File, ex.Line),
					Detail: fmt.Sprintf("the documented example at %s line %d does not print the documented output (class %s)", ex.File, ex.Line, out.Class),
					Input:  map[string]any{"program": ex.Code, "inputs": ex.Input, "file": ex.File, "line": ex.Line},
					Impl:   got, Model: want})
			}
		}
	}
	r.Note("documented examples run: %d", total)
	if total < 40 {
		r.Violate(Violation{Kind: "correspondence", Key: "doc-examples-missing", Detail: fmt.Sprintf("only %d documented examples found; the extraction no longer matches the documentation format", total)})
	}
}
