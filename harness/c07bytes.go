package main

import (
	"fmt"
	"math/rand"
	"os"
	"path/filepath"
	"strconv"
	"strings"
	"time"

	"golang.org/x/tools/txtar"
)

// C07, byte level: `evy fmt --check` accepts EXACTLY the formatter's own output - for ANY byte string b
// (not only for texts the generators write with "\n" line ends): exit 0 iff b parses and Format(parse b) == b
// byte for byte (C07_check_accepts_iff_formatted), and whatever is accepted has the shape of the formatter's
// output (C07_check_accepted_text_is_shaped: no white space of any kind - blank, tab, the CR of a CRLF line
// end, FF, VT, NBSP - before a newline; C07_check_rejects_crlf). The verdict is taken through the built
// binary on every route a text reaches main.go's format(): stdin, a file argument, a member of a txtar archive;
// plain `evy fmt` must print, and `evy fmt -w` must leave in the file, exactly Program.Format() of those bytes.
//
// The variants are byte-level edits of (a) formatter outputs - so that the edit is the ONLY deviation from
// canonical form - and (b) unformatted sources: line-end conventions (CRLF on all / one / the last / a comment /
// a blank line, CR CR LF, lone CR for LF, LF CR), a byte inserted at a line end / line start / anywhere
// (blank, tab, CR, FF, VT, NBSP, NUL, ^Z, invalid UTF-8), BOM, final-newline count, leading blank line, tab
// indentation, doubled blank line, and the text unchanged.

type byteVariant struct {
	Label string
	B     string
}

// lineEndEdit applies f to the line ends selected by pick (index, line text without "\n").
func lineEndEdit(t string, pick func(i int, ln string) bool, end string) (string, bool) {
	if !strings.HasSuffix(t, "\n") {
		return t, false
	}
	lines := strings.Split(strings.TrimSuffix(t, "\n"), "\n")
	var b strings.Builder
	hit := false
	for i, ln := range lines {
		b.WriteString(ln)
		if pick(i, ln) {
			b.WriteString(end)
			hit = true
		} else {
			b.WriteString("\n")
		}
	}
	return b.String(), hit
}

func byteVariants(rng *rand.Rand, t string) []byteVariant {
	var out []byteVariant
	add := func(label, b string, ok bool) {
		if ok && b != t {
			out = append(out, byteVariant{label, b})
		}
	}
	out = append(out, byteVariant{"unchanged", t})
	nLines := strings.Count(t, "\n")
	k := 0
	if nLines > 0 {
		k = rng.Intn(nLines)
	}
	all := func(int, string) bool { return true }
	one := func(i int, _ string) bool { return i == k }
	last := func(i int, _ string) bool { return i == nLines-1 }
	first := func(i int, _ string) bool { return i == 0 }
	comment := func(_ int, ln string) bool { return strings.Contains(ln, "//") }
	blank := func(_ int, ln string) bool { return ln == "" }
	open := func(_ int, ln string) bool { return strings.HasSuffix(ln, "[") || strings.HasSuffix(ln, "{") }
	some := func(int, string) bool { return rng.Intn(2) == 0 }
	for _, sel := range []struct {
		name string
		pick func(int, string) bool
	}{{"all-lines", all}, {"one-line", one}, {"last-line", last}, {"first-line", first}, {"comment-lines", comment},
		{"blank-lines", blank}, {"literal-open-lines", open}, {"some-lines", some}} {
		for _, e := range []struct{ name, end string }{{"crlf", "\r\n"}, {"crcrlf", "\r\r\n"}, {"lone-cr", "\r"}, {"lfcr", "\n\r"},
			{"space-lf", " \n"}, {"tab-lf", "\t\n"}, {"ff-lf", "\f\n"}, {"vt-lf", "\v\n"}, {"nbsp-lf", " \n"}, {"nel", "\u0085\n"}, {"nul-lf", "\x00\n"}} {
			// every (selection, line end) pair is a variant; a random third of them per base keeps the count down
			if e.name != "crlf" && rng.Intn(3) != 0 {
				continue
			}
			v, hit := lineEndEdit(t, sel.pick, e.end)
			add(e.name+"-"+sel.name, v, hit)
		}
	}
	// one byte inserted anywhere
	if len(t) > 0 {
		for _, ins := range []struct{ name, s string }{{"cr", "\r"}, {"space", " "}, {"tab", "\t"}, {"nul", "\x00"}, {"invalid-utf8", "\xff"}, {"lf", "\n"}} {
			p := rng.Intn(len(t) + 1)
			add("insert-"+ins.name+"-anywhere", t[:p]+ins.s+t[p:], true)
		}
	}
	add("utf8-bom", "\xef\xbb\xbf"+t, true)
	add("trailing-nul", t+"\x00", true)
	add("trailing-ctrl-z", t+"\x1a", true)
	add("trailing-cr", t+"\r", true)
	add("no-final-newline", strings.TrimSuffix(t, "\n"), true)
	add("final-crlf-only", strings.TrimSuffix(t, "\n")+"\r\n", strings.HasSuffix(t, "\n"))
	add("extra-final-newline", t+"\n", true)
	add("extra-final-crlf", t+"\r\n", true)
	add("leading-newline", "\n"+t, true)
	add("leading-crlf", "\r\n"+t, true)
	add("leading-cr", "\r"+t, true)
	add("tab-indent", strings.ReplaceAll(t, "\n    ", "\n\t"), true)
	add("cr-indent", strings.ReplaceAll(t, "\n    ", "\n\r   "), true)
	add("doubled-blank-line", strings.Replace(t, "\n\n", "\n\n\n", 1), true)
	add("blank-line-crlf-doubled", strings.Replace(t, "\n\n", "\n\r\n\r\n", 1), true)
	return out
}

type c07Verdict struct {
	parses bool
	format string
	want   bool // the check must exit 0
}

func c07Want(b string) c07Verdict {
	prog, err := safeParse(b)
	if err != nil {
		return c07Verdict{}
	}
	f, err := safeFormat(prog)
	if err != nil {
		return c07Verdict{}
	}
	return c07Verdict{true, f, f == b}
}

func c07BytesInput(v byteVariant, route string) map[string]any {
	return map[string]any{"variant": v.Label, "route": route, "bytes_quoted": strconv.Quote(v.B)}
}

// c07CheckBytes: one byte string through every route of `evy fmt`.
func c07CheckBytes(c *c07Ctx, v byteVariant, routes int) {
	r := c.r
	b := v.B
	w := c07Want(b)
	class := strings.SplitN(v.Label, "-", 2)[0]
	r.Count("bytes:"+b, v.Label != "unchanged")
	r.Dist("bytes:" + map[bool]string{true: "must-accept", false: "must-reject"}[w.want])
	// the theorem's predicate on these bytes (Coq shape_lines), for the accepted => shaped oracle
	shaped := true
	if ans, err := c.model.Ask(Lst(Sym("shape"), Str(b)).String()); err == nil {
		if x, err := ParseSX(ans); err == nil && len(x.L) == 2 {
			shaped = x.L[0].S == "true"
		}
	}
	if w.want && !shaped {
		// Format(parse b) == b and shape_lines b = false: the formatter's own output is ill-shaped (oracle 3's business),
		// or the shape theorem's wf hypothesis fails; say so instead of blaming the check
		r.Dist("bytes:own-output-ill-shaped")
	}
	verdict := func(route string, exit int, stderr string) {
		r.Dist("bytes-route:" + route)
		if (exit == 0) != w.want {
			key := "fmt-check-accepts-bytes-that-are-not-formatter-output:" + class
			detail := fmt.Sprintf("`evy fmt -c` (%s) exits 0 on bytes b with Format(parse b) != b (variant %s)", route, v.Label)
			if !w.parses {
				key = "fmt-check-accepts-unparsable-bytes:" + class
				detail = fmt.Sprintf("`evy fmt -c` (%s) exits 0 on bytes the parser rejects (variant %s)", route, v.Label)
			}
			if w.want {
				key = "fmt-check-rejects-formatter-output-bytes:" + class
				detail = fmt.Sprintf("`evy fmt -c` (%s) exits %d on bytes b with Format(parse b) == b (variant %s; stderr %q)", route, exit, v.Label, strings.TrimSpace(stderr))
			}
			r.Violate(Violation{Kind: "property", Key: key, Detail: detail, Input: c07BytesInput(v, route), Impl: w.format})
		}
		if exit == 0 && !shaped && !w.want {
			r.Violate(Violation{Kind: "property", Key: "fmt-check-accepts-ill-shaped-text:" + class,
				Detail: fmt.Sprintf("`evy fmt -c` (%s) exits 0 on a text that has not the shape of formatter output (white space before a newline, "+
					"indentation, blank-line runs: Format.shape_lines = false; C07_check_accepted_text_is_shaped) (variant %s)", route, v.Label),
				Input: c07BytesInput(v, route)})
		}
	}
	const to = 10 * time.Second
	// route 1: stdin
	res := runBin(c.bin, b, to, "fmt", "-c")
	if res.Timeout {
		res = runBin(c.bin, b, 60*time.Second, "fmt", "-c")
	}
	verdict("stdin", res.Exit, res.Stderr)
	if res.Stdout != "" {
		r.Violate(Violation{Kind: "property", Key: "fmt-check-prints", Detail: "`evy fmt -c` wrote to stdout", Input: c07BytesInput(v, "stdin"), Impl: res.Stdout})
	}
	if routes < 2 {
		return
	}
	dir, err := os.MkdirTemp("", "c07bytes")
	if err != nil {
		return
	}
	defer os.RemoveAll(dir)
	// route 2: a file argument (long and short flag)
	file := filepath.Join(dir, "b.evy")
	os.WriteFile(file, []byte(b), 0o644)
	res = runBin(c.bin, "", to, "fmt", "--check", file)
	verdict("file", res.Exit, res.Stderr)
	if after, err := os.ReadFile(file); err != nil || string(after) != b {
		r.Violate(Violation{Kind: "property", Key: "fmt-check-changes-the-file", Detail: "`evy fmt --check FILE` changed or removed FILE", Input: c07BytesInput(v, "file")})
	}
	// route 3: the only .evy member of a txtar archive (the archive reader decides what the member's bytes are)
	arText := "comment\n-- b.evy --\n" + b + "-- note.txt --\n x := 1   \r\n"
	wantAr := true
	nEvy := 0
	for _, m := range txtar.Parse([]byte(arText)).Files {
		if filepath.Ext(m.Name) == ".evy" {
			nEvy++
			wantAr = wantAr && c07Want(string(m.Data)).want
		}
	}
	ar := filepath.Join(dir, "a.txtar")
	os.WriteFile(ar, []byte(arText), 0o644)
	res = runBin(c.bin, "", to, "fmt", "-c", ar)
	r.Dist("bytes-route:txtar-member")
	if nEvy > 0 && (res.Exit == 0) != wantAr {
		key := "fmt-check-accepts-txtar-member-that-is-not-formatter-output:" + class
		if wantAr {
			key = "fmt-check-rejects-formatted-txtar-member:" + class
		}
		r.Violate(Violation{Kind: "property", Key: key,
			Detail: fmt.Sprintf("`evy fmt -c ARCHIVE.txtar` exits %d; its .evy member equals its formatted form: %v (variant %s; stderr %q)", res.Exit, wantAr, v.Label, strings.TrimSpace(res.Stderr)),
			Input:  c07BytesInput(v, "txtar-member"), Impl: w.format})
	}
	if routes < 3 {
		return
	}
	// plain `evy fmt` and `evy fmt -w`: exactly Program.Format() of these bytes, or a failure and an untouched file
	pl := runBin(c.bin, b, to, "fmt")
	r.Dist("bytes-route:plain")
	switch {
	case w.parses && (pl.Exit != 0 || pl.Stdout != w.format):
		r.Violate(Violation{Kind: "correspondence", Key: "fmt-binary-differs-from-library:" + class,
			Detail: fmt.Sprintf("`evy fmt` (stdin, exit %d) does not print Program.Format() of the bytes (variant %s)", pl.Exit, v.Label), Input: c07BytesInput(v, "plain"), Impl: pl.Stdout, Model: w.format})
	case !w.parses && (pl.Exit == 0 || pl.Stdout != ""):
		r.Violate(Violation{Kind: "property", Key: "fmt-formats-unparsable-bytes:" + class,
			Detail: fmt.Sprintf("`evy fmt` (stdin) exits %d and prints %q on bytes the parser rejects (variant %s)", pl.Exit, pl.Stdout, v.Label), Input: c07BytesInput(v, "plain")})
	}
	wr := runBin(c.bin, "", to, "fmt", "-w", file)
	r.Dist("bytes-route:write")
	after, _ := os.ReadFile(file)
	wantAfter := b
	if w.parses {
		wantAfter = w.format
	}
	if (wr.Exit == 0) != w.parses || string(after) != wantAfter {
		r.Violate(Violation{Kind: "property", Key: "fmt-write-leaves-other-than-formatter-output:" + class,
			Detail: fmt.Sprintf("`evy fmt -w FILE` exits %d and leaves bytes that are not Program.Format() of the file (or touched a rejected file) (variant %s)", wr.Exit, v.Label),
			Input:  c07BytesInput(v, "write"), Impl: string(after), Model: wantAfter})
	}
}

// c07ByteStream: byte-level variants of formatter outputs and of unformatted sources through the binary.
func c07ByteStream(c *c07Ctx, nBases int) {
	if c.bin == "" {
		return
	}
	rng := c.cfg.Rng
	var pool []string
	pool = append(pool, fmtCorpus...)
	for _, s := range CorpusPrograms() {
		if len(s) < 1500 {
			pool = append(pool, s)
		}
	}
	nPool := len(pool)
	for i := 0; i < nBases; i++ {
		var src string
		switch {
		case i%3 == 0 && nPool > 0:
			src = pool[rng.Intn(nPool)]
		case i%3 == 1:
			src, _, _ = GenProgram(rng, fmtGenOpts[i%len(fmtGenOpts)])
			src = decorate(rng, src, 0.4)
		default:
			src = genSkeleton(c.cfg, 100000+i)
		}
		w := c07Want(src)
		if !w.parses {
			continue
		}
		// the formatter's output (the edit is then the only deviation), every third time the source as written
		base := w.format
		if i%3 == 2 && i%2 == 0 {
			base = src
		}
		vs := byteVariants(rng, base)
		// per base: the unchanged text, two CRLF variants, and a random handful of the others
		rng.Shuffle(len(vs)-1, func(a, b int) { vs[a+1], vs[b+1] = vs[b+1], vs[a+1] })
		crlf, others := 0, 0
		for j, v := range vs {
			isCRLF := strings.HasPrefix(v.Label, "crlf-")
			switch {
			case j == 0:
			case isCRLF && crlf < 2:
				crlf++
			case !isCRLF && others < c.cfg.N(5, 12):
				others++
			default:
				continue
			}
			c.r.Dist("bytes-variant:" + v.Label)
			c07CheckBytes(c, v, 1+(i+j)%3)
		}
	}
}
