package main

import (
	"fmt"
	"math/rand"
	"strings"
)

// C16 stream range-forms: every form of `for … range` - with and without loop variable - over strings (mostly with
// multi-byte characters), arrays, maps and step ranges, at top level (globals) and inside blocks (VM locals), nested,
// with breaks; every loop counts its iterations (and folds its loop variable, when it has one) into globals, so the
// number of iterations and the values handed to the body are visible in the final globals on both implementations.

var c16Runes = []string{"a", "b", "z", " ", "0", "é", "ä", "ö", "ß", "ñ", "€", "日", "本", "語", "😀", "𝄞", "é"}

type c16RangeGen struct {
	rng  *rand.Rand
	b    strings.Builder // the loops
	decl strings.Builder // global declarations (emitted first)
	nid  int
	strs []string // global string variables (never assigned by the loops)
	arrN []string
	arrS []string
	maps []string
}

func (g *c16RangeGen) id(p string) string { g.nid++; return fmt.Sprintf("%s%d", p, g.nid) }

func (g *c16RangeGen) strText() string {
	r := g.rng
	n := r.Intn(7)
	var sb strings.Builder
	mode := r.Intn(4) // 0: ASCII only, 1: non-ASCII only, else mixed
	for i := 0; i < n; i++ {
		var c string
		switch mode {
		case 0:
			c = c16Runes[r.Intn(5)]
		case 1:
			c = c16Runes[5+r.Intn(len(c16Runes)-5)]
		default:
			c = c16Runes[r.Intn(len(c16Runes))]
		}
		sb.WriteString(c)
	}
	return sb.String()
}

func (g *c16RangeGen) strLit() string { return `"` + g.strText() + `"` }

func (g *c16RangeGen) global(prefix, init string) string {
	n := g.id(prefix)
	g.decl.WriteString(n + " := " + init + "\n")
	return n
}

// iterable returns a range header and the loop variable's type ("num" / "string"), plus an expression giving the
// value of a map key (for map ranges)
func (g *c16RangeGen) iterable() (hdr, elt, mapName string) {
	r := g.rng
	switch k := r.Intn(20); {
	case k < 9: // strings
		switch f := r.Intn(6); {
		case f == 0 || len(g.strs) == 0:
			return "range " + g.strLit(), "string", ""
		case f == 1:
			return "range " + g.strs[r.Intn(len(g.strs))], "string", ""
		case f == 2:
			return "range (" + g.strs[r.Intn(len(g.strs))] + " + " + g.strLit() + ")", "string", ""
		case f == 3:
			return "range (" + g.strLit() + " + " + g.strs[r.Intn(len(g.strs))] + ")", "string", ""
		case f == 4:
			return fmt.Sprintf("range (%s + \"é日\")[%d:]", g.strs[r.Intn(len(g.strs))], r.Intn(3)), "string", ""
		default:
			return fmt.Sprintf("range (\"ß😀\" + %s)[:%d]", g.strs[r.Intn(len(g.strs))], r.Intn(3)), "string", ""
		}
	case k < 12: // arrays of numbers
		if len(g.arrN) > 0 && r.Intn(2) == 0 {
			a := g.arrN[r.Intn(len(g.arrN))]
			return "range " + []string{a, "(" + a + " + [7 8])", "(" + a + " * 2)", "(" + a + " + [0])[1:]"}[r.Intn(4)], "num", ""
		}
		return "range [" + strings.TrimSpace(strings.Repeat("4 ", r.Intn(4))+"1.5") + "]", "num", ""
	case k < 14: // arrays of strings
		if len(g.arrS) > 0 && r.Intn(2) == 0 {
			a := g.arrS[r.Intn(len(g.arrS))]
			return "range " + []string{a, "(" + a + " + [\"ü\"])", "(" + a + " * 2)"}[r.Intn(3)], "string", ""
		}
		return "range [" + g.strLit() + " " + g.strLit() + "]", "string", ""
	case k < 16 && len(g.maps) > 0:
		m := g.maps[r.Intn(len(g.maps))]
		return "range " + m, "string", m
	default: // step ranges
		return "range " + []string{"0", "1", "3", "5", "1 4", "4 1", "-2 2", "3 0 -1", "0 2 0.5", "5 1 -2", "0 10 3", "2 2", "1 2 0.25", "0 -3 -1", "2.5"}[r.Intn(15)], "num", ""
	}
}

func (g *c16RangeGen) loop(ind string, depth int) {
	r := g.rng
	hdr, elt, m := g.iterable()
	cnt := g.global("c", "0")
	withVar := r.Intn(2) == 0
	lv := ""
	if withVar {
		lv = g.id("v")
		g.b.WriteString(ind + "for " + lv + " := " + hdr + "\n")
	} else {
		g.b.WriteString(ind + "for " + hdr + "\n")
	}
	in := ind + "    "
	g.b.WriteString(in + cnt + " = " + cnt + " + 1\n")
	if withVar {
		switch {
		case elt == "num":
			acc := g.global("x", "0")
			g.b.WriteString(in + acc + " = " + acc + " * 2 + " + lv + "\n")
		case m != "":
			acc, sum := g.global("t", `""`), g.global("x", "0")
			g.b.WriteString(in + acc + " = " + acc + " + " + lv + " + \",\"\n")
			g.b.WriteString(in + sum + " = " + sum + " + " + m + "[" + lv + "]\n")
		default:
			acc := g.global("t", `""`)
			g.b.WriteString(in + acc + " = " + acc + " + " + lv + " + \"|\"\n")
			if r.Intn(3) == 0 { // the loop variable compared with a character
				hit := g.global("h", "0")
				g.b.WriteString(in + "if " + lv + " == \"" + c16Runes[5+r.Intn(len(c16Runes)-5)] + "\"\n" + in + "    " + hit + " = " + hit + " + 1\n" + in + "end\n")
			}
		}
	} else if r.Intn(3) == 0 {
		acc := g.global("t", `""`)
		g.b.WriteString(in + acc + " = " + acc + " + \"é\"\n")
	}
	if depth < 2 && r.Intn(3) == 0 {
		g.loop(in, depth+1)
	}
	if r.Intn(4) == 0 {
		g.b.WriteString(fmt.Sprintf("%sif %s >= %d\n%s    break\n%send\n", in, cnt, 1+r.Intn(5), in, in))
	}
	g.b.WriteString(ind + "end\n")
}

func c16RangeProgram(rng *rand.Rand) string {
	g := &c16RangeGen{rng: rng}
	for i, n := 0, 1+rng.Intn(3); i < n; i++ {
		g.strs = append(g.strs, g.global("s", g.strLit()))
	}
	if rng.Intn(2) == 0 {
		g.arrN = append(g.arrN, g.global("a", []string{"[1 2 3]", "[1][1:]", "[0.5]", "[9 8 7 6 5]"}[rng.Intn(4)]))
	}
	if rng.Intn(2) == 0 {
		g.arrS = append(g.arrS, g.global("w", "["+g.strLit()+" "+g.strLit()+" "+g.strLit()+"]"))
	}
	if rng.Intn(2) == 0 {
		g.maps = append(g.maps, g.global("m", []string{"{a:1 b:2}", "{q:0}", "{k:5}", "{x:1 y:2 z:3 w:4}"}[rng.Intn(4)]))
	}
	for i, n := 0, 1+rng.Intn(4); i < n; i++ {
		switch rng.Intn(4) {
		case 0: // inside a block: loop state and loop variable are VM locals
			g.b.WriteString("if true\n")
			g.loop("    ", 1)
			g.b.WriteString("end\n")
		case 1:
			w := g.global("k", "0")
			g.b.WriteString(fmt.Sprintf("while %s < %d\n    %s = %s + 1\n", w, 1+rng.Intn(2), w, w))
			g.loop("    ", 1)
			g.b.WriteString("end\n")
		default:
			g.loop("", 0)
		}
	}
	// every declared global is read once (the parser's unused-variable rule)
	var use strings.Builder
	for _, l := range [][]string{g.strs, g.arrN, g.arrS, g.maps} {
		for _, v := range l {
			use.WriteString(v + " = " + v + "\n")
		}
	}
	return g.decl.String() + g.b.String() + use.String()
}
