package main

import (
	"flag"
	"fmt"
	"math/rand"
	"os"
	"sort"
	"time"
)

type propFunc func(cfg Config, r *Result)

var props = map[string]propFunc{}

func register(id string, f propFunc) { props[id] = f }

func main() {
	if len(os.Args) < 2 {
		ids := []string{}
		for k := range props {
			ids = append(ids, k)
		}
		sort.Strings(ids)
		fmt.Fprintln(os.Stderr, "usage: vharness <id|gen> [-tier quick|thorough] [-seed N] [-out file] [-replay file]; ids:", ids)
		os.Exit(2)
	}
	id := os.Args[1]
	fs := flag.NewFlagSet(id, flag.ExitOnError)
	tier := fs.String("tier", "quick", "quick|thorough")
	seed := fs.Int64("seed", 1, "PRNG seed")
	out := fs.String("out", "", "result JSON path")
	replay := fs.String("replay", "", "replay file")
	fs.Parse(os.Args[2:])
	if id == "runone" {
		runOne()
		return
	}
	if id == "gen" {
		if err := genTables(*out); err != nil {
			fmt.Fprintln(os.Stderr, "gen:", err)
			os.Exit(1)
		}
		return
	}
	f, ok := props[id]
	if !ok {
		fmt.Fprintln(os.Stderr, "unknown property", id)
		os.Exit(2)
	}
	cfg := Config{Tier: *tier, Seed: *seed, Out: *out, Replay: *replay, Rng: rand.New(rand.NewSource(*seed))}
	r := newResult(id, *tier, *seed)
	t0 := time.Now()
	f(cfg, r)
	r.WallS = time.Since(t0).Seconds()
	if r.Samples == nil {
		r.Samples = []any{}
	}
	if r.Violations == nil {
		r.Violations = []Violation{}
	}
	if *out != "" {
		if err := writeJSON(*out, r); err != nil {
			fmt.Fprintln(os.Stderr, err)
			os.Exit(1)
		}
	}
	fmt.Printf("%s %s seed=%d evaluations=%d distinct=%d violations=%d wall=%.1fs\n", id, *tier, *seed, r.Evaluations, r.Distinct, len(r.Violations), r.WallS)
}
