package main

import (
	"fmt"
	"math/rand"
	"strings"
)

// c11StringSequences: the index and slice laws along a HISTORY of one program. Every single index / slice
// expression of the sweep in c11.go starts from a fresh literal; here string (and array) VARIABLES live through
// multi-step sequences: they are indexed and sliced (which leaves whatever the evaluator caches on them), their
// slices are used as operands of `+` in every position (prefix, inner, suffix slice; with other slices, whole
// variables read before or never read, s[i] results, literals, parenthesised sums that are sliced again, through a
// function), the sums are bound to NEW variables or back to the source, and afterwards every ORIGINAL variable is
// read again element by element (s[i], s[-i], s[a:b], for c := range s).
//   (a) compared with the evaluator model (coq/Sem.v: a string is the list of its code points, a slice is a new
//       list, nothing is shared or cached), and
//   (b) the property's own oracle inside the program: the elements s[0] .. s[n-1] joined are s, s[-k] is
//       s[n-k], s[a:b] are the elements a .. b-1, and a slice stays what it was when its source or a sum made
//       from it changes ("law" lines must print true).
// Texts are non-ASCII throughout (1-, 2-, 3- and 4-byte code points), so byte and code-point positions differ.

var c11SeqTexts = []string{"héllo wörld", "日本語テキスト", "añb😀cdé", "äöüßÄÖ", "naïve café", "Ωμέγα-xyz", "abcdef", "é", "😀日ä a", "zß"}

type c11SeqVar struct {
	name  string
	runes []rune // generator-side copy, only used to choose in-range positions
	arr   bool   // []num variable (elements 1..9)
}

type c11SeqGen struct {
	rng  *rand.Rand
	b    strings.Builder
	vars []*c11SeqVar
	nvar int
}

func (g *c11SeqGen) w(f string, a ...any) { fmt.Fprintf(&g.b, f+"\n", a...) }

func (g *c11SeqGen) pick(arr bool) *c11SeqVar {
	var c []*c11SeqVar
	for _, v := range g.vars {
		if v.arr == arr {
			c = append(c, v)
		}
	}
	return c[g.rng.Intn(len(c))]
}

// pos renders position p (0..n) of a container of length n, sometimes counted from the end
func (g *c11SeqGen) pos(p, n int) string {
	if p < n && g.rng.Intn(4) == 0 {
		return fmt.Sprint(p - n)
	}
	return fmt.Sprint(p)
}

// slice expression of v and its value; kind: 0 prefix 1 inner 2 suffix 3 whole
func (g *c11SeqGen) slice(v *c11SeqVar) (string, []rune) {
	n := len(v.runes)
	a, b := 0, n
	if n > 0 {
		a = g.rng.Intn(n + 1)
		b = a + g.rng.Intn(n-a+1)
	}
	switch g.rng.Intn(4) {
	case 0:
		return fmt.Sprintf("%s[:%s]", v.name, g.pos(b, n)), v.runes[:b]
	case 1:
		return fmt.Sprintf("%s[%s:]", v.name, g.pos(a, n)), v.runes[a:]
	}
	return fmt.Sprintf("%s[%s:%s]", v.name, g.pos(a, n), g.pos(b, n)), v.runes[a:b]
}

// operand of a sum over containers of one kind
func (g *c11SeqGen) operand(arr bool, depth int) (string, []rune) {
	v := g.pick(arr)
	switch k := g.rng.Intn(12); {
	case k < 6:
		return g.slice(v)
	case k < 8:
		return v.name, v.runes
	case k < 9 && len(v.runes) > 0:
		i := g.rng.Intn(len(v.runes))
		if arr {
			return fmt.Sprintf("[%s[%s]]", v.name, g.pos(i, len(v.runes))), v.runes[i : i+1]
		}
		return fmt.Sprintf("%s[%s]", v.name, g.pos(i, len(v.runes))), v.runes[i : i+1]
	case k < 10:
		if arr {
			return "[7 8]", []rune{7, 8}
		}
		lit := []string{"é", "xy", "日", ""}[g.rng.Intn(4)]
		return fmt.Sprintf("%q", lit), []rune(lit)
	case depth < 1:
		// a parenthesised sum that is sliced again
		e, val := g.sum(arr, depth+1)
		n := len(val)
		a := g.rng.Intn(n + 1)
		b := a + g.rng.Intn(n-a+1)
		return fmt.Sprintf("(%s)[%d:%d]", e, a, b), val[a:b]
	}
	return g.slice(v)
}

func (g *c11SeqGen) sum(arr bool, depth int) (string, []rune) {
	n := 2 + g.rng.Intn(2)
	var parts []string
	var val []rune
	for i := 0; i < n; i++ {
		e, x := g.operand(arr, depth)
		parts = append(parts, e)
		val = append(append([]rune(nil), val...), x...)
	}
	return strings.Join(parts, " + "), val
}

// reread: every element of v by index from both ends, some slices, the range loop
func (g *c11SeqGen) reread(v *c11SeqVar) {
	n := len(v.runes)
	var fw, bw []string
	for i := 0; i < n; i++ {
		fw = append(fw, fmt.Sprintf("%s[%d]", v.name, i))
		bw = append(bw, fmt.Sprintf("%s[%d]", v.name, -1-i))
	}
	g.w("print %q %s (len %s)", "re:"+v.name, v.name, v.name)
	if n > 0 {
		g.w("print %s", strings.Join(fw, " "))
		g.w("print %s", strings.Join(bw, " "))
	}
	a := g.rng.Intn(n + 1)
	b := a + g.rng.Intn(n-a+1)
	g.w("print %s[%d:%d] %s[%s:] %s[:%s]", v.name, a, b, v.name, g.pos(a, n), v.name, g.pos(b, n))
	if g.rng.Intn(3) == 0 {
		g.w("for c := range %s\n    print \"c\" c\nend", v.name)
	}
}

// law: the property's statement evaluated inside the program (strings only)
func (g *c11SeqGen) law(v *c11SeqVar) {
	n := len(v.runes)
	k := g.rng.Intn(n + 1)
	g.w("acc = \"\"\nbck = \"\"")
	g.w("for i := range (len %s)\n    acc = acc + %s[i]\n    bck = %s[-1-i] + bck\nend", v.name, v.name, v.name)
	g.w("print \"law\" %q (acc == %s) (bck == %s) (%s[:%d] + %s[%d:] == %s) (%s[:] == %s)", v.name, v.name, v.name, v.name, k, v.name, k, v.name, v.name, v.name)
	if n > 0 {
		i := g.rng.Intn(n)
		g.w("print \"law\" %q (%s[%d] == %s[%d:%d]) (%s[%d] == %s[%d]) ((len %s[%d:]) == %d)", v.name, v.name, i, v.name, i, i+1, v.name, i, v.name, i-n, v.name, i, n-i)
	}
}

func (g *c11SeqGen) newVar(arr bool, expr string, val []rune) *c11SeqVar {
	g.nvar++
	v := &c11SeqVar{name: fmt.Sprintf("t%d", g.nvar), runes: append([]rune(nil), val...), arr: arr}
	g.w("%s := %s", v.name, expr)
	g.vars = append(g.vars, v)
	return v
}

func c11SeqProgram(rng *rand.Rand) string {
	g := &c11SeqGen{rng: rng}
	g.w("func cat:string a:string b:string\n    return a + b\nend")
	g.w("func mid:string a:string i:num j:num\n    return a[i:j]\nend")
	g.w("acc := \"\"\nbck := \"\"")
	ns := 1 + rng.Intn(3)
	perm := rng.Perm(len(c11SeqTexts))
	for i := 0; i < ns; i++ {
		t := c11SeqTexts[perm[i]]
		v := &c11SeqVar{name: fmt.Sprintf("s%d", i), runes: []rune(t)}
		g.w("%s := %q", v.name, t)
		g.vars = append(g.vars, v)
	}
	withArr := rng.Intn(4) == 0
	if withArr {
		for i := 0; i < 1+rng.Intn(2); i++ {
			n := 2 + rng.Intn(5)
			v := &c11SeqVar{name: fmt.Sprintf("a%d", i), arr: true}
			var el []string
			for k := 0; k < n; k++ {
				v.runes = append(v.runes, rune(1+k))
				el = append(el, fmt.Sprint(1+k))
			}
			g.w("%s := [%s]", v.name, strings.Join(el, " "))
			g.vars = append(g.vars, v)
		}
	}
	originals := append([]*c11SeqVar(nil), g.vars...)
	steps := 4 + rng.Intn(7)
	for s := 0; s < steps; s++ {
		arr := withArr && rng.Intn(3) == 0
		switch k := rng.Intn(16); {
		case k < 3: // touch: an index / slice read of a variable
			v := g.pick(arr)
			if n := len(v.runes); n > 0 {
				i := rng.Intn(n)
				e, _ := g.slice(v)
				g.w("print %s[%s] %s", v.name, g.pos(i, n), e)
			}
		case k < 9: // a sum bound to a new variable (the sources stay bound)
			e, val := g.sum(arr, 0)
			g.newVar(arr, e, val)
		case k < 10: // a slice alone bound to a new variable, then a sum with it on the left
			v := g.pick(arr)
			e, val := g.slice(v)
			p := g.newVar(arr, e, val)
			e2, val2 := g.operand(arr, 0)
			g.newVar(arr, p.name+" + "+e2, append(append([]rune(nil), val...), val2...))
		case k < 11: // rebind a variable to a sum of its own slices
			v := g.pick(arr)
			e, val := g.sum(arr, 0)
			g.w("%s = %s", v.name, e)
			v.runes = append([]rune(nil), val...)
		case k < 12 && !arr: // through functions
			v, u := g.pick(false), g.pick(false)
			e1, v1 := g.slice(v)
			e2, v2 := g.slice(u)
			g.newVar(false, fmt.Sprintf("cat %s %s", e1, e2), append(append([]rune(nil), v1...), v2...))
			n := len(v.runes)
			a := rng.Intn(n + 1)
			b := a + rng.Intn(n-a+1)
			g.newVar(false, fmt.Sprintf("(mid %s %d %d) + %s", v.name, a, b, e2), append(append([]rune(nil), v.runes[a:b]...), v2...))
		case k < 13: // a sum only observed, not bound
			e, _ := g.sum(arr, 0)
			e2, _ := g.sum(arr, 0)
			g.w("print (%s) (%s == %s)", e, e, e2)
		case k < 14 && arr: // element store through a sum / slice made from an array: the source keeps its elements
			v := g.pick(true)
			e, val := g.sum(true, 0)
			p := g.newVar(true, e, val)
			if len(val) > 0 {
				g.w("%s[%d] = 99", p.name, rng.Intn(len(val)))
				p.runes[0] = 99 // (contents only steer positions)
			}
			g.w("print %s %s", v.name, p.name)
		case k < 15 && rng.Intn(6) == 0: // rarely: a position outside the container (the run ends with the panic)
			v := g.pick(arr)
			n := len(v.runes)
			g.w("print %s[%d:%d]", v.name, rng.Intn(n+1), n+1+rng.Intn(2))
		default: // read an original variable again
			g.reread(originals[rng.Intn(len(originals))])
		}
		if rng.Intn(3) == 0 {
			g.reread(originals[rng.Intn(len(originals))])
		}
	}
	for _, v := range originals {
		g.reread(v)
		if !v.arr {
			g.law(v)
		}
	}
	// every variable made on the way once more
	for _, v := range g.vars[len(originals):] {
		if v.arr || rng.Intn(2) == 0 {
			g.reread(v)
		} else {
			g.law(v)
		}
	}
	return g.b.String()
}

func c11SeqCase(model *Model, r *Result, src string) {
	d := semCase(model, r, src, SemOpts{StopAt: -1, YieldBudget: 100000}, true, "seq:")
	if d.Skipped != "" || len(d.Impl.Phases) == 0 {
		return
	}
	for _, t := range d.Impl.Phases[0].Trace {
		if strings.HasPrefix(t, "print:law ") && strings.Contains(t, "false") {
			r.Violate(Violation{Kind: "property", Key: "sequence:index-slice-law-broken",
				Detail: "after a sequence of slices and concatenations the elements s[i] / s[-i] / s[a:b] of a string variable are not the elements of s: " + strings.TrimSpace(t),
				Input:  map[string]any{"program": src}, Impl: d.Impl.Phases})
			return
		}
	}
}

func c11StringSequences(cfg Config, r *Result) {
	model := startSem(r)
	if model == nil {
		return
	}
	defer model.Close()
	n := cfg.N(300, 6000)
	for i := 0; i < n; i++ {
		c11SeqCase(model, r, c11SeqProgram(cfg.Rng))
	}
}
