package main

// C02 — assignment TARGET chains of every shape.
//
// The left side of `=` is the one expression form the parser checks with rules of its own (parseAssignmentTarget:
// a variable followed by index / field steps; no string-character targets, no slices, no assertions, no calls),
// and the evaluator relies on them: evalTarget / evalAssignIndexExpr assume that every step but none reaches a
// string character, that an index step sits on an array or a map, that a field step sits on a map.  A target the
// parser lets through although a step is of another kind ends the run with an internal (type) error or a failed
// Go type assertion.
//
// The stream builds, for a root variable of a random type (num, string, bool, any, arrays and maps of them nested
// up to three levels; declared by inference, by a typed declaration, as a parameter, as a local, as a loop
// variable), a chain of 1-4 steps over the alphabet
//
//	[0] [1] [-1] [i] [i+0] [(len x)-1]   (num index: literal, variable, expression)
//	["a"] [k] .a .b                      (string index / field)
//	[av] [true]                          (index of another type)
//	[1:] [:1] [:]  .(T)                  (slice, assertion)
//
// in which every step is applied to the type the chain has AS AN EXPRESSION (so a chain may run on through a
// string character, a slice or an assertion - "up to and including illegal steps"), assigns to it a value of the
// type the chain has as an expression (literal, variable, the chain itself, a built-in over the chain) or a value
// of another kind, inside every statement context (top level, function over a global / a parameter / a local,
// loops, if, nested function call, event handler), and prints the root, the target and their types afterwards.
//
// The parser decides: a rejected program is not an input of C02; an accepted one must not go wrong (property
// oracle) and must agree with the evaluator model Sem.v and the certificate checker Static.wt.

import (
	"fmt"
	"math/rand"
	"strings"
)

type c02ty struct {
	K   string // num string bool any arr map
	Sub *c02ty
}

func (t *c02ty) String() string {
	switch t.K {
	case "arr":
		return "[]" + t.Sub.String()
	case "map":
		return "{}" + t.Sub.String()
	}
	return t.K
}

func (t *c02ty) hasAny() bool {
	for ; t != nil; t = t.Sub {
		if t.K == "any" {
			return true
		}
	}
	return false
}

var c02Strs = []string{`"abc"`, `"héllo"`, `"xy"`, `"Zq😀"`, `"k"`, `"a b"`}

// a populated literal of type t (arrays of 2-3 elements, maps with the keys a and b)
func c02Lit(rng *rand.Rand, t *c02ty, depth int) string {
	switch t.K {
	case "num":
		return []string{"1", "2", "7", "0", "3.5"}[rng.Intn(5)]
	case "string":
		return c02Strs[rng.Intn(len(c02Strs))]
	case "bool":
		return []string{"true", "false"}[rng.Intn(2)]
	case "any":
		if depth > 1 {
			return []string{"1", `"st"`, "true"}[rng.Intn(3)]
		}
		return []string{"1", `"anystr"`, "true", `["in" "any"]`, `{a:"inany" b:"m"}`, "[1 2]", `[["deep" "er"]]`}[rng.Intn(7)]
	case "arr":
		n := 2 + rng.Intn(2)
		el := make([]string, n)
		for i := range el {
			el[i] = c02Lit(rng, t.Sub, depth+1)
		}
		return "[" + strings.Join(el, " ") + "]"
	case "map":
		return "{a:" + c02Lit(rng, t.Sub, depth+1) + " b:" + c02Lit(rng, t.Sub, depth+1) + "}"
	}
	return "0"
}

func c02RootType(rng *rand.Rand) *c02ty {
	base := []string{"string", "string", "string", "num", "any", "bool", "string", "any"}[rng.Intn(8)]
	t := &c02ty{K: base}
	for n := []int{0, 1, 1, 1, 2, 2, 2, 3}[rng.Intn(8)]; n > 0; n-- {
		t = &c02ty{K: []string{"arr", "map"}[rng.Intn(2)], Sub: t}
	}
	return t
}

type c02step struct {
	txt  string
	kind string // idx-num idx-str dot idx-other slice assert
}

// the type of `x STEP` as an expression when x has type t, nil when it has none
func c02After(t *c02ty, s c02step, as *c02ty) *c02ty {
	switch s.kind {
	case "idx-num":
		if t.K == "arr" {
			return t.Sub
		}
		if t.K == "string" {
			return t
		}
	case "idx-str", "dot":
		if t.K == "map" {
			return t.Sub
		}
	case "slice":
		if t.K == "arr" || t.K == "string" {
			return t
		}
	case "assert":
		if t.K == "any" {
			return as
		}
	}
	return nil
}

// c02TargetProgram returns one program of the family and its sub-family "[nested-]<last step>-on-<kind of the
// value it is applied to>" (idx / dot / slice / assert; nested = reached through at least one earlier step).
func c02TargetProgram(rng *rand.Rand) (string, string) {
	pick := func(l []string) string { return l[rng.Intn(len(l))] }
	root := c02RootType(rng)
	name := pick([]string{"x", "words", "m", "data"})
	// ---- the chain
	nsteps := []int{1, 1, 2, 2, 2, 3, 3, 4}[rng.Intn(8)]
	t := root
	chain := ""
	fam := ""
	var after *c02ty
	needI, needK, needAV := false, false, false
	for i := 0; i < nsteps; i++ {
		var s c02step
		var as *c02ty
		free := rng.Intn(9) == 0 // a step chosen without regard to the type it is applied to
		numIdx := func() c02step {
			cur := name + chain
			return c02step{pick([]string{"[0]", "[1]", "[0]", "[-1]", "[i]", "[i+0]", "[(len " + cur + ")-1]", "[ 0 ]", "[0]", "[1]", "[2]"}), "idx-num"}
		}
		strIdx := func() c02step {
			if rng.Intn(2) == 0 {
				return c02step{pick([]string{".a", ".b", ".a", ".zz"}), "dot"}
			}
			return c02step{pick([]string{`["a"]`, `["b"]`, "[k]", `["a"+""]`, `["zz"]`}), "idx-str"}
		}
		other := func() c02step {
			switch rng.Intn(4) {
			case 0:
				return c02step{pick([]string{"[av]", "[true]", "[[0]]"}), "idx-other"}
			case 1:
				return c02step{pick([]string{"[1:]", "[:1]", "[:]", "[0:1]"}), "slice"}
			case 2:
				as = &c02ty{K: pick([]string{"string", "num"})}
				if rng.Intn(2) == 0 {
					as = &c02ty{K: pick([]string{"arr", "map"}), Sub: &c02ty{K: "string"}}
				}
				return c02step{".(" + as.String() + ")", "assert"}
			}
			return numIdx()
		}
		if i > 0 && !free {
			// a chain that has reached a value with no further legal target step mostly ends there
			if t.K == "string" && rng.Intn(2) == 0 || t.K == "any" && rng.Intn(5) < 3 || (t.K == "num" || t.K == "bool") && rng.Intn(5) < 4 {
				break
			}
		}
		switch {
		case free:
			s = []func() c02step{numIdx, strIdx, other}[rng.Intn(3)]()
		case t.K == "arr":
			s = numIdx()
			if rng.Intn(8) == 0 {
				s = other()
			}
		case t.K == "map":
			s = strIdx()
			if rng.Intn(8) == 0 {
				s = other()
			}
		case t.K == "string":
			s = numIdx()
			if rng.Intn(4) == 0 {
				s = c02step{pick([]string{"[1:]", "[:1]", "[:]"}), "slice"}
			}
		case t.K == "any":
			s = other()
		default:
			s = []func() c02step{numIdx, strIdx, other}[rng.Intn(3)]()
		}
		chain += s.txt
		needI = needI || strings.Contains(s.txt, "[i")
		needK = needK || s.txt == "[k]"
		needAV = needAV || s.txt == "[av]"
		fam = strings.SplitN(s.kind, "-", 2)[0] + "-on-" + t.K
		if i > 0 {
			fam = "nested-" + fam
		}
		after = c02After(t, s, as)
		if after == nil {
			break
		}
		t = after
	}
	target := name + chain
	// ---- the value
	var val string
	valDecl := ""
	vt := after
	if vt == nil {
		vt = &c02ty{K: pick([]string{"string", "num", "any"})}
	}
	switch k := rng.Intn(10); {
	case k < 4:
		val = c02Lit(rng, vt, 1)
		if vt.K == "string" && rng.Intn(2) == 0 {
			val = pick([]string{`"A"`, `"Ω"`, `""`, `"LONG"`})
		}
	case k < 6:
		val = "v"
		if vt.hasAny() {
			valDecl = "v:" + vt.String() + "\nv = " + c02Lit(rng, vt, 1) + "\n"
		} else {
			valDecl = "v := " + c02Lit(rng, vt, 1) + "\n"
		}
	case k < 8: // the chain itself / a built-in over it
		val = target
		if vt.K == "string" {
			val = pick([]string{"upper " + target, target + ` + "!"`, "(lower " + target + ")", "sprint " + target})
		} else if vt.K == "num" {
			val = target + " + 1"
		}
	case k < 9:
		val = "w"
		valDecl = "w:any\nw = " + c02Lit(rng, vt, 1) + "\n"
	default:
		val = pick([]string{`"S"`, "5", "true", "[]", "{}", `["q"]`, `{a:"q"}`})
	}
	// ---- the program
	var b strings.Builder
	w := func(format string, args ...any) { fmt.Fprintf(&b, format, args...) }
	lit := c02Lit(rng, root, 0)
	decl := func(ind string) {
		if root.hasAny() || rng.Intn(3) == 0 {
			w("%s%s:%s\n%s%s = %s\n", ind, name, root, ind, name, lit)
		} else {
			w("%s%s := %s\n", ind, name, lit)
		}
	}
	aux := func(ind string) {
		if needI {
			w("%si := %s\n", ind, pick([]string{"0", "1", "0"}))
		}
		if needK {
			w("%sk := %s\n", ind, pick([]string{`"a"`, `"b"`}))
		}
		if needAV {
			w("%sav:any\n%sav = %s\n", ind, ind, pick([]string{"0", `"a"`}))
		}
		if valDecl != "" {
			for _, l := range strings.Split(strings.TrimSuffix(valDecl, "\n"), "\n") {
				w("%s%s\n", ind, l)
			}
		}
	}
	after2 := func(ind string) {
		w("%sprint %s (typeof %s)\n", ind, name, name)
		if after != nil {
			w("%sprint %s (typeof %s)\n", ind, target, target)
		}
		if root.K == "arr" || root.K == "map" || root.K == "string" {
			w("%sprint (len %s)\n", ind, name)
		}
	}
	assign := func(ind string) {
		w("%s%s = %s\n", ind, target, val)
		if rng.Intn(5) == 0 { // a second assignment through the same chain
			w("%s%s = %s\n", ind, target, val)
		}
	}
	ctx := rng.Intn(12)
	loopHead := "for range "
	if needI && ctx == 4 {
		needI = false // the loop declares i
		loopHead = "for i := range "
	}
	switch ctx {
	case 0, 1: // top level
		decl("")
		aux("")
		assign("")
		after2("")
	case 2: // function over a global
		decl("")
		aux("")
		w("func change\n")
		assign("    ")
		w("end\nchange\n")
		after2("")
	case 3: // function over a parameter (arrays and maps are shared with the caller)
		w("func change %s:%s\n", name, root)
		aux("    ")
		assign("    ")
		after2("    ")
		w("end\n")
		if rng.Intn(2) == 0 {
			w("change %s\n", lit)
		} else {
			w("orig:%s\norig = %s\nchange orig\nprint orig (typeof orig)\n", root, lit)
		}
	case 4: // loop over the indices
		decl("")
		aux("")
		w("%s%s\n", loopHead, pick([]string{"2", "1", "2"}))
		assign("    ")
		if loopHead != "for range " {
			after2("    ")
			w("end\n")
			break
		}
		w("end\n")
		after2("")
	case 5: // the root is a loop variable
		outer := &c02ty{K: pick([]string{"arr", "map"}), Sub: root}
		if root.K == "string" && rng.Intn(3) == 0 {
			outer = &c02ty{K: "string"}
		}
		if outer.K == "map" {
			// the loop variable of a map is the key: a string
			w("all:%s\nall = %s\n", outer, c02Lit(rng, outer, 0))
			w("for %s := range all\n", name)
			aux("    ")
			w("    all[%s]%s = %s\n", name, chain, val)
			if root.K != "string" {
				w("    print all (typeof all)\nend\n")
				break
			}
			w("    %s = %s\n", target, val)
			w("    print %s all\nend\n", name)
			break
		}
		w("all:%s\nall = %s\n", outer, c02Lit(rng, outer, 0))
		w("for %s := range all\n", name)
		aux("    ")
		assign("    ")
		after2("    ")
		w("end\nprint all\n")
	case 6: // local of a function
		w("func change:%s\n", root)
		decl("    ")
		aux("    ")
		assign("    ")
		w("    return %s\nend\n", name)
		w("r := (change)\nprint r (typeof r)\n")
	case 7: // if / else
		decl("")
		aux("")
		w("if (len \"%s\") > 0\n", name)
		assign("    ")
		w("else\n")
		assign("    ")
		w("end\n")
		after2("")
	case 8: // while, once
		decl("")
		aux("")
		w("go := true\nwhile go\n    go = false\n")
		assign("    ")
		w("end\n")
		after2("")
	case 9: // nested call: the changing function is called by another one, twice
		decl("")
		aux("")
		w("func change n:num\n")
		assign("    ")
		w("    print n %s\nend\nfunc twice\n    change 1\n    change 2\nend\ntwice\n", name)
		after2("")
	case 10: // event handler over a global
		decl("")
		aux("")
		w("on key c:string\n    print c\n")
		assign("    ")
		after2("    ")
		w("end\n")
		after2("")
	default: // the target's value is read before and compared after
		decl("")
		aux("")
		if after != nil {
			w("old := %s\n", target)
			assign("")
			w("print old (typeof old) (old == %s)\n", target)
		} else {
			assign("")
		}
		after2("")
	}
	return b.String(), fam
}
