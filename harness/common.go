// Package main is the correspondence harness: generators, implementation
// runners, the differ against the extracted Coq models, and the per-property
// oracles. One subcommand per property; results are written as JSON for
// ./check to turn into evidence and VIOLATION lines.
package main

import (
	"bufio"
	"crypto/sha256"
	"encoding/hex"
	"encoding/json"
	"fmt"
	"io"
	"math"
	"math/rand"
	"os"
	"os/exec"
	"sort"
	"strconv"
	"strings"
	"time"
)

// Violation is one concrete failing case (the replay).
type Violation struct {
	Kind   string `json:"kind"`   // "property" (property fails on impl) | "correspondence" (impl != model)
	Key    string `json:"key"`    // stable classification used to match KNOWN_FINDINGS
	Detail string `json:"detail"` // human-readable
	Input  any    `json:"input"`
	Impl   any    `json:"impl,omitempty"`
	Model  any    `json:"model,omitempty"`
}

// Result is what a property run reports.
type Result struct {
	Property     string         `json:"property"`
	Tier         string         `json:"tier"`
	Seed         int64          `json:"seed"`
	Evaluations  int            `json:"evaluations"`
	Distinct     int            `json:"distinct_nontrivial"`
	Rule         string         `json:"rule"`
	Samples      []any          `json:"samples"`
	Validated    int            `json:"traces_validated_against_impl"`
	Exhaustive   bool           `json:"exhaustive"`
	Distribution map[string]int `json:"distribution"`
	Violations   []Violation    `json:"violations"`
	Notes        []string       `json:"notes"`
	WallS        float64        `json:"wall_s"`

	seen map[string]bool
}

func newResult(prop, tier string, seed int64) *Result {
	return &Result{Property: prop, Tier: tier, Seed: seed, Distribution: map[string]int{}, seen: map[string]bool{}}
}

// Count registers one evaluated case; canonical is hashed for distinctness and
// nontrivial says whether it counts under the property's stated rule.
func (r *Result) Count(canonical string, nontrivial bool) {
	r.Evaluations++
	if !nontrivial {
		return
	}
	h := sha256.Sum256([]byte(canonical))
	k := hex.EncodeToString(h[:8])
	if !r.seen[k] {
		r.seen[k] = true
		r.Distinct++
	}
}

func (r *Result) Sample(x any) {
	if len(r.Samples) < 5 {
		r.Samples = append(r.Samples, x)
	}
}

func (r *Result) Dist(k string) { r.Distribution[k]++ }

func (r *Result) Violate(v Violation) {
	// keep at most 3 replays per key, 40 in total
	n := 0
	for _, o := range r.Violations {
		if o.Key == v.Key {
			n++
		}
	}
	if n >= 3 || len(r.Violations) >= 40 {
		return
	}
	r.Violations = append(r.Violations, v)
}

func (r *Result) Note(format string, a ...any) { r.Notes = append(r.Notes, fmt.Sprintf(format, a...)) }

// ---------- model process ----------

// Model is a running `modelrun <name>` process: one case per line in, one
// result per line out.
type Model struct {
	cmd  *exec.Cmd
	in   io.WriteCloser
	out  *bufio.Reader
	name string
}

// ErrModelTimeout is returned by AskT when the model did not answer in time; the model process has been replaced.
var ErrModelTimeout = fmt.Errorf("model did not answer in time")

// AskT is Ask with a time limit. On timeout the model process is killed and a fresh one takes its place, so the
// next case is unaffected. (The limit guards the tooling: the extracted model is slow on very large data.)
func (m *Model) AskT(sexp string, limit time.Duration) (string, error) {
	type res struct {
		s   string
		err error
	}
	ch := make(chan res, 1)
	go func() { s, err := m.Ask(sexp); ch <- res{s, err} }()
	select {
	case r := <-ch:
		return r.s, r.err
	case <-time.After(limit):
		m.cmd.Process.Kill()
		<-ch
		m.cmd.Wait()
		n, err := StartModel(m.name)
		if err != nil {
			return "", err
		}
		*m = *n
		return "", ErrModelTimeout
	}
}

func modelBin() string {
	if p := os.Getenv("VERIF_MODELRUN"); p != "" {
		return p
	}
	return "/verif/build/modelrun"
}

func StartModel(name string) (*Model, error) {
	// address-space cap: a hostile case (exponentially growing strings are lists of code points in the model) must end in
	// the driver's "model-out-of-memory" answer, not in an OOM kill of the whole check; the default 8 MB stack is kept on
	// purpose: oversized cases overflow it quickly and are answered "model-stack-overflow" (both are counted as skipped)
	cmd := exec.Command("/bin/sh", "-c", `ulimit -v 12000000 2>/dev/null; exec "$0" "$1"`, modelBin(), name)
	in, err := cmd.StdinPipe()
	if err != nil {
		return nil, err
	}
	out, err := cmd.StdoutPipe()
	if err != nil {
		return nil, err
	}
	cmd.Stderr = os.Stderr
	if err := cmd.Start(); err != nil {
		return nil, err
	}
	return &Model{cmd: cmd, in: in, out: bufio.NewReaderSize(out, 1<<20), name: name}, nil
}

// Ask sends one S-expression and returns the model's answer line.
func (m *Model) Ask(sexp string) (string, error) {
	if strings.ContainsAny(sexp, "\n") {
		return "", fmt.Errorf("newline in case")
	}
	if _, err := io.WriteString(m.in, sexp+"\n"); err != nil {
		return "", err
	}
	line, err := m.out.ReadString('\n')
	if err != nil {
		return "", err
	}
	return strings.TrimRight(line, "\n"), nil
}

func (m *Model) Close() {
	m.in.Close()
	done := make(chan struct{})
	go func() { m.cmd.Wait(); close(done) }()
	select {
	case <-done:
	case <-time.After(5 * time.Second):
		m.cmd.Process.Kill()
	}
}

// ---------- S-expressions ----------

type SX struct {
	Kind string // "sym" "str" "int" "lst"
	S    string
	L    []SX
}

func Sym(s string) SX   { return SX{Kind: "sym", S: s} }
func Str(s string) SX   { return SX{Kind: "str", S: s} }
func Int(i int64) SX    { return SX{Kind: "int", S: strconv.FormatInt(i, 10)} }
func Uint(i uint64) SX  { return SX{Kind: "int", S: strconv.FormatUint(i, 10)} }
func Lst(l ...SX) SX    { return SX{Kind: "lst", L: l} }
func LstOf(l []SX) SX   { return SX{Kind: "lst", L: l} }
func Bool(b bool) SX    { return Sym(strconv.FormatBool(b)) }
func Float(f float64) SX { return Uint(canonBits(f)) }

// canonBits maps every NaN to one bit pattern so that NaN payloads (which the
// property does not speak about) never cause a difference.
func canonBits(f float64) uint64 {
	if f != f {
		return 0x7ff8000000000000
	}
	return math.Float64bits(f)
}

func quoteSX(s string) string {
	var b strings.Builder
	b.WriteByte('"')
	for i := 0; i < len(s); i++ {
		c := s[i]
		switch {
		case c == '"':
			b.WriteString(`\"`)
		case c == '\\':
			b.WriteString(`\\`)
		case c == '\n':
			b.WriteString(`\n`)
		case c == '\t':
			b.WriteString(`\t`)
		case c == '\r':
			b.WriteString(`\r`)
		case c < 32 || c == 127:
			fmt.Fprintf(&b, `\x%02x`, c)
		default:
			b.WriteByte(c)
		}
	}
	b.WriteByte('"')
	return b.String()
}

func (x SX) String() string {
	switch x.Kind {
	case "sym", "int":
		return x.S
	case "str":
		return quoteSX(x.S)
	}
	parts := make([]string, len(x.L))
	for i, y := range x.L {
		parts[i] = y.String()
	}
	return "(" + strings.Join(parts, " ") + ")"
}

// ParseSX parses one S-expression as printed by the driver.
func ParseSX(s string) (SX, error) {
	p := &sxParser{s: s}
	v, err := p.value()
	if err != nil {
		return SX{}, err
	}
	p.ws()
	if p.i != len(p.s) {
		return SX{}, fmt.Errorf("trailing input at %d", p.i)
	}
	return v, nil
}

type sxParser struct {
	s string
	i int
}

func (p *sxParser) ws() {
	for p.i < len(p.s) && (p.s[p.i] == ' ' || p.s[p.i] == '\t') {
		p.i++
	}
}

func (p *sxParser) value() (SX, error) {
	p.ws()
	if p.i >= len(p.s) {
		return SX{}, fmt.Errorf("eof")
	}
	switch c := p.s[p.i]; {
	case c == '(':
		p.i++
		var l []SX
		for {
			p.ws()
			if p.i >= len(p.s) {
				return SX{}, fmt.Errorf("unclosed list")
			}
			if p.s[p.i] == ')' {
				p.i++
				return SX{Kind: "lst", L: l}, nil
			}
			v, err := p.value()
			if err != nil {
				return SX{}, err
			}
			l = append(l, v)
		}
	case c == '"':
		p.i++
		var b strings.Builder
		for {
			if p.i >= len(p.s) {
				return SX{}, fmt.Errorf("unterminated string")
			}
			c := p.s[p.i]
			if c == '"' {
				p.i++
				return SX{Kind: "str", S: b.String()}, nil
			}
			if c == '\\' && p.i+1 < len(p.s) {
				switch e := p.s[p.i+1]; e {
				case 'n':
					b.WriteByte('\n')
					p.i += 2
				case 't':
					b.WriteByte('\t')
					p.i += 2
				case 'r':
					b.WriteByte('\r')
					p.i += 2
				case 'x':
					v, err := strconv.ParseUint(p.s[p.i+2:p.i+4], 16, 8)
					if err != nil {
						return SX{}, err
					}
					b.WriteByte(byte(v))
					p.i += 4
				default:
					b.WriteByte(e)
					p.i += 2
				}
				continue
			}
			b.WriteByte(c)
			p.i++
		}
	default:
		st := p.i
		for p.i < len(p.s) && !strings.ContainsRune(" \t()\"", rune(p.s[p.i])) {
			p.i++
		}
		tok := p.s[st:p.i]
		isInt := len(tok) > 0
		for j, ch := range tok {
			if ch == '-' && j == 0 && len(tok) > 1 {
				continue
			}
			if ch < '0' || ch > '9' {
				isInt = false
			}
		}
		if isInt {
			return SX{Kind: "int", S: tok}, nil
		}
		return SX{Kind: "sym", S: tok}, nil
	}
}

// ---------- misc ----------

type Config struct {
	Tier   string
	Seed   int64
	Out    string
	Replay string
	Rng    *rand.Rand
}

func (c Config) N(quick, thorough int) int {
	if c.Tier == "thorough" {
		return thorough
	}
	return quick
}

func sortedKeys(m map[string]int) []string {
	ks := make([]string, 0, len(m))
	for k := range m {
		ks = append(ks, k)
	}
	sort.Strings(ks)
	return ks
}

func writeJSON(path string, v any) error {
	b, err := json.MarshalIndent(v, "", " ")
	if err != nil {
		return err
	}
	return os.WriteFile(path, b, 0o644)
}

func float64frombits(u uint64) float64 { return math.Float64frombits(u) }
