package main

// C03 — binder programs: every kind of name-introducing construct (function parameters, a variadic parameter,
// `_` parameters, handler parameters, loop variables of every range form, locals in every block form, globals),
// each independently USED or UNUSED (or redeclared / shadowed), as complete programs and - through the
// mutation families of C03 (every token / rune prefix, deletions, duplicated / deleted lines ...) - as the
// truncated programs a learner has typed so far (a function stub whose parameters are not read yet).
//
// These reach the error paths of the parser's scope bookkeeping (validateScope: "declared but not used" is
// reported at the binder's own token, several unused names of one scope are sorted by their tokens; redeclaration
// reports) for every binder kind, which neither the repository corpus nor the expression-oriented program generator
// does: there every parameter is read.

import (
	"fmt"
	"math/rand"
	"strings"
)

var c03BinderTypes = []string{"num", "string", "bool", "any", "[]num", "{}string", "[]any", "[][]num"}

func genBinderProgram(rng *rand.Rand) string {
	var b strings.Builder
	pick := func(l []string) string { return l[rng.Intn(len(l))] }
	nameN := 0
	fresh := func(p string) string {
		nameN++
		if rng.Intn(12) == 0 {
			return "_"
		}
		return fmt.Sprintf("%s%d", p, nameN)
	}
	// body statements: locals (used / unused / redeclared), reads of the visible binders
	var body func(ind string, vis []string, depth int)
	body = func(ind string, vis []string, depth int) {
		for k := rng.Intn(4); k > 0; k-- {
			switch rng.Intn(9) {
			case 0, 1: // a local, read or not
				v := fresh("v")
				fmt.Fprintf(&b, "%s%s := %s\n", ind, v, pick([]string{"0", `"s"`, "[1 2]", "{a:1}", "true"}))
				if rng.Intn(4) > 0 && v != "_" {
					vis = append(vis, v)
				}
			case 2:
				v := fresh("t")
				fmt.Fprintf(&b, "%s%s:%s\n", ind, v, pick(c03BinderTypes))
				if rng.Intn(4) > 0 && v != "_" {
					vis = append(vis, v)
				}
			case 3: // read some visible binders
				if len(vis) > 0 {
					fmt.Fprintf(&b, "%sprint", ind)
					for _, v := range vis {
						if rng.Intn(2) == 0 {
							b.WriteString(" " + v)
						}
					}
					b.WriteString(" 1\n")
				}
			case 4: // redeclare / shadow a visible binder
				if len(vis) > 0 {
					fmt.Fprintf(&b, "%s%s := 1\n", ind, pick(vis))
				}
			case 5:
				if depth > 0 {
					lv := fresh("i")
					rg := pick([]string{"3", "1 4", "0 10 2", "[1 2]", `"ab"`, "{a:1}"})
					if len(vis) > 0 && rng.Intn(2) == 0 {
						rg = pick(vis)
					}
					if rng.Intn(5) == 0 {
						fmt.Fprintf(&b, "%sfor range %s\n", ind, rg)
						body(ind+"    ", vis, depth-1)
					} else {
						fmt.Fprintf(&b, "%sfor %s := range %s\n", ind, lv, rg)
						nv := vis
						if rng.Intn(4) > 0 && lv != "_" {
							nv = append(append([]string{}, vis...), lv)
						}
						body(ind+"    ", nv, depth-1)
					}
					fmt.Fprintf(&b, "%send\n", ind)
				}
			case 6:
				if depth > 0 {
					fmt.Fprintf(&b, "%sif true\n", ind)
					body(ind+"    ", vis, depth-1)
					for k := rng.Intn(3); k > 0; k-- {
						fmt.Fprintf(&b, "%selse if false\n", ind)
						body(ind+"    ", vis, depth-1)
					}
					if rng.Intn(2) == 0 {
						fmt.Fprintf(&b, "%selse\n", ind)
						body(ind+"    ", vis, depth-1)
					}
					fmt.Fprintf(&b, "%send\n", ind)
				}
			case 7:
				if depth > 0 {
					fmt.Fprintf(&b, "%swhile false\n", ind)
					body(ind+"    ", vis, depth-1)
					fmt.Fprintf(&b, "%send\n", ind)
				}
			default:
				fmt.Fprintf(&b, "%sprint \"x\"\n", ind)
			}
		}
		if len(vis) > 0 && rng.Intn(3) > 0 { // read everything that is meant to be read
			fmt.Fprintf(&b, "%sprint %s\n", ind, strings.Join(vis, " "))
		}
	}
	var calls []string
	for k := 1 + rng.Intn(3); k > 0; k-- {
		switch rng.Intn(6) {
		case 0, 1, 2, 3: // function: return type or not, ordinary parameters or one variadic parameter
			fn := fmt.Sprintf("fn%d", nameN)
			nameN++
			ret := ""
			if rng.Intn(3) == 0 {
				ret = pick(c03BinderTypes)
			}
			b.WriteString("func " + fn)
			if ret != "" {
				b.WriteString(":" + ret)
			}
			var params []string
			if rng.Intn(2) == 0 { // variadic
				p := fresh("vp")
				fmt.Fprintf(&b, " %s:%s...", p, pick(c03BinderTypes))
				params = append(params, p)
				if rng.Intn(8) == 0 { // (not allowed) a further parameter
					fmt.Fprintf(&b, " %s:num", fresh("p"))
				}
				calls = append(calls, fn+pick([]string{"", " 1", " 1 2", ` "a" "b"`, " [1]"}))
			} else {
				args := ""
				for j := rng.Intn(4); j > 0; j-- {
					p := fresh("p")
					if len(params) > 0 && rng.Intn(10) == 0 {
						p = params[0] // duplicate parameter name
					}
					fmt.Fprintf(&b, " %s:%s", p, pick(c03BinderTypes))
					params = append(params, p)
					args += pick([]string{" 1", ` "a"`, " [1]", " true"})
				}
				calls = append(calls, fn+args)
			}
			b.WriteString("\n")
			var vis []string
			for _, p := range params { // each parameter is visible to the reads of the body - or never read
				if p != "_" && rng.Intn(4) > 0 {
					vis = append(vis, p)
				}
			}
			body("    ", vis, 2)
			if ret != "" && rng.Intn(4) > 0 {
				b.WriteString("    return " + map[string]string{"num": "1", "string": `"r"`, "bool": "true", "any": "1", "[]num": "[1]", "{}string": `{a:"b"}`, "[]any": "[1]", "[][]num": "[[1]]"}[ret] + "\n")
			}
			b.WriteString("end\n")
		case 4: // event handler with parameters, read or not
			h := [][]string{{"key", "string"}, {"down", "num", "num"}, {"up", "num", "num"}, {"move", "num", "num"}, {"animate", "num"}, {"input", "string", "string"}}[rng.Intn(6)]
			b.WriteString("on " + h[0])
			var vis []string
			if rng.Intn(4) > 0 {
				for _, t := range h[1:] {
					p := fresh("h")
					fmt.Fprintf(&b, " %s:%s", p, t)
					if p != "_" && rng.Intn(4) > 0 {
						vis = append(vis, p)
					}
				}
			}
			b.WriteString("\n")
			body("    ", vis, 1)
			b.WriteString("end\n")
		default: // top-level statements
			body("", nil, 2)
		}
	}
	for _, c := range calls {
		if rng.Intn(3) > 0 {
			b.WriteString(c + "\n")
		}
	}
	return b.String()
}
