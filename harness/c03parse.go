package main

// C03 (parser-model part), harness id "C03parse".
//
// Correspondence between the real parser.Parse and the extracted Coq model of the
// statement-level parser (coq/Parser.v on top of coq/Pratt.v).  The model is fed the
// token list of the REAL lexer (type, literal, line, column; ILLEGAL tokens included,
// EOF position separately) and the builtin tables (function names + niladic flag, global
// variable names, event handlers with parameter types).
//
// Typing is abstracted in the model by an oracle keyed by (site, blamed token).  The
// harness instantiates it with what the real type checker did on this very input: every
// error of parser.Parse is classified by its message (errorClass: the complete list of
// appendError sites whose condition consults a Type()) as
//   - syntactic (the model must report it itself),
//   - typing at a site whose blamed token the model mirrors (-> the oracle objects there),
//   - typing, errors-only, blamed token not mirrored (assertArgTypes: arg.Token();
//     parseStepRange: the range token) -> removed from the comparison; these sites do not
//     change the control flow of the parser.
// Compared per input: accept / reject and the COMPLETE ordered list of error positions
// (line, column).  So the control flow of the parser after a type error (nil returns,
// advancePastNL recovery) is exercised against the model as well.  The classification
// only builds the oracle; a wrong classification shows up as a difference, never hides one.

import (
	"encoding/json"
	"errors"
	"fmt"
	"math/rand"
	"os"
	"path/filepath"
	"regexp"
	"sort"
	"strconv"
	"strings"

	"evylang.dev/evy/pkg/evaluator"
	"evylang.dev/evy/pkg/lexer"
	"evylang.dev/evy/pkg/parser"
)

// errorClass maps the message of a parser error to "" (syntactic / scope error, modelled),
// a typing site name of Pratt.tsite (the model mirrors the blamed token), or "-" (typing,
// errors only, blamed token not mirrored).
func errorClass(msg string, tokAt string) string {
	has := func(x string) bool { return strings.Contains(msg, x) }
	switch {
	case has("unary expects"), has("invalid unary operator"):
		return "unary"
	case c03pArityRE.MatchString(msg):
		return "arity" // assertArgTypes, argument count: modelled, blamed token (arg.Token()) not mirrored
	case has(" takes ") && has("argument"), has("it has no return value") && !has("invalid declaration"):
		return "-" // assertArgTypes, argument types
	case has("invalid binary operator"), has("mismatched type for"), has(`" takes num, string or array type`), has(`" takes num or array type`),
		has(`array repetition ("*")`), has("takes num type, found"), has("takes num or string type"), has("takes bool type"), has("takes values, found"):
		return "binary"
	case has("only array, string and map type can be indexed"):
		return "not_indexable"
	case has("index expects num"), has("index expects string"):
		if has("start index") || has("end index") {
			return "slice_bounds"
		}
		return "index_type"
	case has("only array and string can be sliced"):
		return "not_sliceable"
	case has(`field access with "." expects map type`):
		return "dot_not_map"
	case has("value of type assertion must be of type any"):
		return "assert_not_any"
	case has("array element has no value"):
		return "array_elem_none"
	case has("map value has no value"):
		return "map_value_none"
	case has("accepts values of type"):
		return "assign_type"
	case has("cannot index string on left side"):
		return "assign_string_index"
	case has("invalid declaration, function"):
		return "decl_none"
	case (has("expected return value of type") || has("expected no return value")) && strings.HasSuffix(msg, ", found ILLEGAL"):
		return "" // the value expression failed (nil): modelled exactly
	case has("expected return value of type") && strings.HasSuffix(msg, ", found none") && (tokAt == "NL" || tokAt == "COMMENT" || tokAt == "EOF"):
		return "" // bare return in a function with a return type: modelled exactly
	case has("expected return value of type"), has("expected no return value"):
		return "return_type"
	case has("range with more than one argument must be num"):
		return "for_multi"
	case has("expected num, string, array or map after range"):
		return "for_range_type"
	case has("range can take up to 3 num arguments"), has("range expects num type"):
		return "-" // parseStepRange
	case has("expected condition of type bool"):
		return "condition"
	}
	return ""
}

var c03pArityRE = regexp.MustCompile(`takes \d+ arguments?, found \d+$`)

var c03pErrRE = regexp.MustCompile(`^line (\d+) column (\d+): (.*)$`)

type goErr struct {
	Line, Col int
	Msg       string
	Class     string // errorClass of the message
}

type goParse struct {
	Status string // accept reject panic
	Errs   []goErr
	Panic  string
}

func c03pGoParse(src string) (out goParse) {
	defer func() {
		if p := recover(); p != nil {
			out = goParse{Status: "panic", Panic: fmt.Sprint(p)}
		}
	}()
	_, err := parser.Parse(src, evaluator.BuiltinDecls())
	if err == nil {
		return goParse{Status: "accept"}
	}
	var errs parser.Errors
	if !errors.As(err, &errs) {
		return goParse{Status: "panic", Panic: "foreign error type"}
	}
	out.Status = "reject"
	for _, e := range errs {
		// a message may contain newlines (string literals): match on the first line only
		text := e.Error()
		first := strings.SplitN(text, "\n", 2)[0]
		m := c03pErrRE.FindStringSubmatch(first)
		if m == nil {
			out.Errs = append(out.Errs, goErr{Msg: text})
			continue
		}
		l, _ := strconv.Atoi(m[1])
		c, _ := strconv.Atoi(m[2])
		out.Errs = append(out.Errs, goErr{Line: l, Col: c, Msg: m[3]})
	}
	// classify (needs the type of the blamed token for one message)
	tokAt := map[[2]int]string{}
	lx := lexer.New(src)
	for i, limit := 0, len([]rune(src))+2; i <= limit; i++ {
		t := lx.Next()
		tokAt[[2]int{t.Line, t.Col}] = t.Type.String()
		if t.Type == lexer.EOF {
			break
		}
	}
	for i := range out.Errs {
		e := &out.Errs[i]
		e.Class = errorClass(e.Msg, tokAt[[2]int{e.Line, e.Col}])
	}
	return out
}

// the builtin tables in the model's wire format (computed once)
var c03pTables = func() [3]SX {
	b := evaluator.BuiltinDecls()
	var fn, gl, ev []string
	for n := range b.Funcs {
		fn = append(fn, n)
	}
	for n := range b.Globals {
		gl = append(gl, n)
	}
	for n := range b.EventHandlers {
		ev = append(ev, n)
	}
	sort.Strings(fn)
	sort.Strings(gl)
	sort.Strings(ev)
	var fs, gs, es []SX
	for _, n := range fn {
		f := b.Funcs[n]
		ar := SX(Int(int64(len(f.Params))))
		if f.VariadicParam != nil {
			ar = Sym("variadic")
		}
		fs = append(fs, Lst(Str(n), Bool(len(f.Params) == 0 && f.VariadicParam == nil), ar))
	}
	for _, n := range gl {
		gs = append(gs, Str(n))
	}
	for _, n := range ev {
		var tys []SX
		for _, p := range b.EventHandlers[n].Params {
			tys = append(tys, goTypeSX(p.Type()))
		}
		es = append(es, Lst(Str(n), LstOf(tys)))
	}
	return [3]SX{LstOf(fs), LstOf(gs), LstOf(es)}
}()

type modelParse struct {
	Status string // accept reject crash oof
	Errs   [][2]int
	Raw    string
}

func c03pModelParse(model *Model, src string, g goParse) (modelParse, bool, error) {
	l := lexer.New(src)
	var toks []SX
	var good [][2]int // positions of the tokens the parser keeps (ILLEGAL ones are dropped)
	var eof *lexer.Token
	limit := len([]rune(src)) + 2
	for i := 0; ; i++ {
		t := l.Next()
		if t.Type == lexer.EOF || i > limit {
			eof = t
			break
		}
		toks = append(toks, Lst(Sym(t.Type.String()), Str(t.Literal), Int(int64(t.Line)), Int(int64(t.Col))))
		if t.Type != lexer.ILLEGAL {
			good = append(good, [2]int{t.Line, t.Col})
		}
	}
	// the oracle: typing errors of the real parser as (site, tokens left after the blamed token)
	left := map[[2]int]int{{eof.Line, eof.Col}: 0}
	for i, p := range good {
		left[p] = len(good) - i
	}
	var oracle []SX
	for _, e := range g.Errs {
		if c := e.Class; c != "" && c != "-" && c != "arity" {
			n, ok := left[[2]int{e.Line, e.Col}]
			if !ok {
				return modelParse{}, false, nil // blamed position is not a token: cannot build the oracle
			}
			oracle = append(oracle, Lst(Sym(c), Int(int64(n))))
		}
	}
	q := Lst(c03pTables[0], c03pTables[1], c03pTables[2], LstOf(toks), Lst(Int(int64(eof.Line)), Int(int64(eof.Col))), LstOf(oracle))
	ans, err := model.Ask(q.String())
	if err != nil {
		return modelParse{}, true, err
	}
	x, err := ParseSX(ans)
	if err != nil || x.Kind != "lst" || len(x.L) < 1 {
		return modelParse{Raw: ans}, true, fmt.Errorf("model answer: %.200s", ans)
	}
	m := modelParse{Status: x.L[0].S, Raw: ans}
	for _, e := range x.L[1:] {
		if e.Kind == "lst" && len(e.L) == 2 {
			a, _ := strconv.Atoi(e.L[0].S)
			b, _ := strconv.Atoi(e.L[1].S)
			m.Errs = append(m.Errs, [2]int{a, b})
		}
	}
	return m, true, nil
}

// c03pCheck compares one input; returns a short outcome label for the distribution.
func c03pCheck(src, stream string, model *Model, r *Result) string {
	g := c03pGoParse(src)
	if g.Status == "panic" {
		return "go-panic" // reported by the parser oracle of C03 proper
	}
	m, ok, err := c03pModelParse(model, src, g)
	input := map[string]any{"source": src, "stream": stream}
	if err != nil {
		r.Violate(Violation{Kind: "correspondence", Key: "parser-model-crash", Detail: err.Error(), Input: input})
		return "model-error"
	}
	if !ok {
		return "set-aside:typing-error-not-at-a-token"
	}
	if m.Status == "crash" || m.Status == "oof" || (m.Status != "accept" && m.Status != "reject") {
		detail := "the parser model ends in " + m.Status + " (a Go panic site reached, or out of fuel): parse_total says this cannot happen"
		if m.Status == "accept-but-funcs-named-false" {
			detail = "the model accepts but funcs_named is false on this run: theorem C05_scope_accept_funcs_named (an accepted run never stands on `func` not followed by an identifier) says this cannot happen"
		}
		r.Violate(Violation{Kind: "correspondence", Key: "parser-model-" + m.Status, Detail: detail, Input: input, Model: m.Raw})
		return "model-" + m.Status
	}
	r.Validated++
	// the comparable errors of the real parser: all but the errors-only typing errors whose blamed token is not mirrored
	var impl [][2]int
	typing, dropped := 0, 0
	for _, e := range g.Errs {
		switch e.Class {
		case "-":
			dropped++
			continue
		case "arity":
			impl = append(impl, [2]int{0, 0})
			continue
		case "":
		default:
			typing++
		}
		impl = append(impl, [2]int{e.Line, e.Col})
	}
	show := func() any {
		var l []string
		for _, e := range g.Errs {
			l = append(l, fmt.Sprintf("%d:%d [%s] %s", e.Line, e.Col, e.Class, e.Msg))
		}
		return l
	}
	label := "both-accept"
	if len(impl) > 0 {
		label = "both-reject"
		if typing > 0 {
			label += ":with-typing-errors"
		}
	} else if dropped > 0 {
		label = "both-accept-modulo-unmirrored-typing-errors"
	}
	same := len(m.Errs) == len(impl)
	for i := 0; same && i < len(impl); i++ {
		same = m.Errs[i] == impl[i]
	}
	if same {
		return label
	}
	key := "parser-model-error-positions-differ"
	switch {
	case len(impl) == 0:
		key = "parser-model-rejects-accepted-program"
	case len(m.Errs) == 0:
		key = "parser-model-accepts-rejected-program"
	case m.Errs[0] != impl[0]:
		key = "parser-model-first-error-position-differs"
	}
	if typing > 0 {
		key += ":after-typing-error"
	}
	r.Violate(Violation{Kind: "correspondence", Key: key,
		Detail: fmt.Sprintf("accept/reject or the ordered error positions differ (%d errors of parser.Parse, %d of them typing errors fed to the oracle, %d unmirrored ones left out)", len(g.Errs), typing, dropped),
		Input:  input, Impl: show(), Model: m.Raw})
	return "diff"
}

func runC03parse(cfg Config, r *Result) {
	r.Rule = "inputs: the mutation streams of C03 (corpus programs from docs/*.md and *.evy, their token-level mutations, splices, statement soups, token soups, string-escape literals, random unicode / bytes). Each goes through parser.Parse (in process, under recover) and through the extracted Coq parser model fed the real lexer's tokens and the builtin tables; compared: accept/reject and the complete ordered list of error positions (line, column); the typing errors the real type checker reported are fed to the model as its typing oracle (site, blamed token), errors of assertArgTypes / parseStepRange (errors only, blamed token not mirrored) are left out. non-trivial = at least 3 tokens; distinct = distinct source texts"
	model, err := StartModel("parser")
	if err != nil {
		r.Violate(Violation{Kind: "correspondence", Key: "model-start", Detail: err.Error()})
		return
	}
	defer model.Close()
	if cfg.Replay != "" {
		b, err := os.ReadFile(cfg.Replay)
		if err != nil {
			r.Note("replay: %v", err)
			return
		}
		var v struct {
			Input struct {
				Source string `json:"source"`
				Stream string `json:"stream"`
			} `json:"input"`
		}
		if json.Unmarshal(b, &v) != nil || v.Input.Source == "" {
			r.Note("replay: no input.source in %s", cfg.Replay)
			return
		}
		r.Count(v.Input.Source, true)
		r.Dist("cc:" + c03pCheck(v.Input.Source, v.Input.Stream, model, r))
		return
	}
	kinds, err := tokenKinds()
	if err != nil {
		r.Violate(Violation{Kind: "correspondence", Key: "mutation-table", Detail: err.Error()})
		return
	}
	rng := cfg.Rng
	corpus := loadCorpus()
	r.Note("corpus: %d programs", len(corpus))
	n := 0
	run := func(c mutCase) {
		if len(c.Src) > 20000 {
			return
		}
		out := c03pCheck(c.Src, c.Stream, model, r)
		r.Count(c.Src, strings.Count(c.Src, " ")+strings.Count(c.Src, "\n") >= 2)
		r.Dist("stream:" + c.Stream)
		r.Dist("cc:" + out)
		r.Dist("cc:" + c.Stream + ":" + out)
		n++
		if len(r.Samples) < 4 && n%211 == 0 {
			r.Sample(map[string]any{"stream": c.Stream, "src": strconv.Quote(c.Src), "outcome": out})
		}
	}
	for _, c := range c03FixedCorpus {
		run(c)
	}
	for _, c := range c03pCorpus {
		run(mutCase{c, "parser-corpus"})
	}
	if files, _ := filepath.Glob(filepath.Join(os.Getenv("VERIF_ROOT"), "corpus", "C03", "*")); len(files) > 0 {
		sort.Strings(files)
		for _, f := range files {
			if b, err := os.ReadFile(f); err == nil {
				run(mutCase{string(b), "corpus"})
			}
		}
	}
	for _, p := range corpus {
		run(mutCase{p.Src, "program"})
	}
	small := []corpusProg{}
	for _, p := range corpus {
		if n := len(p.Src); n >= 20 && n <= cfg.N(700, 2500) {
			small = append(small, p)
		}
	}
	nmut := cfg.N(6, 40)
	budget := cfg.N(12, 60)
	for k := 0; k < nmut && len(small) > 0; k++ {
		var ms []mutCase
		mutate(small[rng.Intn(len(small))], kinds, rng, budget, &ms)
		for _, c := range ms {
			run(c)
		}
	}
	for k := 0; k < cfg.N(100, 2000) && len(small) > 1; k++ {
		a, b := spans(small[rng.Intn(len(small))].Src), spans(small[rng.Intn(len(small))].Src)
		i, j := rng.Intn(len(a)+1), rng.Intn(len(b)+1)
		run(mutCase{strings.Join(a[:i], "") + strings.Join(b[j:], ""), "splice"})
	}
	// binder programs (harness/c03binders.go) and their line prefixes: the order and the positions of the scope errors
	// (unused / redeclared parameters, variadic parameters, loop variables, locals) against the model
	for k := 0; k < cfg.N(200, 4000); k++ {
		src := genBinderProgram(rng)
		run(mutCase{src, "binders"})
		lines := strings.SplitAfter(src, "\n")
		for j := 0; j < 2 && len(lines) > 1; j++ {
			run(mutCase{strings.Join(lines[:1+rng.Intn(len(lines)-1)], ""), "binders:prefix-line"})
		}
	}
	// type-breaking mutations: literals replaced by literals of another type, operands wrapped in
	// unary operators / index / field access, so that the type checker objects in the middle of
	// otherwise well-formed programs (exercises the nil-propagation paths against the model)
	for k := 0; k < cfg.N(1200, 30000) && len(small) > 0; k++ {
		run(mutCase{typeMutate(rng, small[rng.Intn(len(small))].Src), "type-mutation"})
	}
	for k := 0; k < cfg.N(1500, 40000); k++ {
		run(mutCase{genStmtSoup(rng, 1+rng.Intn(5)), "stmt-soup"})
	}
	for k := 0; k < cfg.N(800, 20000); k++ {
		run(mutCase{genSoup(rng, 1+rng.Intn(14)), "token-soup"})
	}
	for k := 0; k < cfg.N(150, 3000); k++ {
		run(mutCase{genStringLit(rng), "string-escapes"})
	}
	for k := 0; k < cfg.N(150, 3000); k++ {
		run(mutCase{genUnicode(rng, 1+rng.Intn(40)), "random-unicode"})
	}
	for k := 0; k < cfg.N(150, 3000); k++ {
		run(mutCase{genBytes(rng, 1+rng.Intn(60)), "random-bytes"})
	}
}

func typeMutate(rng *rand.Rand, src string) string {
	sp := spans(src)
	isLit := func(x string) bool {
		if x == "" {
			return false
		}
		return x == "true" || x == "false" || x[0] == '"' || (x[0] >= '0' && x[0] <= '9')
	}
	isName := func(x string) bool {
		if x == "" || !(x[0] == '_' || x[0] >= 'a' && x[0] <= 'z' || x[0] >= 'A' && x[0] <= 'Z') {
			return false
		}
		switch x {
		case "true", "false", "and", "or", "if", "else", "end", "func", "on", "for", "while", "range", "return", "break", "num", "string", "bool", "any", "print":
			return false
		}
		return true
	}
	lits := []string{`"s"`, "1", "true", "[1 2]", "{a:1}", "[]", `(print 1)`, "(len 1)"}
	n := 1 + rng.Intn(3)
	for try := 0; try < 40 && n > 0; try++ {
		i := rng.Intn(len(sp))
		switch x := sp[i]; {
		case isLit(x):
			sp[i] = lits[rng.Intn(len(lits))]
			n--
		case isName(x) && i+1 < len(sp) && sp[i+1] != ":" && sp[i+1] != ":=" && sp[i+1] != "=":
			switch rng.Intn(6) {
			case 0:
				sp[i] = "-" + x
			case 1:
				sp[i] = "!" + x
			case 2:
				sp[i] = x + "[0]"
			case 3:
				sp[i] = x + ".a"
			case 4:
				sp[i] = x + "[1:2]"
			default:
				sp[i] = x + ".(num)"
			}
			n--
		}
	}
	return strings.Join(sp, "")
}

// statement forms and error-recovery paths that the mutation streams reach rarely
var c03pCorpus = []string{
	"x := 1\nprint x\n",
	"x:num\nx = 2\nprint x\n",
	"x := 1\n",
	"func f:num a:num b:string\n    print b\n    return a\nend\nprint (f 1 \"s\")\n",
	"func f n:num...\n    print n\nend\nf 1 2\n",
	"func f a:num b:num...\n    print a b\nend\n",
	"func\n",
	"func 1\nend\n",
	"func f\n    print 1\nend\nfunc f\n    print 2\nend\n",
	"func print\n    x := 1\nend\n",
	"func err\n    print 1\nend\n",
	"func f:num\n    print 1\nend\n",
	"func f:num\n    if true\n        return 1\n    else\n        return 2\n    end\nend\nprint (f)\n",
	"func f:foo\n    return 1\nend\n",
	"func f x:num x:num\n    print x\nend\n",
	"func f _:num\n    print 1\nend\nf 1\n",
	"func f a:num\n    print 1\nend\nf 1\n",
	"on key k:string\n    print k\nend\n",
	"on key\n    print 1\nend\non key\n    print 2\nend\n",
	"on nosuch\n    print 1\nend\n",
	"on key k:num\n    print k\nend\n",
	"on key a:string b:string\n    print a b\nend\n",
	"on\n",
	"on down x:num y:num\n    print x\nend\n",
	"if true\n    print 1\nelse if false\n    print 2\nelse\n    print 3\nend\n",
	"if true\nend\n",
	"if true\n    print 1\n",
	"if true\n    print 1\nelse x\n    print 2\nend\n",
	"if true\n    print 1\nend garbage\n",
	"while true\n    break\n    print 1\nend\n",
	"while true\n    x := 1\nend\n",
	"break\n",
	"return\n",
	"return 1\n",
	"for i := range 3\n    print i\nend\n",
	"for i := range 3\n    print 1\nend\n",
	"for range 3\n    print 1\nend\n",
	"for i = range 3\n    print i\nend\n",
	"for i := 3\n    print i\nend\n",
	"for i := range\n    print i\nend\n",
	"i := 1\nfor i := range 3\n    print i\nend\nprint i\n",
	"for err := range 3\n    print err\nend\n",
	"for print := range 3\n    print 1\nend\n",
	"x := [1 2]\nx[0] = 3\nx [0] = 3\n",
	"m := {a:1}\nm.a = 2\nm.b.c = 3\nprint m\n",
	"m := {a:1}\nm[\"a\"] = 2\nm[\"a\":] = 2\nprint m\n",
	"_ = 1\n",
	"y = 1\n",
	"print = 1\n",
	"print[1]\n",
	"foo 1\n",
	"foo[1] = 2\n",
	"x := 1\nx := 2\nprint x\n",
	"x:num\nx:string\nprint x\n",
	"_ := 1\n",
	"_:num\n",
	"err := 1\n",
	"len := 1\n",
	"x:\nprint 1\n",
	"x:[]\nprint 1\n",
	"x:[]{}num y\nprint x\n",
	"x := print 1\n",
	"x := \n",
	"x := 1 2\nprint x\n",
	"print 1 )\n",
	") print 1\n",
	"   print 1\n  // c\n\n",
	"// only a comment",
	"print 1 // trailing\nprint 2",
	"x := 1 // c\nprint x // d\n",
	"end\n",
	"else\n",
	"func f\n    func g\n        print 1\n    end\nend\n",
	"if true\n    func g\n        print 1\n    end\nend\n",
	"x := func\n",
	"print \"a\" \"\\q\"\n",
	"print 1 § 2\n",
}

func init() { register("C03parse", runC03parse) }
