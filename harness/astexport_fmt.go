package main

import (
	"fmt"
	"strconv"

	"evylang.dev/evy/pkg/parser"
)

// Export of a parsed *parser.Program for the FORMATTER model (coq/FmtAst.v,
// coq/Format.v). Unlike astexport.go (evaluator view) this keeps everything
// (*formatting).format looks at: every statement node kind in place, the
// literal payload as rendered by the two oracles strconv.FormatFloat(v,'f',-1,64)
// and strconv.Quote(v), and the three side tables (comments, wss, multiline)
// read through the verif hooks parser.VerifComment / VerifWSS / VerifMultiline.
//
// Wire format (decoded by FmtAst.dec_prog):
//   ty    ::= (ty <name>) | (ty <name> ty)        name: num string bool any arr map none
//   expr  ::= (var "n") | (num <bits> "text") | (str "value" "quoted") | (bool true|false) | (any e)
//           | (arr (items "it"...) e...) | (maplit (items "it"...) (keys "k"...) (vals e...))
//           | (call "name" e...) | (un <op> e) | (bin <op> true|false e e)
//           | (idx e e) | (slice e e|nil e|nil) | (dot e "key") | (assert e ty) | (group e)
//   stmt  ::= (empty "c") | (tdecl "n" ty "c") | (idecl "n" e "c") | (assign e e "c")
//           | (callstmt "name" (e...) "c") | (ret e|nil "c") | (break "c")
//           | (if ((e "c" (stmt...))...) nil|("c" (stmt...)) "cend")
//           | (while e "c" (stmt...) "cend")
//           | (for "lv"|nil (step e|nil e e|nil)|(expr e) "c" (stmt...) "cend")
//           | (func "name" ty|nil (("p" ty)...) ("p" ty)|nil "c" (stmt...) "cend")
//           | (on "name" (("p" ty)...) "c" (stmt...) "cend")
//   prog  ::= (prog stmt...)

type fmtExporter struct {
	prog *parser.Program
	err  error
}

func (x *fmtExporter) fail(format string, a ...any) SX {
	if x.err == nil {
		x.err = fmt.Errorf(format, a...)
	}
	return Sym("bad")
}

// fmtTySX mirrors what formatType looks at: Name, Sub and the pointer
// identities EMPTY_ARRAY / EMPTY_MAP (at which formatType stops).
func (x *fmtExporter) ty(t *parser.Type) SX {
	if t == nil {
		return x.fail("nil type")
	}
	var name string
	switch t.Name {
	case parser.NUM:
		name = "num"
	case parser.STRING:
		name = "string"
	case parser.BOOL:
		name = "bool"
	case parser.ANY:
		name = "any"
	case parser.ARRAY:
		name = "arr"
	case parser.MAP:
		name = "map"
	case parser.NONE:
		name = "none"
	default:
		return x.fail("unknown type name %v", t.Name)
	}
	if t.Sub != nil && t != parser.EMPTY_ARRAY && t != parser.EMPTY_MAP {
		return Lst(Sym("ty"), Sym(name), x.ty(t.Sub))
	}
	return Lst(Sym("ty"), Sym(name))
}

func (x *fmtExporter) comment(n parser.Node) SX {
	c, _ := parser.VerifComment(x.prog, n)
	return Str(c)
}

func (x *fmtExporter) items(n parser.Node) SX {
	its, _ := parser.VerifMultiline(x.prog, n)
	l := []SX{Sym("items")}
	for _, it := range its {
		l = append(l, Str(it))
	}
	return LstOf(l)
}

func fmtIsNil(n parser.Node) bool {
	if n == nil {
		return true
	}
	switch v := n.(type) {
	case *parser.Var:
		return v == nil
	case *parser.NumLiteral:
		return v == nil
	case *parser.StepRange:
		return v == nil
	case *parser.BlockStatement:
		return v == nil
	}
	return false
}

func (x *fmtExporter) optExpr(n parser.Node) SX {
	// formatIfNotNil / `s.Value != nil` / `n.Start != nil` test the interface value
	if n == nil {
		return Sym("nil")
	}
	return x.expr(n)
}

func (x *fmtExporter) exprs(ns []parser.Node) []SX {
	out := make([]SX, len(ns))
	for i, n := range ns {
		out[i] = x.expr(n)
	}
	return out
}

func opSym(o parser.Operator) SX { return Sym(o.String()) }

func (x *fmtExporter) expr(n parser.Node) SX {
	if fmtIsNil(n) {
		return x.fail("nil expression node")
	}
	switch n := n.(type) {
	case *parser.Var:
		return Lst(Sym("var"), Str(n.Name))
	case *parser.NumLiteral:
		return Lst(Sym("num"), Float(n.Value), Str(strconv.FormatFloat(n.Value, 'f', -1, 64)))
	case *parser.StringLiteral:
		return Lst(Sym("str"), Str(n.Value), Str(strconv.Quote(n.Value)))
	case *parser.BoolLiteral:
		return Lst(Sym("bool"), Bool(n.Value))
	case *parser.Any:
		return Lst(Sym("any"), x.expr(n.Value))
	case *parser.ArrayLiteral:
		return LstOf(append([]SX{Sym("arr"), x.items(n)}, x.exprs(n.Elements)...))
	case *parser.MapLiteral:
		keys := []SX{Sym("keys")}
		vals := []SX{Sym("vals")}
		if len(n.Order) != len(n.Pairs) {
			return x.fail("map literal: Order and Pairs differ in size")
		}
		for _, k := range n.Order {
			v, ok := n.Pairs[k]
			if !ok {
				return x.fail("map literal: key %q in Order but not in Pairs", k)
			}
			keys = append(keys, Str(k))
			vals = append(vals, x.expr(v))
		}
		return Lst(Sym("maplit"), x.items(n), LstOf(keys), LstOf(vals))
	case *parser.FuncCall:
		return LstOf(append([]SX{Sym("call"), Str(n.Name)}, x.exprs(n.Arguments)...))
	case *parser.UnaryExpression:
		return Lst(Sym("un"), opSym(n.Op), x.expr(n.Right))
	case *parser.BinaryExpression:
		return Lst(Sym("bin"), opSym(n.Op), Bool(parser.VerifWSS(x.prog, n)), x.expr(n.Left), x.expr(n.Right))
	case *parser.IndexExpression:
		return Lst(Sym("idx"), x.expr(n.Left), x.expr(n.Index))
	case *parser.SliceExpression:
		return Lst(Sym("slice"), x.expr(n.Left), x.optExpr(n.Start), x.optExpr(n.End))
	case *parser.DotExpression:
		return Lst(Sym("dot"), x.expr(n.Left), Str(n.Key))
	case *parser.TypeAssertion:
		return Lst(Sym("assert"), x.expr(n.Left), x.ty(n.T))
	case *parser.GroupExpression:
		return Lst(Sym("group"), x.expr(n.Expr))
	}
	return x.fail("unexportable expression node %T", n)
}

func (x *fmtExporter) stmts(ns []parser.Node) SX {
	out := make([]SX, 0, len(ns))
	for _, n := range ns {
		out = append(out, x.stmt(n))
	}
	return LstOf(out)
}

func (x *fmtExporter) block(b *parser.BlockStatement) SX {
	if b == nil {
		return x.fail("nil block")
	}
	return x.stmts(b.Statements)
}

func (x *fmtExporter) params(ps []*parser.Var) SX {
	l := make([]SX, len(ps))
	for i, p := range ps {
		l[i] = x.param(p)
	}
	return LstOf(l)
}

func (x *fmtExporter) param(p *parser.Var) SX {
	if p == nil {
		return x.fail("nil param")
	}
	return Lst(Str(p.Name), x.ty(p.Type()))
}

func (x *fmtExporter) condBlock(c *parser.ConditionalBlock) SX {
	if c == nil || c.Block == nil {
		return x.fail("nil conditional block")
	}
	return Lst(x.expr(c.Condition), x.comment(c), x.block(c.Block))
}

func (x *fmtExporter) stmt(n parser.Node) SX {
	switch n := n.(type) {
	case *parser.EmptyStmt:
		return Lst(Sym("empty"), x.comment(n))
	case *parser.TypedDeclStmt:
		return Lst(Sym("tdecl"), Str(n.Decl.Var.Name), x.ty(n.Decl.Var.Type()), x.comment(n))
	case *parser.InferredDeclStmt:
		return Lst(Sym("idecl"), Str(n.Decl.Var.Name), x.expr(n.Decl.Value), x.comment(n))
	case *parser.AssignmentStmt:
		return Lst(Sym("assign"), x.expr(n.Target), x.expr(n.Value), x.comment(n))
	case *parser.FuncCallStmt:
		return Lst(Sym("callstmt"), Str(n.FuncCall.Name), LstOf(x.exprs(n.FuncCall.Arguments)), x.comment(n))
	case *parser.ReturnStmt:
		return Lst(Sym("ret"), x.optExpr(n.Value), x.comment(n))
	case *parser.BreakStmt:
		return Lst(Sym("break"), x.comment(n))
	case *parser.IfStmt:
		conds := []SX{x.condBlock(n.IfBlock)}
		for _, c := range n.ElseIfBlocks {
			conds = append(conds, x.condBlock(c))
		}
		els := Sym("nil")
		if n.Else != nil {
			els = Lst(x.comment(n.Else), x.block(n.Else))
		}
		return Lst(Sym("if"), LstOf(conds), els, x.comment(n))
	case *parser.WhileStmt:
		if n.Block == nil {
			return x.fail("while without block")
		}
		return Lst(Sym("while"), x.expr(n.Condition), x.comment(&n.ConditionalBlock), x.block(n.Block), x.comment(n.Block))
	case *parser.ForStmt:
		lv := Sym("nil")
		if n.LoopVar != nil {
			lv = Str(n.LoopVar.Name)
		}
		var r SX
		if sr, ok := n.Range.(*parser.StepRange); ok {
			if sr == nil {
				return x.fail("nil step range")
			}
			r = Lst(Sym("step"), x.optExpr(sr.Start), x.expr(sr.Stop), x.optExpr(sr.Step))
		} else {
			r = Lst(Sym("expr"), x.expr(n.Range))
		}
		if n.Block == nil {
			return x.fail("for without block")
		}
		return Lst(Sym("for"), lv, r, x.comment(n), x.block(n.Block), x.comment(n.Block))
	case *parser.FuncDefStmt:
		rt := Sym("nil")
		if n.ReturnType != parser.NONE_TYPE {
			rt = x.ty(n.ReturnType)
		}
		v := Sym("nil")
		if n.VariadicParam != nil {
			v = x.param(n.VariadicParam)
		}
		if n.Body == nil {
			return x.fail("func without body")
		}
		return Lst(Sym("func"), Str(n.Name), rt, x.params(n.Params), v, x.comment(n), x.block(n.Body), x.comment(n.Body))
	case *parser.EventHandlerStmt:
		if n.Body == nil {
			return x.fail("handler without body")
		}
		return Lst(Sym("on"), Str(n.Name), x.params(n.Params), x.comment(n), x.block(n.Body), x.comment(n.Body))
	}
	return x.fail("unexportable statement node %T", n)
}

// ExportFmtProgram serialises prog (with its formatting side tables) for
// coq/FmtAst.v's dec_prog.
func ExportFmtProgram(prog *parser.Program) (SX, error) {
	x := &fmtExporter{prog: prog}
	l := []SX{Sym("prog")}
	for _, s := range prog.Statements {
		l = append(l, x.stmt(s))
	}
	if x.err != nil {
		return SX{}, x.err
	}
	return LstOf(l), nil
}
