package main

import (
	"fmt"
	"math/rand"
)

// Sameness of composite values in `test want got` (docs/builtins.md: "ensures they are the same", composite
// values are the same when they "contain the same values"): pairs of NEARLY equal values. A base value with
// maps at the top or nested (map of maps, array of maps, map of arrays, maps inside any / []any) and one
// alteration of it: an entry added (got ⊋ want or want ⊋ got), an entry removed, one value changed, one key
// renamed at the same size, an array element appended / dropped / changed, an empty map against a non-empty
// one, key order permuted (still the same), wrapped in any (still the same) - at every nesting depth and in
// BOTH argument orders. Compared with the model (coq/Builtins.v `same`) and with the statement's own oracle
// c13SameVal: the number of failed tests is the number of pairs that are not the same.

var c13SameKeys = []string{"a", "b", "c", "k1", "zz"}

func c13SmallBasic(rng *rand.Rand, t *cTy) cVal {
	switch t.K {
	case "string":
		return vStr(c13pick(rng, []string{"", "x", "é", "ab"}))
	case "bool":
		return vBool(rng.Intn(2) == 0)
	case "any":
		if rng.Intn(2) == 0 {
			return vAny(vStr(c13pick(rng, []string{"x", "y"})))
		}
		return vAny(vNum(float64(rng.Intn(3))))
	}
	return vNum(float64(rng.Intn(4)))
}

// a value of type t (maps with identifier keys, so that they can be written as literals where nested)
func c13SameOfType(rng *rand.Rand, t *cTy, minLen int) cVal {
	switch t.K {
	case "map":
		n := minLen + rng.Intn(4-minLen)
		perm := rng.Perm(len(c13SameKeys))[:n]
		keys := make([]string, n)
		l := make([]cVal, n)
		for i, p := range perm {
			keys[i] = c13SameKeys[p]
			l[i] = c13SameOfType(rng, t.Sub, 1)
		}
		return vMap(t.Sub, keys, l)
	case "arr":
		n := minLen + rng.Intn(3)
		l := make([]cVal, n)
		for i := range l {
			l[i] = c13SameOfType(rng, t.Sub, 1)
		}
		return vArr(t.Sub, l...)
	}
	return c13SmallBasic(rng, t)
}

func c13SameType(rng *rand.Rand) *cTy {
	b := c13pick(rng, []*cTy{tyNum, tyNum, tyStr, tyBool, tyAny})
	switch rng.Intn(7) {
	case 0, 1:
		return tyMap(b)
	case 2:
		return tyMap(tyMap(b))
	case 3:
		return tyArr(tyMap(b))
	case 4:
		return tyMap(tyArr(b))
	case 5:
		return tyArr(tyArr(tyMap(tyNum)))
	}
	return tyMap(tyMap(tyMap(tyNum)))
}

func c13CloneVal(v cVal) cVal {
	o := v
	o.Keys = append([]string(nil), v.Keys...)
	o.L = make([]cVal, len(v.L))
	for i, e := range v.L {
		o.L[i] = c13CloneVal(e)
	}
	if v.In != nil {
		in := c13CloneVal(*v.In)
		o.In = &in
	}
	return o
}

// composite nodes of v (pointers into v), outermost first
func c13Composites(v *cVal, out *[]*cVal) {
	if v.K == "arr" || v.K == "map" {
		*out = append(*out, v)
	}
	for i := range v.L {
		c13Composites(&v.L[i], out)
	}
	if v.In != nil {
		c13Composites(v.In, out)
	}
}

// c13Alter changes one composite node of a copy of v; returns the copy and what was done
func c13Alter(rng *rand.Rand, v cVal) (cVal, string) {
	o := c13CloneVal(v)
	var nodes []*cVal
	c13Composites(&o, &nodes)
	if len(nodes) == 0 || rng.Intn(10) == 0 {
		return o, "same"
	}
	// prefer maps, at any depth
	var maps []*cVal
	for _, n := range nodes {
		if n.K == "map" {
			maps = append(maps, n)
		}
	}
	n := nodes[rng.Intn(len(nodes))]
	if len(maps) > 0 && rng.Intn(4) > 0 {
		n = maps[rng.Intn(len(maps))]
	}
	sub := n.T
	if n.K == "map" {
		switch k := rng.Intn(10); {
		case k < 4: // one more entry, in front / in the middle / at the end
			for _, key := range c13SameKeys {
				dup := false
				for _, x := range n.Keys {
					dup = dup || x == key
				}
				if dup {
					continue
				}
				at := rng.Intn(len(n.Keys) + 1)
				n.Keys = append(n.Keys[:at:at], append([]string{key}, n.Keys[at:]...)...)
				n.L = append(n.L[:at:at], append([]cVal{c13SameOfType(rng, sub, 0)}, n.L[at:]...)...)
				return o, "entry-added"
			}
		case k < 6 && len(n.Keys) > 0: // one entry fewer
			at := rng.Intn(len(n.Keys))
			n.Keys = append(n.Keys[:at:at], n.Keys[at+1:]...)
			n.L = append(n.L[:at:at], n.L[at+1:]...)
			return o, "entry-removed"
		case k < 7 && len(n.Keys) > 0: // a key renamed (same size)
			for _, key := range c13SameKeys {
				dup := false
				for _, x := range n.Keys {
					dup = dup || x == key
				}
				if !dup {
					n.Keys[rng.Intn(len(n.Keys))] = key
					return o, "key-renamed"
				}
			}
		case k < 8 && len(n.Keys) > 1: // order permuted: still the same
			i := rng.Intn(len(n.Keys) - 1)
			n.Keys[i], n.Keys[i+1] = n.Keys[i+1], n.Keys[i]
			n.L[i], n.L[i+1] = n.L[i+1], n.L[i]
			return o, "same-permuted"
		case k < 9 && len(n.Keys) > 0: // emptied
			n.Keys, n.L = nil, nil
			return o, "emptied"
		}
	} else {
		switch k := rng.Intn(4); {
		case k < 2:
			n.L = append(n.L, c13SameOfType(rng, sub, 0))
			return o, "elem-appended"
		case k < 3 && len(n.L) > 0:
			n.L = n.L[:len(n.L)-1]
			return o, "elem-dropped"
		}
	}
	// change one basic value somewhere below the node
	if c13ChangeLeaf(n) {
		return o, "value-changed"
	}
	// nothing below it (empty containers only): give it one more element / entry
	if n.K == "map" {
		n.Keys = append(n.Keys, "k1")
	}
	n.L = append(n.L, c13SameOfType(rng, sub, 0))
	return o, "entry-added"
}

func c13ChangeLeaf(v *cVal) bool {
	switch v.K {
	case "num":
		v.F++
		return true
	case "str":
		v.S += "!"
		return true
	case "bool":
		v.B = !v.B
		return true
	case "any":
		return c13ChangeLeaf(v.In)
	}
	for i := range v.L {
		if c13ChangeLeaf(&v.L[i]) {
			return true
		}
	}
	return false
}

// c13SameVal: the statement's sameness (written from docs/builtins.md, not from the code): basic values are the
// same when equal; arrays when they have the same length and the same elements in order; maps when they have the
// same keys and the same value under every key (order is irrelevant); an any is its content.
func c13SameVal(w, g cVal) bool {
	for w.K == "any" {
		w = *w.In
	}
	for g.K == "any" {
		g = *g.In
	}
	if w.K != g.K {
		return false
	}
	switch w.K {
	case "num":
		return w.F == g.F
	case "str":
		return w.S == g.S
	case "bool":
		return w.B == g.B
	case "arr":
		if len(w.L) != len(g.L) {
			return false
		}
		for i := range w.L {
			if !c13SameVal(w.L[i], g.L[i]) {
				return false
			}
		}
		return true
	case "map":
		if len(w.Keys) != len(g.Keys) {
			return false
		}
		for i, k := range w.Keys {
			found := false
			for j, k2 := range g.Keys {
				if k == k2 {
					found = true
					if !c13SameVal(w.L[i], g.L[j]) {
						return false
					}
				}
			}
			if !found {
				return false
			}
		}
		return true
	}
	return false
}

// a `test want got` call on a nearly-same pair
func genNearSameTest(rng *rand.Rand) (cCall, string) {
	base := c13SameOfType(rng, c13SameType(rng), 0)
	other, what := c13Alter(rng, base)
	if rng.Intn(8) == 0 { // composites held in an any on one side
		other = vAny(other)
	}
	if rng.Intn(12) == 0 {
		base = vAny(base)
	}
	want, got := base, other
	if rng.Intn(2) == 0 {
		want, got = other, base
		what += ":swapped"
	}
	args := []cVal{want, got}
	switch rng.Intn(6) {
	case 0:
		args = append(args, vStr("msg %v"))
	case 1:
		args = append(args, vStr("got %v"), vNum(1))
	}
	return cCall{Name: "test", Args: args}, what
}

func genNearSameCase(rng *rand.Rand) *c13Case {
	c := &c13Case{Origin: "near-same"}
	c.NoSummary = rng.Intn(4) == 0
	n := 1 + rng.Intn(3)
	for i := 0; i < n; i++ {
		call, what := genNearSameTest(rng)
		c.Calls = append(c.Calls, call)
		c.Origin += ":" + what
	}
	return c
}

// c13SameOracle: on a case made of two-or-more-argument tests only (no fail-fast), the failed tests are exactly the
// pairs that are not the same.
func c13SameOracle(c *c13Case, r *Result) {
	impl, out, src := c13Impl(c)
	if out.Class == "parse-error" || out.Class == "gopanic" {
		return // reported by c13Check
	}
	wantFails := 0
	firstDiff := ""
	for _, call := range c.Calls {
		if !c13SameVal(call.Args[0], call.Args[1]) {
			wantFails++
			if firstDiff == "" {
				firstDiff = call.Args[0].Inline() + " vs " + call.Args[1].Inline()
			}
		}
	}
	if impl.Total == len(c.Calls) && impl.Fails == wantFails && (impl.Class == "test") == (wantFails > 0) {
		return
	}
	key := "test-sameness:passes-although-different"
	if impl.Fails > wantFails {
		key = "test-sameness:fails-although-same"
	}
	r.Violate(Violation{Kind: "property", Key: key,
		Detail: fmt.Sprintf("`test want got` must fail exactly when want and got do not contain the same values: %d of the %d tests compare different values (first: %s); the implementation ran %d tests, %d failed, outcome %s",
			wantFails, len(c.Calls), firstDiff, impl.Total, impl.Fails, impl.Class),
		Input: c13Input(c, src),
		Impl:  map[string]any{"class": impl.Class, "total": impl.Total, "fails": impl.Fails, "failtext": impl.FailText}})
}

func c13NearSame(cfg Config, model *Model, r *Result) {
	n := cfg.N(500, 10000)
	for i := 0; i < n; i++ {
		c := genNearSameCase(cfg.Rng)
		c13Check(c, model, r)
		c13SameOracle(c, r)
	}
}
