package main

import (
	"encoding/json"
	"fmt"
	"math"
	"os"
	"runtime"
	"runtime/debug"
	"strconv"
	"strings"
)

// C11: index and slice laws for arrays and strings.
//
// Exhaustive sweep: every array / string of length 0..L over a 3-symbol
// alphabet (strings: "a" "ä" "日", i.e. 1-, 2- and 3-byte code points) ×
// every index value of c11Indices(n) (and every pair of those plus a
// missing bound for slices) × read / slice / write, each rendered as a
// real evy program, run with RunEvy, and compared with
//   (a) the extracted Coq model Index.v (correspondence), and
//   (b) the property's own oracle c11Spec written from the statement.
// Observables: the printed element / slice, the structural dump of the
// result (bit patterns, array identities), the sentinel class of the error,
// and for writes the whole array afterwards.

// ---------- index values ----------

type c11Idx struct {
	Expr    string  `json:"expr"` // evy source; "" = missing slice bound
	F       float64 `json:"-"`
	Bits    uint64  `json:"bits"`
	Inline  bool    `json:"inline"` // written directly inside [ ] (plain integer literals)
	Missing bool    `json:"missing,omitempty"`
}

func c11Lit(lit string, neg bool) c11Idx {
	f, err := strconv.ParseFloat(lit, 64) // what parser/expression.go does with a NUM_LIT
	if err != nil {
		panic(err)
	}
	e := lit
	if neg {
		f = -f
		e = "-" + lit
	}
	return c11Idx{Expr: e, F: f, Bits: canonBits(f)}
}

var c11Special []c11Idx

func init() {
	add := func(i c11Idx) { c11Special = append(c11Special, i) }
	add(c11Lit("0.5", false))
	add(c11Lit("0.5", true))
	add(c11Idx{Expr: "(0/0)", F: math.NaN(), Bits: canonBits(math.NaN())})
	add(c11Idx{Expr: "(1/0)", F: math.Inf(1), Bits: canonBits(math.Inf(1))})
	add(c11Idx{Expr: "(-1/0)", F: math.Inf(-1), Bits: canonBits(math.Inf(-1))})
	add(c11Lit("0", true)) // -0
	for _, l := range []string{
		"2147483648",           // 2^31
		"4294967296",           // 2^32
		"4294967297",           // 2^32+1 (would be 1 after a 32-bit truncation)
		"9007199254740992",     // 2^53
		"9223372036854774784",  // nextafter(2^63, 0)
		"9223372036854775808",  // 2^63
		"9223372036854777856",  // nextafter(2^63, +inf)
		"18446744073709551616", // 2^64
		"18446744073709551617", // rounds to 2^64 (would be 1 after a 64-bit wrap)
		"1" + strings.Repeat("0", 300),        // 1e300
		"0." + strings.Repeat("0", 323) + "5", // 5e-324 (smallest subnormal)
		"0.9999999999999999",                  // largest double below 1
		"1.0000000000000002",                  // smallest double above 1
	} {
		add(c11Lit(l, false))
		add(c11Lit(l, true))
	}
}

// c11Indices: {-n-2 .. n+2} ∪ {n-0.5} ∪ specials, deduplicated by bit pattern.
func c11Indices(n int) []c11Idx {
	var out []c11Idx
	seen := map[uint64]bool{}
	add := func(i c11Idx) {
		if !seen[i.Bits] {
			seen[i.Bits] = true
			out = append(out, i)
		}
	}
	for k := -n - 2; k <= n+2; k++ {
		i := c11Lit(strconv.Itoa(abs(k)), k < 0)
		i.Inline = true
		add(i)
	}
	add(c11Lit(strconv.FormatFloat(float64(n)+0.5, 'f', -1, 64), false))
	if n >= 1 {
		add(c11Lit(strconv.FormatFloat(float64(n)-0.5, 'f', -1, 64), false))
		add(c11Lit(strconv.FormatFloat(float64(n)-0.5, 'f', -1, 64), true))
	}
	for _, s := range c11Special {
		add(s)
	}
	return out
}

func abs(k int) int {
	if k < 0 {
		return -k
	}
	return k
}

var c11Missing = c11Idx{Missing: true}

func (i c11Idx) sx() SX {
	if i.Missing {
		return Sym("none")
	}
	return Uint(i.Bits)
}

// idxClass: coarse class of an index value for violation keys / distribution.
func idxClass(i c11Idx, n int) string {
	f := i.F
	switch {
	case i.Missing:
		return "missing"
	case f != f:
		return "nan"
	case math.IsInf(f, 0):
		return "inf"
	case f != math.Trunc(f):
		return "nonint"
	case math.Abs(f) >= 9223372036854775808.0:
		return "huge"
	case f == 0 && math.Signbit(f):
		return "negzero"
	case f >= 0 && f < float64(n):
		return "in"
	case f < 0 && f >= -float64(n):
		return "neg-in"
	case f == float64(n):
		return "eq-len"
	case f == -float64(n)-1:
		return "below"
	case math.Abs(f) > float64(n)+2:
		return "far"
	default:
		return "out"
	}
}

// ---------- values (common form of dump and model output) ----------

type cval struct {
	Kind  string // num str arr
	Bits  uint64
	Str   string
	Addr  int // identity (dump cell id / model heap address)
	Elems []*cval
}

// canon renders values with array identities renumbered by first encounter.
func canonVals(vs ...*cval) string {
	ids := map[int]int{}
	var b strings.Builder
	var walk func(v *cval)
	walk = func(v *cval) {
		switch v.Kind {
		case "num":
			fmt.Fprintf(&b, "n%x", v.Bits)
		case "str":
			fmt.Fprintf(&b, "s%q", v.Str)
		case "arr":
			id, ok := ids[v.Addr]
			if !ok {
				id = len(ids) + 1
				ids[v.Addr] = id
			}
			fmt.Fprintf(&b, "A%d[", id)
			for i, e := range v.Elems {
				if i > 0 {
					b.WriteByte(' ')
				}
				walk(e)
			}
			b.WriteByte(']')
		}
	}
	for i, v := range vs {
		if i > 0 {
			b.WriteString(" | ")
		}
		if v == nil {
			b.WriteString("undef")
			continue
		}
		walk(v)
	}
	return b.String()
}

// evyPrint renders a value the way evy's print does (numVal.String is
// strconv.FormatFloat(v,'f',-1,64); arrays "[e1 e2]").
func evyPrint(v *cval) string {
	switch v.Kind {
	case "num":
		return strconv.FormatFloat(math.Float64frombits(v.Bits), 'f', -1, 64)
	case "str":
		return v.Str
	}
	parts := make([]string, len(v.Elems))
	for i, e := range v.Elems {
		parts[i] = evyPrint(e)
	}
	return "[" + strings.Join(parts, " ") + "]"
}

// model value: integer = number bits, "string", (arr addr elem...), or a bare list of elements
func cvalOfSX(x SX) (*cval, error) {
	switch x.Kind {
	case "int":
		u, err := strconv.ParseUint(x.S, 10, 64)
		if err != nil {
			return nil, err
		}
		return &cval{Kind: "num", Bits: u}, nil
	case "str":
		return &cval{Kind: "str", Str: x.S}, nil
	case "lst":
		v := &cval{Kind: "arr", Addr: -1}
		l := x.L
		if len(l) >= 2 && l[0].Kind == "sym" && l[0].S == "arr" {
			a, err := strconv.Atoi(l[1].S)
			if err != nil {
				return nil, err
			}
			v.Addr = a
			l = l[2:]
		}
		for _, e := range l {
			c, err := cvalOfSX(e)
			if err != nil {
				return nil, err
			}
			v.Elems = append(v.Elems, c)
		}
		return v, nil
	}
	return nil, fmt.Errorf("bad model value %s", x.String())
}

// ---------- parsing Evaluator.VerifGlobals ----------

type dumpTable struct {
	vars  map[string]*cval
	cells map[int]*cval
}

func parseDump(lines []string) (*dumpTable, error) {
	t := &dumpTable{vars: map[string]*cval{}, cells: map[int]*cval{}}
	for _, line := range lines {
		eq := strings.IndexByte(line, '=')
		if eq < 0 {
			return nil, fmt.Errorf("bad dump line %q", line)
		}
		p := &dumpParser{s: line[eq+1:], t: t}
		v, err := p.value()
		if err != nil {
			return nil, fmt.Errorf("dump %q: %v", line, err)
		}
		t.vars[line[:eq]] = v
	}
	return t, nil
}

type dumpParser struct {
	s string
	i int
	t *dumpTable
}

func (p *dumpParser) value() (*cval, error) {
	if strings.HasPrefix(p.s[p.i:], "none") || strings.HasPrefix(p.s[p.i:], "nil") {
		return nil, fmt.Errorf("none/nil value")
	}
	if p.i >= len(p.s) || p.s[p.i] != '#' {
		return nil, fmt.Errorf("expected # at %d", p.i)
	}
	p.i++
	st := p.i
	for p.i < len(p.s) && p.s[p.i] >= '0' && p.s[p.i] <= '9' {
		p.i++
	}
	id, err := strconv.Atoi(p.s[st:p.i])
	if err != nil {
		return nil, err
	}
	if p.i < len(p.s) && p.s[p.i] == '^' {
		p.i++
		c, ok := p.t.cells[id]
		if !ok {
			return nil, fmt.Errorf("reference to unknown cell %d", id)
		}
		return c, nil
	}
	rest := p.s[p.i:]
	switch {
	case strings.HasPrefix(rest, ":num:"):
		p.i += 5
		st := p.i
		for p.i < len(p.s) && p.s[p.i] >= '0' && p.s[p.i] <= '9' {
			p.i++
		}
		u, err := strconv.ParseUint(p.s[st:p.i], 10, 64)
		if err != nil {
			return nil, err
		}
		c := &cval{Kind: "num", Bits: u, Addr: id}
		p.t.cells[id] = c
		return c, nil
	case strings.HasPrefix(rest, ":str:"):
		p.i += 5
		q, err := strconv.QuotedPrefix(p.s[p.i:])
		if err != nil {
			return nil, err
		}
		p.i += len(q)
		u, err := strconv.Unquote(q)
		if err != nil {
			return nil, err
		}
		c := &cval{Kind: "str", Str: u, Addr: id}
		p.t.cells[id] = c
		return c, nil
	case strings.HasPrefix(rest, ":bool:"):
		p.i += 6
		c := &cval{Kind: "bool", Addr: id}
		if strings.HasPrefix(p.s[p.i:], "true") {
			c.Bits = 1
			p.i += 4
		} else if strings.HasPrefix(p.s[p.i:], "false") {
			p.i += 5
		} else {
			return nil, fmt.Errorf("bad bool")
		}
		p.t.cells[id] = c
		return c, nil
	case strings.HasPrefix(rest, ":arr["):
		p.i += 5
		c := &cval{Kind: "arr", Addr: id}
		p.t.cells[id] = c
		for {
			if p.i >= len(p.s) {
				return nil, fmt.Errorf("unterminated array")
			}
			if p.s[p.i] == ']' {
				p.i++
				return c, nil
			}
			if p.s[p.i] == ' ' {
				p.i++
				continue
			}
			e, err := p.value()
			if err != nil {
				return nil, err
			}
			c.Elems = append(c.Elems, e)
		}
	}
	return nil, fmt.Errorf("unsupported dump value at %d: %q", p.i, rest)
}

// basic cells (num/str) reachable from v, by cell id
func basicCells(v *cval, into map[int]bool, seen map[int]bool) {
	if v == nil {
		return
	}
	if v.Kind != "arr" {
		into[v.Addr] = true
		return
	}
	if seen[v.Addr] {
		return
	}
	seen[v.Addr] = true
	for _, e := range v.Elems {
		basicCells(e, into, seen)
	}
}

// ---------- cases ----------

type c11Case struct {
	Op    string   `json:"op"`   // read slice write fresh nested
	Kind  string   `json:"kind"` // arr-num arr-str str
	Elems []string `json:"elems"`
	I     c11Idx   `json:"i"` // read/write index, slice start
	J     c11Idx   `json:"j"` // slice end
	Tgt   int      `json:"tgt,omitempty"`  // fresh: 0 write to original, 1 write to the slice
	W     c11Idx   `json:"w,omitempty"`    // fresh/nested: index written through
	Prog  string   `json:"program"`        // filled in when run
	Query string   `json:"model_query"`    // single-case model query
}

func (c c11Case) n() int { return len(c.Elems) }

func c11ElemFloat(s string) float64 {
	f, err := strconv.ParseFloat(s, 64)
	if err != nil {
		panic(err)
	}
	return f
}

// container literal in evy source and as model S-expression
func (c c11Case) container() (decl string, sx SX) {
	switch c.Kind {
	case "str":
		s := strings.Join(c.Elems, "")
		return fmt.Sprintf("s := %q\n", s), Str(s)
	case "arr-str":
		l := make([]SX, len(c.Elems))
		q := make([]string, len(c.Elems))
		for i, e := range c.Elems {
			l[i] = Str(e)
			q[i] = strconv.Quote(e)
		}
		if len(c.Elems) == 0 {
			return "s:[]string\n", LstOf(l)
		}
		return "s := [" + strings.Join(q, " ") + "]\n", LstOf(l)
	default:
		l := make([]SX, len(c.Elems))
		for i, e := range c.Elems {
			l[i] = Float(c11ElemFloat(e))
		}
		if len(c.Elems) == 0 {
			return "s:[]num\n", LstOf(l)
		}
		return "s := [" + strings.Join(c.Elems, " ") + "]\n", LstOf(l)
	}
}

// idxSrc declares a variable for a non-inline index value and returns the
// expression to put between the brackets.
func idxSrc(b *strings.Builder, name string, i c11Idx) string {
	if i.Missing {
		return ""
	}
	if i.Inline {
		return i.Expr
	}
	fmt.Fprintf(b, "%s := %s\n", name, i.Expr)
	return name
}

const c11WriteVal = 9

// value written by write / fresh cases: source text, wire form, canonical value
func (c c11Case) writeVal() (string, SX, *cval) {
	if c.Kind == "arr-str" {
		return `"w"`, Str("w"), &cval{Kind: "str", Str: "w"}
	}
	return strconv.Itoa(c11WriteVal), Float(c11WriteVal), &cval{Kind: "num", Bits: canonBits(c11WriteVal)}
}

func (c *c11Case) render() {
	var b strings.Builder
	decl, csx := c.container()
	b.WriteString(decl)
	wsrc, wsx, _ := c.writeVal()
	switch c.Op {
	case "read":
		x := idxSrc(&b, "x", c.I)
		fmt.Fprintf(&b, "r := s[%s]\nprint r\n", x)
		tag := "read-arr"
		if c.Kind == "str" {
			tag = "read-str"
		}
		c.Query = Lst(Sym(tag), csx, Lst(c.I.sx())).String()
	case "slice":
		x := idxSrc(&b, "x", c.I)
		y := idxSrc(&b, "y", c.J)
		fmt.Fprintf(&b, "r := s[%s:%s]\nprint r\n", x, y)
		tag := "slice-arr"
		if c.Kind == "str" {
			tag = "slice-str"
		}
		// the model answers all pairs of the bound list; a single case asks for (I J) and picks pair (0,1)
		c.Query = Lst(Sym(tag), csx, Lst(c.I.sx(), c.J.sx())).String()
	case "write":
		x := idxSrc(&b, "x", c.I)
		fmt.Fprintf(&b, "s[%s] = %s\nprint s\n", x, wsrc)
		c.Query = Lst(Sym("write-arr"), csx, wsx, Lst(c.I.sx())).String()
	case "fresh":
		x := idxSrc(&b, "x", c.I)
		y := idxSrc(&b, "y", c.J)
		w := idxSrc(&b, "w", c.W)
		fmt.Fprintf(&b, "b := s[%s:%s]\n", x, y)
		tgt := "s"
		if c.Tgt == 1 {
			tgt = "b"
		}
		fmt.Fprintf(&b, "%s[%s] = %s\nprint s b\n", tgt, w, wsrc)
		c.Query = Lst(Sym("fresh-arr"), csx, c.I.sx(), c.J.sx(), Int(int64(c.Tgt)), c.W.sx(), wsx).String()
	case "nested":
		// aa := [[e0] [e1] ...]
		b.Reset()
		inner := make([]string, len(c.Elems))
		for i, e := range c.Elems {
			inner[i] = "[" + e + "]"
		}
		if len(inner) == 0 {
			b.WriteString("s:[][]num\n")
		} else {
			b.WriteString("s := [" + strings.Join(inner, " ") + "]\n")
		}
		x := idxSrc(&b, "x", c.I)
		y := idxSrc(&b, "y", c.J)
		w := idxSrc(&b, "w", c.W)
		fmt.Fprintf(&b, "b := s[%s:%s]\nprint s b\n", x, y)
		fmt.Fprintf(&b, "b[%s][0] = 8\nprint s b\n", w)
		fmt.Fprintf(&b, "b[%s] = [7]\nprint s b\n", w)
		c.Query = Lst(Sym("nested"), csx, c.I.sx(), c.J.sx(), c.W.sx(), Float(8), Float(7)).String()
	}
	c.Prog = b.String()
}

// ---------- the property's own oracle (written from the statement) ----------

// specNorm: i must denote an integer; -n <= i <= limit; negative counts from the end.
// class: "ok" | "IndexValue" | "Bounds" | "huge" (an integer beyond the int64 range: the
// statement wants a panic; which sentinel is implementation-defined, see DESIGN §7 #24).
func specNorm(f float64, n int, slice bool) (int, string) {
	if f != f || math.IsInf(f, 0) || f != math.Trunc(f) {
		return 0, "IndexValue"
	}
	if math.Abs(f) >= 9223372036854775808.0 {
		return 0, "huge"
	}
	limit := n - 1
	if slice {
		limit = n
	}
	if f < float64(-n) || f > float64(limit) {
		return 0, "Bounds"
	}
	i := int(f)
	if i < 0 {
		i += n
	}
	return i, "ok"
}

func specSliceBounds(c c11Case) (int, int, string) {
	n := c.n()
	a, b := 0, n
	if !c.I.Missing {
		var cl string
		if a, cl = specNorm(c.I.F, n, true); cl != "ok" {
			return 0, 0, cl
		}
	}
	if !c.J.Missing {
		var cl string
		if b, cl = specNorm(c.J.F, n, true); cl != "ok" {
			return 0, 0, cl
		}
	}
	if a > b {
		return 0, 0, "Slice"
	}
	return a, b, "ok"
}

func (c c11Case) elemVal(i int) *cval {
	if c.Kind == "arr-num" {
		return &cval{Kind: "num", Bits: canonBits(c11ElemFloat(c.Elems[i]))}
	}
	return &cval{Kind: "str", Str: c.Elems[i]}
}

func (c c11Case) arrVal(addr int, lo, hi int) *cval {
	v := &cval{Kind: "arr", Addr: addr}
	for i := lo; i < hi; i++ {
		v.Elems = append(v.Elems, c.elemVal(i))
	}
	return v
}

// c11Spec returns the class and the canonical value(s) the statement prescribes
// (for read / slice / write only; fresh and nested are judged by the model).
func c11Spec(c c11Case) (class string, val string, ok bool) {
	n := c.n()
	switch c.Op {
	case "read":
		i, cl := specNorm(c.I.F, n, false)
		if cl != "ok" {
			return cl, "", true
		}
		return "ok", canonVals(c.elemVal(i)), true
	case "write":
		i, cl := specNorm(c.I.F, n, false)
		arr := c.arrVal(1, 0, n)
		if cl == "ok" {
			_, _, arr.Elems[i] = c.writeVal()
		}
		return cl, canonVals(arr), true
	case "slice":
		a, b, cl := specSliceBounds(c)
		if cl != "ok" {
			return cl, "", true
		}
		if c.Kind == "str" {
			return "ok", canonVals(&cval{Kind: "str", Str: strings.Join(c.Elems[a:b], "")}), true
		}
		return "ok", canonVals(c.arrVal(1, a, b)), true
	}
	return "", "", false
}

func classMatches(spec, impl string) bool {
	switch spec {
	case "ok":
		return impl == "ok"
	case "huge":
		return impl == "panic:IndexValue" || impl == "panic:Bounds"
	default:
		return impl == "panic:"+spec
	}
}

// ---------- running one case on the implementation ----------

type c11Impl struct {
	Class  string   `json:"class"`
	Prints []string `json:"prints"`
	Val    string   `json:"val"` // canonical dump of the observed variables
	Err    string   `json:"err,omitempty"`
	dump   *dumpTable
}

func c11RunImpl(c *c11Case, observe []string) (c11Impl, error) {
	out := RunEvy(c.Prog, RunOpts{})
	im := c11Impl{Class: out.Class, Err: out.ErrText + out.ParseErr + out.GoPanic}
	for _, p := range out.Prints {
		im.Prints = append(im.Prints, strings.TrimSuffix(p, "\n"))
	}
	if out.Eval == nil {
		return im, nil
	}
	d, err := parseDump(out.Eval.VerifGlobals())
	if err != nil {
		return im, err
	}
	im.dump = d
	// guard: index variables hold exactly the intended floats
	for name, idx := range map[string]c11Idx{"x": c.I, "y": c.J, "w": c.W} {
		if v, ok := d.vars[name]; ok {
			if v.Kind != "num" || v.Bits != idx.Bits {
				return im, fmt.Errorf("index variable %s = %x, intended %x (%s)", name, v.Bits, idx.Bits, idx.Expr)
			}
		}
	}
	vs := make([]*cval, len(observe))
	for i, name := range observe {
		vs[i] = d.vars[name]
	}
	im.Val = canonVals(vs...)
	return im, nil
}

func modelClass(x SX) string {
	if x.Kind != "lst" || len(x.L) == 0 {
		return "bad:" + x.String()
	}
	switch x.L[0].S {
	case "ok":
		return "ok"
	case "panic":
		if len(x.L) == 2 {
			return "panic:" + x.L[1].S
		}
	case "hostcrash":
		return "hostcrash"
	}
	return "bad:" + x.String()
}

// c11Judge compares implementation, model answer [m] (for this one case) and oracle.
func c11Judge(c *c11Case, m SX, r *Result) {
	n := c.n()
	cls := idxClass(c.I, n)
	if c.Op == "slice" || c.Op == "fresh" || c.Op == "nested" {
		cls += "," + idxClass(c.J, n)
	}
	fail := func(kind, key, detail string, im c11Impl, model any) {
		r.Violate(Violation{Kind: kind, Key: key, Detail: detail, Input: c, Impl: im, Model: model})
	}
	var observe []string
	switch c.Op {
	case "read", "slice":
		observe = []string{"r"}
	case "write":
		observe = []string{"s"}
	default:
		observe = []string{"s", "b"}
	}
	im, err := c11RunImpl(c, observe)
	r.Validated++
	r.Dist(c.Op + ":" + im.Class)
	if err != nil {
		fail("correspondence", "harness-dump:"+c.Op, err.Error(), im, nil)
		return
	}
	if im.Class == "gopanic" || im.Class == "internal" || im.Class == "parse-error" || strings.HasPrefix(im.Class, "unknown") || im.Class == "budget" {
		fail("property", c.Op+":"+c.Kind+":"+cls+":"+im.Class, "the operation is neither a value nor an evy panic of the documented kind: "+im.Err, im, nil)
		return
	}

	// --- model's answer in the same shape
	var mClass, mVal, mPrint string
	var mDetail any = m.String()
	switch c.Op {
	case "read", "slice":
		mClass = modelClass(m)
		if mClass == "ok" {
			v, err := cvalOfSX(m.L[1])
			if err != nil {
				fail("correspondence", "model-output", err.Error(), im, mDetail)
				return
			}
			mVal, mPrint = canonVals(v), evyPrint(v)
		} else {
			mVal = canonVals(nil)
		}
	case "write":
		if m.Kind != "lst" || len(m.L) != 2 {
			fail("correspondence", "model-output", "bad write answer", im, mDetail)
			return
		}
		mClass = modelClass(m.L[0])
		v, err := cvalOfSX(m.L[1])
		if err != nil {
			fail("correspondence", "model-output", err.Error(), im, mDetail)
			return
		}
		mVal, mPrint = canonVals(v), evyPrint(v)
	case "fresh":
		if m.Kind != "lst" || len(m.L) != 4 {
			fail("correspondence", "model-output", "bad fresh answer", im, mDetail)
			return
		}
		mClass = modelClass(m.L[0])
		if mClass == "ok" {
			mClass = modelClass(m.L[1])
		}
		a, err1 := cvalOfSX(m.L[2])
		var bv *cval
		var err2 error
		if len(m.L[3].L) > 0 || modelClass(m.L[0]) == "ok" {
			bv, err2 = cvalOfSX(m.L[3])
		}
		if err1 != nil || err2 != nil {
			fail("correspondence", "model-output", "bad fresh values", im, mDetail)
			return
		}
		mVal = canonVals(a, bv)
		if mClass == "ok" {
			mPrint = evyPrint(a) + " " + evyPrint(bv)
		}
	case "nested":
		// alternating status, shown state; prints only after successful steps
		if m.Kind != "lst" || len(m.L)%2 != 0 || len(m.L) == 0 {
			fail("correspondence", "model-output", "bad nested answer", im, mDetail)
			return
		}
		var prints []string
		for k := 0; k+1 < len(m.L); k += 2 {
			mClass = modelClass(m.L[k])
			var vs []*cval
			for _, e := range m.L[k+1].L {
				v, err := cvalOfSX(e)
				if err != nil {
					fail("correspondence", "model-output", err.Error(), im, mDetail)
					return
				}
				vs = append(vs, v)
			}
			if len(vs) == 1 {
				vs = append(vs, nil)
			}
			mVal = canonVals(vs...)
			if mClass == "ok" {
				prints = append(prints, evyPrint(vs[0])+" "+evyPrint(vs[1]))
			}
		}
		mPrint = strings.Join(prints, "\x1e")
	}
	if mClass == "hostcrash" || strings.HasPrefix(mClass, "bad:") {
		fail("correspondence", "model-"+mClass+":"+c.Op, "the model reaches a host crash / undecodable answer", im, mDetail)
		return
	}
	implPrint := strings.Join(im.Prints, "\x1e")
	if mClass != "ok" && c.Op != "nested" {
		mPrint = ""
	}

	// --- the statement's oracle on the implementation
	if sClass, sVal, has := c11Spec(*c); has {
		okc := classMatches(sClass, im.Class)
		okv := true
		if okc && (im.Class == "ok" || c.Op == "write") {
			okv = sVal == im.Val
		}
		if !okc || !okv {
			what := "wrong-class:want-" + sClass + "-got-" + im.Class
			if okc {
				what = "wrong-value"
			}
			fail("property", c.Op+":"+c.Kind+":"+cls+":"+what,
				fmt.Sprintf("statement prescribes class %s value %s; implementation gives class %s value %s", sClass, sVal, im.Class, im.Val), im, mDetail)
			return
		}
	}
	// --- freshness oracle on the implementation: the slice shares no basic cell with the original
	if (c.Op == "fresh" || c.Op == "nested") && im.dump != nil {
		sa, sb := map[int]bool{}, map[int]bool{}
		basicCells(im.dump.vars["s"], sa, map[int]bool{})
		if c.Op == "fresh" {
			basicCells(im.dump.vars["b"], sb, map[int]bool{})
			for id := range sb {
				if sa[id] {
					fail("property", "fresh:"+c.Kind+":shares-basic-cell", "an element cell of the slice is the same cell as in the original array", im, mDetail)
					return
				}
			}
		}
		if bv, sv := im.dump.vars["b"], im.dump.vars["s"]; bv != nil && sv != nil && bv.Addr == sv.Addr {
			fail("property", "fresh:"+c.Kind+":slice-is-original", "the slice is the original array object, not a copy", im, mDetail)
			return
		}
	}
	// --- correspondence with the model
	if im.Class != mClass || im.Val != mVal || implPrint != mPrint {
		what := "class"
		if im.Class == mClass {
			what = "value"
			if im.Val == mVal {
				what = "print"
			}
		}
		fail("correspondence", c.Op+":"+c.Kind+":"+cls+":model-differs-"+what,
			fmt.Sprintf("implementation: class %s value %s print %q; model: class %s value %s print %q", im.Class, im.Val, implPrint, mClass, mVal, mPrint),
			im, mDetail)
	}
	if len(r.Samples) < 4 && (r.Evaluations%977 == 5) {
		r.Sample(map[string]any{"program": c.Prog, "class": im.Class, "prints": im.Prints, "dump": im.Val})
	}
}

// ---------- enumeration ----------

func c11Containers(alphabet []string, n int) [][]string {
	total := 1
	for i := 0; i < n; i++ {
		total *= len(alphabet)
	}
	out := make([][]string, 0, total)
	for k := 0; k < total; k++ {
		e := make([]string, n)
		x := k
		for i := 0; i < n; i++ {
			e[i] = alphabet[x%len(alphabet)]
			x /= len(alphabet)
		}
		out = append(out, e)
	}
	return out
}

func askList(model *Model, q string, want int, r *Result) ([]SX, bool) {
	ans, err := model.Ask(q)
	if err != nil {
		r.Violate(Violation{Kind: "correspondence", Key: "model-crash", Detail: err.Error(), Input: q})
		return nil, false
	}
	x, err := ParseSX(ans)
	if err != nil || x.Kind != "lst" || (want >= 0 && len(x.L) != want) {
		r.Violate(Violation{Kind: "correspondence", Key: "model-output", Detail: ans, Input: q})
		return nil, false
	}
	return x.L, true
}

func c11Count(r *Result, c *c11Case, fast bool) {
	nontrivial := c.n() >= 1
	if fast {
		// the enumeration is duplicate-free by construction (containers distinct, bound list deduplicated)
		r.Evaluations++
		if nontrivial {
			r.Distinct++
		}
		return
	}
	r.Count(fmt.Sprintf("%s|%s|%q|%x|%x|%d|%x|%v%v", c.Op, c.Kind, c.Elems, c.I.Bits, c.J.Bits, c.Tgt, c.W.Bits, c.I.Missing, c.J.Missing), nontrivial)
}

func c11SweepContainer(kind string, elems []string, model *Model, r *Result, fullSlices bool) {
	n := len(elems)
	idx := c11Indices(n)
	base := c11Case{Kind: kind, Elems: elems}
	_, csx := base.container()
	isx := make([]SX, len(idx))
	for i, x := range idx {
		isx[i] = x.sx()
	}
	// reads
	tag := "read-arr"
	if kind == "str" {
		tag = "read-str"
	}
	if ans, ok := askList(model, Lst(Sym(tag), csx, LstOf(isx)).String(), len(idx), r); ok {
		for k, x := range idx {
			c := base
			c.Op, c.I = "read", x
			c.render()
			c11Count(r, &c, false)
			c11Judge(&c, ans[k], r)
		}
	}
	// writes (arrays only: strings are not assignable by index — checked once in c11Static)
	if kind != "str" {
		_, wsx, _ := base.writeVal()
		if ans, ok := askList(model, Lst(Sym("write-arr"), csx, wsx, LstOf(isx)).String(), len(idx), r); ok {
			for k, x := range idx {
				c := base
				c.Op, c.I = "write", x
				c.render()
				c11Count(r, &c, false)
				c11Judge(&c, ans[k], r)
			}
		}
	}
	// slices: all pairs incl. missing bounds; beyond the tier's full-pair length only the
	// integer window {-n-2..n+2}, one non-integer and the missing bound are paired
	var bounds []c11Idx
	var bsx []SX
	for k, x := range idx {
		if fullSlices || x.Inline || x.Expr == "0.5" {
			bounds = append(bounds, x)
			bsx = append(bsx, isx[k])
		}
	}
	bounds = append(bounds, c11Missing)
	bsx = append(bsx, Sym("none"))
	tag = "slice-arr"
	if kind == "str" {
		tag = "slice-str"
	}
	if ans, ok := askList(model, Lst(Sym(tag), csx, LstOf(bsx)).String(), len(bounds)*len(bounds), r); ok {
		for i, x := range bounds {
			for j, y := range bounds {
				c := base
				c.Op, c.I, c.J = "slice", x, y
				c.render()
				c11Count(r, &c, true)
				c11Judge(&c, ans[i*len(bounds)+j], r)
			}
		}
	}
}

// freshness: for every container and every pair of *integer-window / missing* bounds,
// write through the slice and through the original at a few positions.
func c11SweepFresh(kind string, elems []string, model *Model, r *Result) {
	n := len(elems)
	var bounds []c11Idx
	for k := -n - 1; k <= n+1; k++ {
		i := c11Lit(strconv.Itoa(abs(k)), k < 0)
		i.Inline = true
		bounds = append(bounds, i)
	}
	bounds = append(bounds, c11Missing, c11Lit("0.5", false))
	ws := []c11Idx{}
	for _, k := range []int{0, -1, 1, n} {
		i := c11Lit(strconv.Itoa(abs(k)), k < 0)
		i.Inline = true
		ws = append(ws, i)
	}
	ws = append(ws, c11Lit("0.5", false))
	for _, x := range bounds {
		for _, y := range bounds {
			for _, w := range ws {
				for tgt := 0; tgt < 2; tgt++ {
					op := "fresh"
					if kind == "nested" {
						if tgt == 1 {
							continue
						}
						op = "nested"
					}
					c := c11Case{Op: op, Kind: kind, Elems: elems, I: x, J: y, W: w, Tgt: tgt}
					if kind == "nested" {
						c.Kind = "arr-num"
					}
					c.render()
					ans, err := model.Ask(c.Query)
					if err != nil {
						r.Violate(Violation{Kind: "correspondence", Key: "model-crash", Detail: err.Error(), Input: c})
						return
					}
					m, err := ParseSX(ans)
					if err != nil {
						r.Violate(Violation{Kind: "correspondence", Key: "model-output", Detail: ans, Input: c})
						return
					}
					c11Count(r, &c, false)
					c11Judge(&c, m, r)
				}
			}
		}
	}
}

// ---------- the conversion link: Prim2SF decoding <-> Go's int(f) / float64(i) ----------

//go:noinline
func goInt(f float64) int { return int(f) }

//go:noinline
func goFloat(i int) float64 { return float64(i) }

func c11Conv(cfg Config, model *Model, r *Result) {
	var fs []float64
	for n := 0; n <= 6; n++ {
		for _, i := range c11Indices(n) {
			fs = append(fs, i.F)
		}
	}
	// every power of two and its neighbours, both signs
	for e := -1074; e <= 1023; e++ {
		p := math.Ldexp(1, e)
		for _, f := range []float64{p, math.Nextafter(p, 0), math.Nextafter(p, math.Inf(1)), p * 1.5} {
			fs = append(fs, f, -f)
		}
	}
	// integers and half-integers around the int64 / 2^52 / 2^53 borders
	for _, c := range []float64{4503599627370496, 9007199254740992, 9223372036854775808} {
		f := c
		g := c
		for k := 0; k < 40; k++ {
			fs = append(fs, f, -f, g, -g)
			f = math.Nextafter(f, 0)
			g = math.Nextafter(g, math.Inf(1))
		}
	}
	nrand := cfg.N(20000, 400000)
	for k := 0; k < nrand; k++ {
		switch k % 4 {
		case 0: // arbitrary bit pattern
			fs = append(fs, math.Float64frombits(cfg.Rng.Uint64()))
		case 1: // exponent concentrated on the integer / non-integer border 2^-2 .. 2^66
			bits := cfg.Rng.Uint64()&^(uint64(0x7ff)<<52) | uint64(1021+cfg.Rng.Intn(70))<<52
			fs = append(fs, math.Float64frombits(bits))
		case 2: // exact integers
			fs = append(fs, float64(int64(cfg.Rng.Uint64())>>uint(cfg.Rng.Intn(64))))
		default: // integer + small fraction
			fs = append(fs, float64(cfg.Rng.Int63n(1<<40)-(1<<39))+float64(cfg.Rng.Intn(8))/8)
		}
	}
	const batch = 2000
	for st := 0; st < len(fs); st += batch {
		en := st + batch
		if en > len(fs) {
			en = len(fs)
		}
		l := make([]SX, 0, en-st)
		for _, f := range fs[st:en] {
			l = append(l, Float(f))
		}
		ans, ok := askList(model, Lst(Sym("conv"), LstOf(l)).String(), en-st, r)
		if !ok {
			return
		}
		for k, f := range fs[st:en] {
			i := goInt(f)
			g := goFloat(i)
			eq := f == g
			a := ans[k]
			r.Evaluations++
			r.Dist("conv")
			if len(a.L) != 4 {
				r.Violate(Violation{Kind: "correspondence", Key: "model-output", Detail: a.String()})
				return
			}
			isInt := f == math.Trunc(f) && !math.IsInf(f, 0)
			wantZ := ""
			if isInt {
				wantZ = intText(f)
			}
			gotZ := ""
			if len(a.L[3].L) == 1 {
				gotZ = a.L[3].L[0].S
			}
			if a.L[0].S != strconv.Itoa(i) || a.L[1].S != strconv.FormatUint(canonBits(g), 10) || a.L[2].S != strconv.FormatBool(eq) || gotZ != wantZ {
				r.Violate(Violation{Kind: "correspondence", Key: "conv:int-float64-roundtrip",
					Detail: fmt.Sprintf("f=%x: Go int(f)=%d float64(int(f))=%x equal=%v integer=%q; model %s", canonBits(f), i, canonBits(g), eq, wantZ, a.String()),
					Input:  map[string]any{"op": "conv", "bits": canonBits(f)}})
			}
		}
	}
}

// intText: exact decimal text of an integral float64
func intText(f float64) string {
	s := strconv.FormatFloat(f, 'f', 0, 64) // exact for integral values
	if s == "-0" {
		return "0"
	}
	return s
}

// ---------- static rule: strings are not assignable by index ----------

func c11Static(r *Result) {
	for _, src := range []string{"s := \"abc\"\ns[0] = \"x\"\nprint s\n", "s := \"日本\"\ns[-1] = \"x\"\nprint s\n", "a := [\"ab\"]\na[0][0] = \"x\"\nprint a\n"} {
		out := RunEvy(src, RunOpts{})
		r.Evaluations++
		r.Dist("static:" + out.Class)
		if out.Class != "parse-error" {
			r.Violate(Violation{Kind: "property", Key: "static:string-index-assignment-accepted",
				Detail: "assignment through a string index is not rejected by the parser", Input: map[string]any{"program": src},
				Impl: map[string]any{"class": out.Class, "prints": out.Prints}})
		}
	}
}

// ---------- replay ----------

func c11Replay(path string, model *Model, r *Result) {
	raw, err := os.ReadFile(path)
	if err != nil {
		r.Violate(Violation{Kind: "correspondence", Key: "replay-read", Detail: err.Error()})
		return
	}
	var v struct {
		Input json.RawMessage `json:"input"`
	}
	var c c11Case
	if err := json.Unmarshal(raw, &v); err != nil || json.Unmarshal(v.Input, &c) != nil || c.Op == "" {
		r.Note("replay file has no re-runnable C11 case; running the full sweep instead")
		return
	}
	fix := func(i *c11Idx) {
		if i.Missing || i.Expr == "" {
			return
		}
		f := math.Float64frombits(i.Bits)
		i.F = f
	}
	fix(&c.I)
	fix(&c.J)
	fix(&c.W)
	c.render()
	ans, err := model.Ask(c.Query)
	if err != nil {
		r.Violate(Violation{Kind: "correspondence", Key: "model-crash", Detail: err.Error(), Input: c})
		return
	}
	m, err := ParseSX(ans)
	if err != nil {
		r.Violate(Violation{Kind: "correspondence", Key: "model-output", Detail: ans, Input: c})
		return
	}
	switch c.Op {
	case "read", "write":
		m = m.L[0]
	case "slice":
		m = m.L[1] // pair (I, J) of the two-element bound list
	}
	c11Count(r, &c, false)
	c11Judge(&c, m, r)
}

// ---------- corpus: fixed regression cases run first ----------

func c11Corpus(model *Model, r *Result, thorough bool) {
	// 4-byte code points and combining marks: strings are indexed by code point
	for k, elems := range [][]string{{"😀", "a", "ä"}, {"e", "́", "日"}, {"a", "😀"}} {
		c11SweepContainer("str", elems, model, r, thorough || k == 0)
	}
	// arrays of strings (copyOrRef on string cells)
	for k, elems := range [][]string{{"日"}, {"a", "ä", "日"}} {
		c11SweepContainer("arr-str", elems, model, r, thorough || k == 0)
		c11SweepFresh("arr-str", elems, model, r)
	}
}

func runC11(cfg Config, r *Result) {
	model, err := StartModel("index")
	if err != nil {
		r.Violate(Violation{Kind: "correspondence", Key: "model-start", Detail: err.Error()})
		return
	}
	defer model.Close()
	debug.SetGCPercent(400) // every case allocates a fresh parser + evaluator with all built-ins
	r.Rule = "exhaustive: every array of num over {1,2,3} and every string over {a, ä, 日} of length 0..L (L=3 and a third of length 4 in quick, L=6 in thorough) × every index value of {-n-2..n+2, n±0.5, ±0.5, -0, NaN, ±Inf, ±2^31, ±2^32, ±(2^32+1), ±2^53, ±2^63, ±nextafter(2^63) both sides, ±2^64, ±1e300, ±5e-324, ±(1∓ulp)} for read and write; for slices every pair of those plus a missing bound up to length 1 (quick) / 4 (thorough) and every pair of {-n-2..n+2, 0.5, missing} for the longer containers; slice-then-write freshness scripts on flat and nested arrays (L<=2 / 3), each as a real evy program; plus the conversion link int(f)/float64(i) on all sweep values, all powers of two ±1ulp and random floats; non-trivial = container of length >= 1; distinct = distinct (operation, container, index tuple)"
	if runtime.GOARCH != "amd64" {
		r.Note("GOARCH=%s: the model writes Go's amd64 float->int conversion; on other architectures out-of-range conversions differ", runtime.GOARCH)
	}
	if in, ok := replayInput(cfg); ok {
		if src, ok := in["program"].(string); ok && in["op"] == nil {
			// a violation of one of the evaluator-model streams: re-run that program only
			if sem := startSem(r); sem != nil {
				c11SeqCase(sem, r, src)
				sem.Close()
			}
			return
		}
	}
	defer c11InPlaceStrings(cfg, r)
	defer c11StringSequences(cfg, r)
	if cfg.Replay != "" {
		c11Replay(cfg.Replay, model, r)
		if r.Evaluations > 0 || len(r.Violations) > 0 {
			return
		}
	}
	c11Static(r)
	c11Conv(cfg, model, r)
	c11Corpus(model, r, cfg.Tier == "thorough")
	nums := []string{"1", "2", "3"}
	chars := []string{"a", "ä", "日"}
	maxLen := cfg.N(4, 6)
	maxSlice := cfg.N(1, 4)
	maxFresh := cfg.N(2, 3)
	for n := 0; n <= maxLen; n++ {
		for k, e := range c11Containers(nums, n) {
			if cfg.Tier != "thorough" && n == 4 && k%3 != 0 {
				continue // quick: a third of the length-4 containers
			}
			c11SweepContainer("arr-num", e, model, r, n <= maxSlice)
		}
		for k, e := range c11Containers(chars, n) {
			if cfg.Tier != "thorough" && n == 4 && k%3 != 1 {
				continue
			}
			c11SweepContainer("str", e, model, r, n <= maxSlice)
		}
		if n <= maxFresh {
			for _, e := range c11Containers(nums, n) {
				c11SweepFresh("arr-num", e, model, r)
				c11SweepFresh("nested", e, model, r)
			}
		}
	}
	r.Exhaustive = true
	r.Note("exhaustive over the enumerated space stated in the rule (lengths, alphabet, index set); the theorems of coq/Props/C11.v cover all lengths and all floats")
}

func init() { register("C11", runC11) }
