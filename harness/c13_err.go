package main

import (
	"fmt"
	"math/rand"
	"strconv"
	"strings"
)

// C13, err/errmsg protocol in whole programs: histories in which the PROGRAM ITSELF writes err / errmsg
// (docs/builtins.md, "Recoverable Errors": "If you want your own code or function to cause a recoverable error, follow
// the convention of setting the err variable to true and the errmsg variable to a message ...") interleaved with
// str2num / str2bool calls and with reads of the two globals - at top level, inside blocks and loops, inside
// procedures and functions (generic ones, and the documented "checked conversion" convention), inside event handlers
// (conversions of the event payload), in every statement form a conversion call can stand in (declaration, assignment,
// print argument, condition, argument of a user function, two conversions in one expression, behind a short-circuit
// operator whose left operand is err, assigned to err / errmsg themselves).
//
// Two oracles: (1) the evaluator model coq/Sem.v (global_err looks the cells up by name in the calling scope) on
// traces and globals of every phase; (2) the documented protocol itself, evaluated on the implementation's output: the
// generator executes its own step tree with the documented rules (a conversion that succeeds resets err to false and
// errmsg to ""; one that fails sets err to true and errmsg to a non-empty message; an assignment gives the variable
// the assigned value) and every probe `print "P<i>" err ("<" + errmsg + ">")` must show that state.

type errArg struct {
	S   string
	OK  bool
	Num float64
	B   bool
}

// strings decided by the model without the ParseFloat oracle (optional sign + digits / certainly malformed)
var c13ErrNums = []errArg{{"7", true, 7, false}, {"-3", true, -3, false}, {"0", true, 0, false}, {"+12", true, 12, false}, {"5", true, 5, false}, {"100", true, 100, false}, {"1", true, 1, false}, {"2", true, 2, false},
	{"", false, 0, false}, {"x", false, 0, false}, {"abc", false, 0, false}, {"1 2", false, 0, false}, {"not-a-num", false, 0, false}, {"z9", false, 0, false}, {" 7", false, 0, false}, {"true", false, 0, false}}

var c13ErrBools = []errArg{{"true", true, 0, true}, {"false", true, 0, false}, {"T", true, 0, true}, {"0", true, 0, false}, {"1", true, 0, true}, {"F", true, 0, false}, {"TRUE", true, 0, true},
	{"yes", false, 0, false}, {"", false, 0, false}, {"tRUE", false, 0, false}, {"2", false, 0, false}, {" true", false, 0, false}, {"ja", false, 0, false}, {"7", false, 0, false}}

var c13UserMsgs = []string{"user: not positive", "user: bad input", "user: é", "user", "user: 100%", "user: \"q\"", "u"}

type eFunc struct {
	Name    string
	Kind    string // proc | conv | checked | fail | reset
	Fn      string // conv, checked: str2num | str2bool
	Variant int
	Limit   float64
	Msg     string
	Body    []*eStep
}

type eStep struct {
	K      string // conv seterr setmsg setboth probe call block paramconv
	Fn     string
	A, A2  errArg
	Form   int
	B      bool
	S      string
	ID     int
	Reps   int
	Body   []*eStep
	Else   []*eStep
	Callee *eFunc
}

type eHandler struct {
	Name string // key | input | down
	Body []*eStep
}

type eEvent struct {
	Name string
	Arg  errArg
}

type eProg struct {
	Funcs    []*eFunc
	Handlers []*eHandler
	Main     []*eStep
	Events   []eEvent
}

// ---------- documented state ----------

type eState struct {
	Err     bool
	Builtin bool   // errmsg = some non-empty message written by a failed conversion, followed by Msg
	Msg     string // exact text when !Builtin
	ErrOp   string // what wrote err last: initial | conv-ok | conv-fail | user-assign
	MsgOp   string
	Arg     errArg // payload of the event being handled
	Steps   int
}

type eExpect struct {
	ID           int
	Err          bool
	Builtin      bool
	Msg          string
	ErrOp, MsgOp string
}

func (st *eState) conv(ok bool) {
	if ok {
		st.Err, st.Builtin, st.Msg, st.ErrOp, st.MsgOp = false, false, "", "conv-ok", "conv-ok"
	} else {
		st.Err, st.Builtin, st.Msg, st.ErrOp, st.MsgOp = true, true, "", "conv-fail", "conv-fail"
	}
}

func (st *eState) setErr(b bool)   { st.Err, st.ErrOp = b, "user-assign" }
func (st *eState) setMsg(s string) { st.Builtin, st.Msg, st.MsgOp = false, s, "user-assign" }
func (st *eState) msgEmpty() bool  { return !st.Builtin && st.Msg == "" }

// errArgOK: does the documentation make `fn s` succeed (s from the union of the two tables: every valid number /
// boolean literal among them is listed as such in the table of its function)
func errArgOK(fn, s string) bool {
	tab := c13ErrBools
	if fn == "str2num" {
		tab = c13ErrNums
	}
	for _, a := range tab {
		if a.S == s {
			return a.OK
		}
	}
	return false
}

func evyNumText(f float64) string { return strconv.FormatFloat(f, 'f', -1, 64) }

func execSteps(l []*eStep, st *eState, out *[]eExpect) {
	for _, s := range l {
		execStep(s, st, out)
	}
}

func execStep(s *eStep, st *eState, out *[]eExpect) {
	st.Steps++
	switch s.K {
	case "conv":
		switch s.Form {
		case 5:
			st.conv(s.A.OK)
			st.conv(s.A2.OK)
		case 8:
			if st.Err == s.B { // `err and X` evaluates X when err is true; `err or X` when err is false
				st.conv(s.A.OK)
			}
		case 9:
			st.conv(s.A.OK)
			if s.Fn == "str2num" {
				st.setErr(s.A.OK && s.A.Num > 0)
			} else {
				st.setErr(s.A.OK && s.A.B)
			}
		case 10:
			st.conv(s.A.OK)
			switch {
			case s.Fn == "str2num" && s.A.OK:
				st.setMsg(evyNumText(s.A.Num))
			case s.Fn == "str2num":
				st.setMsg("0")
			default:
				st.setMsg(strconv.FormatBool(s.A.OK && s.A.B))
			}
		default:
			st.conv(s.A.OK)
		}
	case "paramconv":
		st.conv(errArgOK(s.Fn, st.Arg.S))
	case "seterr":
		switch s.Form {
		case 1:
			st.setErr(!st.Err)
		case 2:
			st.setErr(!st.msgEmpty())
		default:
			st.setErr(s.B)
		}
	case "setmsg":
		if s.Form == 1 {
			st.Msg += s.S // errmsg = errmsg + S
			st.MsgOp = "user-assign"
		} else {
			st.setMsg(s.S)
		}
	case "setboth":
		st.setErr(s.B)
		st.setMsg(s.S)
	case "probe":
		*out = append(*out, eExpect{s.ID, st.Err, st.Builtin, st.Msg, st.ErrOp, st.MsgOp})
	case "block":
		switch s.Form {
		case 0:
			execSteps(s.Body, st, out)
		case 1:
			if st.Err {
				execSteps(s.Body, st, out)
			} else {
				execSteps(s.Else, st, out)
			}
		default:
			for i := 0; i < s.Reps; i++ {
				execSteps(s.Body, st, out)
			}
		}
	case "call":
		f := s.Callee
		switch f.Kind {
		case "proc":
			execSteps(f.Body, st, out)
		case "conv":
			st.conv(s.A.OK)
		case "checked":
			st.conv(s.A.OK)
			if !s.A.OK {
				return
			}
			if s.A.Num <= f.Limit {
				if f.Variant%2 == 0 {
					st.setErr(true)
					st.setMsg(f.Msg)
				} else {
					st.setMsg(f.Msg)
					st.setErr(true)
				}
				return
			}
			if f.Variant >= 2 {
				st.setErr(false)
			}
		case "fail":
			switch f.Variant {
			case 0, 1:
				st.setErr(true)
				st.setMsg(s.S)
			case 2:
				st.setErr(true)
			default:
				st.setMsg(s.S)
			}
		case "reset":
			st.setErr(false)
			if f.Variant == 0 {
				st.setMsg("")
			}
		}
	}
}

// ---------- rendering ----------

func evyQ(s string) string {
	return `"` + strings.NewReplacer(`\`, `\\`, `"`, `\"`).Replace(s) + `"`
}

func convExpr(fn string, a errArg) string { return "(" + fn + " " + evyQ(a.S) + ")" }

func probeArgs() string { return `err ("<" + errmsg + ">")` }

func renderSteps(b *strings.Builder, l []*eStep, ind string) {
	for _, s := range l {
		renderStep(b, s, ind)
	}
}

func renderStep(b *strings.Builder, s *eStep, ind string) {
	w := func(format string, a ...any) { b.WriteString(ind + fmt.Sprintf(format, a...) + "\n") }
	num := s.Fn == "str2num"
	gv := map[bool]string{true: "gn", false: "gb"}[num]
	switch s.K {
	case "conv":
		ce := convExpr(s.Fn, s.A)
		switch s.Form {
		case 0:
			w("x%d := %s %s", s.ID, s.Fn, evyQ(s.A.S))
			w("%s = x%d", gv, s.ID)
		case 1:
			w("%s = %s %s", gv, s.Fn, evyQ(s.A.S))
		case 2:
			w("print \"c\" %s", ce)
		case 3:
			if num {
				w("if %s >= 0", ce)
			} else {
				w("if %s", ce)
			}
			w("    gn = gn + 1")
			w("end")
		case 4:
			if num {
				w("gn = idn %s", ce)
			} else {
				w("gb = idb %s", ce)
			}
		case 5:
			if num {
				w("gn = %s + %s", ce, convExpr(s.Fn, s.A2))
			} else {
				w("gb = %s == %s", ce, convExpr(s.Fn, s.A2))
			}
		case 6:
			w("gs = sprint %s", ce)
		case 7:
			w("gs = %s", evyQ(s.A.S))
			w("%s = %s gs", gv, s.Fn)
		case 8:
			op := map[bool]string{true: "and", false: "or"}[s.B]
			if num {
				w("gb = err %s (%s >= 0)", op, ce)
			} else {
				w("gb = err %s %s", op, ce)
			}
		case 9:
			if num {
				w("err = %s > 0", ce)
			} else {
				w("err = %s %s", s.Fn, evyQ(s.A.S))
			}
		case 10:
			w("errmsg = sprint %s", ce)
		}
	case "paramconv":
		w("%s = %s %s", gv, s.Fn, s.S)
	case "seterr":
		switch s.Form {
		case 1:
			w("err = !err")
		case 2:
			w("err = errmsg != \"\"")
		default:
			w("err = %v", s.B)
		}
	case "setmsg":
		if s.Form == 1 {
			w("errmsg = errmsg + %s", evyQ(s.S))
		} else {
			w("errmsg = %s", evyQ(s.S))
		}
	case "setboth":
		if s.Form == 0 {
			w("err = %v", s.B)
			w("errmsg = %s", evyQ(s.S))
		} else {
			w("errmsg = %s", evyQ(s.S))
			w("err = %v", s.B)
		}
	case "probe":
		switch s.Form {
		case 1:
			w("e%d := err", s.ID)
			w("m%d := errmsg", s.ID)
			w("print \"P%d\" e%d (\"<\" + m%d + \">\")", s.ID, s.ID, s.ID)
		case 2:
			w("if err")
			w("    print \"P%d\" \"true\" (\"<\" + errmsg + \">\")", s.ID)
			w("else")
			w("    print \"P%d\" \"false\" (\"<\" + errmsg + \">\")", s.ID)
			w("end")
		case 3:
			w("show \"P%d\"", s.ID)
		case 4:
			w("print (sprintf \"P%d %%v <%%s>\" err errmsg)", s.ID)
		default:
			w("print \"P%d\" %s", s.ID, probeArgs())
		}
	case "block":
		switch s.Form {
		case 0:
			w("if gn == gn")
			renderSteps(b, s.Body, ind+"    ")
			w("end")
		case 1:
			w("if err")
			renderSteps(b, s.Body, ind+"    ")
			w("else")
			renderSteps(b, s.Else, ind+"    ")
			w("end")
		case 2:
			w("for range %d", s.Reps)
			renderSteps(b, s.Body, ind+"    ")
			w("end")
		default:
			w("w%d := 0", s.ID)
			w("while w%d < %d", s.ID, s.Reps)
			w("    w%d = w%d + 1", s.ID, s.ID)
			renderSteps(b, s.Body, ind+"    ")
			w("end")
		}
	case "call":
		f := s.Callee
		switch f.Kind {
		case "proc", "reset":
			w("%s", f.Name)
		case "conv", "checked":
			if f.Fn == "str2num" {
				w("gn = %s %s", f.Name, evyQ(s.A.S))
			} else {
				w("gb = %s %s", f.Name, evyQ(s.A.S))
			}
		case "fail":
			w("%s %s", f.Name, evyQ(s.S))
		}
	}
}

func renderFunc(b *strings.Builder, f *eFunc) {
	switch f.Kind {
	case "proc":
		fmt.Fprintf(b, "func %s\n", f.Name)
		renderSteps(b, f.Body, "    ")
		if len(f.Body) == 0 {
			b.WriteString("    gn = gn + 1\n")
		}
	case "conv":
		rt := map[bool]string{true: "num", false: "bool"}[f.Fn == "str2num"]
		fmt.Fprintf(b, "func %s:%s s:string\n", f.Name, rt)
		if f.Variant == 0 {
			fmt.Fprintf(b, "    return %s s\n", f.Fn)
		} else {
			fmt.Fprintf(b, "    v := %s s\n    return v\n", f.Fn)
		}
	case "checked":
		fmt.Fprintf(b, "func %s:num s:string\n    n := str2num s\n    if err\n        return 0\n    end\n    if n <= %s\n", f.Name, evyNum(f.Limit))
		if f.Variant%2 == 0 {
			fmt.Fprintf(b, "        err = true\n        errmsg = %s\n", evyQ(f.Msg))
		} else {
			fmt.Fprintf(b, "        errmsg = %s\n        err = true\n", evyQ(f.Msg))
		}
		b.WriteString("        return 0\n    end\n")
		if f.Variant >= 2 {
			b.WriteString("    err = false\n")
		}
		b.WriteString("    return n\n")
	case "fail":
		fmt.Fprintf(b, "func %s msg:string\n", f.Name)
		switch f.Variant {
		case 0:
			b.WriteString("    err = true\n    errmsg = msg\n")
		case 1:
			b.WriteString("    errmsg = msg\n    err = true\n")
		case 2:
			b.WriteString("    err = true\n    gs = msg\n")
		default:
			b.WriteString("    errmsg = msg\n")
		}
	case "reset":
		fmt.Fprintf(b, "func %s\n    err = false\n", f.Name)
		if f.Variant == 0 {
			b.WriteString("    errmsg = \"\"\n")
		}
	}
	b.WriteString("end\n")
}

func (p *eProg) Render() string {
	var b strings.Builder
	b.WriteString("gn := 0\ngb := false\ngs := \"\"\n")
	b.WriteString("func idn:num n:num\n    return n\nend\nfunc idb:bool v:bool\n    return v\nend\n")
	b.WriteString("func show id:string\n    print id " + probeArgs() + "\nend\n")
	for _, f := range p.Funcs {
		renderFunc(&b, f)
	}
	for _, h := range p.Handlers {
		switch h.Name {
		case "key":
			b.WriteString("on key k:string\n    gs = k\n")
		case "input":
			b.WriteString("on input id:string val:string\n    gs = id + val\n")
		default:
			b.WriteString("on down x:num y:num\n    gn = x + y\n")
		}
		renderSteps(&b, h.Body, "    ")
		b.WriteString("end\n")
	}
	renderSteps(&b, p.Main, "")
	b.WriteString("print gn gb gs\n")
	return b.String()
}

// Expected runs the documented protocol over the program and its events
func (p *eProg) Expected() []eExpect {
	st := &eState{ErrOp: "initial", MsgOp: "initial"}
	var out []eExpect
	execSteps(p.Main, st, &out)
	for _, e := range p.Events {
		for _, h := range p.Handlers {
			if h.Name == e.Name {
				st.Arg = e.Arg
				execSteps(h.Body, st, &out)
			}
		}
	}
	return out
}

// ---------- generation ----------

type eGen struct {
	rng   *rand.Rand
	id    int
	funcs []*eFunc
}

func (g *eGen) next() int { g.id++; return g.id }

func (g *eGen) arg(fn string) errArg {
	if fn == "str2num" {
		return c13pick(g.rng, c13ErrNums)
	}
	return c13pick(g.rng, c13ErrBools)
}

func (g *eGen) fn() string { return c13pick(g.rng, []string{"str2num", "str2bool"}) }

func (g *eGen) probe() *eStep {
	return &eStep{K: "probe", ID: g.next(), Form: c13pick(g.rng, []int{0, 0, 0, 1, 2, 3, 4})}
}

func (g *eGen) assign() *eStep {
	rng := g.rng
	switch rng.Intn(8) {
	case 0, 1:
		return &eStep{K: "seterr", B: rng.Intn(2) == 0}
	case 2:
		return &eStep{K: "seterr", Form: 1 + rng.Intn(2)}
	case 3, 4:
		return &eStep{K: "setmsg", S: c13pick(rng, append([]string{""}, c13UserMsgs...))}
	case 5:
		return &eStep{K: "setmsg", Form: 1, S: c13pick(rng, []string{"!", " (user)", ""})}
	}
	return &eStep{K: "setboth", Form: rng.Intn(2), B: rng.Intn(4) > 0, S: c13pick(rng, c13UserMsgs)}
}

func (g *eGen) conv() *eStep {
	fn := g.fn()
	s := &eStep{K: "conv", Fn: fn, A: g.arg(fn), A2: g.arg(fn), ID: g.next(), B: g.rng.Intn(2) == 0}
	s.Form = c13pick(g.rng, []int{0, 1, 1, 1, 2, 3, 4, 5, 6, 7, 8, 9, 10})
	return s
}

func (g *eGen) call(maxFunc int) *eStep {
	if maxFunc <= 0 {
		return g.conv()
	}
	f := g.funcs[g.rng.Intn(maxFunc)]
	s := &eStep{K: "call", Callee: f, S: c13pick(g.rng, c13UserMsgs)}
	if f.Fn != "" {
		s.A = g.arg(f.Fn)
	}
	return s
}

// steps: a list of n steps; after a conversion or call mostly a probe; callable functions are g.funcs[:maxFunc]
func (g *eGen) steps(n, depth, maxFunc int, inHandler string) []*eStep {
	rng := g.rng
	var l []*eStep
	for i := 0; i < n; i++ {
		switch k := rng.Intn(20); {
		case k < 7:
			l = append(l, g.conv())
			if rng.Intn(3) > 0 {
				l = append(l, g.probe())
			}
		case k < 11:
			l = append(l, g.assign())
			if rng.Intn(3) == 0 {
				l = append(l, g.probe())
			}
		case k < 14:
			l = append(l, g.probe())
		case k < 17:
			l = append(l, g.call(maxFunc))
			if rng.Intn(3) > 0 {
				l = append(l, g.probe())
			}
		case k < 19 && depth > 0:
			b := &eStep{K: "block", ID: g.next(), Form: rng.Intn(4), Reps: 1 + rng.Intn(3)}
			b.Body = g.steps(1+rng.Intn(3), depth-1, maxFunc, inHandler)
			if b.Form == 1 {
				b.Else = g.steps(1+rng.Intn(2), depth-1, maxFunc, inHandler)
			}
			l = append(l, b)
		default:
			if inHandler == "key" || inHandler == "input" {
				l = append(l, &eStep{K: "paramconv", Fn: g.fn(), S: map[string]string{"key": "k", "input": "val"}[inHandler]}, g.probe())
			} else {
				l = append(l, g.assign(), g.conv(), g.probe())
			}
		}
	}
	return l
}

func genErrProg(rng *rand.Rand) *eProg {
	g := &eGen{rng: rng}
	p := &eProg{}
	nf := rng.Intn(5)
	for i := 0; i < nf; i++ {
		f := &eFunc{Name: fmt.Sprintf("f%d", i)}
		switch rng.Intn(6) {
		case 0, 1:
			f.Kind = "proc"
			f.Body = g.steps(1+rng.Intn(4), 1, len(g.funcs), "")
		case 2:
			f.Kind, f.Fn, f.Variant = "conv", g.fn(), rng.Intn(2)
		case 3:
			f.Kind, f.Fn, f.Variant, f.Limit, f.Msg = "checked", "str2num", rng.Intn(4), c13pick(rng, []float64{0, 5, -3, 50}), c13pick(rng, c13UserMsgs)
		case 4:
			f.Kind, f.Variant = "fail", rng.Intn(4)
		default:
			f.Kind, f.Variant = "reset", rng.Intn(2)
		}
		g.funcs = append(g.funcs, f)
	}
	p.Funcs = g.funcs
	if rng.Intn(3) == 0 {
		names := []string{"key", "input", "down"}
		rng.Shuffle(len(names), func(i, j int) { names[i], names[j] = names[j], names[i] })
		for _, n := range names[:1+rng.Intn(2)] {
			p.Handlers = append(p.Handlers, &eHandler{Name: n, Body: g.steps(1+rng.Intn(4), 1, len(g.funcs), n)})
		}
		ne := 1 + rng.Intn(4)
		for i := 0; i < ne; i++ {
			h := c13pick(rng, p.Handlers)
			p.Events = append(p.Events, eEvent{Name: h.Name, Arg: c13pick(rng, append(append([]errArg(nil), c13ErrNums...), c13ErrBools...))})
		}
	}
	p.Main = g.steps(3+rng.Intn(8), 2, len(g.funcs), "")
	p.Main = append(p.Main, g.probe())
	return p
}

func (p *eProg) semEvents() []SemEvent {
	var l []SemEvent
	for _, e := range p.Events {
		switch e.Name {
		case "key":
			l = append(l, SemEvent{Name: "key", Params: []any{e.Arg.S}})
		case "input":
			l = append(l, SemEvent{Name: "input", Params: []any{"id", e.Arg.S}})
		default:
			l = append(l, SemEvent{Name: "down", Params: []any{1.0, 2.0}})
		}
	}
	return l
}

// ---------- the check ----------

// c13ErrHistories runs n generated programs through the evaluator model and through the documented-protocol oracle
func c13ErrHistories(n int, rng *rand.Rand, sem *Model, r *Result) {
	for i := 0; i < n; i++ {
		p := genErrProg(rng)
		src := p.Render()
		o := SemOpts{StopAt: -1, YieldBudget: 50000, Events: p.semEvents()}
		want := p.Expected()
		d := semCase(sem, r, src, o, len(want) > 1, "err-history:")
		r.Dist(fmt.Sprintf("err-history:probes:%d", min(len(want)/5*5, 30)))
		input := map[string]any{"program": src, "events": o.Events, "origin": "err-history"}
		viol := func(key, detail string) {
			r.Violate(Violation{Kind: "property", Key: key, Detail: detail, Input: input, Impl: d.Impl.Phases})
		}
		if d.Impl.ParseErr != "" {
			// the generator only writes programs of the documented language
			viol("err-history:program-rejected", "a program that assigns and reads err/errmsg around conversions is rejected: "+d.Impl.ParseErr)
			continue
		}
		bad := ""
		var got []string
		for _, ph := range d.Impl.Phases {
			if ph.Class != "ok" && bad == "" {
				bad = ph.Class
			}
			for _, t := range ph.Trace {
				if strings.HasPrefix(t, "print:P") {
					got = append(got, strings.TrimSuffix(strings.TrimPrefix(t, "print:"), "\n"))
				}
			}
		}
		if bad != "" {
			viol("err-history:bad-outcome:"+bad, "a program of conversions and assignments to err/errmsg ended with "+bad+" "+d.Impl.GoPanic)
			continue
		}
		if len(got) != len(want) {
			viol("err-history:probe-count", fmt.Sprintf("the program printed %d probes, the documented execution has %d", len(got), len(want)))
			continue
		}
		for k, w := range want {
			head, rest, _ := strings.Cut(got[k], " ")
			eb, msg, _ := strings.Cut(rest, " ")
			if head != fmt.Sprintf("P%d", w.ID) || len(msg) < 2 || msg[0] != '<' || msg[len(msg)-1] != '>' {
				viol("err-history:probe-order", fmt.Sprintf("probe %d of the run is %q, expected probe P%d", k, got[k], w.ID))
				break
			}
			msg = msg[1 : len(msg)-1]
			if eb != strconv.FormatBool(w.Err) {
				viol("err-history:err-after-"+w.ErrOp, fmt.Sprintf("probe P%d (number %d of the run): err is %s; the documented protocol (last writer of err: %s) gives %v", w.ID, k, eb, w.ErrOp, w.Err))
				break
			}
			okMsg := msg == w.Msg
			wantText := strconv.Quote(w.Msg)
			if w.Builtin {
				// a message "that describes the error", written by the failed conversion, followed by what the program appended
				pre := strings.TrimSuffix(msg, w.Msg)
				okMsg = strings.HasSuffix(msg, w.Msg) && pre != "" && !strings.HasPrefix(pre, "u") && strings.Contains(pre, "str2")
				wantText = "the failed conversion's message + " + wantText
			}
			if !okMsg {
				viol("err-history:errmsg-after-"+w.MsgOp, fmt.Sprintf("probe P%d (number %d of the run): errmsg is %q; the documented protocol (last writer of errmsg: %s) gives %s", w.ID, k, msg, w.MsgOp, wantText))
				break
			}
		}
	}
}
