package main

// Translator piece for C19: reads pkg/cli/svg/runtime.go of the evy module the
// harness is built against (go/ast) and writes coq/Gen/SvgConsts.v: canvas
// size, scale factor, the default pen (defaultAttr), the default font
// (defaultTextAttr), the attributes NewGraphicsPlatform puts on the <svg> root
// and the constants of Clear and Gridn.  The model Svg.v imports these instead
// of hard-coding them, so a changed default re-checks the C19 proofs.

import (
	"fmt"
	"go/ast"
	"go/parser"
	"go/token"
	"math"
	"os"
	"path/filepath"
	"runtime/debug"
	"strconv"
	"strings"
)

// c19EvyRepoDir is the directory of the evylang.dev/evy module this binary was
// built against (the replace target in go.mod), or VERIF_REPO.
func c19EvyRepoDir() string {
	if p := os.Getenv("VERIF_REPO"); p != "" {
		return p
	}
	if bi, ok := debug.ReadBuildInfo(); ok {
		for _, d := range bi.Deps {
			if d.Path == "evylang.dev/evy" && d.Replace != nil && d.Replace.Path != "" {
				return d.Replace.Path
			}
		}
	}
	return "/repo"
}

type svgConsts struct {
	ints                    map[string]int64   // const ( name = int )
	floats                  map[string]float64 // var name = float
	structs                 map[string]map[string]ast.Expr
	root                    map[string]map[string]ast.Expr // "Attr"/"TextAttr" literal inside SVG{...} in NewGraphicsPlatform
	clearDefault, clearSize string
	gridThick, gridBound    float64
	gridEvery               int64
}

func litString(e ast.Expr) (string, bool) {
	if bl, ok := e.(*ast.BasicLit); ok && bl.Kind == token.STRING {
		s, err := strconv.Unquote(bl.Value)
		return s, err == nil
	}
	return "", false
}

func litFloat(e ast.Expr) (float64, bool) {
	if bl, ok := e.(*ast.BasicLit); ok && (bl.Kind == token.FLOAT || bl.Kind == token.INT) {
		f, err := strconv.ParseFloat(bl.Value, 64)
		return f, err == nil
	}
	return 0, false
}

func kvMap(cl *ast.CompositeLit) map[string]ast.Expr {
	m := map[string]ast.Expr{}
	for _, el := range cl.Elts {
		if kv, ok := el.(*ast.KeyValueExpr); ok {
			if id, ok := kv.Key.(*ast.Ident); ok {
				m[id.Name] = kv.Value
			}
		}
	}
	return m
}

func readSvgConsts(file string) (*svgConsts, error) {
	fset := token.NewFileSet()
	f, err := parser.ParseFile(fset, file, nil, 0)
	if err != nil {
		return nil, err
	}
	c := &svgConsts{ints: map[string]int64{}, floats: map[string]float64{}, structs: map[string]map[string]ast.Expr{}, root: map[string]map[string]ast.Expr{}}
	for _, d := range f.Decls {
		switch d := d.(type) {
		case *ast.GenDecl:
			for _, sp := range d.Specs {
				vs, ok := sp.(*ast.ValueSpec)
				if !ok {
					continue
				}
				for i, n := range vs.Names {
					if i >= len(vs.Values) {
						continue
					}
					switch v := vs.Values[i].(type) {
					case *ast.BasicLit:
						if v.Kind == token.INT && d.Tok == token.CONST {
							x, _ := strconv.ParseInt(v.Value, 0, 64)
							c.ints[n.Name] = x
						} else if fl, ok := litFloat(v); ok {
							c.floats[n.Name] = fl
						}
					case *ast.CompositeLit:
						c.structs[n.Name] = kvMap(v)
					case *ast.BinaryExpr: // e.g. maxGridRounds = evyWidth * scaleFactor * 10
						if d.Tok == token.CONST {
							if x, ok := c.intExpr(v); ok {
								c.ints[n.Name] = x
							}
						}
					}
				}
			}
		case *ast.FuncDecl:
			switch d.Name.Name {
			case "NewGraphicsPlatform":
				ast.Inspect(d.Body, func(n ast.Node) bool {
					cl, ok := n.(*ast.CompositeLit)
					if !ok {
						return true
					}
					if id, ok := cl.Type.(*ast.Ident); ok && id.Name == "SVG" {
						for k, v := range kvMap(cl) {
							if sub, ok := v.(*ast.CompositeLit); ok {
								c.root[k] = kvMap(sub)
							} else {
								c.root[k] = map[string]ast.Expr{"": v}
							}
						}
					}
					return true
				})
			case "Clear":
				ast.Inspect(d.Body, func(n ast.Node) bool {
					switch n := n.(type) {
					case *ast.AssignStmt: // color = "white"
						if len(n.Lhs) == 1 && len(n.Rhs) == 1 {
							if id, ok := n.Lhs[0].(*ast.Ident); ok && id.Name == "color" {
								if s, ok := litString(n.Rhs[0]); ok {
									c.clearDefault = s
								}
							}
						}
					case *ast.KeyValueExpr:
						if id, ok := n.Key.(*ast.Ident); ok && id.Name == "Width" {
							if s, ok := litString(n.Value); ok {
								c.clearSize = s
							}
						}
					}
					return true
				})
			case "Gridn":
				ast.Inspect(d.Body, func(n ast.Node) bool {
					switch n := n.(type) {
					case *ast.AssignStmt:
						if len(n.Lhs) == 1 && len(n.Rhs) == 1 {
							if id, ok := n.Lhs[0].(*ast.Ident); ok && strings.HasPrefix(id.Name, "thick") {
								if fl, ok := litFloat(n.Rhs[0]); ok {
									c.gridThick = fl
								}
							}
						}
					case *ast.ForStmt:
						if be, ok := n.Cond.(*ast.BinaryExpr); ok && be.Op == token.LEQ {
							if fl, ok := litFloat(be.Y); ok {
								c.gridBound = fl
							}
						}
					case *ast.BinaryExpr:
						if n.Op == token.LEQ { // `i <= 1000`, as loop condition or inside `if !(i <= 1000)`
							if fl, ok := litFloat(n.Y); ok {
								c.gridBound = fl
							}
						}
						if n.Op == token.REM {
							if fl, ok := litFloat(n.Y); ok {
								c.gridEvery = int64(fl)
							}
						}
					}
					return true
				})
			}
		}
	}
	return c, nil
}

// intExpr evaluates a constant expression built from integer literals, already
// known integer constants and * + -.
func (c *svgConsts) intExpr(e ast.Expr) (int64, bool) {
	switch e := e.(type) {
	case *ast.BasicLit:
		if e.Kind == token.INT {
			x, err := strconv.ParseInt(e.Value, 0, 64)
			return x, err == nil
		}
	case *ast.Ident:
		x, ok := c.ints[e.Name]
		return x, ok
	case *ast.ParenExpr:
		return c.intExpr(e.X)
	case *ast.BinaryExpr:
		a, ok1 := c.intExpr(e.X)
		b, ok2 := c.intExpr(e.Y)
		if ok1 && ok2 {
			switch e.Op {
			case token.MUL:
				return a * b, true
			case token.ADD:
				return a + b, true
			case token.SUB:
				return a - b, true
			}
		}
	}
	return 0, false
}

// minGridUnit of pkg/evaluator/builtin.go (the smallest unit gridnFunc accepts), if declared.
func readMinGridUnit(file string) (float64, bool) {
	f, err := parser.ParseFile(token.NewFileSet(), file, nil, 0)
	if err != nil {
		return 0, false
	}
	for _, d := range f.Decls {
		gd, ok := d.(*ast.GenDecl)
		if !ok {
			continue
		}
		for _, sp := range gd.Specs {
			if vs, ok := sp.(*ast.ValueSpec); ok {
				for i, n := range vs.Names {
					if n.Name == "minGridUnit" && i < len(vs.Values) {
						return litFloat(vs.Values[i])
					}
				}
			}
		}
	}
	return 0, false
}

func c19CoqStr(s string) string {
	parts := []string{}
	for _, r := range s {
		parts = append(parts, fmt.Sprintf("%d%%N", r))
	}
	return "[" + strings.Join(parts, "; ") + "]"
}

func coqFloat(f float64) string {
	return fmt.Sprintf("ltac:(let v := eval vm_compute in (float_of_bits %d%%Z) in exact v)", math.Float64bits(f))
}

// resolve a field expression of a struct literal to a string / float:
// literals, &name (pointer to a float var), defaultX.Field selectors.
func (c *svgConsts) strField(e ast.Expr) (string, error) {
	if e == nil {
		return "", nil
	}
	if s, ok := litString(e); ok {
		return s, nil
	}
	if se, ok := e.(*ast.SelectorExpr); ok {
		if id, ok := se.X.(*ast.Ident); ok {
			if st, ok := c.structs[id.Name]; ok {
				return c.strField(st[se.Sel.Name])
			}
		}
	}
	return "", fmt.Errorf("unsupported string expression %T", e)
}

func (c *svgConsts) floatField(e ast.Expr) (float64, bool, error) {
	if e == nil {
		return 0, false, nil
	}
	if ue, ok := e.(*ast.UnaryExpr); ok && ue.Op == token.AND {
		if id, ok := ue.X.(*ast.Ident); ok {
			if f, ok := c.floats[id.Name]; ok {
				return f, true, nil
			}
		}
	}
	if se, ok := e.(*ast.SelectorExpr); ok {
		if id, ok := se.X.(*ast.Ident); ok {
			if st, ok := c.structs[id.Name]; ok {
				return c.floatField(st[se.Sel.Name])
			}
		}
	}
	return 0, false, fmt.Errorf("unsupported float expression %T", e)
}

func genSvgConsts(dir string) error {
	file := filepath.Join(c19EvyRepoDir(), "pkg", "cli", "svg", "runtime.go")
	c, err := readSvgConsts(file)
	if err != nil {
		return err
	}
	var b strings.Builder
	b.WriteString("(* GENERATED by harness/gen_svg.go from pkg/cli/svg/runtime.go — do not edit. *)\n")
	b.WriteString("From Coq Require Import ZArith NArith List Floats.\nFrom EvyV Require Import Base.\nImport ListNotations.\n\n")
	for _, n := range []string{"evyWidth", "evyHeight", "scaleFactor"} {
		v, ok := c.ints[n]
		if !ok {
			return fmt.Errorf("gen_svg: constant %s not found", n)
		}
		fmt.Fprintf(&b, "Definition c_%s : Z := %d%%Z.\n", n, v)
	}
	da, ok := c.structs["defaultAttr"]
	if !ok {
		return fmt.Errorf("gen_svg: defaultAttr not found")
	}
	for _, f := range []string{"Fill", "Stroke", "StrokeLinecap", "StrokeDashArray"} {
		s, err := c.strField(da[f])
		if err != nil {
			return fmt.Errorf("gen_svg: defaultAttr.%s: %v", f, err)
		}
		if f == "StrokeDashArray" {
			if s != "" {
				return fmt.Errorf("gen_svg: the model assumes defaultAttr.StrokeDashArray == \"\", found %q", s)
			}
			continue
		}
		fmt.Fprintf(&b, "Definition default_%s : str := %s. (* %q *)\n", f, c19CoqStr(s), s)
	}
	sw, ok2, err := c.floatField(da["StrokeWidth"])
	if err != nil || !ok2 {
		return fmt.Errorf("gen_svg: defaultAttr.StrokeWidth: %v", err)
	}
	fmt.Fprintf(&b, "Definition default_StrokeWidth : float := %s. (* %v *)\n", coqFloat(sw), sw)

	dt, ok := c.structs["defaultTextAttr"]
	if !ok {
		return fmt.Errorf("gen_svg: defaultTextAttr not found")
	}
	for _, f := range []string{"TextAnchor", "Baseline", "FontStyle", "FontFamily"} {
		s, err := c.strField(dt[f])
		if err != nil {
			return fmt.Errorf("gen_svg: defaultTextAttr.%s: %v", f, err)
		}
		fmt.Fprintf(&b, "Definition default_%s : str := %s. (* %q *)\n", f, c19CoqStr(s), s)
	}
	for _, f := range []string{"FontSize", "FontWeight"} {
		v, ok, err := c.floatField(dt[f])
		if err != nil || !ok {
			return fmt.Errorf("gen_svg: defaultTextAttr.%s: %v", f, err)
		}
		fmt.Fprintf(&b, "Definition default_%s : float := %s. (* %v *)\n", f, coqFloat(v), v)
	}
	ls, err := c.strField(dt["LetterSpacing"])
	if err != nil {
		return err
	}
	lsv, err := strconv.ParseFloat(ls, 64)
	if err != nil || strconv.FormatFloat(lsv, 'f', -1, 64) != ls {
		return fmt.Errorf("gen_svg: defaultTextAttr.LetterSpacing %q is not the ftoa image of a number", ls)
	}
	fmt.Fprintf(&b, "Definition default_LetterSpacing : float := %s. (* %q *)\n", coqFloat(lsv), ls)

	// root element: SVG{ Attr: Attr{...}, TextAttr: TextAttr{...} }
	ra, rt := c.root["Attr"], c.root["TextAttr"]
	for _, f := range []string{"Fill", "Stroke", "StrokeLinecap", "StrokeDashArray"} {
		s, err := c.strField(ra[f])
		if err != nil {
			return fmt.Errorf("gen_svg: root Attr.%s: %v", f, err)
		}
		if f == "StrokeDashArray" {
			if s != "" {
				return fmt.Errorf("gen_svg: the model assumes no stroke-dasharray on the root element")
			}
			continue
		}
		fmt.Fprintf(&b, "Definition root_%s : str := %s. (* %q *)\n", f, c19CoqStr(s), s)
	}
	optFloat := func(name string, e ast.Expr) error {
		v, ok, err := c.floatField(e)
		if err != nil {
			return fmt.Errorf("gen_svg: root %s: %v", name, err)
		}
		if ok {
			fmt.Fprintf(&b, "Definition root_%s : option float := Some (%s). (* %v *)\n", name, coqFloat(v), v)
		} else {
			fmt.Fprintf(&b, "Definition root_%s : option float := None.\n", name)
		}
		return nil
	}
	if err := optFloat("StrokeWidth", ra["StrokeWidth"]); err != nil {
		return err
	}
	for _, f := range []string{"TextAnchor", "Baseline", "FontStyle", "FontFamily", "LetterSpacing"} {
		s, err := c.strField(rt[f])
		if err != nil {
			return fmt.Errorf("gen_svg: root TextAttr.%s: %v", f, err)
		}
		if f == "LetterSpacing" && s != "" {
			return fmt.Errorf("gen_svg: the model assumes no letter-spacing on the root element")
		}
		if f != "LetterSpacing" {
			fmt.Fprintf(&b, "Definition root_%s : str := %s. (* %q *)\n", f, c19CoqStr(s), s)
		}
	}
	if err := optFloat("FontSize", rt["FontSize"]); err != nil {
		return err
	}
	if err := optFloat("FontWeight", rt["FontWeight"]); err != nil {
		return err
	}
	if c.clearDefault == "" || c.clearSize == "" || c.gridThick == 0 || c.gridBound == 0 || c.gridEvery == 0 {
		return fmt.Errorf("gen_svg: Clear/Gridn constants not found (%q %q %v %v %v)", c.clearDefault, c.clearSize, c.gridThick, c.gridBound, c.gridEvery)
	}
	fmt.Fprintf(&b, "Definition clear_default_color : str := %s. (* %q *)\n", c19CoqStr(c.clearDefault), c.clearDefault)
	fmt.Fprintf(&b, "Definition clear_size : str := %s. (* %q *)\n", c19CoqStr(c.clearSize), c.clearSize)
	fmt.Fprintf(&b, "Definition grid_thick_width : float := %s. (* %v *)\n", coqFloat(c.gridThick), c.gridThick)
	fmt.Fprintf(&b, "Definition grid_bound : float := %s. (* %v *)\n", coqFloat(c.gridBound), c.gridBound)
	fmt.Fprintf(&b, "Definition grid_thick_every : nat := %d.\n", c.gridEvery)
	// constants of the gridn bound (proposed_fixes/C19-gridn-tiny-unit.diff): read from the
	// source when they are there, otherwise the values the proposed fix introduces
	if x, ok := c.ints["maxGridRounds"]; ok {
		fmt.Fprintf(&b, "Definition grid_max_rounds : Z := %d%%Z. (* runtime.go maxGridRounds *)\n", x)
		fmt.Fprintf(&b, "Definition grid_bound_in_source : bool := true.\n")
	} else {
		fmt.Fprintf(&b, "Definition grid_max_rounds : Z := %d%%Z. (* not in runtime.go: value of the proposed fix, evyWidth*scaleFactor*10 *)\n", c.ints["evyWidth"]*c.ints["scaleFactor"]*10)
		fmt.Fprintf(&b, "Definition grid_bound_in_source : bool := false.\n")
	}
	if mu, ok := readMinGridUnit(filepath.Join(c19EvyRepoDir(), "pkg", "evaluator", "builtin.go")); ok {
		fmt.Fprintf(&b, "Definition grid_min_unit : float := %s. (* builtin.go minGridUnit = %v *)\n", coqFloat(mu), mu)
	} else {
		fmt.Fprintf(&b, "Definition grid_min_unit : float := %s. (* not in builtin.go: value of the proposed fix, 0.01 *)\n", coqFloat(0.01))
	}
	return os.WriteFile(filepath.Join(dir, "SvgConsts.v"), []byte(b.String()), 0o644)
}

func init() { generators = append(generators, genSvgConsts) }
