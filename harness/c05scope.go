package main

// C05 — scope trees: the "undeclared variable" rule at every RELATIVE position of declaration and use.
//
// A random tree of blocks is generated: if / else-if* / else? chains (every branch its own block), while and
// for loops, function and handler bodies, nested to any depth.  One statement position D gets a declaration of a
// fresh variable together with a read of it (same block, right after it: a valid program, the variable is
// used).  One edit adds a second read at a position U of the tree where the variable is NOT in scope:
//
//	a later / an earlier sibling branch of the same chain, the condition of a later / an earlier `else if` of the
//	chain, the `else` block, after the chain / loop / function that contains D, before D in the same block, the
//	condition of the loop whose body declares it, an unrelated block, another function.
//
// The read is a statement (`print v`, `v = 5`, an operand) or, at an `else if` / `while` header, the condition.
// Every such mutant breaks exactly the rule "undeclared variable" (the name is unique in the program).  Reads at
// positions where the variable IS in scope (later in D's block, nested blocks included) and same-named
// declarations in sibling blocks (shadow-free re-use of a name, which is legal) are added to the valid bases, which
// go through the parser model (harness/c05rules.go) like all other bases.
//
// The visibility relation used here is the one of the specification (block scoping): a declaration is visible from
// its statement to the end of its block, nested blocks included.  Top-level declarations are never picked as D
// when the use is inside a function or handler (globals are visible there whatever the order).

import (
	"fmt"
	"math/rand"
	"strings"
)

type scSlot struct {
	path   []int // ids of the enclosing blocks, outermost first (0 = top level)
	line   int   // the slot is BEFORE this line (statement slot) or IS this header line (condition slot)
	indent int
	cond   string // "" statement slot; "else if" / "while": the header line whose condition is replaced
	chain  int    // condition slots: the chain (or loop) the header belongs to
	branch int    // condition slots: index of the branch in the chain
}

type scTree struct {
	rng      *rand.Rand
	lines    []string
	slots    []scSlot
	nblock   int
	nchain   int
	chainOf  map[int]int    // block id -> chain id (branches of one if statement share it; loops: their own)
	branchOf map[int]int    // block id -> index of the branch inside its chain
	kindOf   map[int]string // block id -> if | else-if | else | while | for | func | on
	events   []string
}

func (t *scTree) emit(ind int, s string) { t.lines = append(t.lines, strings.Repeat("    ", ind)+s) }

func (t *scTree) slot(path []int, ind int) {
	t.slots = append(t.slots, scSlot{path: append([]int(nil), path...), line: len(t.lines), indent: ind})
}

func (t *scTree) newBlock(kind string, chain, branch int) int {
	t.nblock++
	t.chainOf[t.nblock], t.branchOf[t.nblock], t.kindOf[t.nblock] = chain, branch, kind
	return t.nblock
}

// block emits the statements of one block: slots around 1..3 items.
func (t *scTree) block(path []int, ind, depth int) {
	rng := t.rng
	t.slot(path, ind)
	for k := 1 + rng.Intn(3); k > 0; k-- {
		c := rng.Intn(10)
		switch {
		case depth > 0 && c < 5: // if chain
			t.nchain++
			ch := t.nchain
			nb := 0
			t.emit(ind, fmt.Sprintf("if c == %d", 100+ch))
			t.block(append(path, t.newBlock("if", ch, nb)), ind+1, depth-1)
			for j := rng.Intn(4); j > 0; j-- {
				nb++
				t.slots = append(t.slots, scSlot{path: append([]int(nil), path...), line: len(t.lines), indent: ind, cond: "else if", chain: ch, branch: nb})
				t.emit(ind, fmt.Sprintf("else if c == %d", nb))
				t.block(append(path, t.newBlock("else-if", ch, nb)), ind+1, depth-1)
			}
			if rng.Intn(3) > 0 {
				nb++
				t.emit(ind, "else")
				t.block(append(path, t.newBlock("else", ch, nb)), ind+1, depth-1)
			}
			t.emit(ind, "end")
		case depth > 0 && c < 6:
			t.nchain++
			t.slots = append(t.slots, scSlot{path: append([]int(nil), path...), line: len(t.lines), indent: ind, cond: "while", chain: t.nchain})
			t.emit(ind, fmt.Sprintf("while c > %d", 1000+t.nchain))
			t.block(append(path, t.newBlock("while", t.nchain, 0)), ind+1, depth-1)
			t.emit(ind, "end")
		case depth > 0 && c < 7:
			t.nchain++
			t.emit(ind, "for range "+[]string{"2", "[1 2]", `"ab"`}[rng.Intn(3)])
			t.block(append(path, t.newBlock("for", t.nchain, 0)), ind+1, depth-1)
			t.emit(ind, "end")
		default:
			t.emit(ind, fmt.Sprintf("print \"p%d\" c", len(t.lines)))
		}
		t.slot(path, ind)
	}
}

func genScopeTree(rng *rand.Rand) *scTree {
	t := &scTree{rng: rng, chainOf: map[int]int{}, branchOf: map[int]int{}, kindOf: map[int]string{}, events: []string{"key", "down", "animate"}}
	t.emit(0, "c := 2")
	var calls []string
	for k := rng.Intn(3); k > 0; k-- { // functions and handlers first (their bodies see the global c)
		if rng.Intn(3) > 0 {
			fn := fmt.Sprintf("fn%d", len(calls))
			calls = append(calls, fn)
			t.emit(0, "func "+fn)
			t.nchain++
			t.block([]int{0, t.newBlock("func", t.nchain, 0)}, 1, 1+rng.Intn(2))
			t.emit(0, "end")
		} else if len(t.events) > 0 {
			e := t.events[0]
			t.events = t.events[1:]
			t.emit(0, "on "+e)
			t.nchain++
			t.block([]int{0, t.newBlock("on", t.nchain, 0)}, 1, 1+rng.Intn(2))
			t.emit(0, "end")
		}
	}
	t.block([]int{0}, 0, 1+rng.Intn(3))
	for _, c := range calls {
		t.emit(0, c)
	}
	return t
}

func isPrefix(a, b []int) bool {
	if len(a) > len(b) {
		return false
	}
	for i := range a {
		if a[i] != b[i] {
			return false
		}
	}
	return true
}

// inFunc tells whether the slot lies in a function / handler body.
func (t *scTree) inFunc(s scSlot) bool {
	return len(s.path) > 1 && (t.kindOf[s.path[1]] == "func" || t.kindOf[s.path[1]] == "on")
}

// visible: is a variable declared at statement slot d in scope at slot u?
func (t *scTree) visible(d, u scSlot) bool {
	if !isPrefix(d.path, u.path) {
		return false
	}
	if u.cond != "" {
		return u.line >= d.line // the header comes after the declaration (both in / under d's block)
	}
	return u.line >= d.line
}

// relation classifies u relative to d (for the violation key / distribution).
func (t *scTree) relation(d, u scSlot) string {
	k := 0
	for k < len(d.path) && k < len(u.path) && d.path[k] == u.path[k] {
		k++
	}
	dk := t.kindOf[d.path[len(d.path)-1]]
	if len(d.path) == 1 {
		dk = "top"
	}
	where := "statement"
	if u.cond != "" {
		where = u.cond + "-condition"
	}
	rel := ""
	switch {
	case k == len(d.path): // u in d's block or below it, but earlier
		rel = "before-declaration"
	case u.cond != "" && k == len(u.path) && t.chainOf[d.path[k]] == u.chain:
		// a header of the chain / loop that (transitively) contains d
		if t.kindOf[d.path[k]] == "while" {
			rel = "own-loop-header"
		} else if u.branch > t.branchOf[d.path[k]] {
			rel = "later-sibling"
		} else {
			rel = "earlier-or-own-header"
		}
	case k < len(u.path) && t.chainOf[d.path[k]] == t.chainOf[u.path[k]]:
		if t.branchOf[u.path[k]] > t.branchOf[d.path[k]] {
			rel = "later-sibling-branch:" + t.kindOf[u.path[k]]
		} else {
			rel = "earlier-sibling-branch"
		}
	case k == len(u.path):
		if u.line > d.line {
			rel = "after-enclosing-block"
		} else {
			rel = "before-enclosing-block"
		}
	default:
		rel = "unrelated-block"
	}
	return "scope|decl-in:" + dk + "|" + where + "|" + rel
}

// render writes the tree with the declaration (+ its read) at slot d and extra statements / a replaced condition.
func (t *scTree) render(v string, d int, extra map[int][]string, cond map[int]string) string {
	bySlotLine := map[int][]string{}
	put := func(s scSlot, l string) {
		bySlotLine[s.line] = append(bySlotLine[s.line], strings.Repeat("    ", s.indent)+l)
	}
	// order at one line: slots were recorded in source order; several slots can share a line only through empty
	// insertion points of different depth - a statement slot is unique per (line) except right before `end`/`else`
	for i, s := range t.slots {
		if s.cond != "" {
			continue
		}
		if i == d {
			put(s, v+" := 1")
			put(s, "print \"decl\" "+v)
		}
		for _, l := range extra[i] {
			put(s, l)
		}
	}
	condAt := map[int]string{}
	for i, c := range cond {
		condAt[t.slots[i].line] = c
	}
	var b strings.Builder
	for i := 0; i <= len(t.lines); i++ {
		for _, l := range bySlotLine[i] {
			b.WriteString(l + "\n")
		}
		if i < len(t.lines) {
			l := t.lines[i]
			if c, ok := condAt[i]; ok {
				tr := strings.TrimLeft(l, " ")
				kw := "while "
				if strings.HasPrefix(tr, "else if ") {
					kw = "else if "
				}
				l = l[:len(l)-len(tr)] + kw + c
			}
			b.WriteString(l + "\n")
		}
	}
	return b.String()
}

// c05ScopeMutants returns valid bases (all must be accepted) and undeclared-variable mutants.
func c05ScopeMutants(cfg Config, n int) (valid []string, out []c05Mutant) {
	rng := cfg.Rng
	for i := 0; i < n; i++ {
		t := genScopeTree(rng)
		v := fmt.Sprintf("sv%d", i)
		// statement slots; two slots on the same line (a block's last slot and ... ) cannot happen: each slot is
		// followed by a line of its own block or the block's terminator
		var stmtSlots, chainSlots []int
		for j, s := range t.slots {
			if s.cond != "" {
				continue
			}
			stmtSlots = append(stmtSlots, j)
			if k := t.kindOf[s.path[len(s.path)-1]]; len(s.path) > 1 && (k == "else-if" || k == "if" || k == "else") {
				chainSlots = append(chainSlots, j)
			}
		}
		d := stmtSlots[rng.Intn(len(stmtSlots))]
		if len(chainSlots) > 0 && rng.Intn(4) > 0 {
			d = chainSlots[rng.Intn(len(chainSlots))] // mostly: declared inside a branch of a chain
		}
		ds := t.slots[d]
		valid = append(valid, t.render(v, d, nil, nil))
		var sib, other, vis []int
		for j, u := range t.slots {
			if j == d {
				continue
			}
			if u.cond == "" && u.line == ds.line {
				continue // another slot at the same text position (not distinguishable in the text)
			}
			if len(ds.path) == 1 && t.inFunc(u) {
				continue // a global read inside a function: visible whatever the order
			}
			if t.visible(ds, u) {
				if u.cond == "" {
					vis = append(vis, j)
				}
				continue
			}
			if strings.Contains(t.relation(ds, u), "sibling") {
				sib = append(sib, j)
			} else {
				other = append(other, j)
			}
		}
		rng.Shuffle(len(sib), func(a, b int) { sib[a], sib[b] = sib[b], sib[a] })
		rng.Shuffle(len(other), func(a, b int) { other[a], other[b] = other[b], other[a] })
		picks := append([]int{}, sib...)
		picks = append(picks, other...)
		if cfg.Tier != "thorough" {
			if len(sib) > 4 {
				sib = sib[:4]
			}
			if len(other) > 2 {
				other = other[:2]
			}
			picks = append(append([]int{}, sib...), other...)
		}
		for _, j := range picks {
			u := t.slots[j]
			pos := t.relation(ds, u)
			if u.cond != "" {
				c := []string{v + " == 1", v + " > 0", "c == " + v, "c > 5 or " + v + " == 1"}[rng.Intn(4)]
				out = append(out, c05Mutant{Src: t.render(v, d, nil, map[int]string{j: c}), Rule: "undeclared-variable", Pos: pos})
				continue
			}
			use := [][]string{{"print " + v}, {v + " = 5"}, {"print c + " + v}, {"w" + v + " := " + v + " + 1", "print w" + v},
				{"if " + v + " == 1", "    print \"in\"", "end"}, {"for range " + v, "    print \"l\"", "end"}}[rng.Intn(6)]
			out = append(out, c05Mutant{Src: t.render(v, d, map[int][]string{j: use}, nil), Rule: "undeclared-variable", Pos: pos})
		}
		// still valid: a read where the variable is in scope; the same name declared (and read) in another block
		if len(vis) > 0 {
			j := vis[rng.Intn(len(vis))]
			valid = append(valid, t.render(v, d, map[int][]string{j: {"print \"again\" " + v}}, nil))
		}
		if all := append(append([]int{}, sib...), other...); len(all) > 0 {
			j := all[rng.Intn(len(all))]
			if u := t.slots[j]; u.cond == "" && !isPrefix(u.path, ds.path) {
				valid = append(valid, t.render(v, d, map[int][]string{j: {v + " := \"other\"", "print " + v}}, nil))
			}
		}
	}
	return valid, out
}
