package main

import (
	"fmt"
	"strings"
)

// c11InPlaceStrings: the index and slice laws on the one string that is updated in place — the built-in
// errmsg — read directly (not through a copy) between updates of different lengths; compared with the
// evaluator model (coq/Sem.v), where a string is its code points and nothing is cached.
func c11InPlaceStrings(cfg Config, r *Result) {
	model := startSem(r)
	if model == nil {
		return
	}
	defer model.Close()
	bad := []string{"abc", "x", "héllo wörld", "", "zz top", "日本語", "q"}
	n := cfg.N(150, 3000)
	for i := 0; i < n; i++ {
		var b strings.Builder
		steps := 2 + cfg.Rng.Intn(5)
		for j := 0; j < steps; j++ {
			switch cfg.Rng.Intn(3) {
			case 0:
				fmt.Fprintf(&b, "n%d := str2num %q\nprint n%d\n", j, bad[cfg.Rng.Intn(len(bad))], j)
			case 1:
				fmt.Fprintf(&b, "b%d := str2bool %q\nprint b%d\n", j, bad[cfg.Rng.Intn(len(bad))], j)
			default:
				fmt.Fprintf(&b, "k%d := str2num \"4%d\"\nprint k%d\n", j, j, j)
			}
			idx := []string{"0", "-1", "1", "-2", "8", fmt.Sprint(cfg.Rng.Intn(30))}[cfg.Rng.Intn(6)]
			switch cfg.Rng.Intn(5) {
			case 0:
				fmt.Fprintf(&b, "print (len errmsg)\n")
			case 1:
				fmt.Fprintf(&b, "if (len errmsg) > 8\n    print errmsg[%s] errmsg[:8] errmsg[-2:]\nend\n", idx)
			case 2:
				fmt.Fprintf(&b, "for c := range errmsg\n    print c\nend\n")
			case 3:
				fmt.Fprintf(&b, "print errmsg[%s]\n", idx)
			default:
				fmt.Fprintf(&b, "print errmsg[%s:]\n", idx)
			}
		}
		semCase(model, r, b.String(), SemOpts{StopAt: -1, YieldBudget: 100000}, true, "errmsg:")
	}
}
