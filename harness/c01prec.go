package main

// C01 (precedence / layout part), harness id "C01prec".
//
// The independent oracle is the generator: it draws a derivation of the
// layered, left-associative expression grammar of docs/spec.md §Precedence
// (one layer per level, explicit Group nodes for parentheses), renders it under
// a random LEGAL whitespace layout into an evy statement (free at statement
// level / inside ( ) and [ ]; tight in call arguments, array elements, map
// values), and then
//   PO1  the tree built by the real parser.Parse must be the derivation's tree,
//   PO2  the value printed by the real evaluator must be the value computed
//        directly from the derivation in Go float64 / string / bool arithmetic,
//   CC   the extracted Coq model (Pratt.v), fed the token list of the real
//        lexer, must build the same tree / take the same accept-reject decision.
// A second stream perturbs legal layouts (whitespace inserted or removed at
// random token boundaries): there the derivation says nothing, only CC applies.

import (
	"encoding/json"
	"fmt"
	"math"
	"math/rand"
	"os"
	"strconv"
	"strings"

	"evylang.dev/evy/pkg/evaluator"
	"evylang.dev/evy/pkg/lexer"
	"evylang.dev/evy/pkg/parser"
)

// ---------- derivations ----------

type pnode struct {
	Kind string // num str bool var group un bin index slice dot assert call arr map
	Op   string // token type name for un/bin
	Lit  string // literal text / variable name / key / function name
	Ty   string // for assert: asserted type
	Keys []string // for map: the keys, one per kid (distinct)
	Kids []*pnode
	// value of the node (one of float64, string, bool, []any), computed at construction
	Val any
}

const (
	lvOr = 1 + iota
	lvAnd
	lvEq
	lvCmp
	lvAdd
	lvMul
	lvUnary
	lvPrimary
)

var opText = map[string]string{"OR": "or", "AND": "and", "EQ": "==", "NOT_EQ": "!=", "LT": "<", "GT": ">", "LTEQ": "<=", "GTEQ": ">=",
	"PLUS": "+", "MINUS": "-", "ASTERISK": "*", "SLASH": "/", "PERCENT": "%", "BANG": "!"}

// the spec's layer of each binary operator (docs/spec.md §Precedence, list item 3.1-3.6 reversed)
var opLevel = map[string]int{"OR": lvOr, "AND": lvAnd, "EQ": lvEq, "NOT_EQ": lvEq, "LT": lvCmp, "GT": lvCmp, "LTEQ": lvCmp, "GTEQ": lvCmp,
	"PLUS": lvAdd, "MINUS": lvAdd, "ASTERISK": lvMul, "SLASH": lvMul, "PERCENT": lvMul}

type precGen struct {
	rng  *rand.Rand
	dist map[string]int
}

// prelude variables available to every generated expression
const precPrelude = "n1 := 3\nb1 := true\ns1 := \"xy\"\narr := [4 5 6]\nm := {a:7 b:8}\nan:any\nan = 9\n"
const precPostlude = "print n1 b1 s1 arr m an\n"

var precVars = []string{"n1", "b1", "s1", "arr", "m", "an"}

func (g *precGen) pick(n int) int { return g.rng.Intn(n) }

func numLit(g *precGen) *pnode {
	lits := []string{"0", "1", "2", "3", "4", "5", "7", "10", "2.5", "0.5", "12"}
	l := lits[g.pick(len(lits))]
	v, _ := strconv.ParseFloat(l, 64)
	return &pnode{Kind: "num", Lit: l, Val: v}
}

func (g *precGen) atom(typ string) *pnode {
	switch typ {
	case "num":
		if g.pick(5) == 0 {
			return &pnode{Kind: "var", Lit: "n1", Val: 3.0}
		}
		return numLit(g)
	case "bool":
		switch g.pick(5) {
		case 0:
			return &pnode{Kind: "var", Lit: "b1", Val: true}
		case 1, 2:
			return &pnode{Kind: "bool", Lit: "true", Val: true}
		}
		return &pnode{Kind: "bool", Lit: "false", Val: false}
	}
	if g.pick(4) == 0 {
		return &pnode{Kind: "var", Lit: "s1", Val: "xy"}
	}
	lits := []string{"a", "b", "ab", "", "xyz"}
	l := lits[g.pick(len(lits))]
	return &pnode{Kind: "str", Lit: l, Val: l}
}

func smallIndex(g *precGen, n int) *pnode {
	// an in-range index expression, sometimes a binary expression (free layout inside [ ])
	i := g.pick(n)
	if g.pick(3) == 0 && i > 0 {
		return mkBin("PLUS", &pnode{Kind: "num", Lit: strconv.Itoa(i - 1), Val: float64(i - 1)}, &pnode{Kind: "num", Lit: "1", Val: 1.0})
	}
	return &pnode{Kind: "num", Lit: strconv.Itoa(i), Val: float64(i)}
}

func evalBin(op string, l, r any) any {
	switch a := l.(type) {
	case float64:
		b := r.(float64)
		switch op {
		case "PLUS":
			return a + b
		case "MINUS":
			return a - b
		case "ASTERISK":
			return a * b
		case "SLASH":
			return a / b
		case "PERCENT":
			return math.Mod(a, b)
		case "LT":
			return a < b
		case "GT":
			return a > b
		case "LTEQ":
			return a <= b
		case "GTEQ":
			return a >= b
		case "EQ":
			return a == b
		case "NOT_EQ":
			return a != b
		}
	case string:
		b := r.(string)
		switch op {
		case "PLUS":
			return a + b
		case "LT":
			return a < b
		case "GT":
			return a > b
		case "LTEQ":
			return a <= b
		case "GTEQ":
			return a >= b
		case "EQ":
			return a == b
		case "NOT_EQ":
			return a != b
		}
	case bool:
		b := r.(bool)
		switch op {
		case "AND":
			return a && b
		case "OR":
			return a || b
		case "EQ":
			return a == b
		case "NOT_EQ":
			return a != b
		}
	}
	panic("evalBin: " + op)
}

func mkBin(op string, l, r *pnode) *pnode {
	return &pnode{Kind: "bin", Op: op, Kids: []*pnode{l, r}, Val: evalBin(op, l.Val, r.Val)}
}

func mkGroup(e *pnode) *pnode { return &pnode{Kind: "group", Kids: []*pnode{e}, Val: e.Val} }

// gen draws a derivation of layer >= lvl and static type typ.
func (g *precGen) gen(lvl int, typ string, depth int) *pnode {
	if depth <= 0 {
		return g.atom(typ)
	}
	// layers at which typ has a production, not below lvl
	var layers []int
	switch typ {
	case "bool":
		layers = []int{lvOr, lvAnd, lvEq, lvCmp, lvUnary, lvPrimary}
	case "num":
		layers = []int{lvAdd, lvAdd, lvMul, lvMul, lvUnary, lvPrimary}
	default:
		layers = []int{lvAdd, lvPrimary}
	}
	var ok []int
	for _, l := range layers {
		if l >= lvl {
			ok = append(ok, l)
		}
	}
	L := ok[g.pick(len(ok))]
	switch L {
	case lvOr:
		return mkBin("OR", g.gen(lvOr, "bool", depth-1), g.gen(lvAnd, "bool", depth-1))
	case lvAnd:
		return mkBin("AND", g.gen(lvAnd, "bool", depth-1), g.gen(lvEq, "bool", depth-1))
	case lvEq:
		t := []string{"num", "bool", "string", "num"}[g.pick(4)]
		op := []string{"EQ", "NOT_EQ"}[g.pick(2)]
		return mkBin(op, g.gen(lvEq, t, depth-1), g.gen(lvCmp, t, depth-1))
	case lvCmp:
		t := []string{"num", "num", "string"}[g.pick(3)]
		op := []string{"LT", "GT", "LTEQ", "GTEQ"}[g.pick(4)]
		return mkBin(op, g.gen(lvCmp, t, depth-1), g.gen(lvAdd, t, depth-1))
	case lvAdd:
		op := "PLUS"
		if typ == "num" && g.pick(2) == 0 {
			op = "MINUS"
		}
		return mkBin(op, g.gen(lvAdd, typ, depth-1), g.gen(lvMul, typ, depth-1))
	case lvMul:
		op := []string{"ASTERISK", "SLASH", "PERCENT"}[g.pick(3)]
		return mkBin(op, g.gen(lvMul, "num", depth-1), g.gen(lvUnary, "num", depth-1))
	case lvUnary:
		e := g.gen(lvUnary, typ, depth-1)
		if typ == "num" {
			return &pnode{Kind: "un", Op: "MINUS", Kids: []*pnode{e}, Val: -e.Val.(float64)}
		}
		return &pnode{Kind: "un", Op: "BANG", Kids: []*pnode{e}, Val: !e.Val.(bool)}
	}
	return g.primary(typ, depth)
}

func (g *precGen) primary(typ string, depth int) *pnode {
	k := g.pick(10)
	switch {
	case k < 3:
		return g.atom(typ)
	case k < 7: // redundant or necessary parentheses
		return mkGroup(g.gen(lvOr, typ, depth-1))
	}
	// postfix / call forms (S2 part of the theorem; always in the correspondence)
	switch typ {
	case "num":
		switch g.pick(8) {
		case 7: // {k1:e1 k2:e2}.k : map literal inside a derivation, values are tight contexts
			a, b := g.gen(lvOr, "num", depth-1), g.gen(lvOr, "num", depth-1)
			keys := [][]string{{"a", "b"}, {"k", "a"}, {"x1", "y"}}[g.pick(3)]
			i := g.pick(2)
			m := &pnode{Kind: "map", Keys: keys, Kids: []*pnode{a, b}}
			return &pnode{Kind: "dot", Lit: keys[i], Kids: []*pnode{m}, Val: []*pnode{a, b}[i].Val}
		case 0:
			i := smallIndex(g, 3)
			return &pnode{Kind: "index", Kids: []*pnode{{Kind: "var", Lit: "arr"}, i}, Val: []float64{4, 5, 6}[int(i.Val.(float64))]}
		case 1:
			return &pnode{Kind: "dot", Lit: "a", Kids: []*pnode{{Kind: "var", Lit: "m"}}, Val: 7.0}
		case 2:
			return &pnode{Kind: "index", Kids: []*pnode{{Kind: "var", Lit: "m"}, {Kind: "str", Lit: "b", Val: "b"}}, Val: 8.0}
		case 3:
			return &pnode{Kind: "assert", Ty: "num", Kids: []*pnode{{Kind: "var", Lit: "an"}}, Val: 9.0}
		case 4: // (max e1 e2): arguments are tight contexts
			a, b := g.gen(lvOr, "num", depth-1), g.gen(lvOr, "num", depth-1)
			fn := []string{"max", "min"}[g.pick(2)]
			v := math.Max(a.Val.(float64), b.Val.(float64))
			if fn == "min" {
				v = math.Min(a.Val.(float64), b.Val.(float64))
			}
			return &pnode{Kind: "group", Kids: []*pnode{{Kind: "call", Lit: fn, Kids: []*pnode{a, b}}}, Val: v}
		case 5: // [e1 e2][i]: elements are tight contexts
			a, b := g.gen(lvOr, "num", depth-1), g.gen(lvOr, "num", depth-1)
			i := g.pick(2)
			return &pnode{Kind: "index", Kids: []*pnode{{Kind: "arr", Kids: []*pnode{a, b}}, {Kind: "num", Lit: strconv.Itoa(i), Val: float64(i)}},
				Val: []*pnode{a, b}[i].Val}
		default: // (len s[i:j]) : slice inside a call argument
			lo := g.pick(3)
			return &pnode{Kind: "group", Kids: []*pnode{{Kind: "call", Lit: "len", Kids: []*pnode{g.sliceOf("arr", lo)}}}, Val: float64(3 - lo)}
		}
	case "string":
		switch g.pick(3) {
		case 0:
			i := smallIndex(g, 2)
			return &pnode{Kind: "index", Kids: []*pnode{{Kind: "var", Lit: "s1"}, i}, Val: string("xy"[int(i.Val.(float64))])}
		case 1:
			lo := g.pick(3)
			n := g.sliceOf("s1", lo)
			n.Val = "xy"[lo:]
			return n
		default:
			return mkGroup(g.gen(lvOr, typ, depth-1))
		}
	}
	return mkGroup(g.gen(lvOr, typ, depth-1))
}

// sliceOf builds v[lo:] or v[lo:len]
func (g *precGen) sliceOf(v string, lo int) *pnode {
	n := &pnode{Kind: "slice", Kids: []*pnode{{Kind: "var", Lit: v}, {Kind: "num", Lit: strconv.Itoa(lo), Val: float64(lo)}, nil}}
	if v == "s1" && lo > 2 {
		lo = 2
		n.Kids[1] = &pnode{Kind: "num", Lit: "2", Val: 2.0}
	}
	if g.pick(2) == 0 {
		hi := 3
		if v == "s1" {
			hi = 2
		}
		n.Kids[2] = &pnode{Kind: "num", Lit: strconv.Itoa(hi), Val: float64(hi)}
	}
	if lo == 0 && g.pick(2) == 0 {
		n.Kids[1] = nil
	}
	return n
}

// ---------- the derivation's tree in the model's wire format ----------

func (n *pnode) sx() SX {
	switch n.Kind {
	case "num":
		return Lst(Sym("num"), Str(n.Lit))
	case "str":
		return Lst(Sym("str"), Str(n.Lit))
	case "bool":
		return Lst(Sym("bool"), Sym(n.Lit))
	case "var":
		return Lst(Sym("var"), Str(n.Lit))
	case "group":
		return Lst(Sym("group"), n.Kids[0].sx())
	case "un":
		return Lst(Sym("un"), Sym(n.Op), n.Kids[0].sx())
	case "bin":
		return Lst(Sym("bin"), Sym(n.Op), n.Kids[0].sx(), n.Kids[1].sx())
	case "index":
		return Lst(Sym("index"), n.Kids[0].sx(), n.Kids[1].sx())
	case "slice":
		o := func(k *pnode) SX {
			if k == nil {
				return Sym("none")
			}
			return k.sx()
		}
		return Lst(Sym("slice"), n.Kids[0].sx(), o(n.Kids[1]), o(n.Kids[2]))
	case "dot":
		return Lst(Sym("dot"), n.Kids[0].sx(), Str(n.Lit))
	case "assert":
		return Lst(Sym("assert"), n.Kids[0].sx(), Sym(n.Ty))
	case "call":
		l := []SX{Sym("call"), Str(n.Lit)}
		for _, k := range n.Kids {
			l = append(l, k.sx())
		}
		return LstOf(l)
	case "arr":
		l := []SX{Sym("arr")}
		for _, k := range n.Kids {
			l = append(l, k.sx())
		}
		return LstOf(l)
	case "map":
		l := []SX{Sym("map")}
		for i, k := range n.Kids {
			l = append(l, Lst(Str(n.Keys[i]), k.sx()))
		}
		return LstOf(l)
	}
	panic("pnode.sx: " + n.Kind)
}

// ---------- rendering under a legal layout ----------

func isAlnum(c byte) bool {
	return c == '_' || c >= '0' && c <= '9' || c >= 'a' && c <= 'z' || c >= 'A' && c <= 'Z'
}

type layouter struct {
	rng *rand.Rand
	// style: 0 = random optional whitespace, 1 = none where optional, 2 = exactly one space where optional
	style int
}

// ws returns optional whitespace for a free context ("" in tight contexts)
func (ly *layouter) ws(tight bool) string {
	if tight {
		return ""
	}
	switch ly.style {
	case 1:
		return ""
	case 2:
		return " "
	}
	return []string{"", "", " ", " ", "  ", "\t", " \t "}[ly.rng.Intn(7)]
}

// sep returns mandatory whitespace (list separators)
func (ly *layouter) sep() string {
	if ly.style != 0 {
		return " "
	}
	return []string{" ", " ", "  ", "\t"}[ly.rng.Intn(4)]
}

// tighten makes a derivation renderable without whitespace: the word operators
// and / or need a non-alphanumeric neighbour on both sides, so operands that
// begin / end with a letter or digit are parenthesised (explicit Group nodes of
// the derivation).  Applied to roots of tight contexts only; ( ) and [ ] reopen
// a free context.
func tighten(n *pnode) *pnode {
	if n == nil {
		return nil
	}
	switch n.Kind {
	case "bin":
		l, r := tighten(n.Kids[0]), tighten(n.Kids[1])
		if n.Op == "AND" || n.Op == "OR" {
			if isAlnum(lastChar(l)) {
				l = mkGroup(l)
			}
			if isAlnum(firstChar(r)) {
				r = mkGroup(r)
			}
		}
		return &pnode{Kind: "bin", Op: n.Op, Kids: []*pnode{l, r}, Val: n.Val}
	case "un":
		return &pnode{Kind: "un", Op: n.Op, Kids: []*pnode{tighten(n.Kids[0])}, Val: n.Val}
	case "index", "slice", "dot", "assert":
		c := *n
		c.Kids = append([]*pnode{tighten(n.Kids[0])}, n.Kids[1:]...)
		return &c
	case "arr", "map":
		c := *n
		c.Kids = nil
		for _, k := range n.Kids {
			c.Kids = append(c.Kids, tighten(k))
		}
		return &c
	}
	return n // atoms; group: free inside (call arguments inside are tightened when rendered)
}

func firstChar(n *pnode) byte {
	switch n.Kind {
	case "num", "var", "bool":
		return n.Lit[0]
	case "str":
		return '"'
	case "group":
		return '('
	case "un":
		return opText[n.Op][0]
	case "arr":
		return '['
	case "map":
		return '{'
	case "call":
		return n.Lit[0]
	}
	return firstChar(n.Kids[0])
}

func lastChar(n *pnode) byte {
	switch n.Kind {
	case "num", "var", "bool":
		return n.Lit[len(n.Lit)-1]
	case "str":
		return '"'
	case "group", "assert":
		return ')'
	case "un":
		return lastChar(n.Kids[0])
	case "bin":
		return lastChar(n.Kids[1])
	case "index", "slice", "arr":
		return ']'
	case "map":
		return '}'
	case "dot":
		return n.Lit[len(n.Lit)-1]
	case "call":
		if len(n.Kids) == 0 {
			return n.Lit[len(n.Lit)-1]
		}
		return lastChar(n.Kids[len(n.Kids)-1])
	}
	panic("lastChar")
}

// render writes n; in a free context every token that the parser consumes with
// p.advance() may be followed by whitespace.  The trailing optional whitespace
// of the whole expression is NOT written here (the caller decides).
func (ly *layouter) render(n *pnode, tight bool) string {
	switch n.Kind {
	case "num", "var", "bool":
		return n.Lit
	case "str":
		return strconv.Quote(n.Lit)
	case "group":
		return "(" + ly.ws(false) + ly.render(n.Kids[0], false) + ly.ws(false) + ")"
	case "un":
		return opText[n.Op] + ly.render(n.Kids[0], tight)
	case "bin":
		l, r := ly.render(n.Kids[0], tight), ly.render(n.Kids[1], tight)
		a, b := ly.ws(tight), ly.ws(tight)
		op := opText[n.Op]
		if isAlnum(op[0]) {
			if a == "" && isAlnum(l[len(l)-1]) {
				a = " "
			}
			if b == "" && isAlnum(r[0]) {
				b = " "
			}
		}
		return l + a + op + b + r
	case "index":
		return ly.render(n.Kids[0], tight) + "[" + ly.ws(false) + ly.render(n.Kids[1], false) + ly.ws(false) + "]"
	case "slice":
		s := ly.render(n.Kids[0], tight) + "[" + ly.ws(false)
		if n.Kids[1] != nil {
			s += ly.render(n.Kids[1], false) + ly.ws(false)
		}
		s += ":" + ly.ws(false)
		if n.Kids[2] != nil {
			s += ly.render(n.Kids[2], false) + ly.ws(false)
		}
		return s + "]"
	case "dot":
		return ly.render(n.Kids[0], tight) + "." + n.Lit
	case "assert":
		return ly.render(n.Kids[0], tight) + ".(" + ly.ws(false) + n.Ty + ly.ws(false) + ")"
	case "call": // only inside a group: free context, arguments tight
		s := n.Lit
		for _, k := range n.Kids {
			s += ly.sep() + ly.render(tighten(k), true)
		}
		return s
	case "arr":
		s := "[" + ly.ws(false)
		for i, k := range n.Kids {
			if i > 0 {
				s += ly.sep()
			}
			s += ly.render(tighten(k), true)
		}
		return s + ly.ws(false) + "]"
	case "map": // "{" k ":" value ... "}" : free inside the braces, values tight
		s := "{" + ly.ws(false)
		for i, k := range n.Kids {
			if i > 0 {
				s += ly.sep()
			}
			s += n.Keys[i] + ":" + ly.ws(false) + ly.render(tighten(k), true)
		}
		return s + ly.ws(false) + "}"
	}
	panic("render: " + n.Kind)
}

// retighten returns the derivation that render actually wrote: call arguments
// and array elements are tightened wherever they occur.
func retighten(n *pnode, tight bool) *pnode {
	if n == nil {
		return nil
	}
	if tight {
		n = tighten(n)
	}
	c := *n
	c.Kids = nil
	for i, k := range n.Kids {
		switch {
		case n.Kind == "group", (n.Kind == "index" || n.Kind == "slice") && i > 0:
			c.Kids = append(c.Kids, retighten(k, false))
		case n.Kind == "call", n.Kind == "arr", n.Kind == "map":
			c.Kids = append(c.Kids, retighten(k, true))
		default:
			c.Kids = append(c.Kids, retighten(k, false)) // already tightened above when tight
		}
	}
	return &c
}

// ---------- statements (contexts) ----------

type precCase struct {
	Context string   `json:"context"`
	Source  string   `json:"source"`
	Line    string   `json:"line"`   // the statement holding the expression(s)
	Skip    int      `json:"skip"`   // tokens the statement parser consumes before parseTopLevelExpr
	Expect  string   `json:"expect"` // derivation's tree (wire format) of what parseTopLevelExpr must build
	Output  []string `json:"output"` // expected prints of the test statement(s)
	legal   bool
	start   int // offset in Line where the expression text begins (the perturbation leaves the statement head alone)
	nodes   int
	ops     map[string]bool
}

func fmtVal(v any) string {
	switch x := v.(type) {
	case float64:
		return strconv.FormatFloat(x, 'f', -1, 64)
	case bool:
		return strconv.FormatBool(x)
	case string:
		return x
	}
	panic("fmtVal")
}

func countNodes(n *pnode, ops map[string]bool) int {
	if n == nil {
		return 0
	}
	c := 1
	if n.Kind == "bin" || n.Kind == "un" {
		ops[n.Op] = true
	}
	for _, k := range n.Kids {
		c += countNodes(k, ops)
	}
	return c
}

var precContexts = []string{"decl", "assign", "print-tight", "print-group", "array-elems", "call-args", "map-value", "if-cond", "index-assign"}

func (g *precGen) makeCase(ctx string, depth int, ly *layouter) precCase {
	typs := []string{"num", "num", "bool", "bool", "string"}
	ty := func() string { return typs[g.pick(len(typs))] }
	c := precCase{Context: ctx, legal: true, ops: map[string]bool{}}
	var body, after string
	switch ctx {
	case "decl", "assign":
		t := ty()
		e := retighten(g.gen(lvOr, t, depth), false)
		c.nodes = countNodes(e, c.ops)
		lhs := "x" + ly.ws(false) + ":=" + ly.ws(false)
		if ctx == "assign" {
			zero := map[string]string{"num": "0", "bool": "false", "string": `""`}[t]
			body = "x := " + zero + "\n"
			lhs = "x" + ly.ws(false) + "=" + ly.ws(false)
		}
		c.start = len(lhs)
		c.Line = lhs + ly.render(e, false) + ly.ws(false)
		c.Skip = 2
		c.Expect = e.sx().String()
		after = "print x\n"
		c.Output = []string{fmtVal(e.Val) + "\n"}
	case "print-tight", "print-group":
		n := 1 + g.pick(3)
		args := []SX{Sym("call"), Str("print")}
		c.Line = "print"
		c.start = len(c.Line)
		var outs []string
		for i := 0; i < n; i++ {
			e := g.gen(lvOr, ty(), depth)
			if ctx == "print-group" {
				e = mkGroup(e)
			}
			e = retighten(e, true)
			c.nodes += countNodes(e, c.ops)
			c.Line += ly.sep() + ly.render(e, true)
			args = append(args, e.sx())
			outs = append(outs, fmtVal(e.Val))
		}
		if g.pick(3) == 0 {
			c.Line += ly.sep()
		}
		c.Expect = LstOf(args).String()
		c.Output = []string{strings.Join(outs, " ") + "\n"}
	case "array-elems":
		n := 1 + g.pick(3)
		var kids []*pnode
		var outs []string
		for i := 0; i < n; i++ {
			e := g.gen(lvOr, "num", depth)
			kids = append(kids, e)
			outs = append(outs, fmtVal(e.Val))
		}
		a := retighten(&pnode{Kind: "arr", Kids: kids}, false)
		c.nodes = countNodes(a, c.ops)
		c.start = len("x := ")
		c.Line = "x := " + ly.render(a, false) + ly.ws(false)
		c.Skip = 2
		c.Expect = a.sx().String()
		after = "print x\n"
		c.Output = []string{"[" + strings.Join(outs, " ") + "]\n"}
	case "call-args":
		a, b := g.gen(lvOr, "num", depth), g.gen(lvOr, "num", depth)
		call := retighten(&pnode{Kind: "call", Lit: "max", Kids: []*pnode{a, b}}, false)
		c.nodes = countNodes(call, c.ops)
		c.start = len("x := max")
		c.Line = "x := " + ly.render(call, false) + ly.ws(false)
		c.Skip = 2
		c.Expect = call.sx().String()
		after = "print x\n"
		c.Output = []string{fmtVal(math.Max(a.Val.(float64), b.Val.(float64))) + "\n"}
	case "map-value":
		t := ty()
		e := retighten(g.gen(lvOr, t, depth), true)
		c.nodes = countNodes(e, c.ops)
		c.start = len("x := ")
		c.Line = "x := {" + ly.ws(false) + "k:" + ly.render(e, true) + ly.ws(false) + "}" + ly.ws(false)
		c.Skip = 2
		c.Expect = Lst(Sym("map"), Lst(Str("k"), e.sx())).String()
		after = "print x.k\n"
		c.Output = []string{fmtVal(e.Val) + "\n"}
	case "if-cond":
		e := retighten(g.gen(lvOr, "bool", depth), false)
		c.nodes = countNodes(e, c.ops)
		head := "if" + ly.sep()
		c.start = len(head)
		c.Line = head + ly.render(e, false) + ly.ws(false)
		c.Skip = 1
		c.Expect = e.sx().String()
		after = "    print \"T\"\nelse\n    print \"F\"\nend\n"
		c.Output = []string{map[bool]string{true: "T\n", false: "F\n"}[e.Val.(bool)]}
	case "index-assign":
		e := retighten(g.gen(lvOr, "num", depth), false)
		c.nodes = countNodes(e, c.ops)
		c.Line = "arr[0]" + ly.ws(false) + "=" + ly.ws(false) + ly.render(e, false) + ly.ws(false)
		c.Skip = -1 // target parsing is not parseExpr: only tree and value are compared with the model left out
		c.Expect = e.sx().String()
		after = "print arr[0]\n"
		c.Output = []string{fmtVal(e.Val) + "\n"}
	}
	c.Source = precPrelude + body + c.Line + "\n" + after + precPostlude
	return c
}

// ---------- the real parser's tree in the same wire format ----------

var opTokName = map[parser.Operator]string{
	parser.OP_PLUS: "PLUS", parser.OP_MINUS: "MINUS", parser.OP_SLASH: "SLASH", parser.OP_ASTERISK: "ASTERISK", parser.OP_PERCENT: "PERCENT",
	parser.OP_OR: "OR", parser.OP_AND: "AND", parser.OP_EQ: "EQ", parser.OP_NOT_EQ: "NOT_EQ", parser.OP_LT: "LT", parser.OP_GT: "GT",
	parser.OP_LTEQ: "LTEQ", parser.OP_GTEQ: "GTEQ", parser.OP_BANG: "BANG", parser.OP_INDEX: "LBRACKET", parser.OP_DOT: "DOT",
}

func goTypeSX(t *parser.Type) SX {
	if t == nil {
		return Sym("none")
	}
	switch t.Name {
	case parser.NUM:
		return Sym("num")
	case parser.STRING:
		return Sym("string")
	case parser.BOOL:
		return Sym("bool")
	case parser.ANY:
		return Sym("any")
	case parser.ARRAY:
		return Lst(Sym("arr"), goTypeSX(t.Sub))
	case parser.MAP:
		return Lst(Sym("map"), goTypeSX(t.Sub))
	}
	return Sym("none")
}

func goTreeSX(n parser.Node) SX {
	if n == nil || isNilNode(n) {
		return Sym("none")
	}
	switch x := n.(type) {
	case *parser.Any:
		return goTreeSX(x.Value) // type-level wrapper, not a parse decision
	case *parser.Var:
		return Lst(Sym("var"), Str(x.Name))
	case *parser.NumLiteral:
		return Lst(Sym("num"), Str(x.Token().Literal))
	case *parser.StringLiteral:
		return Lst(Sym("str"), Str(x.Value))
	case *parser.BoolLiteral:
		return Lst(Sym("bool"), Bool(x.Value))
	case *parser.ArrayLiteral:
		l := []SX{Sym("arr")}
		for _, e := range x.Elements {
			l = append(l, goTreeSX(e))
		}
		return LstOf(l)
	case *parser.MapLiteral:
		l := []SX{Sym("map")}
		for _, k := range x.Order {
			l = append(l, Lst(Str(k), goTreeSX(x.Pairs[k])))
		}
		return LstOf(l)
	case *parser.UnaryExpression:
		return Lst(Sym("un"), Sym(opTokName[x.Op]), goTreeSX(x.Right))
	case *parser.BinaryExpression:
		return Lst(Sym("bin"), Sym(opTokName[x.Op]), goTreeSX(x.Left), goTreeSX(x.Right))
	case *parser.GroupExpression:
		return Lst(Sym("group"), goTreeSX(x.Expr))
	case *parser.IndexExpression:
		return Lst(Sym("index"), goTreeSX(x.Left), goTreeSX(x.Index))
	case *parser.SliceExpression:
		return Lst(Sym("slice"), goTreeSX(x.Left), goTreeSX(x.Start), goTreeSX(x.End))
	case *parser.DotExpression:
		return Lst(Sym("dot"), goTreeSX(x.Left), Str(x.Key))
	case *parser.TypeAssertion:
		return Lst(Sym("assert"), goTreeSX(x.Left), goTypeSX(x.T))
	case *parser.FuncCall:
		l := []SX{Sym("call"), Str(x.Name)}
		for _, a := range x.Arguments {
			l = append(l, goTreeSX(a))
		}
		return LstOf(l)
	}
	return Sym(fmt.Sprintf("unknown-node-%T", n))
}

// stmtExpr returns the expression parseTopLevelExpr built for statement s.
func stmtExpr(s parser.Node) parser.Node {
	switch x := s.(type) {
	case *parser.InferredDeclStmt:
		return x.Decl.Value
	case *parser.AssignmentStmt:
		return x.Value
	case *parser.FuncCallStmt:
		return x.FuncCall
	case *parser.IfStmt:
		return x.IfBlock.Condition
	}
	return nil
}

// ---------- model call ----------

var precBuiltins = evaluator.BuiltinDecls()

func lexLine(line string) ([]SX, []SX) {
	l := lexer.New(line)
	var toks, funcs []SX
	seen := map[string]bool{}
	for t := l.Next(); t.Type != lexer.EOF; t = l.Next() {
		toks = append(toks, Lst(Sym(t.Type.String()), Str(t.Literal)))
		if t.Type == lexer.IDENT && !seen[t.Literal] {
			seen[t.Literal] = true
			if f := precBuiltins.Funcs[t.Literal]; f != nil {
				funcs = append(funcs, Lst(Str(t.Literal), Bool(len(f.Params) == 0 && f.VariadicParam == nil)))
			}
		}
	}
	return toks, funcs
}

type modelAns struct {
	Status string // ok nil oof
	Tree   string
	AtEOL  bool
	Errs   int
	Raw    string
}

func (a modelAns) accepted() bool { return a.Status == "ok" && a.AtEOL && a.Errs == 0 }

func askPratt(model *Model, line string, skip int, fixSlice bool) (modelAns, error) {
	toks, funcs := lexLine(line)
	vars := []SX{Str("x"), Str("err"), Str("errmsg")}
	for _, v := range precVars {
		vars = append(vars, Str(v))
	}
	ans, err := model.Ask(Lst(Int(int64(skip)), Bool(fixSlice), LstOf(funcs), LstOf(vars), LstOf(toks)).String())
	if err != nil {
		return modelAns{}, err
	}
	x, err := ParseSX(ans)
	if err != nil || x.Kind != "lst" || len(x.L) < 1 {
		return modelAns{Raw: ans}, fmt.Errorf("model answer: %s", ans)
	}
	m := modelAns{Status: x.L[0].S, Raw: ans}
	if len(x.L) == 5 {
		m.Tree = x.L[1].String()
		m.AtEOL = x.L[2].S == "true"
		m.Errs, _ = strconv.Atoi(x.L[3].S)
	}
	return m, nil
}

// ---------- one case ----------

// precCodeHasSliceFix selects the model variant that mirrors /repo: false = parseSlice as it is
// (closing bracket consumed with p.advance()), true = after proposed_fixes/C01-slice-rbracket-ws.diff.
const precCodeHasSliceFix = true

// Go error texts that come from type checking (not modelled by the untyped
// Pratt model).  Used ONLY to set aside perturbed inputs on which the model has
// nothing to say; never to decide a comparison.
var typeErrMarks = []string{"mismatched type", "takes", "expects", "expected num", "accepts values", "found", "declared but not used",
	"invalid inferred", "only array", "must be of type any", "cannot type assert", "array repetition", "no return value", "invalid type"}

// firstErrorIsTypeError classifies the FIRST reported error (the parser reports in order of
// occurrence and is deterministic up to it; after a type error it propagates nil, so later
// messages say nothing about syntax).
func firstErrorIsTypeError(msg string) bool {
	line := strings.SplitN(msg, "\n", 2)[0]
	if strings.Contains(line, "whitespace") || strings.Contains(line, "unexpected") || strings.Contains(line, "expected end of line") ||
		strings.Contains(line, "expected \"") || strings.Contains(line, "expected map key") || strings.Contains(line, "expected end of input") {
		return false
	}
	for _, m := range typeErrMarks {
		if strings.Contains(line, m) {
			return true
		}
	}
	return false
}

func precCheck(c precCase, model *Model, r *Result) {
	input := map[string]any{"source": c.Source, "line": c.Line, "skip": c.Skip, "context": c.Context, "legal": c.legal, "expect": c.Expect, "output": c.Output}
	nPre := strings.Count(precPrelude, "\n")
	if c.Context == "assign" {
		nPre++
	}
	out := RunEvy(c.Source, RunOpts{YieldBudget: 100000})
	goAccepted := out.ParseErr == "" && out.Class != "gopanic"
	goTree := ""
	if out.Class == "gopanic" {
		r.Violate(Violation{Kind: "property", Key: "parser-go-panic", Detail: "parser.Parse panicked: " + out.GoPanic, Input: input})
		return
	}
	if goAccepted && out.Prog != nil && nPre < len(out.Prog.Statements) {
		if e := stmtExpr(out.Prog.Statements[nPre]); e != nil {
			goTree = goTreeSX(e).String()
		}
	}
	var m, mfix modelAns
	var err error
	if c.Skip >= 0 {
		if m, err = askPratt(model, c.Line, c.Skip, precCodeHasSliceFix); err != nil {
			r.Violate(Violation{Kind: "correspondence", Key: "model-crash", Detail: err.Error(), Input: input})
			return
		}
		if m.Status == "oof" {
			r.Violate(Violation{Kind: "correspondence", Key: "model-out-of-fuel", Detail: "the model ran out of fuel", Input: input})
			return
		}
	}
	r.Validated++
	if c.legal {
		// PO1: the real parser must accept and build the derivation's tree
		if !goAccepted {
			key := "legal-layout-rejected:" + c.Context
			detail := "a legal layout of a well-typed derivation of the layered grammar is rejected by parser.Parse: " + out.ParseErr
			if c.Skip >= 0 && !(m.accepted() && m.Tree == c.Expect) {
				// the faithful model does not build the derivation's tree either; does the model with the
				// corrected parseSlice?  Then the rejection is exactly the known parseSlice defect.
				if mfix, err = askPratt(model, c.Line, c.Skip, true); err == nil && mfix.accepted() && mfix.Tree == c.Expect {
					key = "slice-rbracket-skips-ws"
					detail = "parseSlice consumes \"]\" with p.advance() (not advanceWSS): whitespace after a slice in a call argument / array element is swallowed and the next argument is parsed as a continuation. " + out.ParseErr
				}
			}
			r.Violate(Violation{Kind: "property", Key: key, Detail: detail, Input: input, Impl: out.ParseErr, Model: m.Raw})
			return
		}
		if goTree != c.Expect {
			r.Violate(Violation{Kind: "property", Key: "tree-differs-from-derivation:" + c.Context,
				Detail: "parser.Parse groups the operators differently from the derivation of the layered left-associative grammar (docs/spec.md Precedence)",
				Input:  input, Impl: goTree, Model: c.Expect})
			return
		}
		// PO2: semantic cross-check
		if out.Class != "ok" || len(out.Prints) < len(c.Output) || joinLines(out.Prints[:len(c.Output)]) != joinLines(c.Output) {
			r.Violate(Violation{Kind: "property", Key: "value-differs-from-derivation:" + c.Context,
				Detail: "the printed value is not the value of the derivation computed directly (Go float64/string/bool arithmetic)",
				Input:  input, Impl: map[string]any{"class": out.Class, "prints": out.Prints, "err": out.ErrText}, Model: c.Output})
			return
		}
	}
	if c.Skip < 0 {
		return
	}
	// CC: model vs implementation
	switch {
	case goAccepted && goTree != "":
		if !m.accepted() || m.Tree != goTree {
			r.Violate(Violation{Kind: "correspondence", Key: "model-tree-differs:" + c.Context,
				Detail: "the Pratt model does not build the tree parser.Parse builds from the same tokens", Input: input, Impl: goTree, Model: m.Raw})
		}
		r.Dist("cc:both-accept")
	case !goAccepted && !m.accepted():
		r.Dist("cc:both-reject")
	case !goAccepted && m.accepted():
		if firstErrorIsTypeError(out.ParseErr) {
			r.Dist("cc:set-aside-type-error")
			return
		}
		r.Violate(Violation{Kind: "correspondence", Key: "model-accepts-go-rejects:" + c.Context,
			Detail: "parser.Parse reports a syntax/whitespace error where the Pratt model accepts", Input: input, Impl: out.ParseErr, Model: m.Raw})
	default:
		r.Dist("cc:go-accepts-no-tree")
	}
}

// perturb inserts or removes whitespace at a random boundary of the statement line.
func perturb(rng *rand.Rand, c precCase) precCase {
	line := c.Line
	var pos []int
	for i := c.start + 1; i < len(line); i++ {
		if line[i-1] != '"' && line[i] != '"' { // keep string literals intact
			pos = append(pos, i)
		}
	}
	if len(pos) == 0 {
		return c
	}
	n := 1 + rng.Intn(2)
	for j := 0; j < n; j++ {
		i := pos[rng.Intn(len(pos))]
		if i >= len(line) {
			continue
		}
		if line[i] == ' ' || line[i] == '\t' {
			if rng.Intn(2) == 0 {
				line = line[:i] + line[i+1:]
				continue
			}
		}
		if isAlnum(line[i-1]) && isAlnum(line[i]) {
			continue // would split a word / number
		}
		line = line[:i] + " " + line[i:]
	}
	c.Source = strings.Replace(c.Source, c.Line+"\n", line+"\n", 1)
	c.Line = line
	c.legal = false
	return c
}

var precCorpus = []struct {
	ctx, line, expect, out string
	skip                   int
	legal                  bool
}{
	// left associativity per level
	{"decl", "x := 10 - 4 - 3", `(bin MINUS (bin MINUS (num "10") (num "4")) (num "3"))`, "3\n", 2, true},
	{"decl", "x := 16 / 4 / 2", `(bin SLASH (bin SLASH (num "16") (num "4")) (num "2"))`, "2\n", 2, true},
	{"decl", "x := 7 % 4 % 2", `(bin PERCENT (bin PERCENT (num "7") (num "4")) (num "2"))`, "1\n", 2, true},
	{"decl", "x := 1 == 2 == false", `(bin EQ (bin EQ (num "1") (num "2")) (bool false))`, "true\n", 2, true},
	{"decl", "x := false and false or true", `(bin OR (bin AND (bool false) (bool false)) (bool true))`, "true\n", 2, true},
	{"decl", "x := true or false and false", `(bin OR (bool true) (bin AND (bool false) (bool false)))`, "true\n", 2, true},
	// precedence across levels
	{"decl", "x := 1 + 2 * 3 < 8 == true and !false", `(bin AND (bin EQ (bin LT (bin PLUS (num "1") (bin ASTERISK (num "2") (num "3"))) (num "8")) (bool true)) (un BANG (bool false)))`, "true\n", 2, true},
	{"decl", "x := -arr[0] + 2", `(bin PLUS (un MINUS (index (var "arr") (num "0"))) (num "2"))`, "-2\n", 2, true},
	{"decl", "x := -2 * 3", `(bin ASTERISK (un MINUS (num "2")) (num "3"))`, "-6\n", 2, true},
	// layout
	{"print-tight", "print 1+2*3 -4", `(call "print" (bin PLUS (num "1") (bin ASTERISK (num "2") (num "3"))) (un MINUS (num "4")))`, "7 -4\n", 0, true},
	{"print-tight", "print 10-4-3 (10 - 4 - 3)", `(call "print" (bin MINUS (bin MINUS (num "10") (num "4")) (num "3")) (group (bin MINUS (bin MINUS (num "10") (num "4")) (num "3"))))`, "3 3\n", 0, true},
	{"decl", "x := 10 -4", `(bin MINUS (num "10") (num "4"))`, "6\n", 2, true},
	// the slice defect (C01_prec_slice_refuted)
	{"print-tight", "print arr[0:1] -3", `(call "print" (slice (var "arr") (num "0") (num "1")) (un MINUS (num "3")))`, "[4] -3\n", 0, true},
	{"print-tight", "print arr[1:] [3]", `(call "print" (slice (var "arr") (num "1") none) (arr (num "3")))`, "[5 6] [3]\n", 0, true},
	// illegal layouts: only the correspondence applies
	{"print-tight", "print 1 - 2", ``, "", 0, false},
	{"decl", "x := - 2", ``, "", 2, false},
	{"decl", "x := arr [0]", ``, "", 2, false},
	{"decl", "x := m. a", ``, "", 2, false},
	{"decl", "x := an. (num)", ``, "", 2, false},
	{"decl", "x := [1 + 2]", ``, "", 2, false},
	// rarely generated paths of the model, correspondence only (tree / accept-reject)
	{"decl", "x := {a:1+1 end:2 if:(3 + 4)}", ``, "", 2, false},
	{"decl", "x := {a:1 a:2}", ``, "", 2, false},
	{"decl", "x := {a: 1}", ``, "", 2, false},
	{"decl", "x := {1:1}", ``, "", 2, false},
	{"decl", "x := [1+1\n  2*3 // c\n\n ]", ``, "", 2, false},
	{"decl", "x := [ ]", ``, "", 2, false},
	{"decl", "x := rand1+1", ``, "", 2, false},
	{"decl", "x := (rand1) + (rand 3)", ``, "", 2, false},
	{"decl", "x := an.(any)", ``, "", 2, false},
	{"decl", "x := an.(foo)", ``, "", 2, false},
	{"decl", "x := an.([]{}num)", ``, "", 2, false},
	{"decl", "x := an.( num )", ``, "", 2, false},
	{"decl", "x := m.end", ``, "", 2, false},
	{"decl", "x := m.1", ``, "", 2, false},
	{"decl", "x := arr[:]", ``, "", 2, false},
	{"decl", "x := arr[ : 2 ]", ``, "", 2, false},
	{"decl", "x := arr[1 2]", ``, "", 2, false},
	{"decl", "x := (1 + 2", ``, "", 2, false},
	{"decl", "x := 1 + ", ``, "", 2, false},
	{"decl", "x := 1.2.3", ``, "", 2, false},
	{"decl", "x := _", ``, "", 2, false},
	{"decl", "x := len", ``, "", 2, false},
	{"decl", "x := nosuch", ``, "", 2, false},
	{"decl", "x := 1 2", ``, "", 2, false},
	{"print-tight", "print (len arr) (max 1 2)+1 [1 2][0]", ``, "", 0, false},
	{"print-tight", "print 1 // comment", ``, "", 0, false},
	{"print-tight", "print", ``, "", 0, false},
}

func runC01prec(cfg Config, r *Result) {
	model, err := StartModel("pratt")
	if err != nil {
		r.Violate(Violation{Kind: "correspondence", Key: "model-start", Detail: err.Error()})
		return
	}
	defer model.Close()
	r.Rule = "random derivations of the layered left-associative grammar (or < and < ==,!= < <,<=,>,>= < +,- < *,/,% < unary -,! < primary: literal, variable, ( e ), a[i], a[i:j], m.k, an.(num), (max e e), [e e][i], {k1:e k2:e}.k), well typed over num/bool/string, depth <= 6 (quick) / 10 (thorough), random redundant parentheses; each rendered under 3 legal layouts (random, minimal, one-space) in one of 9 statement contexts (decl, assign, if condition, index assignment: free; print arguments, array elements, call arguments, map value: tight; print (e): free inside); plus a perturbed stream (whitespace inserted/removed at random boundaries). Non-trivial = at least 2 distinct operators and 5 nodes; distinct = distinct statement text."
	if cfg.Replay != "" {
		b, err := os.ReadFile(cfg.Replay)
		if err != nil {
			r.Note("replay: %v", err)
			return
		}
		var v struct {
			Input precCase `json:"input"`
		}
		var raw struct {
			Input map[string]any `json:"input"`
		}
		if json.Unmarshal(b, &v) != nil || json.Unmarshal(b, &raw) != nil || v.Input.Source == "" {
			r.Note("replay: no input.source in %s", cfg.Replay)
			return
		}
		v.Input.legal, _ = raw.Input["legal"].(bool)
		r.Count(v.Input.Line, true)
		precCheck(v.Input, model, r)
		return
	}
	for _, c := range precCorpus {
		pc := precCase{Context: c.ctx, Line: c.line, Skip: c.skip, Expect: c.expect, legal: c.legal,
			Source: precPrelude + c.line + "\nprint x\n" + precPostlude, Output: []string{c.out}}
		if c.ctx == "print-tight" {
			pc.Source = precPrelude + c.line + "\n" + precPostlude
		}
		r.Count(pc.Line, true)
		r.Dist("corpus")
		precCheck(pc, model, r)
	}
	g := &precGen{rng: cfg.Rng}
	n := cfg.N(3000, 80000)
	maxDepth := cfg.N(6, 10)
	for i := 0; i < n; i++ {
		ctx := precContexts[g.pick(len(precContexts))]
		depth := 1 + g.pick(maxDepth)
		seed := cfg.Rng.Int63()
		for style := 0; style < 3; style++ {
			// same derivation (same generator seed), three layouts
			gg := &precGen{rng: rand.New(rand.NewSource(seed))}
			ly := &layouter{rng: rand.New(rand.NewSource(seed + int64(style) + 1)), style: style}
			c := gg.makeCase(ctx, depth, ly)
			r.Count(c.Line, len(c.ops) >= 2 && c.nodes >= 5)
			r.Dist("context:" + ctx)
			r.Dist(fmt.Sprintf("layout-style:%d", style))
			if style == 0 {
				r.Dist(fmt.Sprintf("depth:%d", depth))
				for op := range c.ops {
					r.Dist("op:" + op)
				}
				if i < 4 {
					r.Sample(map[string]any{"line": c.Line, "tree": c.Expect, "output": c.Output})
				}
			}
			precCheck(c, model, r)
			if style == 0 && c.Skip >= 0 {
				p := perturb(cfg.Rng, c)
				if p.Line != c.Line {
					r.Count(p.Line, false)
					r.Dist("perturbed")
					precCheck(p, model, r)
				}
			}
		}
	}
}

func init() { register("C01prec", runC01prec) } // also driven from runC01
