package main

// C05 (typed parser-model part), harness id "C05typed".
//
// Route A with NOTHING borrowed from the real type checker: the extracted model
// coq/ParserTyped.v (dispatch name "parsertyped") gets the tokens of the real lexer and the
// builtin tables WITH their types (function signatures, global variables, event handlers) and
// answers accept / reject with the complete ordered list of errors, typing errors included.
// The typing oracle of Parser.v is the concrete one of ParserTyped.v (Types.v's functions over
// the scope chain).  Compared with parser.Parse: accept / reject and, error by error in order,
//   - the position (line, column) of the blamed token,
//   - except the errors of assertArgTypes, whose blamed token (arg.Token()) the parser model does
//     not mirror: a wrong argument count is compared as a marker, the argument-type errors of
//     one call as one marker (runs of such markers are collapsed on both sides).
// The errors of parseStepRange ARE located (the `range` token), unlike in C03parse / C05rules.
// The classification of the real parser's messages (errorClass) is used only to recognise the
// assertArgTypes errors on the Go side and to label the evidence distribution.
// `unsupported` answers of the model (the typing function undefined where it matters, or the typed
// run and Parser.parse disagree) are counted as skipped, never compared.

import (
	"encoding/json"
	"fmt"
	"os"
	"sort"
	"strconv"
	"strings"

	"evylang.dev/evy/pkg/evaluator"
	"evylang.dev/evy/pkg/lexer"
	"evylang.dev/evy/pkg/parser"
)

// goTyFullSX renders a *parser.Type in the wire syntax of Types.dec_ty (interned shapes by pointer, Fixed flags).
func goTyFullSX(t *parser.Type) SX {
	switch t {
	case nil, parser.NONE_TYPE:
		return Sym("none")
	case parser.NUM_TYPE:
		return Sym("num")
	case parser.STRING_TYPE:
		return Sym("string")
	case parser.BOOL_TYPE:
		return Sym("bool")
	case parser.ANY_TYPE:
		return Sym("any")
	case parser.EMPTY_ARRAY:
		return Sym("earr")
	case parser.EMPTY_MAP:
		return Sym("emap")
	case parser.GENERIC_ARRAY:
		return Sym("garr")
	case parser.GENERIC_MAP:
		return Sym("gmap")
	}
	f := int64(0)
	if t.Fixed {
		f = 1
	}
	switch t.Name {
	case parser.ARRAY:
		return Lst(Sym("arr"), Int(f), goTyFullSX(t.Sub))
	case parser.MAP:
		return Lst(Sym("map"), Int(f), goTyFullSX(t.Sub))
	case parser.NUM:
		return Sym("num")
	case parser.STRING:
		return Sym("string")
	case parser.BOOL:
		return Sym("bool")
	case parser.ANY:
		return Sym("any")
	}
	return Sym("none")
}

// the typed builtin tables: globals with their types, function signatures
var c05tTables = func() [2]SX {
	b := evaluator.BuiltinDecls()
	var gl, fn []string
	for n := range b.Globals {
		gl = append(gl, n)
	}
	for n := range b.Funcs {
		fn = append(fn, n)
	}
	sort.Strings(gl)
	sort.Strings(fn)
	var gs, fs []SX
	for _, n := range gl {
		gs = append(gs, Lst(Str(n), goTyFullSX(b.Globals[n].Type())))
	}
	for _, n := range fn {
		f := b.Funcs[n]
		var ps []SX
		for _, p := range f.Params {
			ps = append(ps, goTyFullSX(p.Type()))
		}
		v := SX(Sym("novariadic"))
		if f.VariadicParam != nil {
			v = Lst(goTyFullSX(f.VariadicParam.Type()))
		}
		fs = append(fs, Lst(Str(n), LstOf(ps), v, goTyFullSX(f.ReturnType)))
	}
	return [2]SX{LstOf(gs), LstOf(fs)}
}()

func c05tIsStepRange(msg string) bool {
	return strings.Contains(msg, "range can take up to 3 num arguments") || strings.Contains(msg, "range expects num type")
}

// c05tCollapse collapses runs of the "args" marker.
func c05tCollapse(l []string) []string {
	var out []string
	for _, e := range l {
		if e == "args" && len(out) > 0 && out[len(out)-1] == "args" {
			continue
		}
		out = append(out, e)
	}
	return out
}

// c05tCheck compares one input; returns a short outcome label for the distribution.
func c05tCheck(src, stream string, model *Model, r *Result) string {
	g := c03pGoParse(src)
	if g.Status == "panic" {
		return "go-panic" // reported by the parser oracle of C03 proper
	}
	l := lexer.New(src)
	var toks []SX
	var eof *lexer.Token
	limit := len([]rune(src)) + 2
	for i := 0; ; i++ {
		t := l.Next()
		if t.Type == lexer.EOF || i > limit {
			eof = t
			break
		}
		toks = append(toks, Lst(Sym(t.Type.String()), Str(t.Literal), Int(int64(t.Line)), Int(int64(t.Col))))
	}
	q := Lst(c03pTables[0], c05tTables[0], c03pTables[2], LstOf(toks), Lst(Int(int64(eof.Line)), Int(int64(eof.Col))), c05tTables[1])
	input := map[string]any{"source": src, "stream": stream}
	ans, err := model.Ask(q.String())
	if err != nil {
		r.Violate(Violation{Kind: "correspondence", Key: "typed-parser-model-crash", Detail: err.Error(), Input: input})
		return "model-error"
	}
	x, err := ParseSX(ans)
	if err != nil || x.Kind != "lst" || len(x.L) < 1 {
		r.Violate(Violation{Kind: "correspondence", Key: "typed-parser-model-answer", Detail: fmt.Sprintf("model answer: %.200s", ans), Input: input})
		return "model-error"
	}
	status := x.L[0].S
	switch status {
	case "unsupported":
		why := "?"
		if len(x.L) > 1 {
			why = x.L[1].S
		}
		return "unsupported:" + strings.ReplaceAll(why, " ", "-")
	case "accept", "reject":
	default:
		r.Violate(Violation{Kind: "correspondence", Key: "typed-parser-model-" + status,
			Detail: "the typed parser model ends in " + status + " (a Go panic site reached, or out of fuel): parse_total says this cannot happen", Input: input, Model: ans})
		return "model-" + status
	}
	r.Validated++
	var mod []string
	for _, e := range x.L[1:] {
		if e.Kind != "lst" || len(e.L) < 1 {
			continue
		}
		switch e.L[0].S {
		case "at":
			mod = append(mod, e.L[1].S+":"+e.L[2].S)
		default:
			mod = append(mod, e.L[0].S)
		}
	}
	var impl []string
	typing := 0
	for _, e := range g.Errs {
		switch {
		case e.Class == "arity":
			impl = append(impl, "arity")
			typing++
		case e.Class == "-" && !c05tIsStepRange(e.Msg):
			impl = append(impl, "args")
			typing++
		default:
			if e.Class != "" {
				typing++
			}
			impl = append(impl, strconv.Itoa(e.Line)+":"+strconv.Itoa(e.Col))
		}
	}
	mod, impl = c05tCollapse(mod), c05tCollapse(impl)
	label := "both-accept"
	if len(impl) > 0 {
		label = "both-reject"
		if typing > 0 {
			label += ":with-typing-errors"
		}
	}
	same := len(mod) == len(impl)
	for i := 0; same && i < len(impl); i++ {
		same = mod[i] == impl[i]
	}
	if same {
		return label
	}
	key := "typed-parser-model-error-positions-differ"
	switch {
	case len(impl) == 0:
		key = "typed-parser-model-rejects-accepted-program"
	case len(mod) == 0:
		key = "typed-parser-model-accepts-rejected-program"
	case mod[0] != impl[0]:
		key = "typed-parser-model-first-error-position-differs"
	}
	var show []string
	for _, e := range g.Errs {
		show = append(show, fmt.Sprintf("%d:%d [%s] %s", e.Line, e.Col, e.Class, e.Msg))
	}
	r.Violate(Violation{Kind: "correspondence", Key: key,
		Detail: fmt.Sprintf("accept/reject or the ordered errors differ between parser.Parse (%d errors, %d of them typing errors) and the typed parser model (concrete typing oracle, nothing borrowed): impl %v, model %v", len(g.Errs), typing, impl, mod),
		Input:  input, Impl: show, Model: ans})
	return "diff"
}

func runC05typed(cfg Config, r *Result) {
	r.Rule = "TYPED PARSER MODEL (concrete typing oracle, coq/ParserTyped.v): base programs (C05 seeds, corpus, typed generator, return-path trees, scope trees), their rule-breaking mutants (every rule of C05, among them type mismatch in every operand position, wrong argument types / counts) and type-breaking token mutations of corpus programs; each through parser.Parse and through the extracted typed parser model fed the real lexer's tokens and the typed builtin tables only; compared: accept/reject and the ordered errors (positions; assertArgTypes errors as markers). `unsupported` answers are counted (cc-typed:...:unsupported:*) and skipped"
	model, err := StartModel("parsertyped")
	if err != nil {
		r.Violate(Violation{Kind: "correspondence", Key: "model-start", Detail: err.Error()})
		return
	}
	defer model.Close()
	if cfg.Replay != "" {
		return // replays of this stream go through harness id C05typed directly (see init)
	}
	total, unsupported := 0, 0
	run := func(src, stream string) string {
		if len(src) > 6000 {
			return "too-long"
		}
		out := c05tCheck(src, stream, model, r)
		r.Count(src, true)
		r.Dist("cc-typed:" + stream + ":" + out)
		r.Dist("cc-typed-total:" + strings.SplitN(out, ":", 2)[0])
		if out != "go-panic" {
			total++
			if strings.HasPrefix(out, "unsupported") {
				unsupported++
			}
		}
		return out
	}
	g := &c05Gen{cfg: cfg, all: cfg.Tier == "thorough", per: 2}
	var progs []string
	progs = append(progs, c05Seeds...)
	corpus := CorpusPrograms()
	for i, s := range corpus {
		if cfg.Tier == "thorough" || i%3 == int(cfg.Seed%3) {
			progs = append(progs, s)
		}
	}
	for i := 0; i < cfg.N(100, 300); i++ {
		s, _, _ := GenProgram(cfg.Rng, fmtGenOpts[i%len(fmtGenOpts)])
		progs = append(progs, s)
	}
	for _, c := range c05tCorpus {
		run(c, "typed-corpus")
	}
	rtValid, rtMut := c05ReturnTreeMutants(cfg, cfg.N(60, 600))
	for _, p := range rtValid {
		run(p, "base:return-tree")
	}
	for _, m := range rtMut {
		run(m.Src, "rule:"+m.Rule)
	}
	scValid, scMut := c05ScopeMutants(cfg, cfg.N(20, 100))
	for _, p := range scValid {
		run(p, "base:scope-tree")
	}
	for _, m := range scMut {
		run(m.Src, "rule:"+m.Rule)
	}
	budget := r.Evaluations + cfg.N(2500, 12000) // relative: this runs after C05's other parts in the same Result
	var small []string
	for _, p := range progs {
		if len(p) <= 2500 {
			small = append(small, p)
		}
	}
	for _, p := range small {
		if r.Evaluations >= budget {
			break
		}
		if run(p, "base") != "both-accept" {
			continue
		}
		for _, m := range g.mutants(p) {
			if r.Evaluations >= budget {
				break
			}
			run(m.Src, "rule:"+m.Rule)
		}
		// type-breaking token mutations (harness/c03parse.go): the type checker objects in the middle of a well-formed program
		for k := 0; k < 3; k++ {
			run(typeMutate(cfg.Rng, p), "type-mutation")
		}
	}
	if total > 0 {
		r.Note("typed parser model: %d programs compared or skipped, %d of them outside the concrete oracle's fragment (unsupported): %.2f%% inside", total, unsupported, 100*float64(total-unsupported)/float64(total))
	}
}

// programs that exercise every typing site of the parser (accepted and rejected)
var c05tCorpus = []string{
	"x := 1\nx = \"a\"\nprint x\n",
	"x:num\ny := x + \"a\"\nprint y\n",
	"a := [1 2 3]\nprint a[\"x\"]\nprint a[0] + 1\n",
	"m := {a:1 b:2}\nprint m.a + 1\nprint m[0]\nprint m[\"a\"]\n",
	"s := \"abc\"\ns[0] = \"x\"\nprint s\n",
	"a := [[1] [2]]\na[0][0] = \"s\"\nprint a\n",
	"a:[]any\na = [1 \"a\"]\nb := [1 \"a\"]\na = b\nprint a b\n",
	"x:any\nx = 1\nprint x.(num) + 1\nprint x.(string) + 1\nprint 1.(num)\n",
	"func f:num a:num b:string\n    return a\nend\nprint (f 1 \"a\") (f \"a\" 1) (f 1)\n",
	"func f a:num...\n    print a[0] + 1\n    print a + 1\nend\nf 1 2 \"3\"\n",
	"func f:string\n    return 1\nend\nfunc g\n    return 1\nend\nx := (g)\nprint (f) x\n",
	"for i := range 1 \"2\"\n    print i\nend\nfor c := range \"ab\"\n    print c + 1\nend\nfor e := range [1 2]\n    print e + \"a\"\nend\n",
	"for k := range {a:1}\n    print k + 1\nend\nfor i := range true\n    print i\nend\nfor i := range [1] 2\n    print i\nend\n",
	"while 1\n    break\nend\nif \"a\"\n    print 1\nelse if 2\n    print 2\nend\n",
	"print !1 -true (1 < \"a\") (true and 1) (1 == \"1\") [1]+1 \"a\"*2\n",
	"print [1 2][true:] [1 2][:\"1\"] \"abc\"[1:2] {a:1}[1:]\n",
	"on key k:string\n    print k + 1\n    print k + \"a\"\n    return 1\nend\n",
	"on down x:num y:num\n    print x + y\n    print x + \"a\"\nend\n",
	"print err errmsg (err + 1) (errmsg + 1)\n",
	"print (len 1) (len \"a\") (len [1]) (len {}) (has {a:1} \"a\") (has [1] \"a\")\n",
	"a := []\na = [1]\nb:[]num\nb = []\nb = [] + [1]\nb = [\"a\"] + []\nprint a b\n",
	"x := [1] + [\"a\"]\ny := [[]] + [[1]]\nprint x y\n",
	"func id:[]num a:[]num\n    return a\nend\nprint (id [1]) (id []) (id [\"a\"]) (id [[1]])\n",
	"m:{}[]num\nm.a = [1]\nm.b = [\"x\"]\nm[\"c\"] = []\nm[1] = []\nprint m\n",
	"x := 1\nif true\n    x := \"a\"\n    print x + \"b\"\n    print x + 1\nend\nprint x + 1\nprint x + \"b\"\n",
	"func f\n    x := 1\n    print x\nend\nx := \"a\"\nprint x + 1\nf\n",
	"a := [1 2 3]\nfor i := range (len a)\n    print a[i] + \"x\"\nend\n",
	"n := [1 [2]]\nprint n[1].([]num)\nprint n[0] + 1\n",
	"x := {}\nx.a = 1\ny:{}num\ny = {}\ny = {a:\"b\"}\nprint x y\n",
	"print (join [1 2] \", \") (join 1 \",\") (split \"a b\" 1) (sprint 1 \"a\") (str2num \"1\" 2)\n",
}

func init() { register("C05typed", runC05typedReplay) }

func replaySource(path string) (src, stream string, ok bool) {
	b, err := os.ReadFile(path)
	if err != nil {
		return "", "", false
	}
	var v struct {
		Input struct {
			Source string `json:"source"`
			Stream string `json:"stream"`
		} `json:"input"`
	}
	if json.Unmarshal(b, &v) != nil || v.Input.Source == "" {
		return "", "", false
	}
	return v.Input.Source, v.Input.Stream, true
}

// standalone id: the stream alone, or the replay of one recorded input
func runC05typedReplay(cfg Config, r *Result) {
	if cfg.Replay == "" {
		runC05typed(cfg, r)
		return
	}
	src, stream, ok := replaySource(cfg.Replay)
	if !ok {
		r.Note("replay: no input.source in %s", cfg.Replay)
		return
	}
	model, err := StartModel("parsertyped")
	if err != nil {
		r.Violate(Violation{Kind: "correspondence", Key: "model-start", Detail: err.Error()})
		return
	}
	defer model.Close()
	r.Count(src, true)
	r.Dist("cc-typed:" + c05tCheck(src, stream, model, r))
}
