package main

// C10 — scoping and control flow: random nestings of if/else-if/else, while,
// for (numeric incl. negative/fractional/empty ranges, array, string, map) and
// function calls with declarations and shadowing at every level, break/return
// placements; compared with the model on the printed trace, outcome, yields
// and globals.

import (
	"fmt"
	"math/rand"
	"strings"
)

// c10Nest builds a deeply nested control-flow skeleton with trace prints.
func c10Nest(rng *rand.Rand) string {
	var b strings.Builder
	id := 0
	fresh := func(p string) string { id++; return fmt.Sprintf("%s%d", p, id) }
	var block func(ind string, depth int, inLoop, inFunc bool, outer []string) bool
	ranges := []string{"3", "1 4", "4 1 -1", "0 1 0.25", "5 5", "3 1", "-2 1", "0 -3 -1.5", "2 0 1", "1 2 0"}
	block = func(ind string, depth int, inLoop, inFunc bool, outer []string) bool {
		n := 1 + rng.Intn(3)
		local := append([]string(nil), outer...)
		shadowed := map[string]bool{}
		nestedScope := (inFunc && len(ind) >= 8) || (!inFunc && len(ind) >= 4) // outer names live in an enclosing scope
		for i := 0; i < n; i++ {
			switch k := rng.Intn(15); {
			case k >= 13 && nestedScope && len(outer) > 0:
				// use and update an outer variable, then shadow it directly in this block (a loop body included): the
				// uses before the declaration, the loop condition and everything after the block mean the OUTER variable
				v := outer[rng.Intn(len(outer))]
				if shadowed[v] {
					break
				}
				shadowed[v] = true
				fmt.Fprintf(&b, "%sprint \"pre\" %s\n%s%s = %s + 1\n", ind, v, ind, v, v)
				if i == n-1 && rng.Intn(2) == 0 {
					fmt.Fprintf(&b, "%s%s := \"shadow-%d\"\n%sprint \"sh\" %s\n", ind, v, rng.Intn(9), ind, v)
				} else {
					fmt.Fprintf(&b, "%s%s := %d\n%sprint \"sh\" %s\n", ind, v, 100+rng.Intn(9), ind, v)
				}
			case k < 2 || depth == 0:
				v := fresh("v")
				fmt.Fprintf(&b, "%s%s := %d\n%sprint \"%s\" %s\n", ind, v, rng.Intn(9), ind, v, v)
				local = append(local, v)
			case k < 3 && len(outer) > 0: // shadow an outer variable
				v := outer[rng.Intn(len(outer))]
				fmt.Fprintf(&b, "%sif true\n%s    %s := \"shadow\"\n%s    print %s\n%send\n%sprint %s\n", ind, ind, v, ind, v, ind, ind, v)
			case k < 4 && len(local) > 0:
				v := local[rng.Intn(len(local))]
				fmt.Fprintf(&b, "%s%s = %s + 1\n", ind, v, v)
			case k < 6:
				c := []string{"true", "false", "1 < 2", "2 < 1"}[rng.Intn(4)]
				fmt.Fprintf(&b, "%sif %s\n", ind, c)
				all := block(ind+"    ", depth-1, inLoop, inFunc, local)
				if rng.Intn(2) == 0 {
					fmt.Fprintf(&b, "%selse if %s\n", ind, []string{"true", "false"}[rng.Intn(2)])
					all = block(ind+"    ", depth-1, inLoop, inFunc, local) && all
				}
				hasElse := rng.Intn(2) == 0
				if hasElse {
					fmt.Fprintf(&b, "%selse\n", ind)
					all = block(ind+"    ", depth-1, inLoop, inFunc, local) && all
				}
				fmt.Fprintf(&b, "%send\n", ind)
				if hasElse && all {
					return true
				}
			case k < 7:
				c := fresh("i")
				fmt.Fprintf(&b, "%s%s := 0\n%swhile %s < %d\n%s    %s = %s + 1\n%s    print \"w\" %s\n", ind, c, ind, c, 1+rng.Intn(3), ind, c, c, ind, c)
				block(ind+"    ", depth-1, true, inFunc, append(local, c))
				fmt.Fprintf(&b, "%send\n%sprint %s\n", ind, ind, c)
			case k < 9:
				e := fresh("e")
				var hdr string
				switch rng.Intn(4) {
				case 0:
					hdr = ranges[rng.Intn(len(ranges))]
				case 1:
					hdr = []string{"[1 2 3]", "[\"a\" \"b\"]", "[[1] [2 3]]"}[rng.Intn(3)]
				case 2:
					hdr = []string{"\"abc\"", "\"äö日\"", "\"\""}[rng.Intn(3)]
				default:
					hdr = "{a:1 b:2 c:3}"
				}
				fmt.Fprintf(&b, "%sfor %s := range %s\n%s    print \"f\" %s\n", ind, e, hdr, ind, e)
				block(ind+"    ", depth-1, true, inFunc, local)
				fmt.Fprintf(&b, "%send\n", ind)
			case k == 10 && rng.Intn(2) == 0:
				// a loop over a string (array, map) cell that the body changes IN PLACE or rebinds: the loop visits the
				// code points (elements, keys) the value had when the loop started
				c := fresh("c")
				switch rng.Intn(3) {
				case 0:
					fmt.Fprintf(&b, "%sprint (str2num \"abc\")\n%sfor %s := range errmsg\n%s    print \"e\" %s (str2bool \"%s\") errmsg\n%send\n", ind, ind, c, ind, c, []string{"maybe", "true", "x"}[rng.Intn(3)], ind)
				case 1:
					sv := fresh("sv")
					fmt.Fprintf(&b, "%s%s := \"abcd\"\n%sfor %s := range %s\n%s    print \"e\" %s\n%s    %s = %s + \"!\"\n%s    print (str2num %s)\n%send\n%sprint %s errmsg\n", ind, sv, ind, c, sv, ind, c, ind, sv, c, ind, c, ind, ind, sv)
				default:
					av := fresh("av")
					fmt.Fprintf(&b, "%s%s := [1 2 3]\n%sfor %s := range %s\n%s    print \"e\" %s\n%s    %s = %s + [%s]\n%s    %s[0] = 9\n%send\n%sprint %s\n", ind, av, ind, c, av, ind, c, ind, av, av, c, ind, av, ind, ind, av)
				}
			case k == 9 && rng.Intn(2) == 0: // a loop that mutates the map it iterates over
				m := fresh("mm")
				e := fresh("e")
				fmt.Fprintf(&b, "%s%s := {a:1 b:2 c:3 d:4}\n%sfor %s := range %s\n%s    print \"m\" %s (has %s %s)\n", ind, m, ind, e, m, ind, e, m, e)
				muts := []string{"del M \"b\"", "del M \"c\"", "del M \"d\"", "M.x = 9", "M.y = 8", "M[E] = 7", "del M E", "M.b = 5", "del M \"a\""}
				for j := 0; j < 1+rng.Intn(3); j++ {
					mu := strings.ReplaceAll(strings.ReplaceAll(muts[rng.Intn(len(muts))], "M", m), "E", e)
					fmt.Fprintf(&b, "%s    %s\n", ind, mu)
				}
				fmt.Fprintf(&b, "%send\n%sprint %s\n", ind, ind, m)
			case k < 10 && inLoop && i == n-1:
				fmt.Fprintf(&b, "%sprint \"break\"\n%sbreak\n", ind, ind)
				return true
			case k < 12 && inFunc && i == n-1:
				fmt.Fprintf(&b, "%sprint \"return\"\n%sreturn\n", ind, ind)
				return true
			default:
				fmt.Fprintf(&b, "%sprint \"c\" (fn%d %d)\n", ind, 1+rng.Intn(2), rng.Intn(4))
			}
		}
		return false
	}
	// two functions called from anywhere (also before definition), one recursive
	b.WriteString("g := 100\n")
	b.WriteString("print \"early\" (fn2 2)\n")
	b.WriteString("func fn1:num n:num\n    g = g + 1\n    if n > 0\n        return (fn1 n-1) + 1\n    end\n    return g\nend\n")
	b.WriteString("func fn2:num n:num\n    t := n * 2\n    for i := range n\n        if i == 1\n            return t + i\n        end\n        t = t + g\n    end\n    return t\nend\n")
	// the same loop statement active several times at once: recursion from inside a numeric / array / map / string loop body
	b.WriteString("func fn3:num n:num\n    t := 0\n    for i := range n\n        t = t + i + (fn3 n-1)\n        print \"fn3\" n i t\n    end\n    return t\nend\n")
	b.WriteString("func walk d:num\n    if d == 0\n        return\n    end\n    for i := range 3 0 -1\n        print \"walk\" d i\n        walk d-1\n    end\n    for e := range [d d+1]\n        print \"walka\" d e\n        walk d-1\n    end\n    for k := range {p:1 q:2}\n        print \"walkm\" d k\n        walk d-1\n    end\n    for c := range \"xy\"\n        print \"walks\" d c\n        walk d-1\n    end\nend\n")
	fmt.Fprintf(&b, "print (fn3 %d)\nwalk %d\n", 2+rng.Intn(2), 1+rng.Intn(2))
	b.WriteString("func proc n:num\n    print \"proc\" n\n")
	if !block("    ", 3, false, true, []string{"n"}) {
		b.WriteString("    print \"proc-end\" n\n")
	}
	b.WriteString("end\n")
	block("", 4, false, false, []string{"g"})
	b.WriteString("proc 2\nprint g\n")
	return b.String()
}

func runC10(cfg Config, r *Result) {
	model := startSem(r)
	if model == nil {
		return
	}
	defer model.Close()
	r.Rule = "random nestings (depth <= 4) of if/else-if/else, while, for over numeric ranges (incl. negative, fractional, empty, wrong-direction and zero steps), arrays, strings (non-ASCII) and maps, with declarations and shadowing at every level, break/return as last statement of blocks, calls to a recursive function and to a function defined later; plus random typed programs; implementation vs model on outcome, printed trace, yield count and globals; every case non-trivial; distinct = distinct program text"
	if in, ok := replayInput(cfg); ok {
		semCase(model, r, in["program"].(string), SemOpts{StopAt: -1, YieldBudget: 100000}, true, "")
		return
	}
	n := cfg.N(1200, 30000)
	for i := 0; i < n; i++ {
		src := c10Nest(cfg.Rng)
		d := semCase(model, r, src, SemOpts{StopAt: -1, YieldBudget: 100000}, true, "nest:")
		if d.Impl.ParseErr != "" && len(r.Notes) < 5 {
			r.Note("parse error: %s", d.Impl.ParseErr)
		}
		if i < 2 {
			r.Sample(map[string]any{"program": src})
		}
	}
	m := cfg.N(500, 10000)
	for i := 0; i < m; i++ {
		src, _, _ := GenProgram(cfg.Rng, GenOpts{MaxStmts: 8, MaxDepth: 2, Funcs: true})
		semCase(model, r, src, SemOpts{StopAt: -1, YieldBudget: 100000}, true, "gen:")
	}
}

func init() { register("C10", runC10) }
