package main

// C10 — scoping and control flow: random nestings of if/else-if/else, while,
// for (numeric incl. negative/fractional/empty ranges, array, string, map) and
// function calls with declarations and shadowing at every level, break/return
// placements; compared with the model on the printed trace, outcome, yields
// and globals.

import (
	"fmt"
	"math/rand"
	"strings"
)

// c10Nest builds a deeply nested control-flow skeleton with trace prints.
func c10Nest(rng *rand.Rand) string {
	var b strings.Builder
	id := 0
	fresh := func(p string) string { id++; return fmt.Sprintf("%s%d", p, id) }
	var block func(ind string, depth int, inLoop, inFunc bool, outer []string) bool
	ranges := []string{"3", "1 4", "4 1 -1", "0 1 0.25", "5 5", "3 1", "-2 1", "0 -3 -1.5", "2 0 1", "1 2 0"}
	block = func(ind string, depth int, inLoop, inFunc bool, outer []string) bool {
		n := 1 + rng.Intn(3)
		local := append([]string(nil), outer...)
		shadowed := map[string]bool{}
		nestedScope := (inFunc && len(ind) >= 8) || (!inFunc && len(ind) >= 4) // outer names live in an enclosing scope
		for i := 0; i < n; i++ {
			switch k := rng.Intn(15); {
			case k >= 13 && nestedScope && len(outer) > 0:
				// use and update an outer variable, then shadow it directly in this block (a loop body included): the
				// uses before the declaration, the loop condition and everything after the block mean the OUTER variable
				v := outer[rng.Intn(len(outer))]
				if shadowed[v] {
					break
				}
				shadowed[v] = true
				fmt.Fprintf(&b, "%sprint \"pre\" %s\n%s%s = %s + 1\n", ind, v, ind, v, v)
				if i == n-1 && rng.Intn(2) == 0 {
					fmt.Fprintf(&b, "%s%s := \"shadow-%d\"\n%sprint \"sh\" %s\n", ind, v, rng.Intn(9), ind, v)
				} else {
					fmt.Fprintf(&b, "%s%s := %d\n%sprint \"sh\" %s\n", ind, v, 100+rng.Intn(9), ind, v)
				}
			case k < 2 || depth == 0:
				v := fresh("v")
				fmt.Fprintf(&b, "%s%s := %d\n%sprint \"%s\" %s\n", ind, v, rng.Intn(9), ind, v, v)
				local = append(local, v)
			case k < 3 && len(outer) > 0: // shadow an outer variable
				v := outer[rng.Intn(len(outer))]
				fmt.Fprintf(&b, "%sif true\n%s    %s := \"shadow\"\n%s    print %s\n%send\n%sprint %s\n", ind, ind, v, ind, v, ind, ind, v)
			case k < 4 && len(local) > 0:
				v := local[rng.Intn(len(local))]
				fmt.Fprintf(&b, "%s%s = %s + 1\n", ind, v, v)
			case k < 6:
				c := []string{"true", "false", "1 < 2", "2 < 1"}[rng.Intn(4)]
				fmt.Fprintf(&b, "%sif %s\n", ind, c)
				all := block(ind+"    ", depth-1, inLoop, inFunc, local)
				if rng.Intn(2) == 0 {
					fmt.Fprintf(&b, "%selse if %s\n", ind, []string{"true", "false"}[rng.Intn(2)])
					all = block(ind+"    ", depth-1, inLoop, inFunc, local) && all
				}
				hasElse := rng.Intn(2) == 0
				if hasElse {
					fmt.Fprintf(&b, "%selse\n", ind)
					all = block(ind+"    ", depth-1, inLoop, inFunc, local) && all
				}
				fmt.Fprintf(&b, "%send\n", ind)
				if hasElse && all {
					return true
				}
			case k < 7:
				c := fresh("i")
				fmt.Fprintf(&b, "%s%s := 0\n%swhile %s < %d\n%s    %s = %s + 1\n%s    print \"w\" %s\n", ind, c, ind, c, 1+rng.Intn(3), ind, c, c, ind, c)
				block(ind+"    ", depth-1, true, inFunc, append(local, c))
				fmt.Fprintf(&b, "%send\n%sprint %s\n", ind, ind, c)
			case k < 9:
				e := fresh("e")
				var hdr string
				switch rng.Intn(4) {
				case 0:
					hdr = ranges[rng.Intn(len(ranges))]
				case 1:
					hdr = []string{"[1 2 3]", "[\"a\" \"b\"]", "[[1] [2 3]]"}[rng.Intn(3)]
				case 2:
					hdr = []string{"\"abc\"", "\"äö日\"", "\"\""}[rng.Intn(3)]
				default:
					hdr = "{a:1 b:2 c:3}"
				}
				fmt.Fprintf(&b, "%sfor %s := range %s\n%s    print \"f\" %s\n", ind, e, hdr, ind, e)
				block(ind+"    ", depth-1, true, inFunc, local)
				fmt.Fprintf(&b, "%send\n", ind)
			case k == 10 && rng.Intn(2) == 0:
				// a loop over a string (array, map) cell that the body changes IN PLACE or rebinds: the loop visits the
				// code points (elements, keys) the value had when the loop started
				c := fresh("c")
				switch rng.Intn(3) {
				case 0:
					fmt.Fprintf(&b, "%sprint (str2num \"abc\")\n%sfor %s := range errmsg\n%s    print \"e\" %s (str2bool \"%s\") errmsg\n%send\n", ind, ind, c, ind, c, []string{"maybe", "true", "x"}[rng.Intn(3)], ind)
				case 1:
					sv := fresh("sv")
					fmt.Fprintf(&b, "%s%s := \"abcd\"\n%sfor %s := range %s\n%s    print \"e\" %s\n%s    %s = %s + \"!\"\n%s    print (str2num %s)\n%send\n%sprint %s errmsg\n", ind, sv, ind, c, sv, ind, c, ind, sv, c, ind, c, ind, ind, sv)
				default:
					av := fresh("av")
					fmt.Fprintf(&b, "%s%s := [1 2 3]\n%sfor %s := range %s\n%s    print \"e\" %s\n%s    %s = %s + [%s]\n%s    %s[0] = 9\n%send\n%sprint %s\n", ind, av, ind, c, av, ind, c, ind, av, av, c, ind, av, ind, ind, av)
				}
			case k == 9 && rng.Intn(2) == 0: // a loop that mutates the map it iterates over
				m := fresh("mm")
				e := fresh("e")
				fmt.Fprintf(&b, "%s%s := {a:1 b:2 c:3 d:4}\n%sfor %s := range %s\n%s    print \"m\" %s (has %s %s)\n", ind, m, ind, e, m, ind, e, m, e)
				muts := []string{"del M \"b\"", "del M \"c\"", "del M \"d\"", "M.x = 9", "M.y = 8", "M[E] = 7", "del M E", "M.b = 5", "del M \"a\""}
				for j := 0; j < 1+rng.Intn(3); j++ {
					mu := strings.ReplaceAll(strings.ReplaceAll(muts[rng.Intn(len(muts))], "M", m), "E", e)
					fmt.Fprintf(&b, "%s    %s\n", ind, mu)
				}
				fmt.Fprintf(&b, "%send\n%sprint %s\n", ind, ind, m)
			case k < 10 && inLoop && i == n-1:
				fmt.Fprintf(&b, "%sprint \"break\"\n%sbreak\n", ind, ind)
				return true
			case k < 12 && inFunc && i == n-1:
				fmt.Fprintf(&b, "%sprint \"return\"\n%sreturn\n", ind, ind)
				return true
			default:
				fmt.Fprintf(&b, "%sprint \"c\" (fn%d %d)\n", ind, 1+rng.Intn(2), rng.Intn(4))
			}
		}
		return false
	}
	// two functions called from anywhere (also before definition), one recursive
	b.WriteString("g := 100\n")
	b.WriteString("print \"early\" (fn2 2)\n")
	b.WriteString("func fn1:num n:num\n    g = g + 1\n    if n > 0\n        return (fn1 n-1) + 1\n    end\n    return g\nend\n")
	b.WriteString("func fn2:num n:num\n    t := n * 2\n    for i := range n\n        if i == 1\n            return t + i\n        end\n        t = t + g\n    end\n    return t\nend\n")
	// the same loop statement active several times at once: recursion from inside a numeric / array / map / string loop body
	b.WriteString("func fn3:num n:num\n    t := 0\n    for i := range n\n        t = t + i + (fn3 n-1)\n        print \"fn3\" n i t\n    end\n    return t\nend\n")
	b.WriteString("func walk d:num\n    if d == 0\n        return\n    end\n    for i := range 3 0 -1\n        print \"walk\" d i\n        walk d-1\n    end\n    for e := range [d d+1]\n        print \"walka\" d e\n        walk d-1\n    end\n    for k := range {p:1 q:2}\n        print \"walkm\" d k\n        walk d-1\n    end\n    for c := range \"xy\"\n        print \"walks\" d c\n        walk d-1\n    end\nend\n")
	fmt.Fprintf(&b, "print (fn3 %d)\nwalk %d\n", 2+rng.Intn(2), 1+rng.Intn(2))
	b.WriteString("func proc n:num\n    print \"proc\" n\n")
	if !block("    ", 3, false, true, []string{"n"}) {
		b.WriteString("    print \"proc-end\" n\n")
	}
	b.WriteString("end\n")
	block("", 4, false, false, []string{"g"})
	b.WriteString("proc 2\nprint g\n")
	return b.String()
}

// c10Handlers: "a function or handler body sees its parameters, its own locals and the globals; shadowing leaves the outer
// variable unchanged". Globals of random types named from a small pool, event handlers and functions whose PARAMETER and
// LOCAL names are drawn from the same pool (so they shadow globals, also with a different type), bodies that print and
// assign their parameters, assign globals they do not shadow, and call reporting / updating functions that read the globals
// (a callee must see the GLOBAL, never a caller's or a handler's parameter of that name); then a random event history, after
// every event the model and the implementation are compared on effects and on the globals dump.
func c10Handlers(rng *rand.Rand) (string, []SemEvent) {
	var b strings.Builder
	w := func(f string, a ...any) { fmt.Fprintf(&b, f+"\n", a...) }
	pool := []string{"x", "y", "k", "n", "s", "id", "val", "t", "g"}
	types := []string{"num", "string", "bool", "[]num", "{}num", "any"}
	lit := func(ty string) string {
		switch ty {
		case "num":
			return fmt.Sprint(10 + rng.Intn(90))
		case "string":
			return fmt.Sprintf("%q", "g"+fmt.Sprint(rng.Intn(9)))
		case "bool":
			return []string{"true", "false"}[rng.Intn(2)]
		case "[]num":
			return fmt.Sprintf("[%d %d]", rng.Intn(9), rng.Intn(9))
		case "{}num":
			return fmt.Sprintf("{a:%d}", rng.Intn(9))
		}
		return ""
	}
	gtype := map[string]string{}
	var globals []string
	for _, i := range rng.Perm(len(pool))[:3+rng.Intn(5)] {
		v := pool[i]
		ty := types[rng.Intn(len(types))]
		if rng.Intn(2) == 0 {
			ty = "num"
		}
		gtype[v] = ty
		globals = append(globals, v)
		if ty == "any" {
			w("%s:any\n%s = %s", v, v, lit(types[rng.Intn(5)]))
		} else {
			w("%s := %s", v, lit(ty))
		}
	}
	w("count := 0")
	all := strings.Join(globals, " ")
	// update of a global of type ty through its name (inside a body that does not shadow it)
	upd := func(v string) string {
		switch gtype[v] {
		case "num":
			return v + " = " + v + " + 1"
		case "string":
			return v + " = " + v + " + \"!\""
		case "bool":
			return v + " = !" + v
		case "[]num":
			return v + " = " + v + " + [count]"
		case "{}num":
			return v + "[(sprint count)] = count"
		}
		return v + " = count"
	}
	w("func report tag:string\n    print tag count %s\nend", all)
	w("func bump\n    count = count + 1")
	for _, v := range globals {
		if rng.Intn(3) == 0 {
			w("    %s", upd(v))
		}
	}
	w("    report \"bump\"\nend")
	// a function whose parameter (and a local) carry global names; it calls report, which must print the globals
	fp := globals[rng.Intn(len(globals))]
	fl := pool[rng.Intn(len(pool))]
	w("func shade %s:num\n    print \"shade\" %s\n    %s = %s * 2\n    report \"in shade\"", fp, fp, fp, fp)
	if fl != fp {
		w("    %s := \"local\"\n    print \"shade local\" %s %s\n    bump", fl, fl, fp)
	}
	w("    report \"end shade\"\nend")
	w("shade 7\nreport \"top\"")
	sigs := []struct {
		name string
		tys  []string
	}{{"key", []string{"string"}}, {"down", []string{"num", "num"}}, {"up", []string{"num", "num"}}, {"move", []string{"num", "num"}},
		{"animate", []string{"num"}}, {"input", []string{"string", "string"}}}
	var hs []string
	for _, i := range rng.Perm(len(sigs))[:2+rng.Intn(3)] {
		h := sigs[i]
		hs = append(hs, h.name)
		hdr := "on " + h.name
		var ps, pts []string
		if rng.Intn(6) > 0 {
			used := map[string]bool{}
			for _, ty := range h.tys {
				var nm string
				for {
					nm = pool[rng.Intn(len(pool))]
					if rng.Intn(3) == 0 && len(globals) > 0 {
						nm = globals[rng.Intn(len(globals))]
					}
					if !used[nm] {
						break
					}
				}
				used[nm] = true
				hdr += " " + nm + ":" + ty
				ps, pts = append(ps, nm), append(pts, ty)
			}
		}
		w("%s", hdr)
		w("    count = count + 1")
		w("    print %q %s", h.name, strings.Join(ps, " "))
		isParam := func(v string) bool {
			for _, p := range ps {
				if p == v {
					return true
				}
			}
			return false
		}
		declared := map[string]bool{}
		for n := 2 + rng.Intn(4); n > 0; n-- {
			switch rng.Intn(8) {
			case 0:
				w("    report \"in %s\"", h.name)
			case 1:
				w("    bump")
			case 2:
				if len(ps) > 0 { // assign a parameter: the global of that name stays
					j := rng.Intn(len(ps))
					if pts[j] == "num" {
						w("    %s = %s + 1000", ps[j], ps[j])
					} else {
						w("    %s = %s + \"#\"", ps[j], ps[j])
					}
					w("    print \"param\" %s", ps[j])
				}
			case 3: // update a global that the handler does not shadow
				v := globals[rng.Intn(len(globals))]
				if !isParam(v) && !declared[v] {
					w("    %s\n    print \"upd\" %s", upd(v), v)
				}
			case 4: // a local named like a global (or a fresh name), declared after using the global
				v := pool[rng.Intn(len(pool))]
				if !isParam(v) && !declared[v] {
					declared[v] = true
					if gtype[v] != "" {
						w("    print \"before local\" %s", v)
					}
					w("    %s := %q\n    print \"local\" %s", v, "L"+h.name, v)
				}
			case 5:
				w("    shade %d", rng.Intn(50))
			case 6:
				if len(ps) > 0 {
					w("    if count %% 2 == 0\n        print \"even\" %s\n        report \"nested\"\n    end", ps[rng.Intn(len(ps))])
				}
			default:
				if len(ps) > 0 && pts[0] == "num" {
					w("    for i := range 2\n        print \"loop\" i %s\n        %s = %s + i\n    end", ps[0], ps[0], ps[0])
				}
			}
		}
		w("    report \"end %s\"", h.name)
		w("end")
	}
	w("print count %s", all)
	var evs []SemEvent
	for n := 2 + rng.Intn(7); n > 0; n-- {
		name := hs[rng.Intn(len(hs))]
		evs = append(evs, SemEvent{Name: name, Params: eventPayloads[name](rng)})
	}
	return b.String(), evs
}

func runC10(cfg Config, r *Result) {
	model := startSem(r)
	if model == nil {
		return
	}
	defer model.Close()
	r.Rule = "random nestings (depth <= 4) of if/else-if/else, while, for over numeric ranges (incl. negative, fractional, empty, wrong-direction and zero steps), arrays, strings (non-ASCII) and maps, with declarations and shadowing at every level, break/return as last statement of blocks, calls to a recursive function and to a function defined later; plus random typed programs; plus handler programs (globals of random types named from a small pool; event handlers and functions whose parameter and local names are drawn from the same pool and so shadow globals, bodies that print / assign their parameters, update unshadowed globals and call reporting functions that read the globals; a random history of 2-8 events, compared after every event; own oracle: same effects as the handlers rewritten as procedures and called in that order); implementation vs model on outcome, printed trace, yield count and globals; every case non-trivial; distinct = distinct program text"
	if in, ok := replayInput(cfg); ok {
		evs := c10ReplayEvents(in)
		d := semCase(model, r, in["program"].(string), SemOpts{StopAt: -1, YieldBudget: 100000, Events: evs}, true, "")
		if len(evs) > 0 {
			c10HandlerOracle(r, in["program"].(string), evs, d)
		}
		return
	}
	n := cfg.N(1200, 30000)
	for i := 0; i < n; i++ {
		src := c10Nest(cfg.Rng)
		d := semCase(model, r, src, SemOpts{StopAt: -1, YieldBudget: 100000}, true, "nest:")
		if d.Impl.ParseErr != "" && len(r.Notes) < 5 {
			r.Note("parse error: %s", d.Impl.ParseErr)
		}
		if i < 2 {
			r.Sample(map[string]any{"program": src})
		}
	}
	m := cfg.N(500, 10000)
	for i := 0; i < m; i++ {
		src, _, _ := GenProgram(cfg.Rng, GenOpts{MaxStmts: 8, MaxDepth: 2, Funcs: true})
		semCase(model, r, src, SemOpts{StopAt: -1, YieldBudget: 100000}, true, "gen:")
	}
	// handlers and functions whose parameters / locals shadow globals, run through event histories
	hn := cfg.N(500, 10000)
	for i := 0; i < hn; i++ {
		src, evs := c10Handlers(cfg.Rng)
		d := semCase(model, r, src, SemOpts{StopAt: -1, YieldBudget: 100000, Events: evs}, true, "handlers:")
		if d.Impl.ParseErr != "" && len(r.Notes) < 5 {
			r.Note("parse error (handlers): %s", d.Impl.ParseErr)
		}
		if i < 1 {
			r.Sample(map[string]any{"program": src, "events": evs})
		}
		c10HandlerOracle(r, src, evs, d)
	}
}

func init() { register("C10", runC10) }

// c10ReplayEvents decodes the "events" of a recorded input.
func c10ReplayEvents(in map[string]any) []SemEvent {
	var evs []SemEvent
	l, _ := in["events"].([]any)
	for _, e := range l {
		m, ok := e.(map[string]any)
		if !ok {
			continue
		}
		name, _ := m["Name"].(string)
		ps, _ := m["Params"].([]any)
		evs = append(evs, SemEvent{Name: name, Params: ps})
	}
	return evs
}

// c10HandlerOracle is the property's own check on the implementation alone: when the top-level run and every event end
// normally, delivering the events has the effects of calling the handlers, rewritten as procedures with the same parameter
// names, in that order (a procedure call binds its parameters in a scope of its own above the globals).
func c10HandlerOracle(r *Result, src string, evs []SemEvent, d SemDiff) {
	if d.Impl.ParseErr != "" || d.Impl.Budget || len(d.Impl.Phases) == 0 {
		return
	}
	for _, p := range d.Impl.Phases {
		if p.Class != "ok" {
			return
		}
	}
	psrc, _ := c15AsProcedures(src, evs)
	pr := ImplRun(psrc, SemOpts{StopAt: -1, YieldBudget: 100000})
	if pr.ParseErr != "" || len(pr.Phases) == 0 || pr.Phases[0].Class != "ok" {
		r.Dist("handlers:procedures-not-comparable")
		return
	}
	r.Dist("handlers:procedures-compared")
	a, b := flatTrace(d.Impl), flatTrace(pr)
	if strings.Join(a, "\x1e") != strings.Join(b, "\x1e") {
		r.Violate(Violation{Kind: "property", Key: "handler-scope-differs-from-procedure-scope",
			Detail: "delivering the events does not have the effects of calling procedures with the same parameters and bodies in that order (a handler parameter or local is not confined to the handler's own scope?)",
			Input:  map[string]any{"program": src, "events": evs, "procedures": psrc}, Impl: map[string]any{"events": a, "procedures": b}})
	}
}
