package main

import (
	"fmt"
	"sort"
	"strings"

	"evylang.dev/evy/pkg/evaluator"
	"evylang.dev/evy/pkg/parser"
)

// C02 — accepted programs never go wrong.
//
// CC: the certificate checker Static.wt_case (model "static") is run on the
// exported tree of every program parser.Parse accepts (corpus, generated,
// and a fixed list of empty-literal / scoping stress programs).
// PO: the program is run on the real evaluator under recover and a yield
// budget; a Go panic or an ErrInternal-wrapped error on an accepted program is
// a violation by itself.  Classification:
//   - wt rejects and Go crashes  -> property violation, key "wt-reject:<reason>"
//     (a hole of the Go checker, predicted by the verified checker)
//   - wt accepts inside the proved fragment (Static.s2_program: everything except calls of the
//     built-ins Sem.v does not model: repr clear grid gridn poly ellipse dash font; the answer is "(wt true <in s2> <in s1>)") and Go crashes
//     -> correspondence violation "stage1-crash" (contradicts C02_soundness_modulo_overflow_partial /
//     C02_handlers_modulo_overflow_partial: the model or the export is wrong; a stack overflow on a
//     cyclic value kills the process and is not seen here)
//   - wt accepts outside the fragment and Go crashes -> property violation,
//     key "wt-accept:<panic class>" (not proved)
//   - after a normal run one well-formed event is delivered to every declared handler
//   - wt rejects and Go runs fine -> only counted ("wt-stricter:<reason>")
// The cyclic-value program (a[0] = a / print a) kills the process with a stack
// overflow that recover cannot catch; it is listed in findings.d and not run here.

var c02Witnesses = []string{
	"x := 1\nfor i := range 2\n    print x+1 i\n    x := \"a\"\n    print x\nend\n",
	"y := ([[]] + [[1]])[1] + [\"a\"]\nprint y[0]+\"b\"\n",
	"x := [(cls)]\nprint x\n",
	"func f\n    print \"f\"\nend\nx := {a:(f)}\nprint x\n",
	"f\nx := 1\nprint x\nfunc f\n    x = 2\nend\n",
	"x := [] * 3\ny := x + [1]\nprint y\n",
	"print (typeof [][:])\n",
	"x := [[]] + [[1]]\nprint x\n",
	"a := [1 2 3]\nfor x := range a\n    a[0] = x\nend\nprint a []+[] [[]]==[[1]]\n",
	"m := {}\nfor k := range m\n    print k\nend\nprint (has {} \"a\") (len []) (len {})\n",
}

func c02PanicClass(o RunOutcome) string {
	t := o.GoPanic
	if o.Class == "internal" {
		t = o.ErrText
	}
	if i := strings.Index(t, "internal error: "); i >= 0 {
		t = t[i:]
	}
	if i := strings.Index(t, " is *"); i >= 0 && strings.HasPrefix(t, "interface conversion") {
		t = "interface conversion"
	}
	for _, cut := range []string{" \"", ": update", " called"} {
		if i := strings.Index(t, cut); i > 0 {
			t = t[:i]
		}
	}
	if len(t) > 48 {
		t = t[:48]
	}
	return strings.ReplaceAll(t, " ", "_")
}

// c02Events delivers one event with the event's full payload to every handler the
// program declares; it returns a non-empty class when a handler goes wrong.
func c02Events(ev *evaluator.Evaluator, hs map[string]*parser.EventHandlerStmt) (class, text string) {
	payload := map[string][]any{
		"key": {"a"}, "down": {1.0, 2.0}, "up": {1.0, 2.0}, "move": {3.0, 4.0},
		"animate": {16.0}, "input": {"id", "val"},
	}
	names := make([]string, 0, len(hs))
	for n := range hs {
		names = append(names, n)
	}
	sort.Strings(names)
	for _, n := range names {
		func() {
			defer func() {
				if rec := recover(); rec != nil {
					class, text = "gopanic", fmt.Sprint(rec)
				}
			}()
			ev.Stopped = false
			err := ev.HandleEvent(evaluator.Event{Name: n, Params: payload[n]})
			if c := classifyErr(err); c == "internal" {
				class, text = c, err.Error()
			}
		}()
		if class != "" {
			return
		}
	}
	return
}

// c02OutsideBuiltins: which of the built-ins outside the proved fragment occur as words of the source (a label for
// the distribution only; the decision inside / outside is Static.s2_program's)
func c02OutsideBuiltins(src string) []string {
	var out []string
	words := map[string]bool{}
	for _, w := range strings.FieldsFunc(src, func(c rune) bool {
		return !(c == '_' || c >= 'a' && c <= 'z' || c >= 'A' && c <= 'Z' || c >= '0' && c <= '9')
	}) {
		words[w] = true
	}
	for _, n := range []string{"repr", "clear", "grid", "gridn", "poly", "ellipse", "dash", "font"} {
		if words[n] {
			out = append(out, n)
		}
	}
	return out
}

func runC02WT(cfg Config, r *Result) {
	model, err := StartModel("static")
	if err != nil {
		r.Violate(Violation{Kind: "correspondence", Key: "model-start", Detail: err.Error()})
		return
	}
	defer model.Close()
	// the specification-driven checker StaticTypes.swt_program (C02_types): how much of the accepted programs lies in the
	// fragment of the corollary "soundness from the specification's typing rules"; swt accepts => wt accepts is a theorem
	// (C02_types_program_partial), re-checked here on the extracted code
	smodel, serr := StartModel("statictypes")
	if serr != nil {
		r.Violate(Violation{Kind: "correspondence", Key: "model-start", Detail: serr.Error()})
		return
	}
	defer smodel.Close()
	r.Rule += "; certificate checker: for every parser-accepted tree (witnesses, corpus, generated) Static.wt and the evaluator are run: Go accepts + wt rejects + evaluator goes wrong = hole in the Go checker; wt accepts inside the proved fragment + evaluator goes wrong = correspondence violation"
	progs := append([]string{}, c02Witnesses...)
	progs = append(progs, CorpusPrograms()...)
	n := cfg.N(1500, 40000)
	for i := 0; i < n; i++ {
		// the whole proved fragment: functions, event handlers, read, empty literals in arbitrary positions
		src, _, _ := GenProgram(cfg.Rng, GenOpts{MaxStmts: 8, MaxDepth: 2, Funcs: i%2 == 0, Handlers: i%3 == 0, Reads: i%5 == 0,
			Empties: i%4 == 0, Tests: i%7 == 0, Specials: true, Gfx: true, MapLitPure: true, MoreBuiltins: i%2 == 1})
		progs = append(progs, src)
	}
	for i := 0; i < cfg.N(500, 5000); i++ {
		// untyped empty literals next to every kind of operand / declared type (harness/c02empty.go)
		src, _ := c02EmptyProgram(cfg.Rng)
		progs = append(progs, src)
	}
	for _, src := range progs {
		prog, perr := safeParse(src)
		if perr != nil {
			if strings.HasPrefix(perr.Error(), "gopanic:") {
				r.Dist("parser-gopanic (C03)")
			} else {
				r.Dist("parse-error")
			}
			continue
		}
		sx, err := ExportProgram(prog)
		if err != nil {
			r.Dist("unexportable")
			continue
		}
		ans, err := model.Ask(sx.String())
		if err != nil {
			r.Violate(Violation{Kind: "correspondence", Key: "model-io", Detail: err.Error(), Input: src})
			return
		}
		if !strings.HasPrefix(ans, "(wt ") {
			r.Violate(Violation{Kind: "correspondence", Key: "wt-decode", Detail: ans, Input: src})
			continue
		}
		wt := strings.HasPrefix(ans, "(wt true")
		s1 := strings.HasPrefix(ans, "(wt true true")
		if sans, err := smodel.Ask(sx.String()); err != nil || !strings.HasPrefix(sans, "(swt ") {
			r.Violate(Violation{Kind: "correspondence", Key: "swt-decode", Detail: fmt.Sprint(sans, err), Input: src})
		} else {
			switch {
			case strings.HasPrefix(sans, "(swt true true"):
				r.Dist("spec-driven checker swt: accepts")
			case strings.HasPrefix(sans, "(swt true false"):
				r.Violate(Violation{Kind: "correspondence", Key: "swt-not-wt", Detail: "swt_program accepts, wt_program rejects (contradicts C02_types_program_partial): " + ans, Input: src, Model: sans})
			case wt:
				r.Dist("spec-driven checker swt: outside (wt accepts)")
			default:
				r.Dist("spec-driven checker swt: outside (wt rejects)")
			}
		}
		reason := strings.TrimSuffix(strings.TrimPrefix(ans, "(wt false "), ")")
		out := RunEvy(src, RunOpts{YieldBudget: 200000, NoSummary: true, Input: []string{"1", "abc"}})
		crashed := out.Class == "gopanic" || out.Class == "internal"
		if !crashed && out.Class == "ok" && out.Eval != nil && len(prog.EventHandlers) > 0 {
			// C02_handlers_partial: one well-formed event per declared handler, in the state the run left
			if c, txt := c02Events(out.Eval, prog.EventHandlers); c != "" {
				crashed = true
				out.Class, out.GoPanic = c, txt
			}
		}
		r.Count(src, true)
		r.Validated++
		switch {
		case crashed && !wt:
			key := "wt-reject:" + reason
			r.Dist("HOLE " + key)
			r.Violate(Violation{Kind: "property", Key: key, Detail: "Go accepts, wt rejects (" + reason + "), evaluator goes wrong: " + out.Class + " " + out.GoPanic + out.ErrText, Input: map[string]any{"program": src}, Impl: out.Class, Model: ans})
		case crashed && s1:
			r.Dist("STAGE1-CRASH")
			r.Violate(Violation{Kind: "correspondence", Key: "stage1-crash", Detail: "wt accepts inside the proved fragment but the evaluator goes wrong: " + out.GoPanic + out.ErrText, Input: map[string]any{"program": src}, Impl: out.Class, Model: ans})
		case crashed:
			key := "wt-accept:" + c02PanicClass(out)
			r.Dist("HOLE " + key)
			r.Violate(Violation{Kind: "property", Key: key, Detail: "wt accepts (outside the proved fragment), evaluator goes wrong: " + out.GoPanic + out.ErrText, Input: map[string]any{"program": src}, Impl: out.Class, Model: ans})
		case !wt:
			r.Dist("wt-stricter:" + reason)
			r.Sample(map[string]any{"src": src, "wt": ans, "impl": out.Class})
		case strings.HasPrefix(ans, "(wt true true true"):
			r.Dist("wt accepts, in s1_program (and s2_program):" + out.Class)
			r.Dist("fragment: wt-accepted programs inside s1_program")
		case s1:
			r.Dist("wt accepts, in s2_program only:" + out.Class)
			r.Dist("fragment: wt-accepted programs inside s2_program only")
		default:
			r.Dist("wt accepts, outside the proved fragment:" + out.Class)
			r.Dist("fragment: wt-accepted programs outside (calls of repr clear grid gridn poly ellipse dash font)")
			for _, name := range c02OutsideBuiltins(src) {
				r.Dist("outside the proved fragment: mentions " + name)
			}
		}
	}
}

