package main

import (
	"encoding/json"
	"fmt"
	"os"
	"os/exec"
	"regexp"
	"strings"
	"time"
)

// shared plumbing of the properties decided on the evaluator model (C01 C02 C09 C10 C14 C15)

func shortKey(s string) string {
	s = regexp.MustCompile(`[0-9]+`).ReplaceAllString(s, "N")
	s = strings.ReplaceAll(s, " ", "-")
	if len(s) > 60 {
		s = s[:60]
	}
	return s
}

// semCase runs one correspondence case and files the result under r.
// It returns the diff record (for further property oracles).
func semCase(model *Model, r *Result, src string, o SemOpts, nontrivial bool, tag string) SemDiff {
	d := SemCompare(model, src, o, true)
	r.Count(src+fmt.Sprint(o.StopAt, o.Events, o.Input, o.FailFast), nontrivial && d.Skipped == "")
	switch {
	case d.Skipped != "":
		k := d.Skipped
		if i := strings.Index(k, "\n"); i > 0 {
			k = k[:i]
		}
		if strings.HasPrefix(k, "parse-error") || len(k) > 40 {
			k = strings.SplitN(k, ":", 2)[0]
		}
		r.Dist(tag + "skipped:" + k)
	case d.Diff != "":
		r.Dist(tag + "diff")
		r.Violate(Violation{Kind: "correspondence", Key: "model-vs-impl:" + shortKey(d.Diff),
			Detail: "the evaluator model (coq/Sem.v) and the implementation differ: " + d.Diff,
			Input:  map[string]any{"program": src, "stop_at": o.StopAt, "events": o.Events, "input": o.Input, "failfast": o.FailFast},
			Impl:   d.Impl.Phases, Model: d.Model})
	default:
		r.Dist(tag + "equal:" + d.Impl.Phases[0].Class)
		r.Validated++
	}
	return d
}

// ---------- running one program in a child process (host crashes cannot be recovered in-process) ----------

type SubOutcome struct {
	Class  string   `json:"class"` // as RunOutcome.Class, or "crash" (process died) / "timeout"
	Prints []string `json:"prints"`
	Err    string   `json:"err"`
	Stderr string   `json:"stderr,omitempty"`
}

// SubRun runs src through RunEvy in a child process of this binary, under a
// wall-clock limit and an address-space limit.
func SubRun(src string, timeout time.Duration) SubOutcome {
	self, _ := os.Executable()
	cmd := exec.Command("/bin/sh", "-c", "ulimit -v 4000000; exec \"$0\" runone", self)
	cmd.Stdin = strings.NewReader(src)
	var out, errb strings.Builder
	cmd.Stdout, cmd.Stderr = &out, &errb
	if err := cmd.Start(); err != nil {
		return SubOutcome{Class: "spawn-error", Err: err.Error()}
	}
	done := make(chan error, 1)
	go func() { done <- cmd.Wait() }()
	select {
	case err := <-done:
		var o SubOutcome
		if json.Unmarshal([]byte(out.String()), &o) == nil && o.Class != "" {
			return o
		}
		st := errb.String()
		if len(st) > 600 {
			st = st[:600]
		}
		return SubOutcome{Class: "crash", Err: fmt.Sprint(err), Stderr: st}
	case <-time.After(timeout):
		cmd.Process.Kill()
		<-done
		return SubOutcome{Class: "timeout"}
	}
}

func runOne() {
	b, _ := readAll(os.Stdin)
	o := RunEvy(string(b), RunOpts{YieldBudget: 3_000_000})
	res := SubOutcome{Class: o.Class, Prints: o.Prints, Err: o.ErrText + o.ParseErr + o.GoPanic}
	if len(res.Prints) > 50 {
		res.Prints = res.Prints[:50]
	}
	json.NewEncoder(os.Stdout).Encode(res)
}

func readAll(f *os.File) ([]byte, error) {
	var buf []byte
	tmp := make([]byte, 65536)
	for {
		n, err := f.Read(tmp)
		buf = append(buf, tmp[:n]...)
		if err != nil {
			return buf, nil
		}
	}
}

func startSem(r *Result) *Model {
	model, err := StartModel("sem")
	if err != nil {
		r.Violate(Violation{Kind: "correspondence", Key: "model-start", Detail: err.Error()})
		return nil
	}
	return model
}

// replayProgram handles -replay for the Sem-based properties: re-run the recorded program.
func replayInput(cfg Config) (map[string]any, bool) {
	if cfg.Replay == "" {
		return nil, false
	}
	b, err := os.ReadFile(cfg.Replay)
	if err != nil {
		return nil, false
	}
	var v struct {
		Input map[string]any `json:"input"`
	}
	if json.Unmarshal(b, &v) != nil || v.Input == nil {
		return nil, false
	}
	return v.Input, true
}
