package main

import (
	"encoding/json"
	"fmt"
	"math"
	"math/rand"
	"os"
	"regexp"
	"strconv"
	"strings"
	"unicode"
	"unicode/utf8"
)

// C13: built-in functions. A case is a short sequence of built-in calls with
// concrete argument values, rendered as a real evy program (one call per
// statement, results bound to globals), run on the real evaluator and on the
// extracted model (coq/Builtins.v: run_program). Observables: the value of
// every result as a structural dump (numbers by bit pattern), err/errmsg after
// every call, the platform effects (print/cls/sleep/read), the class of
// Eval's result, test totals. Number rendering is an oracle: the model leaves
// markers which are filled with what Go's strconv/fmt print.

// ---------- values ----------

type cTy struct {
	K   string // num string bool any none arr map
	Sub *cTy
}

func (t *cTy) Evy() string {
	switch t.K {
	case "arr":
		return "[]" + t.Sub.Evy()
	case "map":
		return "{}" + t.Sub.Evy()
	}
	return t.K
}

func (t *cTy) SX() SX {
	switch t.K {
	case "arr", "map":
		return Lst(Sym(t.K), t.Sub.SX())
	}
	return Sym(t.K)
}

var (
	tyNum  = &cTy{K: "num"}
	tyStr  = &cTy{K: "string"}
	tyBool = &cTy{K: "bool"}
	tyAny  = &cTy{K: "any"}
)

func tyArr(t *cTy) *cTy { return &cTy{K: "arr", Sub: t} }
func tyMap(t *cTy) *cTy { return &cTy{K: "map", Sub: t} }

type cVal struct {
	K    string // num str bool any arr map
	F    float64
	S    string
	B    bool
	T    *cTy // arr/map: element type; any: static type of the content
	L    []cVal
	Keys []string
	In   *cVal // any content
}

func vNum(f float64) cVal  { return cVal{K: "num", F: f} }
func vStr(s string) cVal   { return cVal{K: "str", S: s} }
func vBool(b bool) cVal    { return cVal{K: "bool", B: b} }
func vArr(t *cTy, l ...cVal) cVal { return cVal{K: "arr", T: t, L: l} }
func vMap(t *cTy, keys []string, l []cVal) cVal {
	return cVal{K: "map", T: t, Keys: keys, L: l}
}
func vAny(in cVal) cVal { t := in.Type(); return cVal{K: "any", T: t, In: &in} }

func (v cVal) Type() *cTy {
	switch v.K {
	case "num":
		return tyNum
	case "str":
		return tyStr
	case "bool":
		return tyBool
	case "any":
		return tyAny
	case "arr":
		return tyArr(v.T)
	case "map":
		return tyMap(v.T)
	}
	return &cTy{K: "none"}
}

func (v cVal) SX() SX {
	switch v.K {
	case "num":
		return Lst(Sym("num"), Float(v.F))
	case "str":
		return Lst(Sym("str"), Str(v.S))
	case "bool":
		return Lst(Sym("bool"), Bool(v.B))
	case "any":
		return Lst(Sym("any"), v.T.SX(), v.In.SX())
	case "arr":
		l := []SX{Sym("arr"), v.T.SX()}
		for _, e := range v.L {
			l = append(l, e.SX())
		}
		return LstOf(l)
	case "map":
		l := []SX{Sym("map"), v.T.SX()}
		for i, e := range v.L {
			l = append(l, Lst(Str(v.Keys[i]), e.SX()))
		}
		return LstOf(l)
	}
	return Lst(Sym("none"))
}

// evy source of a number: a literal that lexes to exactly f, or an expression
// for the values that have no literal
func evyNum(f float64) string {
	switch {
	case f != f:
		return "(0/0)"
	case math.IsInf(f, 1):
		return "(1/0)"
	case math.IsInf(f, -1):
		return "(-1/0)"
	case f == 0 && math.Signbit(f):
		return "(-0)"
	case f < 0:
		return "(-" + strconv.FormatFloat(-f, 'f', -1, 64) + ")"
	}
	return strconv.FormatFloat(f, 'f', -1, 64)
}

// inline evy expression for a value (composites as literals; map literals only
// when every key is an identifier — otherwise the caller must use a variable)
func (v cVal) Inline() string {
	switch v.K {
	case "num":
		return evyNum(v.F)
	case "str":
		return strconv.Quote(v.S)
	case "bool":
		return strconv.FormatBool(v.B)
	case "any":
		return v.In.Inline()
	case "arr":
		parts := make([]string, len(v.L))
		for i, e := range v.L {
			parts[i] = e.Inline()
		}
		return "[" + strings.Join(parts, " ") + "]"
	case "map":
		parts := make([]string, len(v.L))
		for i, e := range v.L {
			parts[i] = v.Keys[i] + ":" + e.Inline()
		}
		return "{" + strings.Join(parts, " ") + "}"
	}
	return ""
}

// ---------- cases ----------

type cCall struct {
	Name string
	Args []cVal
}

type c13Case struct {
	FailFast  bool
	NoSummary bool
	Inputs    []string
	Calls     []cCall
	Origin    string
}

var c13NoResult = map[string]bool{"print": true, "printf": true, "cls": true, "sleep": true, "exit": true, "panic": true, "test": true, "clear": true}

// render as an evy program. Composite and any arguments go through typed
// variables so that their static type is exactly the declared one.
func (c *c13Case) Render() string {
	var b strings.Builder
	used := []string{}
	nvar := 0
	var declare func(a cVal, name string)
	declare = func(a cVal, name string) {
		fmt.Fprintf(&b, "%s:%s\n", name, a.Type().Evy())
		switch {
		case a.K == "map":
			for k, e := range a.L {
				fmt.Fprintf(&b, "%s[%s] = %s\n", name, strconv.Quote(a.Keys[k]), e.Inline())
			}
		case a.K == "arr" && len(a.L) == 0:
		case a.K == "any" && (a.In.K == "arr" || a.In.K == "map"):
			nvar++
			inner := fmt.Sprintf("w%d", nvar)
			declare(*a.In, inner)
			fmt.Fprintf(&b, "%s = %s\n", name, inner)
		default:
			fmt.Fprintf(&b, "%s = %s\n", name, a.Inline())
		}
	}
	for i, call := range c.Calls {
		args := make([]string, len(call.Args))
		for j, a := range call.Args {
			switch a.K {
			case "arr", "map", "any":
				name := fmt.Sprintf("v%d_%d", i, j)
				declare(a, name)
				args[j] = name
			default:
				args[j] = a.Inline()
			}
		}
		line := call.Name
		if len(args) > 0 {
			line += " " + strings.Join(args, " ")
		}
		if call.Name == "del" && len(args) > 0 {
			// del mutates its argument: the result observed is the map afterwards. The
			// result variable sorts before the argument variable, so the structural
			// dump shows the map under r<i>.
			fmt.Fprintf(&b, "%s\nr%d := %s\n", line, i, args[0])
			used = append(used, fmt.Sprintf("r%d", i))
		} else if c13NoResult[call.Name] {
			b.WriteString(line + "\n")
		} else {
			fmt.Fprintf(&b, "r%d := %s\n", i, line)
			used = append(used, fmt.Sprintf("r%d", i))
		}
		fmt.Fprintf(&b, "e%d := err == true\nm%d := errmsg + \"\"\n", i, i)
		used = append(used, fmt.Sprintf("e%d", i), fmt.Sprintf("m%d", i))
	}
	if len(used) > 0 {
		b.WriteString("if false\n    print " + strings.Join(used, " ") + "\nend\n")
	}
	return b.String()
}

// ---------- oracle tables ----------

func (c *c13Case) strings() []string {
	var out []string
	var walk func(v cVal)
	walk = func(v cVal) {
		switch v.K {
		case "str":
			out = append(out, v.S)
		case "any":
			walk(*v.In)
		case "arr", "map":
			out = append(out, v.Keys...)
			for _, e := range v.L {
				walk(e)
			}
		}
	}
	for _, call := range c.Calls {
		for _, a := range call.Args {
			walk(a)
		}
	}
	out = append(out, c.Inputs...)
	return out
}

func (c *c13Case) SX() SX {
	cps := map[rune]bool{}
	for _, s := range c.strings() {
		for _, r := range s {
			cps[r] = true
			cps[unicode.ToUpper(r)] = true
			cps[unicode.ToLower(r)] = true
		}
	}
	keys := make([]int, 0, len(cps))
	for r := range cps {
		keys = append(keys, int(r))
	}
	sortInts(keys)
	uni := []SX{}
	for _, k := range keys {
		r := rune(k)
		uni = append(uni, Lst(Int(int64(r)), Int(int64(unicode.ToUpper(r))), Int(int64(unicode.ToLower(r))),
			Bool(unicode.IsLetter(r)), Bool(strconv.IsPrint(r))))
	}
	pf := []SX{}
	mth := []SX{}
	seenPF := map[string]bool{}
	for _, call := range c.Calls {
		switch call.Name {
		case "str2num":
			if len(call.Args) == 1 && call.Args[0].K == "str" && !seenPF[call.Args[0].S] {
				s := call.Args[0].S
				seenPF[s] = true
				f, err := strconv.ParseFloat(s, 64)
				kind := "ok"
				if err != nil {
					kind = "syntax"
					if ne, ok := err.(*strconv.NumError); ok && ne.Err == strconv.ErrRange {
						kind = "range"
					}
				}
				pf = append(pf, Lst(Str(s), Sym(kind), Float(f)))
			}
		case "pow", "atan2", "log", "sin", "cos":
			ok := true
			fs := []float64{}
			for _, a := range call.Args {
				if a.K != "num" {
					ok = false
				}
				fs = append(fs, a.F)
			}
			if !ok {
				continue
			}
			var r float64
			switch {
			case call.Name == "pow" && len(fs) == 2:
				r = math.Pow(fs[0], fs[1])
			case call.Name == "atan2" && len(fs) == 2:
				r = math.Atan2(fs[0], fs[1])
			case call.Name == "log" && len(fs) == 1:
				r = math.Log(fs[0])
			case call.Name == "sin" && len(fs) == 1:
				r = math.Sin(fs[0])
			case call.Name == "cos" && len(fs) == 1:
				r = math.Cos(fs[0])
			default:
				continue
			}
			as := []SX{}
			for _, f := range fs {
				as = append(as, Float(f))
			}
			mth = append(mth, Lst(Str(call.Name), LstOf(as), Float(r)))
		}
	}
	ins := []SX{}
	for _, s := range c.Inputs {
		ins = append(ins, Str(s))
	}
	calls := []SX{}
	for _, call := range c.Calls {
		l := []SX{Sym(call.Name)}
		for _, a := range call.Args {
			l = append(l, a.SX())
		}
		calls = append(calls, LstOf(l))
	}
	return Lst(Sym("run"), Bool(c.FailFast), Bool(c.NoSummary), LstOf(ins), LstOf(uni), LstOf(pf), LstOf(mth), Int(0), LstOf(calls))
}

func sortInts(a []int) {
	for i := 1; i < len(a); i++ {
		for j := i; j > 0 && a[j-1] > a[j]; j-- {
			a[j-1], a[j] = a[j], a[j-1]
		}
	}
}

// ---------- markers ----------

var (
	reMarkNum = regexp.MustCompile("\U000F0000(\\d+)\U000F0001")
	reMarkFmt = regexp.MustCompile("\U000F0002([^\U000F0003]*)\U000F0003(\\d+)\U000F0001")
)

// fillMarkers replaces the model's number markers by what Go prints
func fillMarkers(s string) string {
	s = reMarkFmt.ReplaceAllStringFunc(s, func(m string) string {
		sub := reMarkFmt.FindStringSubmatch(m)
		bits, _ := strconv.ParseUint(sub[2], 10, 64)
		return fmt.Sprintf(sub[1], math.Float64frombits(bits))
	})
	return reMarkNum.ReplaceAllStringFunc(s, func(m string) string {
		sub := reMarkNum.FindStringSubmatch(m)
		bits, _ := strconv.ParseUint(sub[1], 10, 64)
		return strconv.FormatFloat(math.Float64frombits(bits), 'f', -1, 64)
	})
}

// ---------- canonical dumps ----------

// canonModelVal renders the model's value S-expression in the syntax of
// Evaluator.VerifGlobals (without cell identities)
func canonModelVal(x SX) string {
	if x.Kind != "lst" || len(x.L) == 0 {
		return "?" + x.String()
	}
	switch x.L[0].S {
	case "num":
		return "num:" + x.L[1].S
	case "str":
		return "str:" + strconv.Quote(fillMarkers(x.L[1].S))
	case "bool":
		return "bool:" + x.L[1].S
	case "none":
		return "none"
	case "any":
		return "any<" + canonModelTy(x.L[1]) + ">(" + canonModelVal(x.L[2]) + ")"
	case "arr":
		parts := []string{}
		for _, e := range x.L[2:] {
			parts = append(parts, canonModelVal(e))
		}
		return "arr[" + strings.Join(parts, " ") + "]"
	case "map":
		parts := []string{}
		for _, e := range x.L[2:] {
			parts = append(parts, strconv.Quote(e.L[0].S)+":"+canonModelVal(e.L[1]))
		}
		return "map{" + strings.Join(parts, " ") + "}"
	}
	return "?" + x.String()
}

func canonModelTy(x SX) string {
	if x.Kind == "lst" && len(x.L) == 2 {
		if x.L[0].S == "arr" {
			return "[]" + canonModelTy(x.L[1])
		}
		return "{}" + canonModelTy(x.L[1])
	}
	return x.S
}

// canonDump strips the cell identities (#n:) of a VerifGlobals dump, leaving
// quoted strings untouched
func canonDump(d string) string {
	var b strings.Builder
	for i := 0; i < len(d); {
		c := d[i]
		if c == '"' {
			j := i + 1
			for j < len(d) && d[j] != '"' {
				if d[j] == '\\' {
					j++
				}
				j++
			}
			b.WriteString(d[i:min(j+1, len(d))])
			i = j + 1
			continue
		}
		if c == '#' {
			j := i + 1
			for j < len(d) && d[j] >= '0' && d[j] <= '9' {
				j++
			}
			if j < len(d) && d[j] == ':' {
				i = j + 1
				continue
			}
		}
		b.WriteByte(c)
		i++
	}
	return b.String()
}

// ---------- running one case on both sides ----------

type c13Obs struct {
	Class   string
	Calls   []string // per executed call: outcome|err|errmsg
	Effects []string
	Total   int
	Fails   int
	// text of the failed-test errors (Eval's TestErrors / fail-fast error) without
	// the "line L column C: " prefixes; only meaningful when Class == "test"
	FailText string
}

func implClass(out RunOutcome) string {
	switch {
	case out.Class == "ok":
		return "ok"
	case strings.HasPrefix(out.Class, "exit:"):
		return "exit"
	case out.Class == "test":
		return "test"
	case strings.HasPrefix(out.Class, "panic:"):
		return "panic"
	case out.Class == "gopanic":
		return "hostcrash"
	}
	return out.Class
}

// observe the implementation
func c13Impl(c *c13Case) (c13Obs, RunOutcome, string) {
	src := c.Render()
	out := RunEvy(src, RunOpts{Input: c.Inputs, FailFast: c.FailFast, NoSummary: c.NoSummary, YieldBudget: 200000})
	obs := c13Obs{Class: implClass(out)}
	if out.Class == "parse-error" || out.Eval == nil {
		return obs, out, src
	}
	globals := map[string]string{}
	func() {
		defer func() { recover() }()
		for _, l := range out.Eval.VerifGlobals() {
			if k, v, ok := strings.Cut(l, "="); ok {
				globals[k] = canonDump(v)
			}
		}
	}()
	for i, call := range c.Calls {
		e, okE := globals[fmt.Sprintf("e%d", i)]
		m, okM := globals[fmt.Sprintf("m%d", i)]
		if !okE || !okM {
			// the call did not complete: the run stopped here
			obs.Calls = append(obs.Calls, "stop:"+c13StopKind(out))
			break
		}
		r := "ret:none"
		if !c13NoResult[call.Name] {
			r = "ret:" + globals[fmt.Sprintf("r%d", i)]
		}
		obs.Calls = append(obs.Calls, r+"|"+e+"|"+m)
	}
	for _, t := range out.Trace {
		obs.Effects = append(obs.Effects, t)
	}
	obs.Total = out.Eval.TestInfo.TotalCount()
	obs.Fails = out.Eval.TestInfo.FailCount()
	if obs.Class == "test" {
		obs.FailText = stripPositions(out.ErrText)
	}
	return obs, out, src
}

var rePosPrefix = regexp.MustCompile(`(?m)^line \d+ column \d+: `)

// stripPositions removes the source positions in front of each error line
func stripPositions(s string) string { return rePosPrefix.ReplaceAllString(s, "") }

func c13StopKind(out RunOutcome) string {
	switch {
	case out.Class == "panic:BadArguments":
		return "panic:BadArguments"
	case out.Class == "panic:user":
		return "panic:user"
	case strings.HasPrefix(out.Class, "exit:"):
		return "exit"
	case out.Class == "test":
		return "testfail"
	case out.Class == "gopanic":
		return "hostcrash"
	}
	return out.Class
}

// observe the model
func c13Model(c *c13Case, model *Model) (c13Obs, SX, error) {
	ans, err := model.Ask(c.SX().String())
	if err != nil {
		// the model process is stateless: if it died (e.g. killed under memory
		// pressure) start a new one and ask again, once
		if rerr := c13RestartModel(model); rerr == nil {
			ans, err = model.Ask(c.SX().String())
		}
	}
	if err != nil {
		return c13Obs{}, SX{}, err
	}
	x, err := ParseSX(ans)
	if err != nil || x.Kind != "lst" || len(x.L) != 7 {
		return c13Obs{}, x, fmt.Errorf("bad model answer: %s", ans)
	}
	obs := c13Obs{Class: x.L[1].S}
	obs.Total, _ = strconv.Atoi(x.L[3].S)
	obs.Fails = len(x.L[4].L)
	texts := []string{}
	for _, m := range x.L[4].L {
		texts = append(texts, "failed test: "+fillMarkers(m.S))
	}
	if obs.Class == "test" {
		obs.FailText = strings.Join(texts, "\n")
	}
	for _, cr := range x.L[5].L {
		o := cr.L[0]
		var r string
		switch o.L[0].S {
		case "ret":
			r = "ret:" + canonModelVal(o.L[1])
			r += "|bool:" + cr.L[1].S + "|str:" + strconv.Quote(fillMarkers(cr.L[2].S))
		case "panic":
			r = "stop:panic:" + o.L[1].S
		case "exit":
			r = "stop:exit"
		case "testfail":
			r = "stop:testfail"
		default:
			r = "stop:" + o.L[0].S
		}
		obs.Calls = append(obs.Calls, r)
	}
	for _, e := range x.L[6].L {
		switch e.L[0].S {
		case "print":
			obs.Effects = append(obs.Effects, "print:"+fillMarkers(e.L[1].S))
		case "cls":
			obs.Effects = append(obs.Effects, "cls")
		case "sleep":
			obs.Effects = append(obs.Effects, "sleep:"+e.L[1].S)
		case "read":
			obs.Effects = append(obs.Effects, "read")
		case "clear":
			obs.Effects = append(obs.Effects, "clear:"+e.L[1].S)
		}
	}
	return obs, x, nil
}

func c13RestartModel(m *Model) error {
	m.in.Close()
	if m.cmd.Process != nil {
		m.cmd.Process.Kill()
	}
	m.cmd.Wait()
	nm, err := StartModel("builtins")
	if err != nil {
		return err
	}
	*m = *nm
	return nil
}

func normEffects(l []string) []string {
	out := make([]string, len(l))
	for i, e := range l {
		if strings.HasPrefix(e, "read:") {
			e = "read"
		}
		out[i] = e
	}
	return out
}

// c13Check runs one case on both sides, compares, and evaluates the property
// oracles on the implementation's behaviour.
func c13Check(c *c13Case, model *Model, r *Result) {
	nontrivial := false
	for _, call := range c.Calls {
		if len(call.Args) > 0 {
			nontrivial = true
		}
		r.Dist("builtin:" + call.Name)
	}
	caseSX := c.SX().String()
	r.Count(caseSX, nontrivial)
	impl, out, src := c13Impl(c)
	mobs, _, err := c13Model(c, model)
	if err != nil {
		r.Violate(Violation{Kind: "correspondence", Key: "model-crash", Detail: err.Error(), Input: c13Input(c, src)})
		return
	}
	r.Validated++
	r.Dist("class:" + impl.Class)
	c13PropertyOracles(c, impl, out, src, r)
	if mobs.Class == "unsupported" {
		r.Dist("model-unsupported")
		return
	}
	// rand: the PRNG is an oracle; compare the class only and check the range on the implementation
	ic, mc := append([]string(nil), impl.Calls...), append([]string(nil), mobs.Calls...)
	for i, call := range c.Calls {
		if (call.Name == "rand" || call.Name == "rand1") && i < len(ic) && i < len(mc) &&
			strings.HasPrefix(ic[i], "ret:") && strings.HasPrefix(mc[i], "ret:") {
			ic[i] = "ret:<random>" + ic[i][strings.Index(ic[i], "|"):]
			mc[i] = "ret:<random>" + mc[i][strings.Index(mc[i], "|"):]
		}
	}
	ie, me := normEffects(impl.Effects), normEffects(mobs.Effects)
	diff := ""
	switch {
	case impl.Class != mobs.Class:
		diff = "class"
	case strings.Join(ic, "\x1e") != strings.Join(mc, "\x1e"):
		diff = "results"
	case strings.Join(ie, "\x1e") != strings.Join(me, "\x1e"):
		diff = "effects"
	case impl.Class != "parse-error" && (impl.Total != mobs.Total || impl.Fails != mobs.Fails):
		diff = "test-counts"
	case impl.Class == "test" && impl.FailText != mobs.FailText:
		diff = "test-messages"
	}
	if diff != "" {
		name := ""
		for i := range c.Calls {
			if i >= len(ic) || i >= len(mc) || ic[i] != mc[i] {
				name = c.Calls[i].Name
				break
			}
		}
		if name == "" && len(c.Calls) > 0 {
			name = c.Calls[len(c.Calls)-1].Name
		}
		r.Violate(Violation{Kind: "correspondence", Key: "builtin-differs:" + name + ":" + diff,
			Detail: "the implementation and the model of the built-ins (to which the C13 theorems apply) disagree on " + diff,
			Input:  c13Input(c, src),
			Impl:   map[string]any{"class": impl.Class, "calls": ic, "effects": ie, "total": impl.Total, "fails": impl.Fails, "failtext": impl.FailText, "err": out.ErrText + out.ParseErr + out.GoPanic},
			Model:  map[string]any{"class": mobs.Class, "calls": mc, "effects": me, "total": mobs.Total, "fails": mobs.Fails, "failtext": mobs.FailText}})
	}
	if len(r.Samples) < 4 && nontrivial {
		r.Sample(map[string]any{"program": src, "impl": ic, "class": impl.Class})
	}
}

func c13Input(c *c13Case, src string) map[string]any {
	return map[string]any{"program": src, "case": c.SX().String(), "failfast": c.FailFast, "nosummary": c.NoSummary, "inputs": c.Inputs, "origin": c.Origin}
}

// ---------- property oracles: what the documentation promises, evaluated on
// the implementation's behaviour (the model mirrors the code, defects included) ----------

func docIsIdent(s string) bool {
	for i, r := range s {
		if unicode.IsLetter(r) || r == '_' {
			continue
		}
		if i > 0 && r >= '0' && r <= '9' {
			continue
		}
		return false
	}
	return s != ""
}

// the literals docs/builtins.md says str2bool accepts — read from the documentation
// of the tree under test (the same parse as the translator's Gen/DocLiterals.v)
var docBoolLiterals = func() map[string]bool {
	m := map[string]bool{}
	t, f, err := docBoolLiteralLists()
	if err != nil {
		return nil
	}
	for _, s := range append(t, f...) {
		m[s] = true
	}
	return m
}()

func implRet(impl c13Obs, i int) (string, bool) {
	if i >= len(impl.Calls) || !strings.HasPrefix(impl.Calls[i], "ret:") {
		return "", false
	}
	s := impl.Calls[i][4:]
	if k := strings.LastIndex(s, "|bool:"); k >= 0 {
		s = s[:k]
	}
	return s, true
}

func implErr(impl c13Obs, i int) (bool, bool) {
	if i >= len(impl.Calls) || !strings.HasPrefix(impl.Calls[i], "ret:") {
		return false, false
	}
	return strings.Contains(impl.Calls[i], "|bool:true|str:"), true
}

func c13PropertyOracles(c *c13Case, impl c13Obs, out RunOutcome, src string, r *Result) {
	viol := func(key, detail string) {
		r.Violate(Violation{Kind: "property", Key: key, Detail: detail, Input: c13Input(c, src),
			Impl: map[string]any{"class": impl.Class, "calls": impl.Calls, "effects": impl.Effects, "err": out.ErrText + out.GoPanic}})
	}
	if out.Class == "gopanic" {
		last := ""
		if n := len(impl.Calls); n > 0 && n <= len(c.Calls) {
			last = c.Calls[n-1].Name
		}
		key := "host-panic:" + last
		if last == "rand" {
			key = "rand-nan-host-panic"
		}
		viol(key, "a built-in call crashed the host (Go panic: "+out.GoPanic+") instead of giving the documented evy panic")
		return
	}
	if out.Class == "budget" || out.Class == "internal" || strings.HasPrefix(out.Class, "unknown") {
		viol("bad-outcome:"+out.Class, "a sequence of built-in calls ended with "+out.Class)
		return
	}
	// docs/builtins.md, test: "In the case of three arguments, the third argument is a
	// message of type string that is printed if the test fails" — verbatim; it is a
	// format string only with four or more arguments
	if out.Class == "test" {
		for i, call := range c.Calls {
			if i >= len(impl.Calls) {
				break // not executed (fail-fast stopped the run before it)
			}
			if call.Name != "test" || len(call.Args) != 3 || call.Args[2].K != "str" {
				continue
			}
			w, g := call.Args[0], call.Args[1]
			basic := func(v cVal) bool { return v.K == "num" || v.K == "str" || v.K == "bool" }
			if !basic(w) || !basic(g) || (w.K == g.K && w.S == g.S && w.B == g.B && (w.F == g.F || w.K != "num")) {
				continue // not certainly failing
			}
			if !strings.Contains(impl.FailText, " ("+call.Args[2].S+")") {
				viol("test-message-not-verbatim", fmt.Sprintf("a failing `test want got %q` with exactly three arguments must report the message verbatim; reported: %s", call.Args[2].S, impl.FailText))
			}
		}
	}
	for i, call := range c.Calls {
		ret, ok := implRet(impl, i)
		if !ok {
			continue
		}
		switch call.Name {
		case "index":
			s, sub := call.Args[0].S, call.Args[1].S
			want := -1.0
			if k := strings.Index(s, sub); k >= 0 {
				want = float64(utf8.RuneCountInString(s[:k]))
			}
			if ret != fmt.Sprintf("num:%d", canonBits(want)) {
				viol("index-byte-offset", fmt.Sprintf("index %q %q: the documented position of the substring (characters, as for len and s[i]) is %v; the implementation returns %s (a byte offset)", s, sub, want, ret))
			}
		case "len":
			if call.Args[0].K == "str" && ret != fmt.Sprintf("num:%d", canonBits(float64(utf8.RuneCountInString(call.Args[0].S)))) {
				viol("len-not-characters", fmt.Sprintf("len %q is not the number of characters: %s", call.Args[0].S, ret))
			}
		case "repr":
			for _, a := range call.Args {
				if a.K != "map" {
					continue
				}
				for _, k := range a.Keys {
					if !docIsIdent(k) && (strings.Contains(ret, "{"+k+":") || strings.Contains(ret, " "+k+":")) &&
						!strings.Contains(ret, strconv.Quote(strconv.Quote(k))[1:len(strconv.Quote(strconv.Quote(k)))-1]+":") {
						viol("repr-key-not-identifier", fmt.Sprintf("repr prints the key %q, which is not an identifier, without quotes: %s", k, ret))
					}
				}
			}
		case "rand":
			n := call.Args[0].F
			var v uint64
			if _, err := fmt.Sscanf(ret, "num:%d", &v); err == nil {
				f := math.Float64frombits(v)
				if !(f >= 0 && f < n && f == math.Trunc(f)) {
					viol("rand-out-of-range", fmt.Sprintf("rand %v returned %v, not an integer in [0,n)", n, f))
				}
			}
		case "hsl":
			// docs: hue "must be between 0 and 360", the others "between 0 and 100": NaN is not
			for _, a := range call.Args {
				if a.K == "num" && a.F != a.F {
					viol("hsl-nan-accepted", fmt.Sprintf("hsl accepts NaN (every `x < 0 || x > max` test is false for NaN) and returns %s; the documentation requires the values to be between 0 and 360 / 0 and 100", ret))
					break
				}
			}
		case "rand1":
			var v uint64
			if _, err := fmt.Sscanf(ret, "num:%d", &v); err == nil {
				f := math.Float64frombits(v)
				if !(f >= 0 && f < 1) {
					viol("rand1-out-of-range", fmt.Sprintf("rand1 returned %v", f))
				}
			}
		case "str2bool":
			if docBoolLiterals == nil {
				viol("str2bool-doc-literals-unreadable", "the list of literals str2bool accepts could not be read from docs/builtins.md")
				break
			}
			s := call.Args[0].S
			isErr, _ := implErr(impl, i)
			if !docBoolLiterals[s] && !isErr {
				viol("str2bool-undocumented-literal", fmt.Sprintf("str2bool %q: not one of the documented literals, yet no error is set (result %s)", s, ret))
			}
			if docBoolLiterals[s] && isErr {
				viol("str2bool-documented-literal-rejected", fmt.Sprintf("str2bool %q sets err", s))
			}
		case "str2num":
			isErr, _ := implErr(impl, i)
			if isErr && ret != "num:0" {
				viol("str2num-error-result-not-zero", fmt.Sprintf("str2num %q sets err but returns %s; the documentation says it returns 0", call.Args[0].S, ret))
			}
		case "printf", "sprintf":
			if len(call.Args) >= 2 && call.Args[0].K == "str" {
				if bad := docVerbMismatch(call.Args[0].S, call.Args[1:]); bad != "" {
					viol("printf-verb-mismatch-no-panic", fmt.Sprintf("%s %q: %s — the documentation promises a panic, the call returned normally (%s)", call.Name, call.Args[0].S, bad, ret))
				}
			}
		}
	}
}

// docVerbMismatch: the documented rule "if the arguments for %s %q %f %e %t do
// not match the required type, a panic will occur" on simple formats (verbs
// without flags); returns a description of the first mismatch
func docVerbMismatch(format string, args []cVal) string {
	ai := 0
	rs := []rune(format)
	for i := 0; i < len(rs); i++ {
		if rs[i] != '%' {
			continue
		}
		j := i + 1
		for j < len(rs) && strings.ContainsRune("#0+- .123456789", rs[j]) {
			j++
		}
		if j >= len(rs) {
			return ""
		}
		verb := rs[j]
		i = j
		if verb == '%' {
			continue
		}
		if ai >= len(args) {
			return ""
		}
		a := args[ai]
		ai++
		if a.K == "any" {
			a = *a.In
		}
		want := map[rune]string{'s': "str", 'q': "str", 'f': "num", 'e': "num", 't': "bool"}[verb]
		if want != "" && a.K != want {
			return fmt.Sprintf("%%%c applied to a %s argument", verb, a.K)
		}
	}
	return ""
}

// ---------- generators ----------

var c13Strs = []string{"", "a", "ab", "abc", "abcabc", "aaa", "aXbXc", "a,b,,c", ",", ",,", "äb", "bä", "äöü", "日本語", "a日b", "😀x", "x😀", "  pad  ", "..a.b..", "Hello World", "1a", " b", "_x1", "ß", "İ", "ǅ", "true", "T", "1", "0", "12.5", "-3", "1e3", "1e999", "-1e999", "NaN", "inf", "0x1p4", "1_0", " 1", "tab\there", "q\"uote", "back\\slash", "nl\nx", "%v", "%", " ", "​", "\x7f"}

var c13Nums = []float64{0, math.Copysign(0, -1), 1, -1, 2, 3, 0.5, -0.5, 1.5, -1.5, 2.5, -2.5, 0.4, -0.4, 0.49999999999999994, 2.4, 2.7, 10, 100, 255, 256, 1e6, 2147483647, 2147483648, 4294967296, 9007199254740992, 9007199254740993, 4503599627370495.5, 4503599627370496.5, -4503599627370495.5, 9223372036854775807, 9223372036854775808, -9223372036854775808, 1e30, -1e30, 1e300, math.MaxFloat64, math.SmallestNonzeroFloat64, -math.SmallestNonzeroFloat64, math.Inf(1), math.Inf(-1), math.NaN(), math.Pi, math.E, 1e-7, 123456789, 0.1, 1.0 / 3}

func c13pick[T any](rng *rand.Rand, l []T) T { return l[rng.Intn(len(l))] }

func genStr(rng *rand.Rand) string {
	if rng.Intn(4) > 0 {
		return c13pick(rng, c13Strs)
	}
	alphabet := []rune("ab,. äX日😀_1\t\"")
	n := rng.Intn(7)
	rs := make([]rune, n)
	for i := range rs {
		rs[i] = alphabet[rng.Intn(len(alphabet))]
	}
	return string(rs)
}

func genNum(rng *rand.Rand) float64 {
	switch rng.Intn(6) {
	case 0:
		return float64(rng.Intn(21) - 10)
	case 1:
		return (rng.Float64() - 0.5) * math.Pow(10, float64(rng.Intn(20)-5))
	case 2:
		return math.Float64frombits(rng.Uint64())
	}
	return c13pick(rng, c13Nums)
}

func genBasic(rng *rand.Rand) cVal {
	switch rng.Intn(3) {
	case 0:
		return vNum(genNum(rng))
	case 1:
		return vStr(genStr(rng))
	}
	return vBool(rng.Intn(2) == 0)
}

var c13Keys = []string{"a", "b", "k1", "_x", "name", "1a", " b", "a b", "", "ä", "x-y", "if", "9", "a.b", "q\"", "日本"}

// a value of any shape (depth-bounded), with exact static types
func genVal(rng *rand.Rand, depth int) cVal {
	if depth <= 0 || rng.Intn(3) > 0 {
		return genBasic(rng)
	}
	switch rng.Intn(4) {
	case 0: // homogeneous array
		t := c13pick(rng, []*cTy{tyNum, tyStr, tyBool})
		n := rng.Intn(4)
		l := make([]cVal, n)
		for i := range l {
			l[i] = genOfType(rng, t, depth-1)
		}
		return vArr(t, l...)
	case 1: // []any
		n := rng.Intn(4)
		l := make([]cVal, n)
		for i := range l {
			l[i] = vAny(genBasic(rng))
		}
		return vArr(tyAny, l...)
	case 2: // map
		t := c13pick(rng, []*cTy{tyNum, tyStr, tyBool})
		n := rng.Intn(4)
		perm := rng.Perm(len(c13Keys))[:n]
		keys := make([]string, n)
		l := make([]cVal, n)
		for i, p := range perm {
			keys[i] = c13Keys[p]
			l[i] = genOfType(rng, t, depth-1)
		}
		return vMap(t, keys, l)
	}
	// nested array
	n := 1 + rng.Intn(2)
	l := make([]cVal, n)
	for i := range l {
		k := rng.Intn(3)
		el := make([]cVal, k)
		for j := range el {
			el[j] = vNum(float64(rng.Intn(5)))
		}
		l[i] = vArr(tyNum, el...)
	}
	return vArr(tyArr(tyNum), l...)
}

func genOfType(rng *rand.Rand, t *cTy, depth int) cVal {
	switch t.K {
	case "num":
		return vNum(genNum(rng))
	case "string":
		return vStr(genStr(rng))
	case "bool":
		return vBool(rng.Intn(2) == 0)
	case "any":
		return vAny(genBasic(rng))
	}
	return vNum(0)
}

var c13Formats = []string{"%v", "%s", "%q", "%t", "%f", "%e", "%d", "%%", "%5v", "%-5v|", "%05v", "%.1f", "%7.2f", "%-7.2f|", "%07.2f", "%+v", "%+.1e", "% v", "%.2s", "%5.1q", "%-6q|", "%+q", "%#v", "%x", "%g", "%G", "%E", "%c", "%z", "%!", "%", "%5", "%.", "%5.", "%.3", "%1000000000v", "%5.1000000000f", "%5%", "%-05v", "%0-5v|", "%日", "%T", "%[1]v", "%*v", "%.*v", "%#q"}

func genFormat(rng *rand.Rand) string {
	n := 1 + rng.Intn(3)
	parts := []string{}
	for i := 0; i < n; i++ {
		if rng.Intn(3) == 0 {
			parts = append(parts, c13pick(rng, []string{"x=", " ", "é:", "100", "\n", ""}))
		}
		parts = append(parts, c13pick(rng, c13Formats))
	}
	return strings.Join(parts, "")
}

type c13Sig struct {
	name   string
	params []string // num str bool any arr map anyval; trailing "..." = variadic any
}

var c13Sigs = []c13Sig{
	{"len", []string{"anyval"}}, {"typeof", []string{"anyval"}},
	{"join", []string{"arr", "str"}}, {"split", []string{"str", "str"}},
	{"upper", []string{"str"}}, {"lower", []string{"str"}},
	{"index", []string{"str", "str"}}, {"startswith", []string{"str", "str"}}, {"endswith", []string{"str", "str"}},
	{"trim", []string{"str", "str"}}, {"replace", []string{"str", "str", "str"}},
	{"sprint", []string{"..."}}, {"repr", []string{"..."}}, {"print", []string{"..."}},
	{"sprintf", []string{"fmt"}}, {"printf", []string{"fmt"}},
	{"str2num", []string{"str"}}, {"str2bool", []string{"str"}},
	{"has", []string{"map", "str"}},
	{"rand", []string{"num"}}, {"rand1", nil},
	{"min", []string{"num", "num"}}, {"max", []string{"num", "num"}}, {"abs", []string{"num"}},
	{"floor", []string{"num"}}, {"ceil", []string{"num"}}, {"round", []string{"num"}},
	{"pow", []string{"num", "num"}}, {"log", []string{"num"}}, {"sqrt", []string{"num"}},
	{"sin", []string{"num"}}, {"cos", []string{"num"}}, {"atan2", []string{"num", "num"}},
	{"sleep", []string{"num"}}, {"cls", nil}, {"read", nil},
	{"hsl", []string{"hslargs"}}, {"hsl", []string{"hslargs"}}, {"clear", []string{"clearargs"}}, {"del", []string{"map", "delkey"}},
}

// hsl: boundaries of the documented ranges (hue 0..360, the others 0..100),
// values whose %v text is in exponent form, and values outside every range
var c13HslNums = []float64{math.Copysign(0, -1), 0, 360, 360.0000001, 359.99999999999994, 100, 100.00000000000001, 100.5, 50, 120, 99, 0.5, 33.333333333333336,
	0.00001, 1e-7, 5e-324, -1, -0.0000001, 361, 101, 1e21, 123456789, math.Inf(1), math.Inf(-1), math.NaN()}

func genArgs(rng *rand.Rand, sig c13Sig) []cVal {
	args := []cVal{}
	for _, p := range sig.params {
		switch p {
		case "num":
			args = append(args, vNum(genNum(rng)))
		case "str":
			args = append(args, vStr(genStr(rng)))
		case "bool":
			args = append(args, vBool(rng.Intn(2) == 0))
		case "anyval":
			args = append(args, genVal(rng, 2))
		case "arr":
			v := genVal(rng, 2)
			for v.K != "arr" {
				v = genVal(rng, 2)
			}
			args = append(args, v)
		case "map":
			v := genVal(rng, 2)
			for v.K != "map" {
				v = genVal(rng, 2)
			}
			args = append(args, v)
		case "...":
			n := rng.Intn(4)
			for i := 0; i < n; i++ {
				args = append(args, genVal(rng, 2))
			}
		case "hslargs":
			n := c13pick(rng, []int{0, 1, 1, 2, 2, 3, 3, 4, 4, 4, 5})
			for i := 0; i < n; i++ {
				switch rng.Intn(5) {
				case 0:
					args = append(args, vNum(c13pick(rng, c13HslNums)))
				case 1:
					args = append(args, vNum(genNum(rng)))
				default: // mostly valid, so that later arguments are reached
					args = append(args, vNum(c13pick(rng, []float64{0, 50, 100, 0.5, 99.9, 33.333333333333336, 1e-7, math.Copysign(0, -1)})))
				}
			}
		case "clearargs":
			n := c13pick(rng, []int{0, 1, 1, 2, 3})
			for i := 0; i < n; i++ {
				args = append(args, vStr(c13pick(rng, []string{"red", "", "hsl(0deg 100% 50% / 100%)", "not a colour", "ä"})))
			}
		case "delkey":
			m := args[len(args)-1]
			if len(m.Keys) > 0 && rng.Intn(4) > 0 {
				args = append(args, vStr(c13pick(rng, m.Keys)))
			} else {
				args = append(args, vStr(c13pick(rng, c13Keys)))
			}
		case "fmt":
			switch rng.Intn(12) {
			case 0: // no format at all / wrong type: documented signature is checked at run time
				if rng.Intn(2) == 0 {
					args = append(args, vNum(1))
				}
			default:
				args = append(args, vStr(genFormat(rng)))
				n := rng.Intn(4)
				for i := 0; i < n; i++ {
					if rng.Intn(6) == 0 {
						args = append(args, vArr(tyStr, vStr("x"), vStr("y")))
					} else {
						args = append(args, genBasic(rng))
					}
				}
			}
		}
	}
	return args
}

// within sleep's domain the platform is asked to sleep: keep it tiny in the
// harness (RunEvy's platform only records it)
func genCall(rng *rand.Rand) cCall {
	sig := c13pick(rng, c13Sigs)
	return cCall{Name: sig.name, Args: genArgs(rng, sig)}
}

// messages for failing tests: plain text with '%' in every position a format
// string would give it a meaning (3 arguments: verbatim; 4 or more: format)
var c13PctMsgs = []string{"score below 100% of target", "100%", "%", "%%", "%v", "%d", "a %v b %d", "50%% done", "%5", "trailing %", "é %s", "%!", "%q and %v", "no percent", "%.2f%%", "% v"}

// a test that certainly fails, with a 3- or 4-or-more-argument message
func genFailingMsgTest(rng *rand.Rand) cCall {
	want, got := vNum(float64(rng.Intn(5))), vNum(float64(5+rng.Intn(5)))
	switch rng.Intn(4) {
	case 0:
		want, got = vStr("a"), vStr(genStr(rng)+"b")
	case 1:
		want, got = vBool(true), vBool(false)
	}
	args := []cVal{want, got, vStr(c13pick(rng, c13PctMsgs))}
	if rng.Intn(2) == 0 {
		n := 1 + rng.Intn(2)
		for i := 0; i < n; i++ {
			args = append(args, genBasic(rng))
		}
	}
	return cCall{Name: "test", Args: args}
}

// test calls: pass / fail / bad arguments, with and without messages
func genTestCall(rng *rand.Rand) cCall {
	if rng.Intn(6) == 0 {
		call, _ := genNearSameTest(rng)
		return call
	}
	if rng.Intn(4) == 0 {
		return genFailingMsgTest(rng)
	}
	switch rng.Intn(10) {
	case 0:
		return cCall{Name: "test", Args: []cVal{vBool(true)}}
	case 1:
		return cCall{Name: "test", Args: []cVal{vBool(false)}}
	case 2:
		return cCall{Name: "test", Args: []cVal{vNum(1)}} // bad arguments
	case 3:
		return cCall{Name: "test", Args: []cVal{vNum(1), vNum(2), vNum(3)}} // bad third argument
	case 4:
		return cCall{Name: "test"}
	case 5:
		a := genVal(rng, 2)
		return cCall{Name: "test", Args: []cVal{a, a}}
	case 6:
		a := genVal(rng, 2)
		return cCall{Name: "test", Args: []cVal{a, vAny(a)}}
	case 7:
		return cCall{Name: "test", Args: []cVal{genBasic(rng), genBasic(rng), vStr(c13pick(rng, []string{"msg", "", "é %v"}))}}
	case 8:
		return cCall{Name: "test", Args: []cVal{genBasic(rng), genBasic(rng), vStr(c13pick(rng, []string{"got %v", "%v and %q", "%d"})), genBasic(rng)}}
	}
	return cCall{Name: "test", Args: []cVal{genVal(rng, 2), genVal(rng, 2)}}
}

func genStopCall(rng *rand.Rand) cCall {
	switch rng.Intn(3) {
	case 0:
		return cCall{Name: "exit", Args: []cVal{vNum(c13pick(rng, []float64{0, 1, 2, 255, 256, 257, -1, 0.5, -0.5, 1.9, 1e30, math.NaN(), math.Inf(1), 9223372036854775808, -9223372036854775808, 4294967296 + 7}))}}
	case 1:
		return cCall{Name: "panic", Args: []cVal{vStr(genStr(rng))}}
	}
	return cCall{Name: "test", Args: []cVal{vBool(false)}}
}

func genC13Case(rng *rand.Rand) *c13Case {
	c := &c13Case{Origin: "random"}
	switch rng.Intn(10) {
	case 0, 1, 2, 3, 4: // one or two calls of any built-in
		n := 1 + rng.Intn(2)
		for i := 0; i < n; i++ {
			c.Calls = append(c.Calls, genCall(rng))
		}
	case 5, 6: // err/errmsg protocol: a history of conversions interleaved with other calls
		n := 2 + rng.Intn(5)
		for i := 0; i < n; i++ {
			switch rng.Intn(4) {
			case 0:
				c.Calls = append(c.Calls, cCall{Name: "str2num", Args: []cVal{vStr(c13pick(rng, []string{"1", "x", "", "1e999", "2.5", "-0", "NaN", " 1", "0x10", "٣"}))}})
			case 1:
				c.Calls = append(c.Calls, cCall{Name: "str2bool", Args: []cVal{vStr(c13pick(rng, []string{"true", "false", "t", "F", "yes", "", "TRUE", "tRUE", "1", "0", "2"}))}})
			case 2:
				c.Calls = append(c.Calls, cCall{Name: "str2num", Args: []cVal{vStr(genStr(rng))}})
			default:
				c.Calls = append(c.Calls, genCall(rng))
			}
		}
	case 7, 8: // test bookkeeping: a history of test outcomes, maybe ended by exit/panic
		c.FailFast = rng.Intn(3) == 0
		c.NoSummary = rng.Intn(4) == 0
		n := rng.Intn(6)
		for i := 0; i < n; i++ {
			c.Calls = append(c.Calls, genTestCall(rng))
		}
		if rng.Intn(3) == 0 {
			c.Calls = append(c.Calls, genStopCall(rng))
		}
	default: // read / program control
		c.Inputs = []string{genStr(rng)}
		if rng.Intn(2) == 0 {
			c.Inputs = nil
		}
		c.Calls = append(c.Calls, cCall{Name: "read"}, genCall(rng), genStopCall(rng), cCall{Name: "print", Args: []cVal{vStr("unreachable")}})
	}
	// inputs must be single lines
	for i, s := range c.Inputs {
		c.Inputs[i] = strings.NewReplacer("\n", " ", "\r", " ").Replace(s)
	}
	return c
}

// malformed stream: calls that the signature table must reject
func genIllTyped(rng *rand.Rand) *c13Case {
	c := &c13Case{Origin: "ill-typed"}
	switch rng.Intn(6) {
	case 0:
		c.Calls = []cCall{{Name: "upper", Args: []cVal{vNum(1)}}}
	case 1:
		c.Calls = []cCall{{Name: "min", Args: []cVal{vNum(1)}}}
	case 2:
		c.Calls = []cCall{{Name: "join", Args: []cVal{vStr("a"), vStr(",")}}}
	case 3:
		c.Calls = []cCall{{Name: "split", Args: []cVal{vStr("a"), vStr(","), vStr("x")}}}
	case 4:
		c.Calls = []cCall{{Name: "has", Args: []cVal{vArr(tyNum), vStr("a")}}}
	default:
		c.Calls = []cCall{{Name: "abs", Args: []cVal{vBool(true)}}}
	}
	return c
}

// ---------- corpus: the witnesses of the _refuted lemmas (the two open findings and the
// regression witnesses of the five repaired defects) and other fixed cases ----------

func c13Corpus() []*c13Case {
	mk := func(origin string, calls ...cCall) *c13Case { return &c13Case{Origin: origin, Calls: calls} }
	call := func(name string, args ...cVal) cCall { return cCall{Name: name, Args: args} }
	return []*c13Case{
		mk("C13_rand_nan_before_fix_refuted (regression, 30a294b)", call("rand", vNum(math.NaN()))),
		mk("C13_repr_keys_before_fix_refuted (regression, 09cb4c8)", call("repr", vMap(tyNum, []string{"1a", " b", "ok_1", "", "a b"}, []cVal{vNum(1), vNum(2), vNum(3), vNum(4), vNum(5)}))),
		mk("C13_index_bytes_before_fix_refuted (regression, 79c1bbb)", call("index", vStr("äb"), vStr("b"))),
		mk("C13_printf_mismatch_refuted", call("sprintf", vStr("%s"), vNum(1))),
		mk("C13_str2bool_doc_literals_before_fix_refuted (regression, 3dac639)", call("str2bool", vStr("t"))),
		mk("C13_str2num_before_fix_refuted (regression, e40074a)", call("str2num", vStr("1e999"))),
		mk("split-empty", call("split", vStr(""), vStr("")), call("split", vStr(""), vStr(",")), call("split", vStr("äbc"), vStr(""))),
		mk("err-reset", call("str2num", vStr("x")), call("str2bool", vStr("true")), call("str2bool", vStr("no")), call("len", vStr("abc")), call("str2num", vStr("1"))),
		mk("rand-bounds", call("rand", vNum(1)), call("rand", vNum(2147483647)), call("rand", vNum(1.5))),
		mk("rand-low", call("rand", vNum(0.999))), mk("rand-high", call("rand", vNum(2147483648))), mk("rand-neg", call("rand", vNum(-1))), mk("rand-inf", call("rand", vNum(math.Inf(1)))),
		mk("printf-noformat", call("printf")), mk("printf-numformat", call("printf", vNum(1))), mk("sprintf-noformat", call("sprintf")),
		mk("len-badarg", call("len", vNum(1))), mk("len-any", call("len", vAny(vStr("äb")))),
		mk("C13_hsl_nan_before_fix_refuted (regression, 1433667)", call("hsl", vNum(math.NaN()))),
		mk("hsl-doc", call("hsl", vNum(120)), call("hsl", vNum(0), vNum(100), vNum(50), vNum(100)), call("hsl", vNum(360), vNum(0.5), vNum(1e-7))),
		mk("hsl-noargs", call("hsl")), mk("hsl-5args", call("hsl", vNum(1), vNum(1), vNum(1), vNum(1), vNum(1))),
		mk("clear-0-1", call("clear"), call("clear", vStr("red"))), mk("clear-2args", call("clear", vStr("red"), vStr("blue"))),
		mk("del-order", call("del", vMap(tyNum, []string{"a", "b", "c"}, []cVal{vNum(1), vNum(2), vNum(3)}), vStr("b")), call("del", vMap(tyNum, []string{"a"}, []cVal{vNum(1)}), vStr("zz"))),
		mk("test-badargs-counted", call("test", vNum(1), vNum(2), vNum(3))),
		mk("test-message-3args-verbatim", call("test", vNum(100), vNum(90), vStr("score below 100% of target")), call("test", vNum(1), vNum(2), vStr("%v %d %%")), call("test", vNum(1), vNum(2), vStr("trailing %"))),
		mk("test-message-4args-format", call("test", vNum(1), vNum(2), vStr("val is %v"), vNum(2)), call("test", vNum(1), vNum(2), vStr("%d%% %v"), vNum(2), vStr("x")), call("test", vStr("a"), vStr("b"), vStr("50%% of %q"), vStr("b"))),
		mk("test-message-none", call("test", vNum(1), vNum(2)), call("test", vBool(false))),
		{Origin: "test-message-failfast", FailFast: true, Calls: []cCall{call("test", vBool(true)), call("test", vNum(100), vNum(90), vStr("100%")), call("test", vBool(false))}},
		mk("exit-0-after-fail", call("test", vBool(false)), call("exit", vNum(0))),
	}
}

// ---------- replay ----------

func c13Replay(path string, model *Model, r *Result) bool {
	b, err := os.ReadFile(path)
	if err != nil {
		return false
	}
	var v struct {
		Input map[string]any `json:"input"`
	}
	if json.Unmarshal(b, &v) != nil || v.Input == nil {
		return false
	}
	prog, _ := v.Input["program"].(string)
	if prog == "" {
		return false
	}
	// a replay carries the rendered program; re-run it on the implementation and
	// report what it does (the case S-expression is re-sent to the model as is)
	ff, _ := v.Input["failfast"].(bool)
	ns, _ := v.Input["nosummary"].(bool)
	out := RunEvy(prog, RunOpts{FailFast: ff, NoSummary: ns, YieldBudget: 200000})
	r.Count(prog, true)
	r.Note("replay: class=%s err=%s prints=%q", out.Class, out.ErrText+out.ParseErr+out.GoPanic, out.Prints)
	if cs, _ := v.Input["case"].(string); cs != "" {
		if ans, err := model.Ask(cs); err == nil {
			r.Note("replay: model=%s", fillMarkers(ans))
		}
	}
	if out.Class == "gopanic" {
		r.Violate(Violation{Kind: "property", Key: "replay-host-panic", Detail: out.GoPanic, Input: v.Input})
	}
	return true
}

// c13DelInLoop: a map with 3-5 keys is ranged over; the body deletes keys (the current one, earlier ones, later ones, a
// missing one; directly or through an alias), inserts, and observes with has / len / print / index of a surviving key.
func c13DelInLoop(rng *rand.Rand) string {
	var b strings.Builder
	keys := []string{"a", "b", "c", "d", "e"}[:3+rng.Intn(3)]
	b.WriteString("m := {")
	for i, k := range keys {
		fmt.Fprintf(&b, "%s%s:%d", map[bool]string{true: "", false: " "}[i == 0], k, i+1)
	}
	b.WriteString("}\nal := m\nseen := \"\"\nfor k := range m\n    seen = seen + k\n")
	for j := 0; j < 1+rng.Intn(3); j++ {
		tgt := []string{"m", "al"}[rng.Intn(2)]
		switch rng.Intn(6) {
		case 0:
			fmt.Fprintf(&b, "    del %s k\n", tgt)
		case 1, 2:
			fmt.Fprintf(&b, "    del %s %q\n", tgt, keys[rng.Intn(len(keys))])
		case 3:
			fmt.Fprintf(&b, "    if k == %q\n        del %s %q\n        del %s %q\n    end\n", keys[0], tgt, keys[len(keys)-1], tgt, keys[1])
		case 4:
			fmt.Fprintf(&b, "    %s.z%d = 9\n", tgt, rng.Intn(3))
		default:
			fmt.Fprintf(&b, "    del %s \"nokey\"\n", tgt)
		}
	}
	b.WriteString("    print \"k\" k (has m k) (len m) m\n    if (has m k)\n        print \"v\" m[k]\n    end\nend\nprint seen m al (len m)\n")
	b.WriteString("print (join (split \",a,,b\" \",\") \",\") (sprint m)\n")
	return b.String()
}

func runC13(cfg Config, r *Result) {
	model, err := StartModel("builtins")
	if err != nil {
		r.Violate(Violation{Kind: "correspondence", Key: "model-start", Detail: err.Error()})
		return
	}
	defer model.Close()
	r.Rule = "a case = a sequence of 1-8 built-in calls (every non-graphics built-in incl. del, plus hsl and clear's argument checks; argument values drawn from boundary classes: empty, non-ASCII (2/3/4-byte), identifier-like and non-identifier map keys, negative, fractional, halves, 2^31, 2^53, 2^63, huge, subnormal, ±Inf, NaN, ±0; formats over every verb/flag/width/precision form incl. malformed ones; histories of conversions for err/errmsg; histories of test outcomes with fail-fast/no-summary, ended by exit/panic; whole programs that themselves assign err / errmsg (either, both, in both orders, read-modify-write) interleaved with str2num / str2bool in every statement form (declaration, assignment, print argument, condition, user-function argument, two conversions in one expression, behind `err and` / `err or`, assigned to err / errmsg themselves) and with reads, at top level, in blocks and loops, in procedures, in the documented checked-conversion convention, in event handlers converting the payload - compared with the evaluator model and with the documented protocol executed by the generator; `test want got` on nearly equal composite values: one entry added / removed / renamed / changed / permuted in a map at any nesting depth (maps of maps, arrays of maps, maps of arrays, inside any), an element appended / dropped, in both argument orders, with the number of failed tests also decided by the statement's own sameness) rendered as a real evy program and run on the real evaluator and on the extracted model; compared: structural dump of every result (numbers by bit pattern), err/errmsg after every call, platform effects, class of Eval's result, test totals, the text of the failed-test errors (positions stripped; failing 3- and >=4-argument tests with '%' in the message in every position); plus every documented example of docs/builtins.md and docs/spec.md (exact output) and exit status/stdout/stderr (incl. the failed-test messages) of the real `evy run` binary; non-trivial = at least one call with arguments; distinct = distinct (flags, inputs, calls with argument values)"
	if cfg.Replay != "" {
		if c13Replay(cfg.Replay, model, r) {
			return
		}
	}
	for _, c := range c13Corpus() {
		c13Check(c, model, r)
	}
	// sameness of composite values in `test`: nearly equal maps / arrays at every depth, both argument orders
	c13NearSame(cfg, model, r)
	// built-ins in interaction with the statement they are documented with: `del` "is safe while iterating with a
	// for ... range loop" (current, earlier and LATER keys, through aliases, with has / len / print in the body), join of
	// split, sprint of a map being ranged - decided by the evaluator model (coq/Sem.v, which calls Builtins.v)
	if sem := startSem(r); sem != nil {
		for i := 0; i < cfg.N(120, 2500); i++ {
			semCase(sem, r, c13DelInLoop(cfg.Rng), SemOpts{StopAt: -1, YieldBudget: 50000}, true, "del-in-loop:")
		}
		// err / errmsg written by the program itself (top level, blocks, procedures, the documented "checked conversion"
		// convention, event handlers) interleaved with conversions in every statement form and with reads
		c13ErrHistories(cfg.N(160, 4000), cfg.Rng, sem, r)
		sem.Close()
	}
	// exhaustive small sweeps: every string function on all pairs of a small
	// alphabet of strings; every numeric function on every boundary number
	sweepStrs := []string{"", "a", "ab", "aa", "aaa", "aba", "b", "äb", "bä", "日a日", "a,b", ","}
	if cfg.Tier == "thorough" {
		sweepStrs = append(sweepStrs, "abab", "😀", "a😀a", ",,", "a,,b,", " a ")
	}
	for _, fn := range []string{"index", "startswith", "endswith", "trim", "split"} {
		for _, a := range sweepStrs {
			for _, b := range sweepStrs {
				c13Check(&c13Case{Origin: "sweep", Calls: []cCall{{Name: fn, Args: []cVal{vStr(a), vStr(b)}}}}, model, r)
			}
		}
	}
	for _, a := range sweepStrs {
		for _, b := range sweepStrs[:8] {
			for _, n := range []string{"", "X", "ab"} {
				c13Check(&c13Case{Origin: "sweep", Calls: []cCall{{Name: "replace", Args: []cVal{vStr(a), vStr(b), vStr(n)}}}}, model, r)
			}
		}
	}
	for _, fn := range []string{"abs", "floor", "ceil", "round", "sqrt", "log", "sin", "cos", "rand", "sleep"} {
		for _, x := range c13Nums {
			c13Check(&c13Case{Origin: "sweep", Calls: []cCall{{Name: fn, Args: []cVal{vNum(x)}}}}, model, r)
		}
	}
	for _, fn := range []string{"min", "max", "pow", "atan2"} {
		for _, x := range c13Nums {
			for _, y := range c13Nums {
				if cfg.Tier != "thorough" && cfg.Rng.Intn(8) != 0 {
					continue
				}
				c13Check(&c13Case{Origin: "sweep", Calls: []cCall{{Name: fn, Args: []cVal{vNum(x), vNum(y)}}}}, model, r)
			}
		}
	}
	// hsl: every boundary value at every argument position (the other positions valid)
	for pos := 0; pos < 4; pos++ {
		for count := pos + 1; count <= 4; count++ {
			for _, x := range c13HslNums {
				args := []cVal{vNum(200), vNum(40), vNum(60), vNum(80)}[:count]
				args = append([]cVal(nil), args...)
				args[pos] = vNum(x)
				c13Check(&c13Case{Origin: "sweep-hsl", Calls: []cCall{{Name: "hsl", Args: args}}}, model, r)
			}
		}
	}
	n := cfg.N(1500, 20000)
	for i := 0; i < n; i++ {
		if i%25 == 24 {
			c13Check(genIllTyped(cfg.Rng), model, r)
			continue
		}
		c13Check(genC13Case(cfg.Rng), model, r)
	}
	c13DocExamples(cfg, r)
	c13Binary(cfg, model, r)
}

func init() { register("C13", runC13) }
