package main

// C20, histories: sequences of 2-5 questions of one exercise directory verified
// one after the other IN ONE PROCESS. The questions share the same choice
// program files but ask for different result types (text output vs picture),
// so any process-wide state keyed by less than (program, result type) shows.
// Every verdict is compared with the property oracle (accept iff marked set =
// matching set - a function of the question alone), with the model, and - for a
// sample, and for every disagreement - with the verdict of the same question
// verified alone in a fresh process.

import (
	"encoding/json"
	"fmt"
	"math/rand"
	"os"
	"os/exec"
	"path/filepath"
	"sort"
	"strings"

	"evylang.dev/evy/learn/pkg/learn"
)

type c20Prog struct {
	Word   string
	Radius int
}

type c20HQ struct {
	Name   string
	Kind   int // 0 text block question, 1 evy:text question, 4 evy:source question/evy:text choices; 2 evy:svg question, 3 evy:source question/evy:svg choices
	J      int // program the question is made from
	AType  string
	Answer string
	Marks  []int
	Equal  []bool
	Gen    string   // designed (abstract) output of the question
	Outs   []string // designed (abstract) outputs of the choices
	Want   bool     // oracle
}

func (q c20HQ) svg() bool { return q.Kind == 2 || q.Kind == 3 }

func c20HistQuestion(rng *rand.Rand, progs []c20Prog, name string, kind int) c20HQ {
	q := c20HQ{Name: name, Kind: kind, J: rng.Intn(len(progs))}
	abstract := func(p c20Prog) string {
		if q.svg() {
			return fmt.Sprintf("picture: circle %d", p.Radius)
		}
		return p.Word + "\n"
	}
	q.Gen = abstract(progs[q.J])
	exact := []int{}
	for i, p := range progs {
		q.Outs = append(q.Outs, abstract(p))
		q.Equal = append(q.Equal, abstract(p) == q.Gen)
		if abstract(p) == q.Gen {
			exact = append(exact, i)
		}
	}
	q.Marks = exact
	if rng.Intn(2) == 0 { // wrongly marked: toggle one choice
		t := rng.Intn(len(progs))
		var m []int
		had := false
		for _, x := range exact {
			if x == t {
				had = true
			} else {
				m = append(m, x)
			}
		}
		if !had {
			m = append(m, t)
		}
		if len(m) == 0 {
			m = []int{(t + 1) % len(progs)}
		}
		sort.Ints(m)
		q.Marks = m
	}
	q.Want = sameSet(q.Marks, q.Equal)
	q.AType, q.Answer = "multi", c20Letters(q.Marks, rng)
	if len(q.Marks) == 1 && rng.Intn(2) == 0 {
		q.AType, q.Answer = "single", string(rune('a'+q.Marks[0]))
	}
	return q
}

func (q c20HQ) markdown(progs []c20Prog) string {
	atype := map[string]string{"single": "single-choice", "multi": "multiple-choice"}[q.AType]
	var b strings.Builder
	b.WriteString(c20Frontmatter(atype, q.Answer, ""))
	b.WriteString("## Question\n\n")
	qtitle, ctitle := "", "evy:source"
	switch q.Kind {
	case 0:
		b.WriteString("Which programs print the following?\n\n```\n" + progs[q.J].Word + "\n```\n\n")
	case 1:
		qtitle = "evy:text"
	case 2:
		qtitle = "evy:svg"
	case 3:
		qtitle, ctitle = "evy:source", "evy:svg"
	case 4:
		qtitle, ctitle = "evy:source", "evy:text"
	}
	if qtitle != "" {
		fmt.Fprintf(&b, "Which of these belong to this?\n\n[question](prog/p%d.evy %q)\n\n", q.J, qtitle)
	}
	for i := range progs {
		fmt.Fprintf(&b, "- [answer](prog/p%d.evy %q)\n", i, ctitle)
	}
	return b.String()
}

func c20Perms(n int) [][]int {
	if n == 1 {
		return [][]int{{0}}
	}
	var out [][]int
	for _, p := range c20Perms(n - 1) {
		for pos := 0; pos <= len(p); pos++ {
			q := append(append(append([]int{}, p[:pos]...), n-1), p[pos:]...)
			out = append(out, q)
		}
	}
	return out
}

// c20VerifyFile loads and verifies one question file; the second result is the
// class of a second Verify on the same model object.
func c20VerifyFile(file string) (class, again string) {
	defer func() {
		if v := recover(); v != nil {
			class, again = "panic", "panic"
		}
	}()
	m, err := learn.NewQuestionModel(file)
	if err != nil {
		c := c20VerifyClass(err)
		return c, c
	}
	class = c20VerifyClass(m.Verify())
	return class, c20VerifyClass(m.Verify())
}

// c20VerifyAlone verifies one question file in a fresh process.
func c20VerifyAlone(file string) string {
	exe, err := os.Executable()
	if err != nil {
		return "spawn-error"
	}
	out := file + ".alone.json"
	defer os.Remove(out)
	cmd := exec.Command(exe, "C20-alone", "-replay", file, "-out", out)
	cmd.Env = os.Environ()
	if err := cmd.Run(); err != nil {
		return "spawn-error"
	}
	b, err := os.ReadFile(out)
	if err != nil {
		return "spawn-error"
	}
	var res struct {
		Notes []string `json:"notes"`
	}
	if json.Unmarshal(b, &res) != nil || len(res.Notes) == 0 {
		return "spawn-error"
	}
	return res.Notes[0]
}

func runC20Alone(cfg Config, r *Result) {
	class, _ := c20VerifyFile(cfg.Replay)
	r.Note("%s", class)
}

// c20WriteHistory writes the exercise directory of a history (program files with
// a tag that makes every program text unique to this history and order, so that
// nothing verified earlier in this process has touched them) and returns the
// directory and the files written (relative name -> content).
func c20WriteHistory(base, tag string, progs []c20Prog, qs []c20HQ) (string, map[string]string, error) {
	dir := filepath.Join(base, "hist", tag, "course", "unit", "exercise")
	files := map[string]string{}
	for i, p := range progs {
		files[fmt.Sprintf("prog/p%d.evy", i)] = fmt.Sprintf("print %q\nmove 50 50\ncircle %d\n// %s program %d\n", p.Word, p.Radius, tag, i)
	}
	for _, q := range qs {
		files[q.Name] = q.markdown(progs)
	}
	for name, content := range files {
		f := filepath.Join(dir, name)
		if err := os.MkdirAll(filepath.Dir(f), 0o755); err != nil {
			return "", nil, err
		}
		if err := os.WriteFile(f, []byte(content), 0o644); err != nil {
			return "", nil, err
		}
	}
	return dir, files, nil
}

func c20Histories(e *c20Env) {
	r, rng, cfg := e.r, e.cfg.Rng, e.cfg
	nHist := cfg.N(40, 400)
	maxOrders := cfg.N(6, 30)
	words := []string{"done", "ready", "go"}
	radii := []int{10, 20, 30}
	spawned := 0
	for h := 0; h < nHist; h++ {
		k := 3 + rng.Intn(2)
		progs := make([]c20Prog, k)
		for i := range progs {
			progs[i] = c20Prog{words[rng.Intn(len(words))], radii[rng.Intn(len(radii))]}
		}
		// make sure text equality and picture equality differ somewhere: programs 0 and 1 print
		// the same and draw differently, programs 0 and 2 draw the same and print differently
		progs[1].Word, progs[1].Radius = progs[0].Word, radii[(indexOf(radii, progs[0].Radius)+1)%len(radii)]
		progs[2].Radius, progs[2].Word = progs[0].Radius, words[(indexOfS(words, progs[0].Word)+1)%len(words)]
		m := 2 + rng.Intn(4)
		qs := make([]c20HQ, 0, m)
		kinds := []int{0, 2, 1, 3, 4}
		rng.Shuffle(len(kinds), func(i, j int) { kinds[i], kinds[j] = kinds[j], kinds[i] })
		if !(kinds[0] == 2 || kinds[0] == 3) && !(kinds[1] == 2 || kinds[1] == 3) {
			kinds[1] = 2 + rng.Intn(2) // both result types occur among the first two questions
		}
		if (kinds[0] == 2 || kinds[0] == 3) && (kinds[1] == 2 || kinds[1] == 3) {
			kinds[1] = []int{0, 1, 4}[rng.Intn(3)]
		}
		for i := 0; i < m; i++ {
			qs = append(qs, c20HistQuestion(rng, progs, fmt.Sprintf("q%d.md", i), kinds[i%len(kinds)]))
		}
		orders := c20Perms(m)
		rng.Shuffle(len(orders), func(i, j int) { orders[i], orders[j] = orders[j], orders[i] })
		if len(orders) > maxOrders {
			orders = orders[:maxOrders]
		}
		for oi, order := range orders {
			seq := append([]int{}, order...)
			if rng.Intn(3) == 0 { // the same question verified twice in the history
				seq = append(seq, order[rng.Intn(len(order))])
			}
			tag := fmt.Sprintf("s%d-h%d-o%d", cfg.Seed, h, oi)
			dir, files, err := c20WriteHistory(e.dir, tag, progs, qs)
			if err != nil {
				r.Violate(Violation{Kind: "correspondence", Key: "harness-io", Detail: err.Error()})
				return
			}
			names := make([]string, len(seq))
			expected := map[string]bool{}
			for i, qi := range seq {
				names[i] = qs[qi].Name
				expected[qs[qi].Name] = qs[qi].Want
			}
			input := map[string]any{"kind": "history", "files": files, "order": names, "expected_accept": expected}
			r.Count("hist/"+tag, len(seq) >= 2)
			r.Dist(fmt.Sprintf("history:len%d", len(seq)))
			sample := -1
			if oi == 0 && (cfg.Tier == "thorough" || h%2 == 0) {
				sample = rng.Intn(len(seq))
			}
			for pos, qi := range seq {
				q := qs[qi]
				file := filepath.Join(dir, q.Name)
				class, again := c20VerifyFile(file)
				r.Evaluations++
				kind := "text"
				if q.svg() {
					kind = "picture"
				}
				r.Dist("history-verdict:" + kind + ":" + class)
				in := map[string]any{}
				for k2, v := range input {
					in[k2] = v
				}
				in["failing"], in["position"] = q.Name, pos
				if again != class {
					r.Violate(Violation{Kind: "property", Key: "verify-twice-differs", Detail: fmt.Sprintf("the same question object verified twice: %s then %s", class, again), Input: in, Impl: again})
				}
				// model
				outsx := make([]SX, len(q.Outs))
				for i, o := range q.Outs {
					outsx[i] = Str(o)
				}
				mclass, merr := e.model.Ask(Lst(Sym("verify"), Bool(false), Bool(false), Sym("none"), Bool(false), Sym("absent"), Sym(q.AType), Str(q.Answer),
					Bool(false), LstOf(outsx), Str(q.Gen), Str(""), LstOf(nil)).String())
				r.Validated++
				if merr != nil || (mclass == "ok") != q.Want {
					r.Violate(Violation{Kind: "correspondence", Key: "model-differs-from-oracle", Detail: "history question: the model's verdict is not the oracle's", Input: in, Model: mclass})
				}
				bad := (class == "ok") != q.Want || (class != "ok" && class != "wrong")
				if bad || mclass != class || pos == sample {
					alone := c20VerifyAlone(file)
					spawned++
					in["alone_in_fresh_process"] = alone
					switch {
					case alone != class && alone != "spawn-error":
						r.Violate(Violation{Kind: "property", Key: "verify-verdict-depends-on-history",
							Detail: fmt.Sprintf("%s (%s question, answer %q, marks %v, designed matching choices %v) is %s at position %d of the sequence %v but %s when verified alone in a fresh process; the oracle says accept=%v",
								q.Name, kind, q.Answer, q.Marks, q.Equal, class, pos, names, alone, q.Want),
							Input: in, Impl: class, Model: mclass})
					case bad:
						key := "verify-rejects-exact-marks"
						if class == "ok" {
							key = "verify-accepts-wrong-marks"
						}
						r.Violate(Violation{Kind: "property", Key: key,
							Detail: fmt.Sprintf("%s (%s question over shared program files, answer %q, marks %v, designed matching choices %v): Verify says %s, also alone in a fresh process (%s)", q.Name, kind, q.Answer, q.Marks, q.Equal, class, alone),
							Input:  in, Impl: class, Model: mclass})
					case mclass != class:
						r.Violate(Violation{Kind: "correspondence", Key: "verify-model-differs:" + class + "-vs-" + mclass, Detail: "history question: Verify and the model disagree", Input: in, Impl: class, Model: mclass})
					}
				}
			}
			os.RemoveAll(filepath.Join(e.dir, "hist", tag))
		}
		if h == 0 {
			r.Sample(map[string]any{"history_programs": progs, "questions": len(qs), "orders": len(orders)})
		}
	}
	r.Note("histories: %d exercise directories, fresh-process verifications: %d", nHist, spawned)
}

func indexOf(l []int, x int) int {
	for i, y := range l {
		if y == x {
			return i
		}
	}
	return 0
}

func indexOfS(l []string, x string) int {
	for i, y := range l {
		if y == x {
			return i
		}
	}
	return 0
}

// c20ReplayHistory re-creates the files of a recorded history and verifies the
// questions in the recorded order.
func c20ReplayHistory(r *Result, dir string, input map[string]any) {
	files, _ := input["files"].(map[string]any)
	order, _ := input["order"].([]any)
	expected, _ := input["expected_accept"].(map[string]any)
	base := filepath.Join(dir, "replay-history", "course", "unit", "exercise")
	for name, c := range files {
		f := filepath.Join(base, name)
		os.MkdirAll(filepath.Dir(f), 0o755)
		content, _ := c.(string)
		os.WriteFile(f, []byte(content), 0o644)
	}
	for pos, n := range order {
		name, _ := n.(string)
		class, _ := c20VerifyFile(filepath.Join(base, name))
		want, _ := expected[name].(bool)
		r.Count(fmt.Sprintf("replay-history/%d", pos), true)
		r.Note("replay history: %s at position %d: %s (oracle: accept=%v)", name, pos, class, want)
		if (class == "ok") != want {
			alone := c20VerifyAlone(filepath.Join(base, name))
			key := "verify-verdict-depends-on-history"
			if alone == class {
				key = "verify-accepts-wrong-marks"
				if class != "ok" {
					key = "verify-rejects-exact-marks"
				}
			}
			r.Violate(Violation{Kind: "property", Key: key, Detail: fmt.Sprintf("replayed: %s is %s at position %d, %s alone, oracle accept=%v", name, class, pos, alone, want), Input: input, Impl: class})
		}
	}
}

func init() { register("C20-alone", runC20Alone) }
